(** C04 — the in-place rotation METHODS (Vec.localise, Vec.transform(), Angle.transform(), Vec.rotate): format of the
    generated table (Gen/RotMethods_gen.v: the final value of the receiver as a term over its initial value and the arguments,
    obtained by executing the method bodies symbolically; the body of a `with x.transform() as m:` block is `m @= rot`) and the
    acceptance test.  No reals; decidable. *)
From Coq Require Import List Bool.
Import ListNotations.

Inductive mterm :=
  | MSelf | MRot | MOrigin | MIdent
  | MFromAngle (t : mterm) | MToAngle (t : mterm) | MMatMul (a b : mterm) | MVecRot (v m : mterm) | MVecAdd (a b : mterm).
Inductive rotkind := RMatrix | RAngle | RNone.          (* kind of the rotation argument; None: localise(origin) alone *)
Inductive meth := MLocalise | MVecTransform | MAngTransform | MRotate.
Record mrow := MRow {
  mr_meth : meth; mr_rot : rotkind;
  mr_result_ok : bool;          (* returns None (localise), the receiver (rotate) / yields the matrix once (transform) *)
  mr_self : mterm;              (* final value of the receiver *)
  mr_rot_final : mterm }.       (* final value of the rotation argument *)

Fixpoint mterm_eqb (a b : mterm) : bool :=
  match a, b with
  | MSelf, MSelf | MRot, MRot | MOrigin, MOrigin | MIdent, MIdent => true
  | MFromAngle x, MFromAngle y | MToAngle x, MToAngle y => mterm_eqb x y
  | MMatMul x1 x2, MMatMul y1 y2 | MVecRot x1 x2, MVecRot y1 y2 | MVecAdd x1 x2, MVecAdd y1 y2 => mterm_eqb x1 y1 && mterm_eqb x2 y2
  | _, _ => false
  end.
Definition rot_as_mat (k : rotkind) : mterm := match k with RMatrix => MRot | RAngle => MFromAngle MRot | RNone => MIdent end.
(** The pure form each method is the in-place version of. *)
Definition m_expected (m : meth) (k : rotkind) : mterm :=
  match m with
  | MLocalise => MVecAdd (MVecRot MSelf (rot_as_mat k)) MOrigin            (* v @ angles + origin *)
  | MVecTransform => MVecRot MSelf (MMatMul MIdent (rot_as_mat k))         (* v @ (Matrix() @ rot) *)
  | MAngTransform => MToAngle (MMatMul (MFromAngle MSelf) (rot_as_mat k))  (* a @ rot *)
  | MRotate => MVecRot MSelf (rot_as_mat k)                                (* v @ Angle(p, y, r) *)
  end.
Definition kind_allowed (m : meth) (k : rotkind) : bool :=
  match m, k with
  | MLocalise, _ => true
  | (MVecTransform | MAngTransform), (RMatrix | RAngle) => true
  | MRotate, RAngle => true
  | _, _ => false
  end.
Definition mrow_ok (r : mrow) : bool :=
  kind_allowed (mr_meth r) (mr_rot r) && mr_result_ok r && mterm_eqb (mr_self r) (m_expected (mr_meth r) (mr_rot r))
  && mterm_eqb (mr_rot_final r) MRot.
Definition meth_eqb (a b : meth) : bool :=
  match a, b with MLocalise, MLocalise | MVecTransform, MVecTransform | MAngTransform, MAngTransform | MRotate, MRotate => true
  | _, _ => false end.
Definition rotkind_eqb (a b : rotkind) : bool :=
  match a, b with RMatrix, RMatrix | RAngle, RAngle | RNone, RNone => true | _, _ => false end.
Definition m_covered (t : list mrow) : bool :=
  forallb (fun mk => existsb (fun r => meth_eqb (fst mk) (mr_meth r) && rotkind_eqb (snd mk) (mr_rot r)) t)
    [(MLocalise, RMatrix); (MLocalise, RAngle); (MLocalise, RNone); (MVecTransform, RMatrix); (MVecTransform, RAngle);
     (MAngTransform, RMatrix); (MAngTransform, RAngle); (MRotate, RAngle)].
Definition rows_of_meth (m : meth) (t : list mrow) := filter (fun r => meth_eqb m (mr_meth r)) t.
Definition methods_ok (t : list mrow) : bool := forallb mrow_ok t && m_covered t.
