(** C04 — the whole property in one statement, composed from the parts (round 4).  Hypotheses, all visible: libm's atan2 by
    its specification, and the four decidable acceptance tests of the objects regenerated from math.py on every run (dispatch
    table, Gauss-Jordan program twice, in-place census), which the check discharges in the kernel. *)
From Coq Require Import Reals List Bool.
From SV Require Import Rot.RotBase Gen.RotFormulas_gen Rot.RotAlgebra Rot.RotEuler Rot.RotEulerProofs
  Rot.RotDispatch Rot.RotDispatchProofs Rot.RotMixedProofs Rot.RotInplace Rot.RotMethods Rot.RotMethodsProofs Rot.RotGJ Rot.RotGJProofs Rot.RotGJTotal
  Rot.RotGJTotalProofs Rot.RotState.
Import ListNotations.
Open Scope R_scope.

Definition c04_statement (atan2 : R -> R -> R) (tbl : list triple) (prog : gj_prog) (census : list imeth)
    (methods : list mrow) : Prop :=
  (* every matrix built from an Euler angle is a proper rotation in the Source convention: roll, then pitch, then yaw *)
  (forall p y r, rotation (from_angle p y r) /\
                 from_angle p y r = mat_mul (mat_mul (from_roll r) (from_pitch p)) (from_yaw y)) /\
  (* rotating composes associatively *)
  (forall v a b, vec_rot b (vec_rot a v) = vec_rot (mat_mul a b) v) /\
  (forall a b c, mat_mul (mat_mul a b) c = mat_mul a (mat_mul b c)) /\
  (* x @ Angle is x @ Matrix.from_angle(Angle) *)
  (forall L a, spec atan2 L (VAng a) = spec atan2 L (VMat (from_angle_obj a))) /\
  (* every mix of Vec / Angle / Matrix operands under @, @= and the reflected form: the specification product, fresh results
     and untouched operands - except that @= on a mutable receiver returns the receiver holding the product, and on a frozen
     one a new object; no in-place operator method exists on a frozen class, and every one returns the receiver it stored into *)
  (forall t, In t tbl -> row_meaning atan2 t /\ inplace_meaning atan2 t) /\
  (forall f l r, exists t, In t tbl /\ t_form t = f /\ t_l t = l /\ t_r t = r /\ t_alias t = false) /\
  (forall m, In m census -> im_mutable m = true /\ im_frozen_reach m = false /\
     forall p, In p (im_paths m) -> p = PNotImplemented \/ exists n, p = PSelf (S n)) /\
  (* the in-place rotation methods (localise, transform, rotate) leave the pure operator form in the receiver *)
  (forall r, In r methods -> forall S Rt O rm, rot_mat (mr_rot r) Rt = Some rm -> method_spec atan2 (mr_meth r) S O rm <> None ->
     mdenote atan2 S Rt O (mr_self r) = method_spec atan2 (mr_meth r) S O rm /\ mdenote atan2 S Rt O (mr_rot_final r) = Some Rt) /\
  (* Matrix -> Angle -> Matrix: exact outside the gimbal band, within twice the horizontal length inside *)
  (forall m, rotation m ->
     (horiz m > 1 / 1000 -> from_angle_obj (to_angle atan2 m) = m) /\
     (horiz m <= 1 / 1000 -> mat_close (2 * horiz m) (from_angle_obj (to_angle atan2 m)) m)) /\
  (* inverse() equals transpose() on rotations *)
  (forall m, rotation m -> exists n, gj_inverse Rnum prog (rows_of m) = GOk n /\ mat_of n = transpose m).

Theorem c04_whole_property : forall atan2 tbl prog census methods,
  atan2_spec atan2 -> table_ok tbl = true -> gj_prog_ok prog = true -> gj_total_ok prog = true -> census_ok census = true ->
  methods_ok methods = true ->
  c04_statement atan2 tbl prog census methods.
Proof.
  intros atan2 tbl prog census methods A T P1 P2 C Mo. unfold c04_statement.
  split; [|split; [|split; [|split; [|split; [|split; [|split; [|split; [|split]]]]]]]].
  - intros p y r. split; [split; [apply from_angle_orthonormal | apply from_angle_det_one] | apply from_angle_convention].
  - apply vec_rot_assoc.
  - apply mat_mul_assoc.
  - reflexivity.
  - intros t H. split; [apply (dispatch_sound atan2 tbl T t H) | apply (dispatch_inplace atan2 tbl T t H)].
  - apply (dispatch_complete tbl T).
  - intros m H. destruct (census_ok_sound census C m H) as (H1 & H2 & _ & H4). auto.
  - intros r H. apply (methods_ok_sound atan2 methods Mo r H).
  - intros m H. split; intro Hh; [apply (euler_roundtrip atan2 A m H Hh) | apply (gimbal_error_bound atan2 A m H Hh)].
  - intros m H. apply (gj_inverse_rotation_is_transpose prog P1 P2 m H).
Qed.

(** Round 5: the statement holds of EVERY call, not of the first call of a process.  [run a g] is one public call (entry point and
    arguments [a]) in the process state [g]; if the census of long-lived objects read from math.py is accepted and is a footprint
    of [run] (the trusted step: the census reads the source), then after any history [h] of earlier calls a call returns what it
    returns in the initial state - so whatever [c04_statement] says about the value a constructor / operator computes holds
    for the value it returns after any history. *)
Definition c04_history_statement (sc : state_census) : Prop :=
  forall (V A B : Type) (run : A -> store V -> B * store V), footprint V A B run (sc_reads sc) (sc_writes sc) ->
  forall h a g, fst (run a (after V A B run h g)) = fst (run a g).

Theorem c04_whole_property_histories : forall atan2 tbl prog census methods sc,
  atan2_spec atan2 -> table_ok tbl = true -> gj_prog_ok prog = true -> gj_total_ok prog = true -> census_ok census = true ->
  methods_ok methods = true -> state_ok sc = true ->
  c04_statement atan2 tbl prog census methods /\ c04_history_statement sc.
Proof.
  intros atan2 tbl prog census methods sc A T P1 P2 C Mo St. split.
  - exact (c04_whole_property atan2 tbl prog census methods A T P1 P2 C Mo).
  - intros V A0 B run F. exact (state_ok_history_independent V A0 B run sc St F).
Qed.
