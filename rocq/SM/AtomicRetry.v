(** Refused operations by exception class, and bounded retries of a refused rename / unlink.

    Rounds 1-3 injected one kind of failure: an OSError that no handler names specifically.  A handler such as
    [except PermissionError:] was therefore dead code in the model ([KNever]).  Here:

    * a *run class* [rclass] says what the refused operations of a run raise: an OSError that is no named subclass
      ([RGeneric]), the [c]-th named subclass of OSError ([RSub c]: PermissionError, FileExistsError, ... in the order
      of the translator's table), or something that is no [Exception] at all ([RKbd]: KeyboardInterrupt).
      [spec_stmt r] rewrites the handler classes of a program so that, read with the unchanged interpreter [exec] of
      AtomicExit.v, the exception [XOSErr] of a refused operation is caught exactly by the handlers that catch an
      exception of class [r].  [with_class r o] is the object [o] with its [__exit__] specialised; everything proved
      about objects (protocols, reuse histories) therefore holds for every run class.
    * the statement language has [SFor n body orelse] / [SBreak] / [SContinue] (AtomicExit.v), so a retry loop
      [for _ in range(n): try: rename; break / except PermissionError: sleep] [else: raise] is transliterated like
      any other statement.  Its decision tree is a chain [retry_tree]: rename; if refused, rename again; ...; after the
      last refusal the *exhaustion* subtree.
    * [collapse] merges such chains (a refused rename / unlink changes nothing in the directory, so trying again is a
      stutter step); AtomicRetryProofs.v shows that every run of a protocol is, up to these stutter steps, a run of its
      collapsed protocol, which transfers the theorems of AtomicExitProofs.v to protocols with retries: a protocol with
      retries is good when its collapsed protocol is — i.e. when exhausting the retries takes the failure path.
    * [outcome_ok]: on every path, [__exit__] lets the [with] statement return normally exactly when a rename
      succeeded.  The retry loop without [else: raise] followed by an unconditional "committed" (seeded fault c12_6)
      falsifies it, and the computed runs in AtomicRetryProofs.v show the stray temp file and the swallowed failure for
      every number of attempts. *)
From Coq Require Import List Bool Arith PeanoNat.
From SV Require Import SM.AtomicWriter SM.AtomicExit SM.AtomicReuse.
Import ListNotations.

(** ** Run classes *)
Inductive rclass := RGeneric | RSub (c : nat) | RKbd.

(** [except KeyboardInterrupt] is written [KSub kbd_index] by the translator (no run class [RSub] has that index). *)
Definition kbd_index : nat := 1000.
Definition spec_class (r : rclass) (k : xclass) : xclass :=
  match r, k with
  | RSub c, KSub c' => if Nat.eqb c c' then KFault else k
  | RKbd, KSub c' => if Nat.eqb c' kbd_index then KFault else k
  | RKbd, KOSError => KNoEnt           (* FileNotFoundError ("the temp file is gone") is still an OSError *)
  | RKbd, KExc => KExcNoFault
  | RKbd, KFault => KNever
  | _, _ => k
  end.

Fixpoint spec_stmt (r : rclass) (s : xstmt) : xstmt :=
  match s with
  | SSeq a b => SSeq (spec_stmt r a) (spec_stmt r b)
  | SIf t a b => SIf t (spec_stmt r a) (spec_stmt r b)
  | STry body hs orelse fin => STry (spec_stmt r body) (spec_h r hs) (spec_stmt r orelse) (spec_stmt r fin)
  | SFor n body orelse => SFor n (spec_stmt r body) (spec_stmt r orelse)
  | _ => s
  end
with spec_h (r : rclass) (hs : xhandlers) : xhandlers :=
  match hs with
  | HNil => HNil
  | HCons ks h rest => HCons (map (spec_class r) ks) (spec_stmt r h) (spec_h r rest)
  end.

Definition with_class (r : rclass) (o : wobj) : wobj :=
  {| o_excl := o_excl o; o_prog := spec_stmt r (o_prog o); o_attrs := o_attrs o; o_init := o_init o;
     o_enter := o_enter o; o_const := o_const o |}.
(** The exit protocol of the first use of [o] when refused operations raise class [r]. *)
Definition class_proto (o : wobj) (r : rclass) : xproto := obj_proto (with_class r o).
(** The run classes for a translator table of [n] named subclasses. *)
Definition run_classes (n : nat) : list rclass := RGeneric :: RKbd :: map RSub (seq 0 n).
(** A boolean statement about objects, for every run class. *)
Definition all_classes (n : nat) (o : wobj) (P : wobj -> bool) : bool :=
  forallb (fun r => P (with_class r o)) (run_classes n).

(** ** The entry prologue
    The model enters a use with [mkdir] and the temp-name loop.  [make_tempfile] has statements before that ("already
    open - close and delete the current file").  [entry_inert o p]: in EVERY attribute state in which the object holds
    no open temp file (what [__init__] and every [__exit__] leave: obligations [init_unentered] and
    [exit_always_leaves o 0 VNone]; a failed entry never binds the handle) the prologue [p] performs no file-system
    operation and falls through.  A prologue keyed on a stale attribute (seeded c12_5: [self._temp_name], which nothing
    resets, instead of [self.temp]) unlinks a name that may by now belong to another writer: [entry_inert] is false. *)
Definition inert_k : xenv -> xst -> xtree := fun _ st => match st with StN => XDone false | _ => XDone true end.
Definition entry_inert (o : wobj) (p : xstmt) : bool :=
  forallb (fun a => negb (is_val VNone (env_of (o_attrs o) a false 0)) ||
                    xtree_eqb (exec p None (env_of (o_attrs o) a false) inert_k) (XDone false))
          (states (o_attrs o) (o_init o) (o_const o)).
(** Today's prologue, and the one keyed on the temp name. *)
Definition prologue_fixed : xstmt :=
  SIf (TIsNot (EV 0) (EC VNone)) (SSeq (SCall MClose (EV 0) [] false) (SCall MUnlink (ENameOf (EV 0)) [] false)) SSkip.
Definition prologue_stale_name : xstmt :=
  SIf (TIsNot (EV 1) (EC VNone))
      (SSeq (SIf (TIsNot (EV 0) (EC VNone)) (SCall MClose (EV 0) [] false) SSkip) (SCall MUnlink (EV 1) [] true)) SSkip.

(** ** Retry chains and their collapse *)
(** [S n] attempts: the rename is tried; when it is refused it is tried again, [n] more times; when the last attempt is
    refused too, [fl] (the exhaustion path) follows. *)
Fixpoint retry_tree (n : nat) (ok fl ne : xtree) : xtree :=
  match n with
  | O => XReplace ok fl ne
  | S m => XReplace ok (retry_tree m ok fl ne) ne
  end.

Fixpoint collapse (t : xtree) : xtree :=
  match t with
  | XDone r => XDone r
  | XBad => XBad
  | XClose a b => XClose (collapse a) (collapse b)
  | XReplace ok fl ne =>
      let ok' := collapse ok in let fl' := collapse fl in let ne' := collapse ne in
      match fl' with
      | XReplace ok2 fl2 ne2 =>
          if xtree_eqb ok2 ok' && xtree_eqb ne2 ne' then XReplace ok' fl2 ne' else XReplace ok' fl' ne'
      | _ => XReplace ok' fl' ne'
      end
  | XUnlink ok fl ne =>
      let ok' := collapse ok in let fl' := collapse fl in let ne' := collapse ne in
      match fl' with
      | XUnlink ok2 fl2 ne2 =>
          if xtree_eqb ok2 ok' && xtree_eqb ne2 ne' then XUnlink ok' fl2 ne' else XUnlink ok' fl' ne'
      | _ => XUnlink ok' fl' ne'
      end
  end.
Definition collapse_proto (x : xproto) : xproto :=
  {| x_excl := x_excl x; x_ok := collapse (x_ok x); x_exc := collapse (x_exc x) |}.

(** The hypotheses of the theorems about protocols with retries. *)
Definition retry_safe (x : xproto) : bool := proto_safe (collapse_proto x).
Definition retry_ok (x : xproto) : bool := proto_ok (collapse_proto x).

(** ** The [with] statement returns normally exactly when a rename succeeded *)
Fixpoint outcome_ok (t : xtree) (repl : bool) : bool :=
  match t with
  | XDone b => Bool.eqb b (negb repl)
  | XBad => negb repl
  | XClose a b => outcome_ok a repl && outcome_ok b repl
  | XReplace ok fl ne => outcome_ok ok true && outcome_ok fl repl && outcome_ok ne repl
  | XUnlink a b c => outcome_ok a repl && outcome_ok b repl && outcome_ok c repl
  end.
Definition proto_outcome_ok (x : xproto) : bool := outcome_ok (x_ok x) false && outcome_ok (x_exc x) false.

(** How often in a row the protocol may try a rename (1 = no retry). *)
Fixpoint replace_attempts (t : xtree) : nat :=
  match t with
  | XDone _ | XBad => 0
  | XClose a b => Nat.max (replace_attempts a) (replace_attempts b)
  | XReplace ok fl ne => Nat.max (S (match fl with XReplace _ _ _ => replace_attempts fl | _ => 0 end))
                                 (Nat.max (replace_attempts ok) (Nat.max (replace_attempts fl) (replace_attempts ne)))
  | XUnlink a b c => Nat.max (replace_attempts a) (Nat.max (replace_attempts b) (replace_attempts c))
  end.

(** ** The family with a retried rename *)
(** The protocol of flags [c] whose commit tries the rename [S n] times and continues with [exh] when every attempt
    was refused. *)
Definition retry_proto (c : cfg) (n : nat) (exh : xtree) : xproto :=
  {| x_excl := c_excl c;
     x_ok := XClose (retry_tree n (XDone false) exh (after_fail (c_replace_guard c))) (after_fail (c_close_guard c));
     x_exc := close_tree c true |}.
(** What may follow the last refused attempt, as far as this file classifies it: nothing more (and the [with] statement
    raises or not), or the cleanup unlink (and then it raises or not). *)
Inductive exh_shape : xtree -> Prop :=
| exh_done r : exh_shape (XDone r)
| exh_unlink r : exh_shape (unlink_tree r).

(** What a finished single use must look like (the property, for one writer alone): it returned normally exactly
    when it committed; the destination holds the complete new content after a commit and the previous content
    otherwise; and unless the cleanup unlink itself was refused every temp name is as it was before. *)
Definition good_use (d0 : dir) (s : scen) (st : syst) : Prop :=
  sdt st (File (dest s)) = (if committedt (q1 st) then Some (new s) else d0 (File (dest s))) /\
  (forall r l b, q1 st = TDone r l b -> b = negb (committedt (q1 st))) /\
  (finishedt (q1 st) = true -> (forall i, ~ In (false, (EUnlink i, RFault)) (trt st)) ->
   forall i, sdt st (Tmp i) = d0 (Tmp i)).

(** ** Programs (for examples, refutations and the correspondence with CPython) *)
(** The repaired [__exit__] with the rename inside [for _ in range(n): try: rename; break / except <ks>: pass], then
    [orelse] as the else clause of the loop, then [committed = True]. *)
Definition prog_retry (n : nat) (ks : list xclass) (orelse : xstmt) : xstmt :=
  SSeq (SSeq (SAssign 6 (EV 0)) (SSeq (SAssign 7 (EC VNone)) (SSeq (SAssign 8 (EV 6)) (SAssign 0 (EV 7)))))
  (SSeq (SAssign 9 (EC VFalse))
  (SSeq (STry
     (SSeq (SIf (TIsNot (EV 8) (EC VNone)) (SCall MClose (EV 8) [] false) SSkip)
     (SSeq (SIf (TIs (EV 1) (EC VNone)) (SReturn false) SSkip)
           (SIf (TIs (EV 3) (EC VNone))
                (SSeq (SFor n (STry (SSeq (SCall MReplace (EV 1) [EV 2] false) SBreak) (HCons ks SSkip HNil) SSkip SSkip)
                            orelse)
                      (SAssign 9 (EC VTrue))) SSkip)))
     HNil SSkip
     (SIf (TAnd (TNot (TTruth (EV 9))) (TIsNot (EV 1) (EC VNone)))
          (STry (SCall MUnlink (EV 1) [] false) (HCons [KNoEnt] SSkip HNil) SSkip SSkip) SSkip))
  (SReturn false))).
(** Today's class with that [__exit__]. *)
Definition obj_retry (n : nat) (ks : list xclass) (orelse : xstmt) : wobj :=
  {| o_excl := true; o_prog := prog_retry n ks orelse; o_attrs := [0; 1; 2];
     o_init := [Some VNone; Some VNone; Some VDest]; o_enter := [(0, VTemp); (1, VTName)]; o_const := [2] |}.
(** A retry on PermissionError (subclass 0) that raises when the attempts are used up: good. *)
Definition obj_retry_good : wobj := obj_retry 3 [KSub 0] (SRaise false).
(** The same loop without an else clause: falls out of the loop as if the rename had succeeded (seeded c12_6). *)
Definition obj_retry_swallow : wobj := obj_retry 3 [KSub 0] SSkip.
