(** The exit protocol of [srctools.AtomicWriter] as a *generated object*.

    translate/c12_atomic.py transliterates the body of [AtomicWriter.__exit__] statement by statement into the small
    statement language [xstmt] below (if / try-except-else-finally / assignments of abstract values / the three calls
    that touch the file system / return / raise).  Everything else happens here, inside the kernel:

    * [exit_tree prog exc] interprets the program symbolically (continuation-passing, so that every file-system call
      branches into its possible results) and yields the *decision tree* [xtree] of the protocol: which operation is
      performed next after which results, and whether an exception leaves [__exit__] at the end;
    * the tree machine [wstept]/[run2t] runs a writer whose exit phase walks such a tree (any tree, also the defective
      shapes: the model describes the code that exists);
    * [proto_of_cfg]/[derive_cfg]/[in_family] connect trees with the five-flag [cfg] family of SM/AtomicWriter.v: a
      protocol in the family is *equal* to [proto_of_cfg c], and AtomicExitProofs.v shows that the tree machine on
      [proto_of_cfg c] and the flag machine on [c] are bisimilar, which transfers every theorem;
    * boolean predicates on trees ([closes_first], [no_replace], [cleans], [propagates], ...) are the named instance
      obligations: a reordering of close / replace / unlink, a commit in the wrong branch of a [finally], a swallowed
      exception each falsify one of them by computation on the generated program.

    Executable definitions only; proofs are in AtomicExitProofs.v. *)
From Coq Require Import List Bool Arith PeanoNat.
From SV Require Import SM.AtomicWriter.
Import ListNotations.

(** ** Decision trees of the exit phase *)
Inductive xtree :=
| XDone (raised : bool)                 (* __exit__ is over; [raised]: an exception propagates to the caller *)
| XBad                                  (* the program did something outside the model *)
| XClose (ok fl : xtree)                (* close the temp handle: returned / raised OSError *)
| XReplace (ok fl ne : xtree)           (* rename temp -> destination: done / OSError / FileNotFoundError *)
| XUnlink (ok fl ne : xtree).           (* remove temp: done / OSError / FileNotFoundError *)

Fixpoint xtree_eqb (a b : xtree) : bool :=
  match a, b with
  | XDone r, XDone r' => Bool.eqb r r'
  | XBad, XBad => true
  | XClose o f, XClose o' f' => xtree_eqb o o' && xtree_eqb f f'
  | XReplace o f n, XReplace o' f' n' => xtree_eqb o o' && xtree_eqb f f' && xtree_eqb n n'
  | XUnlink o f n, XUnlink o' f' n' => xtree_eqb o o' && xtree_eqb f f' && xtree_eqb n n'
  | _, _ => false
  end.

(** ** The statement language (mirror of the Python subset that [__exit__] may use) *)
Inductive xval := VNone | VTrue | VFalse | VTemp | VTName | VDest | VExc.
(** [ENameOf e]: the path of the open file [e] ([Path(e.name)], [e.name]); used by the entry prologue of
    [make_tempfile], which removes a temp file it still holds open. *)
Inductive xexpr := EC (v : xval) | EV (x : nat) | ENameOf (e : xexpr).
Inductive xtest :=
| TIs (a b : xexpr) | TIsNot (a b : xexpr) | TTruth (e : xexpr)
| TNot (t : xtest) | TAnd (a b : xtest) | TOr (a b : xtest).
Inductive xmeth := MClose | MReplace | MUnlink.
(** Exception classes a handler may name: everything (bare / BaseException), [Exception], OSError and its aliases,
    FileNotFoundError, a named subclass of OSError other than FileNotFoundError ([KSub c]: PermissionError,
    FileExistsError, ... numbered by the translator), and classes that catch none of the exceptions that can be in
    flight here.  [KFault] / [KExcNoFault] are not written by the translator: they are what SM/AtomicRetry.v
    specialises a handler class to when the refused operations of a run raise one particular class ([KFault]:
    exactly the exception of a refused operation; [KExcNoFault]: [Exception] when a refused operation raises
    something that is no [Exception], e.g. KeyboardInterrupt). *)
Inductive xclass := KAll | KOSError | KNoEnt | KNever | KExc | KSub (c : nat) | KFault | KExcNoFault.
(** Exceptions that can be in flight inside [__exit__]: the exception of a refused operation ([XOSErr]: an OSError
    that is neither FileNotFoundError nor, in the unspecialised program, one of the named subclasses),
    FileNotFoundError (temp file gone), anything else (AttributeError on None, an explicit raise). *)
Inductive xexc := XOSErr | XNoEntErr | XOther.

Inductive xstmt :=
| SSkip
| SSeq (a b : xstmt)
| SAssign (x : nat) (e : xexpr)
| SCall (m : xmeth) (recv : xexpr) (args : list xexpr) (missing_ok : bool)
| SIf (t : xtest) (a b : xstmt)
| STry (body : xstmt) (hs : xhandlers) (orelse fin : xstmt)
| SReturn (truthy : bool)               (* [return <truthy value>] would swallow the body's exception *)
| SRaise (bare : bool)                  (* bare [raise] re-raises the handled exception *)
| SFor (n : nat) (body orelse : xstmt)  (* [for _ in range(n): body else: orelse] (the loop variable is never read) *)
| SBreak
| SContinue
with xhandlers :=
| HNil
| HCons (ks : list xclass) (h : xstmt) (rest : xhandlers).

Definition xenv := nat -> option xval.
Definition xset (env : xenv) (x : nat) (v : xval) : xenv := fun y => if Nat.eqb y x then Some v else env y.
Inductive xst := StN | StRet (truthy : bool) | StExc (e : xexc) | StBrk | StCont.

Fixpoint ev (env : xenv) (e : xexpr) : option xval :=
  match e with
  | EC v => Some v
  | EV x => env x
  | ENameOf e' => match ev env e' with Some VTemp => Some VTName | _ => None end
  end.
(** None / True / False are singletons: identity with them is decided; identity of two other objects is not. *)
Definition singleton (v : xval) : bool := match v with VNone | VTrue | VFalse => true | _ => false end.
Definition xval_eqb (a b : xval) : bool :=
  match a, b with
  | VNone, VNone | VTrue, VTrue | VFalse, VFalse | VTemp, VTemp | VTName, VTName | VDest, VDest | VExc, VExc => true
  | _, _ => false
  end.
Definition identical (a b : xval) : option bool :=
  if singleton a || singleton b then Some (xval_eqb a b) else None.
Definition truthy (v : xval) : bool := match v with VNone | VFalse => false | _ => true end.

Fixpoint evt (env : xenv) (t : xtest) : option bool :=
  match t with
  | TIs a b => match ev env a, ev env b with Some x, Some y => identical x y | _, _ => None end
  | TIsNot a b => match ev env a, ev env b with Some x, Some y => option_map negb (identical x y) | _, _ => None end
  | TTruth e => option_map truthy (ev env e)
  | TNot t => option_map negb (evt env t)
  | TAnd a b => match evt env a with Some true => evt env b | r => r end
  | TOr a b => match evt env a with Some false => evt env b | r => r end
  end.

Definition catches (k : xclass) (e : xexc) : bool :=
  match k, e with
  | KAll, _ => true
  | KExc, _ => true
  | KOSError, (XOSErr | XNoEntErr) => true
  | KNoEnt, XNoEntErr => true
  | KFault, XOSErr => true
  | KExcNoFault, (XNoEntErr | XOther) => true
  | _, _ => false
  end.

(** Symbolic execution in continuation-passing style: a file-system call yields a node whose subtrees are the
    continuation applied to each possible result.  [cur] is the exception being handled (for a bare [raise]). *)
Fixpoint exec (s : xstmt) (cur : option xexc) (env : xenv) (k : xenv -> xst -> xtree) {struct s} : xtree :=
  match s with
  | SSkip => k env StN
  | SSeq a b => exec a cur env (fun env1 st => match st with StN => exec b cur env1 k | _ => k env1 st end)
  | SAssign x e => match ev env e with Some v => k (xset env x v) StN | None => XBad end
  | SCall m r args mo =>
      match m, ev env r, map (ev env) args with
      | _, Some VNone, _ => k env (StExc XOther)                  (* AttributeError: 'NoneType' has no attribute *)
      | MClose, Some VTemp, [] => XClose (k env StN) (k env (StExc XOSErr))
      | MReplace, Some VTName, [Some VDest] =>
          XReplace (k env StN) (k env (StExc XOSErr)) (k env (StExc XNoEntErr))
      | MUnlink, Some VTName, [] =>
          XUnlink (k env StN) (k env (StExc XOSErr)) (k env (if mo then StN else StExc XNoEntErr))
      | _, _, _ => XBad
      end
  | SIf t a b => match evt env t with Some true => exec a cur env k | Some false => exec b cur env k | None => XBad end
  | STry body hs orelse fin =>
      (* while a [finally] runs because of an exception in flight, that exception is the one a bare [raise] re-raises *)
      let incur := fun st => match st with StExc e => Some e | _ => cur end in
      exec body cur env (fun env1 st1 =>
        match st1 with
        | StExc e =>
            exec_h hs e env1 (fun env2 st2 =>
              exec fin (incur st2) env2 (fun env3 st3 => k env3 (match st3 with StN => st2 | _ => st3 end)))
        | StN =>
            exec orelse cur env1 (fun env2 st2 =>
              exec fin (incur st2) env2 (fun env3 st3 => k env3 (match st3 with StN => st2 | _ => st3 end)))
        | _ =>         (* return / break / continue leave the try: the finally clause runs, then they go on *)
            exec fin cur env1 (fun env3 st3 => k env3 (match st3 with StN => st1 | _ => st3 end))
        end)
  | SReturn t => k env (StRet t)
  | SRaise bare => k env (StExc (if bare then match cur with Some e => e | None => XOther end else XOther))
  | SFor n body orelse =>
      (* at most [n] rounds; [break] leaves the loop and skips the else clause, which runs when the rounds are used up *)
      (fix loop (m : nat) (env0 : xenv) {struct m} : xtree :=
         match m with
         | O => exec orelse cur env0 k
         | S m' => exec body cur env0 (fun env1 st =>
                     match st with
                     | StN | StCont => loop m' env1
                     | StBrk => k env1 StN
                     | _ => k env1 st
                     end)
         end) n env
  | SBreak => k env StBrk
  | SContinue => k env StCont
  end
with exec_h (hs : xhandlers) (e : xexc) (env : xenv) (k : xenv -> xst -> xtree) {struct hs} : xtree :=
  match hs with
  | HNil => k env (StExc e)
  | HCons ks h rest => if existsb (fun c => catches c e) ks then exec h (Some e) env k else exec_h rest e env k
  end.

(** Variable slots fixed by the translator: 0 = self.temp, 1 = self._temp_name, 2 = self.filename,
    3, 4, 5 = the parameters exc_type, exc_value, tback; locals from 6 on are unbound until assigned. *)
Definition env0 (exc : bool) : xenv := fun x =>
  match x with
  | 0 => Some VTemp | 1 => Some VTName | 2 => Some VDest
  | 3 | 4 | 5 => Some (if exc then VExc else VNone)
  | _ => None
  end.
(** [__exit__] falls off its end or returns a falsy value: the body's exception (if any) propagates. *)
Definition kfin (exc : bool) : xenv -> xst -> xtree := fun _ st =>
  match st with
  | StN => XDone exc
  | StRet t => XDone (exc && negb t)
  | StExc _ => XDone true
  | StBrk | StCont => XBad              (* a break / continue outside a loop is not Python *)
  end.
Definition exit_tree (prog : xstmt) (exc : bool) : xtree := exec prog None (env0 exc) (kfin exc).

(** [__exit__] without a preceding [__enter__] (self.temp and self._temp_name are still None): nothing may touch the
    file system. *)
Definition env_unentered (exc : bool) : xenv := fun x =>
  match x with
  | 0 | 1 => Some VNone | 2 => Some VDest
  | 3 | 4 | 5 => Some (if exc then VExc else VNone)
  | _ => None
  end.
Definition exit_tree_unentered (prog : xstmt) (exc : bool) : xtree := exec prog None (env_unentered exc) (kfin exc).

(** Walk a tree with an oracle of results (0 = ok, 1 = OSError, 2 = FileNotFoundError; a close never reports 2):
    the calls performed with their results, and how it ends (0 returns, 1 raises, 2 outside the model).  Used to
    compare the interpreter with CPython running the same program against mock objects. *)
Fixpoint walk (t : xtree) (o : list nat) : list (list nat) * nat :=
  let r := hd 0 o in
  match t with
  | XDone b => ([], if b then 1 else 0)
  | XBad => ([], 2)
  | XClose ok fl =>
      let '(l, c) := walk (if Nat.eqb r 1 then fl else ok) (tl o) in ([0; if Nat.eqb r 1 then 1 else 0] :: l, c)
  | XReplace ok fl ne =>
      let '(l, c) := walk (match r with 0 => ok | 1 => fl | _ => ne end) (tl o) in ([1; Nat.min r 2] :: l, c)
  | XUnlink ok fl ne =>
      let '(l, c) := walk (match r with 0 => ok | 1 => fl | _ => ne end) (tl o) in ([2; Nat.min r 2] :: l, c)
  end.

(** ** A protocol: exclusive open + the two exit trees (body returned / body raised) *)
Record xproto := { x_excl : bool; x_ok : xtree; x_exc : xtree }.
Definition proto_of_prog (excl : bool) (prog : xstmt) : xproto :=
  {| x_excl := excl; x_ok := exit_tree prog false; x_exc := exit_tree prog true |}.

(** ** The writer whose exit phase walks a tree *)
Inductive pct :=
| TMkdir
| TOpen (i : nat)
| TBody (i k : nat)
| TTail (i j : nat)
| TExit (i : nat) (t : xtree) (failed gone repl : bool)
    (* next operation = root of [t]; [failed]: the flush inside the pending close already raised;
       [gone]: the last rename/unlink of the temp name succeeded or found nothing; [repl]: a rename succeeded *)
| TDone (r : fin) (left : option nat) (raised : bool).   (* [raised]: the `with` statement ends with an exception *)

Definition settle (i : nat) (t : xtree) (failed gone repl : bool) : pct :=
  match t with
  | XDone b => TDone (if repl then FCommitted else FNot) (if gone then None else Some i) b
  | XBad => TDone (if repl then FCommitted else FNot) (if gone then None else Some i) true
  | _ => TExit i t failed gone repl
  end.
Definition aftert_tail (x : xproto) (s : scen) (i j : nat) : pct :=
  if j <? length (tail s) then TTail i j else settle i (x_ok x) false false false.
Definition aftert_body (x : xproto) (s : scen) (i k : nat) : pct :=
  if raises_here s k then settle i (x_exc x) false false false
  else if k <? length (body s) then TBody i k
  else aftert_tail x s i 0.

Definition wstept (x : xproto) (s : scen) (p : pct) (d : dir) (f : bool) : pct * dir * option event :=
  match p with
  | TMkdir =>
      if f then (TDone FNot None true, d, Some (EMkdir, RFault)) else (TOpen 1, d, Some (EMkdir, ROk))
  | TOpen i =>
      if f then (TDone FNot None true, d, Some (EOpen i, RFault))
      else if x_excl x && is_some (d (Tmp i)) then (TOpen (S i), d, Some (EOpen i, RExist))
      else (aftert_body x s i 0, upd d (Tmp i) (Some []), Some (EOpen i, ROk))
  | TBody i k =>
      let tok := nth k (body s) 0 in
      if f then (settle i (x_exc x) false false false, d, Some (EWrite i tok, RFault))
      else (aftert_body x s i (S k), append d (Tmp i) tok, Some (EWrite i tok, ROk))
  | TTail i j =>
      let tok := nth j (tail s) 0 in
      if f then (settle i (x_ok x) true false false, d, Some (EWrite i tok, RFault))
      else (aftert_tail x s i (S j), append d (Tmp i) tok, Some (EWrite i tok, ROk))
  | TExit i t failed gone repl =>
      match t with
      | XClose ok fl =>
          (settle i (if f || failed then fl else ok) false gone repl, d, Some (EClose i, if f then RFault else ROk))
      | XReplace ok fl ne =>
          if f then (settle i fl failed false repl, d, Some (EReplace i (dest s), RFault))
          else match d (Tmp i) with
               | Some v => (settle i ok failed true true, upd (upd d (File (dest s)) (Some v)) (Tmp i) None,
                            Some (EReplace i (dest s), ROk))
               | None => (settle i ne failed true repl, d, Some (EReplace i (dest s), RNoEnt))
               end
      | XUnlink ok fl ne =>
          if f then (settle i fl failed false repl, d, Some (EUnlink i, RFault))
          else match d (Tmp i) with
               | Some _ => (settle i ok failed true repl, upd d (Tmp i) None, Some (EUnlink i, ROk))
               | None => (settle i ne failed true repl, d, Some (EUnlink i, RNoEnt))
               end
      | _ => (settle i t failed gone repl, d, None)      (* not reachable: [settle] never keeps a leaf in TExit *)
      end
  | TDone r l b => (TDone r l b, d, None)
  end.

Record syst := { sdt : dir; q1 : pct; q2 : pct; trt : list (bool * event) }.

Definition step2t (x : xproto) (s1 s2 : scen) (st : syst) (wf : bool * bool) : syst :=
  let '(who, f) := wf in
  if who
  then let '(p', d', e) := wstept x s2 (q2 st) (sdt st) f in
       {| sdt := d'; q1 := q1 st; q2 := p'; trt := match e with Some e => trt st ++ [(true, e)] | None => trt st end |}
  else let '(p', d', e) := wstept x s1 (q1 st) (sdt st) f in
       {| sdt := d'; q1 := p'; q2 := q2 st; trt := match e with Some e => trt st ++ [(false, e)] | None => trt st end |}.
Definition run2t (x : xproto) (s1 s2 : scen) (sched : list (bool * bool)) (st : syst) : syst :=
  fold_left (step2t x s1 s2) sched st.
Definition startt (d0 : dir) : syst := {| sdt := d0; q1 := TMkdir; q2 := TMkdir; trt := [] |}.
Definition start1t (d0 : dir) : syst := {| sdt := d0; q1 := TMkdir; q2 := TDone FNot None false; trt := [] |}.
Definition alonet (x : xproto) (s : scen) (faults : list bool) (d0 : dir) : syst :=
  run2t x s (other s) (map (fun f => (false, f)) faults) (start1t d0).

Definition committedt (p : pct) : bool := match p with TDone FCommitted _ _ => true | _ => false end.
Definition finishedt (p : pct) : bool := match p with TDone _ _ _ => true | _ => false end.
Definition assoct (p : pct) : option nat :=
  match p with
  | TBody i _ | TTail i _ | TExit i _ _ _ _ => Some i
  | TDone _ (Some i) _ => Some i
  | _ => None
  end.
(** The next operation of the writer is the rename of [tmp_i] onto its destination. *)
Definition about_to_replace (p : pct) (i : nat) : Prop :=
  exists ok fl ne fd g r, p = TExit i (XReplace ok fl ne) fd g r.

(** ** The five-flag family as trees *)
Definition unlink_tree (r : bool) : xtree := XUnlink (XDone r) (XDone true) (XDone r).
Definition after_fail (guard : bool) : xtree := if guard then unlink_tree true else XDone true.
Definition replace_tree (c : cfg) (r : bool) : xtree :=
  XReplace (XDone r) (after_fail (c_replace_guard c)) (after_fail (c_replace_guard c)).
Definition act_tree (c : cfg) (a : action) (r : bool) : xtree :=
  match a with ACommit => replace_tree c r | ADiscard => unlink_tree r | ANothing => XDone r end.
Definition close_tree (c : cfg) (exc : bool) : xtree :=
  XClose (act_tree c (if exc then c_on_exc c else c_on_ok c) exc) (after_fail (c_close_guard c)).
Definition proto_of_cfg (c : cfg) : xproto :=
  {| x_excl := c_excl c; x_ok := close_tree c false; x_exc := close_tree c true |}.

Definition is_unlink (t : xtree) : bool := match t with XUnlink _ _ _ => true | _ => false end.
Definition act_of (t : xtree) : action :=
  match t with XReplace _ _ _ => ACommit | XUnlink _ _ _ => ADiscard | _ => ANothing end.
Definition replace_fl (t : xtree) : option xtree := match t with XReplace _ fl _ => Some fl | _ => None end.
Definition close_ok (t : xtree) : xtree := match t with XClose ok _ => ok | _ => XBad end.
Definition close_fl (t : xtree) : xtree := match t with XClose _ fl => fl | _ => XBad end.
(** The flags one reads off a protocol (meaningful when [in_family] holds). *)
Definition derive_cfg (x : xproto) : cfg :=
  {| c_excl := x_excl x;
     c_close_guard := is_unlink (close_fl (x_ok x));
     c_replace_guard :=
       match replace_fl (close_ok (x_ok x)), replace_fl (close_ok (x_exc x)) with
       | Some fl, _ => is_unlink fl
       | None, Some fl => is_unlink fl
       | None, None => true
       end;
     c_on_ok := act_of (close_ok (x_ok x));
     c_on_exc := act_of (close_ok (x_exc x)) |}.
Definition in_family (x : xproto) : bool :=
  xtree_eqb (x_ok x) (close_tree (derive_cfg x) false) && xtree_eqb (x_exc x) (close_tree (derive_cfg x) true).
Definition proto_safe (x : xproto) : bool := in_family x && cfg_safe (derive_cfg x).
Definition proto_ok (x : xproto) : bool := in_family x && cfg_ok (derive_cfg x).

(** ** Predicates on trees: the named obligations *)
Fixpoint no_bad (t : xtree) : bool :=
  match t with
  | XDone _ => true | XBad => false
  | XClose a b => no_bad a && no_bad b
  | XReplace a b c | XUnlink a b c => no_bad a && no_bad b && no_bad c
  end.
Fixpoint no_replace (t : xtree) : bool :=
  match t with
  | XDone _ | XBad => true
  | XClose a b => no_replace a && no_replace b
  | XReplace _ _ _ => false
  | XUnlink a b c => no_replace a && no_replace b && no_replace c
  end.
Definition closes_first (t : xtree) : bool := match t with XClose _ _ => true | _ => false end.
(** After the first close nothing closes again, and a rename is only ever attempted directly after a close that
    returned (never after a failed close, a failed rename or an unlink). *)
Fixpoint no_close (t : xtree) : bool :=
  match t with
  | XDone _ | XBad => true
  | XClose _ _ => false
  | XReplace a b c | XUnlink a b c => no_close a && no_close b && no_close c
  end.
(** On the success path the closed temp file is renamed, and a successful rename ends the protocol normally. *)
Definition success_commits (t : xtree) : bool :=
  match t with XClose (XReplace (XDone false) _ _) _ => true | _ => false end.
(** Every leaf that is reached without a successful rename comes after an attempt to unlink the temp file
    ([att]), or after a FileNotFoundError told us it is gone. *)
Fixpoint cleans (t : xtree) (att : bool) : bool :=
  match t with
  | XDone _ => att
  | XBad => false
  | XClose a b => cleans a att && cleans b att
  | XReplace _ fl ne => cleans fl att && cleans ne true       (* ok branch: committed, nothing to clean *)
  | XUnlink a b c => cleans a true && cleans b true && cleans c true
  end.
(** Exceptions are never swallowed: with an exception pending ([pend]: the body raised, or an operation failed with
    an OSError) every leaf reports [raised]; a FileNotFoundError from the cleanup unlink may be swallowed. *)
Fixpoint propagates (t : xtree) (pend : bool) : bool :=
  match t with
  | XDone r => implb pend r
  | XBad => false
  | XClose a b => propagates a pend && propagates b true
  | XReplace a b c => propagates a pend && propagates b true && propagates c true
  | XUnlink a b c => propagates a pend && propagates b true && propagates c pend
  end.
(** The all-ok path ends without an exception (a successful save does not raise). *)
Fixpoint ok_path_returns (t : xtree) : bool :=
  match t with
  | XDone r => negb r
  | XBad => false
  | XClose a _ | XReplace a _ _ | XUnlink a _ _ => ok_path_returns a
  end.

Definition proto_preds (x : xproto) : list bool :=
  [ no_bad (x_ok x) && no_bad (x_exc x);
    closes_first (x_ok x) && closes_first (x_exc x);
    no_close (close_ok (x_ok x)) && no_close (close_fl (x_ok x)) &&
      no_close (close_ok (x_exc x)) && no_close (close_fl (x_exc x));
    no_replace (close_fl (x_ok x)) && no_replace (close_fl (x_exc x));
    no_replace (x_exc x);
    success_commits (x_ok x);
    cleans (x_ok x) false && cleans (x_exc x) false;
    propagates (x_ok x) false && propagates (x_exc x) true;
    ok_path_returns (x_ok x) ].

(** ** BSP.save = rebuild phase (no file-system operation; may raise) followed by one writer *)
Definition save_alone (x : xproto) (pre_ok : bool) (s : scen) (faults : list bool) (d0 : dir) : syst :=
  if pre_ok then alonet x s faults d0 else start1t d0.

(** ** Executable helpers for the correspondence runs (tree machine) *)
Fixpoint run1t (x : xproto) (s : scen) (fuel : nat) (k : nat) (faults : list nat) (p : pct) (d : dir)
  : pct * dir * list event :=
  match fuel with
  | O => (p, d, [])
  | S fu =>
      match p with
      | TDone _ _ _ => (p, d, [])
      | _ =>
          let f := existsb (Nat.eqb k) faults in
          let '(p', d', e) := wstept x s p d f in
          let '(pf, df, es) := run1t x s fu (S k) faults p' d' in
          (pf, df, match e with Some e => e :: es | None => es end)
      end
  end.
Definition enc_pct (p : pct) : list nat :=
  match p with
  | TDone r l b => [match r with FCommitted => 1 | FNot => 2 end; match l with None => 0 | Some i => S i end;
                    if b then 1 else 0]
  | _ => [0; 0; 0]
  end.
(** [pre_ok = false]: the rebuild phase of BSP.save raised, the writer is never entered. *)
Definition corr_case_t (x : xproto) (pre_ok : bool) (init : list (name * content)) (s : scen) (cut : nat)
  (faults : list nat) (ns : list name) : list nat * list (list nat) * list (list nat) :=
  let '(p, d, es) := run1t x s (if pre_ok then cut else 0) 0 faults TMkdir (dir_of init) in
  (enc_pct p, map enc_event es, map enc_opt (probe d ns)).
Definition corr_case2_t (x : xproto) (init : list (name * content)) (s1 s2 : scen) (sched : list (bool * bool))
  (ns : list name) : list nat * list nat * list (list nat) * list (list nat) :=
  let st := run2t x s1 s2 sched (startt (dir_of init)) in
  (enc_pct (q1 st), enc_pct (q2 st),
   map (fun we : bool * event => (if fst we then 1 else 0) :: enc_event (snd we)) (trt st),
   map enc_opt (probe (sdt st) ns)).

(** The repaired [__exit__] written in the statement language (what the translator produces for the repaired tree),
    and the pinned one (commit/cleanup not in a [finally]); used for examples and refutations. *)
Definition prog_fixed : xstmt :=
  (* slots: 6, 7 = temporaries of the tuple assignment, 8 = temp, 9 = committed *)
  SSeq (SSeq (SAssign 6 (EV 0)) (SSeq (SAssign 7 (EC VNone)) (SSeq (SAssign 8 (EV 6)) (SAssign 0 (EV 7)))))
  (SSeq (SAssign 9 (EC VFalse))
  (SSeq (STry
     (SSeq (SIf (TIsNot (EV 8) (EC VNone)) (SCall MClose (EV 8) [] false) SSkip)
     (SSeq (SIf (TIs (EV 1) (EC VNone)) (SReturn false) SSkip)
           (SIf (TIs (EV 3) (EC VNone))
                (SSeq (SCall MReplace (EV 1) [EV 2] false) (SAssign 9 (EC VTrue))) SSkip)))
     HNil SSkip
     (SIf (TAnd (TNot (TTruth (EV 9))) (TIsNot (EV 1) (EC VNone)))
          (STry (SCall MUnlink (EV 1) [] false) (HCons [KNoEnt] SSkip HNil) SSkip SSkip) SSkip))
  (SReturn false))).
Definition prog_pinned : xstmt :=
  SSeq (SIf (TIsNot (EV 0) (EC VNone)) (SCall MClose (EV 0) [] false) SSkip)
  (SSeq (SIf (TIs (EV 1) (EC VNone)) (SReturn false) SSkip)
  (SSeq (SIf (TIsNot (EV 3) (EC VNone))
             (STry (SCall MUnlink (EV 1) [] false) (HCons [KNoEnt] SSkip HNil) SSkip SSkip)
             (SCall MReplace (EV 1) [EV 2] false))
  (SReturn false))).
(** Commit decided in a [finally] by [exc_type is None] only: a failing close still renames (the shape of one of
    the seeded faults). *)
Definition prog_commit_in_finally : xstmt :=
  STry (SCall MClose (EV 0) [] false) HNil SSkip
       (SIf (TIs (EV 3) (EC VNone)) (SCall MReplace (EV 1) [EV 2] false) (SCall MUnlink (EV 1) [] true)).
(** Rename first, close afterwards. *)
Definition prog_replace_before_close : xstmt :=
  SIf (TIs (EV 3) (EC VNone))
      (SSeq (SCall MReplace (EV 1) [EV 2] false) (SCall MClose (EV 0) [] false))
      (SSeq (SCall MClose (EV 0) [] false) (SCall MUnlink (EV 1) [] true)).
(** Swallows the body's exception. *)
Definition prog_swallow : xstmt :=
  SSeq (SCall MClose (EV 0) [] false)
  (SIf (TIs (EV 3) (EC VNone)) (SCall MReplace (EV 1) [EV 2] false)
       (SSeq (SCall MUnlink (EV 1) [] true) (SReturn true))).
