(** Proofs about SM/C17Global.v: non-interference of process-global state with the result of a collapse. *)
From Coq Require Import List Bool Arith Lia.
From SV Require Import SM.C17Global.
Import ListNotations.

Section Proofs.
  Variables St G : Type.
  Variable m : sem St G.

  Notation run := (run St G m).
  Notation iter := (iter St G).
  Notation result := (result St G).

  (** Quiet code leaves the program state alone and ends normally (or, inside a helper, by a bare `return`). *)
  Lemma quiet_gen_run : forall p ret, quiet_gen ret p = true -> forall s g,
    exists g' t, run p s g = (s, g', t) /\ (t = Normal \/ (ret = true /\ t = Jumped JReturn)).
  Proof.
    induction p; cbn [quiet_gen]; intros ret Hq s g; try discriminate.
    - (* KNil *) do 2 eexists; split; [reflexivity | left; reflexivity].
    - (* KSeq *)
      apply andb_true_iff in Hq as [Ha Hb].
      destruct (IHp1 ret Ha s g) as (g1 & t1 & E1 & [-> | [-> ->]]).
      + destruct (IHp2 ret Hb s g1) as (g2 & t2 & E2 & H2).
        exists g2, t2. cbn [C17Global.run]. rewrite E1. split; assumption.
      + exists g1, (Jumped JReturn). cbn [C17Global.run]. rewrite E1. split; [reflexivity | right; split; reflexivity].
    - (* KLog *) do 2 eexists; split; [reflexivity | left; reflexivity].
    - (* KUpd *) do 2 eexists; split; [reflexivity | left; reflexivity].
    - (* KJump *)
      destruct k; try discriminate. subst ret.
      do 2 eexists; split; [reflexivity | right; split; reflexivity].
    - (* KIf *)
      apply andb_true_iff in Hq as [Ha Hb].
      destruct t; cbn [C17Global.run].
      + destruct (cond St G m i s); [apply IHp1 | apply IHp2]; assumption.
      + destruct (gcond St G m i s g); [apply IHp1 | apply IHp2]; assumption.
    - (* KCall *)
      destruct (IHp true Hq s g) as (g1 & t1 & E1 & [-> | [_ ->]]);
        exists g1, Normal; cbn [C17Global.run]; rewrite E1; (split; [reflexivity | left; reflexivity]).
  Qed.

  Lemma quiet_run : forall p, quiet p = true -> forall s g, exists g', run p s g = (s, g', Normal).
  Proof.
    intros p Hq s g. destruct (quiet_gen_run p false Hq s g) as (g' & t & E & [-> | [H _]]); [|discriminate].
    exists g'. exact E.
  Qed.

  Lemma result_eq : forall (r1 r2 : outcome St G),
    result r1 = result r2 -> fst (fst r1) = fst (fst r2) /\ snd r1 = snd r2.
  Proof. intros [[s1 g1] t1] [[s2 g2] t2] H; inversion H; auto. Qed.

  Lemma iter_ni : forall n (f : St -> G -> outcome St G),
    (forall s g1 g2, result (f s g1) = result (f s g2)) ->
    forall s g1 g2, result (iter n f s g1) = result (iter n f s g2).
  Proof.
    induction n; intros f Hf s g1 g2; cbn [C17Global.iter]; [reflexivity|].
    pose proof (Hf s g1 g2) as E.
    destruct (f s g1) as [[s1 h1] t1], (f s g2) as [[s2 h2] t2].
    apply result_eq in E; cbn in E; destruct E as [-> ->].
    destruct t2 as [|[]]; try reflexivity; apply IHn; assumption.
  Qed.

  (** The theorem: with [gates_ok], the program state and the way control leaves the function do not depend on the
      process-global state the function started with. *)
  Theorem noninterference : forall p, gates_ok p = true ->
    forall s g1 g2, result (run p s g1) = result (run p s g2).
  Proof.
    induction p; cbn [gates_ok]; intros Hg s g1 g2; try discriminate; try reflexivity.
    - (* KSeq *)
      apply andb_true_iff in Hg as [Ha Hb]. cbn [C17Global.run].
      specialize (IHp1 Ha s g1 g2).
      destruct (run p1 s g1) as [[s1 h1] t1], (run p1 s g2) as [[s2 h2] t2].
      apply result_eq in IHp1; cbn in IHp1; destruct IHp1 as [-> ->].
      destruct t2; [apply IHp2; assumption | reflexivity].
    - (* KEff *)
      cbn [C17Global.run]. destruct (eff St G m i s); reflexivity.
    - (* KIf *)
      destruct t; cbn [C17Global.run].
      + apply andb_true_iff in Hg as [Ha Hb].
        destruct (cond St G m i s); [apply IHp1 | apply IHp2]; assumption.
      + apply andb_true_iff in Hg as [Ha Hb].
        assert (Q : forall g, exists g', run (KIf (TGlobal i) p1 p2) s g = (s, g', Normal)).
        { intro g. apply quiet_run. unfold quiet in *. cbn [quiet_gen]. rewrite Ha, Hb. reflexivity. }
        cbn [C17Global.run] in Q.
        destruct (Q g1) as [h1 E1]. destruct (Q g2) as [h2 E2]. rewrite E1, E2. reflexivity.
    - (* KLoop *)
      cbn [C17Global.run]. apply iter_ni. intros s' h1 h2. apply IHp. assumption.
    - (* KTry *)
      apply andb_true_iff in Hg as [Hab Hc]. apply andb_true_iff in Hab as [Ha Hb]. cbn [C17Global.run].
      specialize (IHp1 Ha s g1 g2).
      destruct (run p1 s g1) as [[s1 h1] t1], (run p1 s g2) as [[s2 h2] t2].
      apply result_eq in IHp1; cbn in IHp1; destruct IHp1 as [-> ->].
      destruct t2 as [|[]]; try reflexivity; [apply IHp3 | apply IHp2]; assumption.
    - (* KCall *)
      cbn [C17Global.run]. apply orb_true_iff in Hg as [Hg | Hq].
      + specialize (IHp Hg s g1 g2).
        destruct (run p s g1) as [[s1 h1] t1], (run p s g2) as [[s2 h2] t2].
        apply result_eq in IHp; cbn in IHp; destruct IHp as [-> ->].
        destruct t2 as [|[]]; reflexivity.
      + destruct (quiet_gen_run p true Hq s g1) as (h1 & t1 & E1 & [-> | [_ ->]]);
          destruct (quiet_gen_run p true Hq s g2) as (h2 & t2 & E2 & [-> | [_ ->]]);
          rewrite E1, E2; reflexivity.
  Qed.

  Corollary call_noninterference : forall body, fn_ok body = true ->
    forall s g1 g2, result (run (KCall body) s g1) = result (run (KCall body) s g2).
  Proof. intros body H. apply noninterference. exact H. Qed.

  (** Any history of calls in one process: the program state at the end does not depend on the global state at the
      start, however many functions ran and updated it on the way. *)
  Theorem history_independent : forall ps, forallb gates_ok ps = true ->
    forall s g1 g2, fst (run_many St G m ps s g1) = fst (run_many St G m ps s g2).
  Proof.
    induction ps as [|p r IH]; cbn [forallb run_many]; intros H s g1 g2; [reflexivity|].
    apply andb_true_iff in H as [Hp Hr].
    pose proof (noninterference p Hp s g1 g2) as E.
    destruct (run p s g1) as [[s1 h1] t1], (run p s g2) as [[s2 h2] t2].
    apply result_eq in E; cbn in E; destruct E as [-> _].
    apply IH; assumption.
  Qed.
End Proofs.

(** *** The hypothesis is needed, and satisfiable. *)
(** Program state: how many keyvalues were written; global state: "this (classname, key) was seen before". *)
Definition demo_sem : sem nat bool := {|
  eff := fun _ s => (S s, false);
  teff := fun _ s _ => (s, false);
  cond := fun _ _ => true;
  gcond := fun _ _ g => g;
  gupd := fun _ _ _ => true;
  count := fun _ _ => 1;
  next := fun _ s => s |}.

(** today's shape:   if key not in SEEN: log; SEEN.add(key)      then   new_ent[key] = value *)
Definition shape_log_once : skel := KSeq (KIf (TGlobal 0) KNil (KSeq KLog (KUpd 0))) (KEff 1).
(** guard-clause shape:   if key in SEEN: continue      then   log; SEEN.add(key); new_ent[key] = value *)
Definition shape_guard_clause : skel := KSeq (KIf (TGlobal 0) (KJump JContinue) KNil) (KSeq KLog (KSeq (KUpd 0) (KEff 1))).

(** the same inside a helper:   def warn_once(k): if k in SEEN: return;  log; SEEN.add(k)      caller: warn_once(key); new_ent[key] = value *)
Definition shape_helper_log_once : skel :=
  KSeq (KCall (KSeq (KIf (TGlobal 0) (KJump JReturn) KNil) (KSeq KLog (KUpd 0)))) (KEff 1).
(** a helper that decides:   def first_time(k): if k in SEEN: return False; SEEN.add(k); return True      caller: if not first_time(key): continue *)
Definition shape_helper_decides : skel :=
  KSeq (KCall (KSeq (KIf (TGlobal 0) (KSeq (KTainted 2) (KJump JReturn)) KNil) (KSeq (KUpd 0) (KSeq (KEff 3) (KJump JReturn)))))
       (KSeq (KIf (TOther 4) (KJump JContinue) KNil) (KEff 1)).

Lemma shape_helpers : gates_ok shape_helper_log_once = true /\ gates_ok shape_helper_decides = false /\
  fst (run_many nat bool demo_sem [shape_helper_log_once; shape_helper_log_once] 0 false) = 2.
Proof. repeat split; reflexivity. Qed.

Lemma shape_log_once_ok : gates_ok shape_log_once = true.
Proof. reflexivity. Qed.

Lemma shape_guard_clause_rejected : gates_ok shape_guard_clause = false.
Proof. reflexivity. Qed.

(** With the guard clause the second collapse of a process writes nothing: two calls write one keyvalue instead of two,
    and a single call depends on what the process did before. *)
Lemma guard_clause_depends_on_history :
  fst (run_many nat bool demo_sem [shape_guard_clause; shape_guard_clause] 0 false) = 1 /\
  fst (run_many nat bool demo_sem [shape_log_once; shape_log_once] 0 false) = 2 /\
  result nat bool (run nat bool demo_sem shape_guard_clause 0 false) <> result nat bool (run nat bool demo_sem shape_guard_clause 0 true).
Proof. repeat split; try reflexivity. cbn. discriminate. Qed.

Lemma process_state_gate_refuted :
  gates_ok shape_guard_clause = false /\ gates_ok shape_log_once = true /\
  fst (run_many nat bool demo_sem [shape_guard_clause; shape_guard_clause] 0 false) = 1 /\
  fst (run_many nat bool demo_sem [shape_log_once; shape_log_once] 0 false) = 2 /\
  result nat bool (run nat bool demo_sem shape_guard_clause 0 false) <> result nat bool (run nat bool demo_sem shape_guard_clause 0 true).
Proof.
  split; [exact shape_guard_clause_rejected | split; [exact shape_log_once_ok | exact guard_clause_depends_on_history]].
Qed.
