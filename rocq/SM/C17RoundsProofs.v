From Coq Require Import List Arith Lia Permutation.
From SV Require Import SM.C17Rounds.
Import ListNotations.

Section Graph.
  Variable children : file -> list file.
  Notation loop := (loop children).
  Notation round := (round children).
  Notation rounds := (rounds children).

  Lemma loop_unfold : forall k p, loop (S k) p =
    match p with [] => (Done, 0, 0) | _ :: _ => let '(o, r, w) := loop k (round p) in (o, S r, length p + w) end.
  Proof. reflexivity. Qed.

  (** The loop runs at most [limit] rounds; if it raises it ran exactly [limit] rounds; if it finishes, the map
      holds no instance after the rounds it ran, and that happened strictly before the limit. *)
  Lemma rounds_bounded : forall limit p,
    l_rounds (loop limit p) <= limit /\
    (l_outcome (loop limit p) = Raise -> l_rounds (loop limit p) = limit) /\
    (l_outcome (loop limit p) = Done -> rounds (l_rounds (loop limit p)) p = [] /\ l_rounds (loop limit p) < limit).
  Proof.
    induction limit as [|k IH]; intros p.
    - cbn. repeat split; try lia; discriminate.
    - rewrite loop_unfold. destruct p as [|f p].
      + cbn. repeat split; try lia; discriminate.
      + specialize (IH (round (f :: p))). destruct (loop k (round (f :: p))) as [[o r] w].
        unfold l_rounds, l_outcome in *. cbn [fst snd] in *. destruct IH as (A & B & C).
        repeat split; try lia.
        * intros H. rewrite (B H). reflexivity.
        * apply C, H.
        * apply C in H. lia.
  Qed.

  (** Work = number of pending instances summed over the executed rounds. *)
  Lemma work_is_sum : forall limit p, l_work (loop limit p) = work_upto children (l_rounds (loop limit p)) p.
  Proof.
    induction limit as [|k IH]; intros p; [reflexivity|].
    rewrite loop_unfold. destruct p as [|f p]; [reflexivity|].
    specialize (IH (round (f :: p))). destruct (loop k (round (f :: p))) as [[o r] w].
    unfold l_work, l_rounds in *. cbn [fst snd work_upto] in *. rewrite IH. reflexivity.
  Qed.

  (** Success exactly when the inclusion depth is below the limit. *)
  Lemma done_iff : forall limit p, l_outcome (loop limit p) = Done <-> exists k, k < limit /\ rounds k p = [].
  Proof.
    induction limit as [|k IH]; intros p.
    - cbn. split; [discriminate | intros (j & Hj & _); lia].
    - rewrite loop_unfold. destruct p as [|f p].
      + cbn. split; [intros _; exists 0; split; [lia | reflexivity] | reflexivity].
      + specialize (IH (round (f :: p))). destruct (loop k (round (f :: p))) as [[o r] w].
        unfold l_outcome in *. cbn [fst snd] in *. rewrite IH. split.
        * intros (j & Hj & E). exists (S j). split; [lia | exact E].
        * intros (j & Hj & E). destruct j as [|j]; [discriminate E|]. exists j. split; [lia | exact E].
  Qed.

  (** Instances that include each other (the pending set never empties) make the loop raise, for every limit. *)
  Lemma cycle_raises : forall limit p, (forall k, rounds k p <> []) ->
    l_outcome (loop limit p) = Raise /\ l_rounds (loop limit p) = limit.
  Proof.
    intros limit p H.
    assert (O : l_outcome (loop limit p) = Raise).
    { destruct (l_outcome (loop limit p)) eqn:E; [|reflexivity].
      apply done_iff in E as (k & _ & E). destruct (H k E). }
    split; [exact O | apply (rounds_bounded limit p), O].
  Qed.

  (** With fan-out at most [b] per file the pending set grows at most geometrically. *)
  Lemma round_length : forall b p, (forall f, length (children f) <= b) -> length (round p) <= b * length p.
  Proof.
    intros b p H. induction p as [|f p IH]; cbn [C17Rounds.round flat_map length]; [lia|].
    rewrite app_length. specialize (H f). fold (round p). lia.
  Qed.

  (** Fan-out at most one (every instance file holds at most one func_instance): the total work is linear. *)
  Lemma work_linear_fanout1 : forall limit p, (forall f, length (children f) <= 1) ->
    l_work (loop limit p) <= limit * length p.
  Proof.
    intros limit p H. revert p. induction limit as [|k IH]; intros p; [cbn; lia|].
    rewrite loop_unfold. destruct p as [|f p]; [cbn; lia|].
    specialize (IH (round (f :: p))). pose proof (round_length 1 (f :: p) H) as L.
    destruct (loop k (round (f :: p))) as [[o r] w]. unfold l_work in *. cbn [fst snd] in *.
    nia.
  Qed.
End Graph.

(** A file that includes itself once: [limit] rounds, [limit] collapses, then RecursionError. *)
Lemma self_once : forall limit, loop (fun _ => [0]) limit [0] = (Raise, limit, limit).
Proof.
  induction limit as [|k IH]; [reflexivity|]. rewrite loop_unfold. cbn [C17Rounds.round flat_map app].
  rewrite IH. reflexivity.
Qed.

(** A file that includes itself twice: the pending set doubles every round, so the loop without the ancestry check
    performs [2^limit - 1] collapses before it raises (defect #32, repaired in round 4 - see [loop2] below: with the
    default limit of 100 that was 2^100 - 1). *)
Lemma round_double : forall n, round (fun _ => [0; 0]) (repeat 0 n) = repeat 0 (2 * n).
Proof.
  induction n as [|n IH]; [reflexivity|]. cbn [repeat C17Rounds.round flat_map app].
  fold (round (fun _ => [0; 0]) (repeat 0 n)). rewrite IH.
  replace (2 * S n) with (S (S (2 * n))) by lia. reflexivity.
Qed.

Lemma self_twice_general : forall limit n, 0 < n ->
  loop (fun _ => [0; 0]) limit (repeat 0 n) = (Raise, limit, n * (2 ^ limit - 1)).
Proof.
  induction limit as [|k IH]; intros n Hn; [cbn; f_equal; lia|].
  rewrite loop_unfold. destruct n as [|n]; [lia|]. cbn [repeat].
  change (0 :: repeat 0 n) with (repeat 0 (S n)). rewrite round_double, IH by lia.
  rewrite repeat_length. f_equal. 
  assert (1 <= 2 ^ k) by (apply Nat.neq_0_lt_0, Nat.pow_nonzero; lia).
  cbn [Nat.pow]. nia.
Qed.

Lemma self_twice : forall limit, loop (fun _ => [0; 0]) limit [0] = (Raise, limit, 2 ^ limit - 1).
Proof. intros. change [0] with (repeat 0 1). rewrite self_twice_general by lia. f_equal. lia. Qed.

(** Non-vacuity: an acyclic chain 2 -> 1 -> 0 finishes when the limit exceeds its depth and raises otherwise. *)
Definition chain (f : file) : list file := match f with 0 => [] | S k => [k] end.
Example chain_done : loop chain 4 [2] = (Done, 3, 3).
Proof. reflexivity. Qed.
Example chain_limit_too_small : loop chain 3 [2] = (Raise, 3, 3).
Proof. reflexivity. Qed.


(** * The loop with the ancestry check: it decides exactly like the loop without it, only sooner. *)
Section Graph2.
  Variable children : file -> list file.
  Notation loop := (loop children).
  Notation round := (round children).
  Notation rounds := (rounds children).
  Notation expand := (expand children).

  Lemma rounds_nil : forall k, rounds k [] = [].
  Proof. induction k; cbn; auto. Qed.

  Lemma rounds_add : forall a b p, rounds (a + b) p = rounds b (rounds a p).
  Proof. induction a; intros; cbn; auto. Qed.

  Lemma round_incl : forall p q, incl p q -> incl (round p) (round q).
  Proof.
    intros p q H x Hx. unfold C17Rounds.round in *. apply in_flat_map in Hx as (y & Hy & Hx).
    apply in_flat_map. exists y. split; auto.
  Qed.

  Lemma rounds_incl : forall k p q, incl p q -> incl (rounds k p) (rounds k q).
  Proof. induction k; intros p q H; cbn; auto. apply IHk, round_incl, H. Qed.

  Lemma rounds_S_end : forall k p, rounds (S k) p = round (rounds k p).
  Proof. intros. replace (S k) with (k + 1) by lia. rewrite rounds_add. reflexivity. Qed.

  (** [parent_path f ps]: the recorded parents [ps] of a pending instance of file [f] are a path of inclusions
      ending at it (innermost parent first). *)
  Fixpoint parent_path (f : file) (ps : list file) : Prop :=
    match ps with [] => True | a :: t => In f (children a) /\ parent_path a t end.

  Lemma parents_reach : forall l1 f a l2, parent_path f (l1 ++ a :: l2) -> In f (rounds (S (length l1)) [a]).
  Proof.
    induction l1 as [|b l1 IH]; intros f a l2 H.
    - cbn in H. destruct H as [H _]. cbn. rewrite app_nil_r. exact H.
    - cbn [app parent_path] in H. destruct H as [H1 H2]. apply IH in H2.
      cbn [length]. rewrite rounds_S_end. unfold C17Rounds.round. apply in_flat_map. exists b. split; assumption.
  Qed.

  Lemma self_reach_forever : forall f m, In f (rounds m [f]) -> forall i, In f (rounds (i * m) [f]).
  Proof.
    intros f m H. induction i as [|i IH]; [cbn; auto|].
    cbn [Nat.mul]. rewrite rounds_add.
    apply (rounds_incl (i * m) [f]); [|exact IH]. intros x [<-|[]]. exact H.
  Qed.

  Lemma cycle_never_empty : forall f m, 0 < m -> In f (rounds m [f]) -> forall j, rounds j [f] <> [].
  Proof.
    intros f m Hm H j E. pose proof (self_reach_forever f m H j) as R.
    replace (j * m) with (j + (j * m - j)) in R by nia. rewrite rounds_add, E, rounds_nil in R. exact R.
  Qed.

  (** A file found among its own recorded parents lies on a cycle of the inclusion graph. *)
  Lemma loop_item_forever : forall f ps, parent_path f ps -> In f ps -> forall j, rounds j [f] <> [].
  Proof.
    intros f ps C I. apply in_split in I as (l1 & l2 & ->).
    apply (cycle_never_empty f (S (length l1))); [lia|]. eapply parents_reach, C.
  Qed.

  Lemma in_never_empty : forall f p, In f p -> (forall j, rounds j [f] <> []) -> forall j, rounds j p <> [].
  Proof.
    intros f p I H j E. apply (H j).
    assert (S : incl (rounds j [f]) (rounds j p)) by (apply rounds_incl; intros x [<-|[]]; exact I).
    rewrite E in S. apply incl_l_nil, S.
  Qed.

  (** The loop without the check does not depend on the order of the pending instances. *)
  Lemma round_perm : forall p q, Permutation p q -> Permutation (round p) (round q).
  Proof. intros. apply Permutation_flat_map. assumption. Qed.

  Lemma loop_perm : forall k p q, Permutation p q -> loop k p = loop k q.
  Proof.
    induction k as [|k IH]; intros p q H; [reflexivity|].
    rewrite !loop_unfold. destruct p as [|a p], q as [|b q].
    - reflexivity.
    - apply Permutation_nil in H. discriminate.
    - apply Permutation_sym, Permutation_nil in H. discriminate.
    - rewrite (IH _ _ (round_perm _ _ H)), (Permutation_length H). reflexivity.
  Qed.

  Variable perm : list item -> list item.
  Hypothesis perm_ok : forall l, Permutation (perm l) l.
  Notation loop2 := (loop2 children perm).

  Lemma loop2_unfold : forall k p, loop2 (S k) p =
    match p with
    | [] => (Done, 0, 0)
    | _ :: _ => let q := perm p in
                if existsb is_loop q then (Raise, 1, before q)
                else let '(o, r, w) := loop2 k (flat_map expand q) in (o, S r, length q + w)
    end.
  Proof. reflexivity. Qed.

  Definition good (x : item) : Prop := parent_path (fst x) (snd x).

  Lemma flat_expand_good : forall q, Forall good q -> Forall good (flat_map expand q).
  Proof.
    intros q H. rewrite Forall_forall in *. intros y Hy. apply in_flat_map in Hy as (x & Hx & Hy).
    unfold C17Rounds.expand in Hy. apply in_map_iff in Hy as (c & <- & Hc). split; [exact Hc | apply (H x Hx)].
  Qed.

  Lemma map_fst_expand : forall q, map fst (flat_map expand q) = round (map fst q).
  Proof.
    induction q as [|x q IH]; [reflexivity|].
    change (flat_map expand (x :: q)) with (expand x ++ flat_map expand q).
    change (round (map fst (x :: q))) with (children (fst x) ++ round (map fst q)).
    rewrite map_app. f_equal; [|exact IH]. unfold C17Rounds.expand. rewrite map_map. cbn [fst]. apply map_id.
  Qed.

  Lemma before_le : forall q, before q <= length q.
  Proof. induction q as [|x q IH]; cbn [before length]; [lia|]. destruct (is_loop x); lia. Qed.

  Lemma is_loop_true : forall x, is_loop x = true <-> In (fst x) (snd x).
  Proof.
    intros x. unfold is_loop. rewrite existsb_exists. split.
    - intros (y & Hy & E). apply Nat.eqb_eq in E. subst. exact Hy.
    - intros H. exists (fst x). split; [exact H | apply Nat.eqb_refl].
  Qed.

  Lemma loop2_vs_loop : forall limit p, Forall good p ->
    l_outcome (loop2 limit p) = l_outcome (loop limit (map fst p)) /\
    (l_outcome (loop limit (map fst p)) = Done -> loop2 limit p = loop limit (map fst p)) /\
    l_work (loop2 limit p) <= l_work (loop limit (map fst p)) /\
    l_rounds (loop2 limit p) <= l_rounds (loop limit (map fst p)).
  Proof.
    induction limit as [|k IH]; intros p G.
    - cbn. repeat split; auto.
    - destruct p as [|x p]; [cbn; repeat split; auto|].
      rewrite loop2_unfold. cbv zeta.
      pose proof (perm_ok (x :: p)) as Pq. remember (perm (x :: p)) as q eqn:Eq. clear Eq.
      assert (Gq : Forall good q) by (eapply Permutation_Forall; [apply Permutation_sym, Pq | exact G]).
      assert (Pm : Permutation (map fst q) (map fst (x :: p))) by (apply Permutation_map, Pq).
      assert (Lq : length q = length (map fst (x :: p))) by (rewrite map_length; apply Permutation_length, Pq).
      destruct (existsb is_loop q) eqn:Hit.
      + apply existsb_exists in Hit as (y & Hy & L). apply is_loop_true in L.
        rewrite Forall_forall in Gq. pose proof (loop_item_forever _ _ (Gq y Hy) L) as F.
        assert (I : In (fst y) (map fst (x :: p))) by (eapply Permutation_in; [exact Pm | apply in_map, Hy]).
        pose proof (in_never_empty _ _ I F) as NE.
        destruct (cycle_raises children (S k) _ NE) as [O _].
        pose proof (before_le q) as B. rewrite Lq in B.
        revert O B. cbn [map]. rewrite loop_unfold.
        destruct (C17Rounds.loop children k _) as [[o r] w]. unfold l_outcome, l_work, l_rounds. cbn [fst snd length].
        intros -> B. repeat split; try lia. discriminate.
      + specialize (IH (flat_map expand q) (flat_expand_good q Gq)). rewrite map_fst_expand in IH.
        rewrite (loop_perm k _ _ (round_perm _ _ Pm)) in IH. rewrite Lq.
        cbn [map] in *. rewrite loop_unfold.
        destruct (C17Rounds.loop2 children perm k _) as [[o2 r2] w2].
        destruct (C17Rounds.loop children k _) as [[o r] w]. unfold l_outcome, l_work, l_rounds in *. cbn [fst snd length] in *.
        destruct IH as (A & B & C & D). repeat split; try lia; [exact A|].
        intros H. specialize (B H). injection B as -> -> ->. reflexivity.
  Qed.

  Lemma start_good : forall roots, Forall good (start roots).
  Proof. intros. apply Forall_forall. intros x Hx. apply in_map_iff in Hx as (f & <- & _). exact I. Qed.

  Lemma map_fst_start : forall roots, map fst (start roots) = roots.
  Proof. intros. unfold start. rewrite map_map. apply map_id. Qed.

  (** Exactness: the loop with the check raises exactly when the loop without it raises; when they finish they ran
      the same number of rounds and collapse_one calls. *)
  Theorem cycle_check_exact : forall limit roots,
    l_outcome (loop2 limit (start roots)) = l_outcome (loop limit roots) /\
    (l_outcome (loop limit roots) = Done -> loop2 limit (start roots) = loop limit roots).
  Proof.
    intros limit roots. pose proof (loop2_vs_loop limit (start roots) (start_good roots)) as H.
    rewrite map_fst_start in H. split; apply H.
  Qed.

  Theorem cycle_check_work_le : forall limit roots,
    l_work (loop2 limit (start roots)) <= l_work (loop limit roots) /\
    l_rounds (loop2 limit (start roots)) <= l_rounds (loop limit roots).
  Proof.
    intros limit roots. pose proof (loop2_vs_loop limit (start roots) (start_good roots)) as H.
    rewrite map_fst_start in H. split; apply H.
  Qed.

  (** The number of rounds no longer depends on the limit: a parent_path of parents never repeats a file. *)
  Section Bound.
    Variable univ : list file.
    Hypothesis closed : forall f, In f univ -> incl (children f) univ.

    Definition inv (d : nat) (x : item) : Prop := NoDup (snd x) /\ incl (fst x :: snd x) univ /\ length (snd x) = d.

    Lemma rounds_le_files_gen : forall limit d p, Forall (inv d) p -> l_rounds (loop2 limit p) <= S (length univ) - d.
    Proof.
      induction limit as [|k IH]; intros d p G; [cbn; lia|].
      destruct p as [|x p]; [cbn; lia|].
      rewrite loop2_unfold. cbv zeta.
      pose proof (perm_ok (x :: p)) as Pq. remember (perm (x :: p)) as q eqn:Eq. clear Eq.
      assert (Gq : Forall (inv d) q) by (eapply Permutation_Forall; [apply Permutation_sym, Pq | exact G]).
      rewrite Forall_forall in Gq.
      destruct q as [|y q']; [apply Permutation_nil in Pq; discriminate|]. set (q := y :: q') in *.
      assert (Hy : In y q) by (left; reflexivity).
      destruct (existsb is_loop q) eqn:Hit.
      - destruct (Gq y Hy) as (N & Inc & Len). unfold l_rounds. cbn [fst snd].
        assert (length (snd y) <= length univ) by (apply NoDup_incl_length; [exact N | intros z Hz; apply Inc; right; exact Hz]).
        lia.
      - assert (NL : forall z, In z q -> ~ In (fst z) (snd z)).
        { intros z Hz L. apply is_loop_true in L. assert (existsb is_loop q = true) by (apply existsb_exists; eauto). congruence. }
        assert (Sd : S d <= length univ).
        { destruct (Gq y Hy) as (N & Inc & Len). rewrite <- Len.
          change (S (length (snd y))) with (length (fst y :: snd y)). apply NoDup_incl_length; [|exact Inc].
          constructor; [apply NL, Hy | exact N]. }
        assert (Gn : Forall (inv (S d)) (flat_map expand q)).
        { apply Forall_forall. intros z Hz. apply in_flat_map in Hz as (u & Hu & Hz).
          unfold C17Rounds.expand in Hz. apply in_map_iff in Hz as (c & <- & Hc).
          destruct (Gq u Hu) as (N & Inc & Len). unfold inv. cbn [fst snd length]. repeat split.
          - constructor; [apply NL, Hu | exact N].
          - intros z [<-|Hz]; [|apply Inc, Hz]. apply (closed (fst u)); [apply Inc; left; reflexivity | exact Hc].
          - rewrite Len. reflexivity. }
        specialize (IH (S d) _ Gn). destruct (C17Rounds.loop2 children perm k _) as [[o r] w].
        unfold l_rounds in *. cbn [fst snd] in *. lia.
    Qed.

    Theorem cycle_check_rounds_le_files : forall limit roots, incl roots univ ->
      l_rounds (loop2 limit (start roots)) <= S (length univ).
    Proof.
      intros limit roots H. pose proof (rounds_le_files_gen limit 0 (start roots)) as R.
      rewrite Nat.sub_0_r in R. apply R. apply Forall_forall. intros x Hx. apply in_map_iff in Hx as (f & <- & Hf).
      unfold inv. cbn [fst snd length]. split; [apply NoDup_nil|]. split; [|reflexivity].
      intros z [<-|[]]. apply H, Hf.
    Qed.
  End Bound.
End Graph2.

(** A file that includes itself twice: one collapse, then the second round finds the file among its parents
    (the loop without the check needs 2^limit - 1 collapses, [self_twice]). *)
Lemma self_twice_checked : forall limit, 2 <= limit ->
  loop2 (fun _ => [0; 0]) (fun l => l) limit (start [0]) = (Raise, 2, 1).
Proof. intros [|[|k]] H; try lia. reflexivity. Qed.

(** The same in whatever order the set hands out the pending instances. *)
Lemma self_twice_checked_any_order : forall perm, (forall l, Permutation (perm l) l) ->
  forall limit, 2 <= limit -> loop2 (fun _ => [0; 0]) perm limit (start [0]) = (Raise, 2, 1).
Proof.
  unfold item. intros perm P [|[|k]] H; try lia.
  rewrite loop2_unfold. cbn [start map]. cbv zeta.
  rewrite (Permutation_length_1_inv (Permutation_sym (P [(0, [])]))).
  cbn [existsb is_loop fst snd flat_map expand map app]. rewrite loop2_unfold. cbv zeta.
  match goal with |- context [perm ?l] =>
    destruct (Permutation_length_2_inv (Permutation_sym (P l))) as [E|E]; rewrite E end; reflexivity.
Qed.

(** Non-vacuity of the bound and of exactness: a diamond finishes with the same numbers, a 3-cycle is caught in round 4. *)
Definition diamond (f : file) : list file := match f with 3 => [2; 2] | 2 => [1; 1] | 1 => [0] | _ => [] end.
Example diamond_same : loop2 diamond (fun l => l) 100 (start [3]) = loop diamond 100 [3].
Proof. reflexivity. Qed.
Definition ring3 (f : file) : list file := match f with 0 => [1] | 1 => [2] | _ => [0] end.
Example ring3_caught : forall limit, 4 <= limit -> loop2 ring3 (fun l => l) limit (start [0]) = (Raise, 4, 3).
Proof. intros [|[|[|[|k]]]] H; try lia. reflexivity. Qed.
