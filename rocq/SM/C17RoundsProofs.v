From Coq Require Import List Arith Lia.
From SV Require Import SM.C17Rounds.
Import ListNotations.

Section Graph.
  Variable children : file -> list file.
  Notation loop := (loop children).
  Notation round := (round children).
  Notation rounds := (rounds children).

  Lemma loop_unfold : forall k p, loop (S k) p =
    match p with [] => (Done, 0, 0) | _ :: _ => let '(o, r, w) := loop k (round p) in (o, S r, length p + w) end.
  Proof. reflexivity. Qed.

  (** The loop runs at most [limit] rounds; if it raises it ran exactly [limit] rounds; if it finishes, the map
      holds no instance after the rounds it ran, and that happened strictly before the limit. *)
  Lemma rounds_bounded : forall limit p,
    l_rounds (loop limit p) <= limit /\
    (l_outcome (loop limit p) = Raise -> l_rounds (loop limit p) = limit) /\
    (l_outcome (loop limit p) = Done -> rounds (l_rounds (loop limit p)) p = [] /\ l_rounds (loop limit p) < limit).
  Proof.
    induction limit as [|k IH]; intros p.
    - cbn. repeat split; try lia; discriminate.
    - rewrite loop_unfold. destruct p as [|f p].
      + cbn. repeat split; try lia; discriminate.
      + specialize (IH (round (f :: p))). destruct (loop k (round (f :: p))) as [[o r] w].
        unfold l_rounds, l_outcome in *. cbn [fst snd] in *. destruct IH as (A & B & C).
        repeat split; try lia.
        * intros H. rewrite (B H). reflexivity.
        * apply C, H.
        * apply C in H. lia.
  Qed.

  (** Work = number of pending instances summed over the executed rounds. *)
  Lemma work_is_sum : forall limit p, l_work (loop limit p) = work_upto children (l_rounds (loop limit p)) p.
  Proof.
    induction limit as [|k IH]; intros p; [reflexivity|].
    rewrite loop_unfold. destruct p as [|f p]; [reflexivity|].
    specialize (IH (round (f :: p))). destruct (loop k (round (f :: p))) as [[o r] w].
    unfold l_work, l_rounds in *. cbn [fst snd work_upto] in *. rewrite IH. reflexivity.
  Qed.

  (** Success exactly when the inclusion depth is below the limit. *)
  Lemma done_iff : forall limit p, l_outcome (loop limit p) = Done <-> exists k, k < limit /\ rounds k p = [].
  Proof.
    induction limit as [|k IH]; intros p.
    - cbn. split; [discriminate | intros (j & Hj & _); lia].
    - rewrite loop_unfold. destruct p as [|f p].
      + cbn. split; [intros _; exists 0; split; [lia | reflexivity] | reflexivity].
      + specialize (IH (round (f :: p))). destruct (loop k (round (f :: p))) as [[o r] w].
        unfold l_outcome in *. cbn [fst snd] in *. rewrite IH. split.
        * intros (j & Hj & E). exists (S j). split; [lia | exact E].
        * intros (j & Hj & E). destruct j as [|j]; [discriminate E|]. exists j. split; [lia | exact E].
  Qed.

  (** Instances that include each other (the pending set never empties) make the loop raise, for every limit. *)
  Lemma cycle_raises : forall limit p, (forall k, rounds k p <> []) ->
    l_outcome (loop limit p) = Raise /\ l_rounds (loop limit p) = limit.
  Proof.
    intros limit p H.
    assert (O : l_outcome (loop limit p) = Raise).
    { destruct (l_outcome (loop limit p)) eqn:E; [|reflexivity].
      apply done_iff in E as (k & _ & E). destruct (H k E). }
    split; [exact O | apply (rounds_bounded limit p), O].
  Qed.

  (** With fan-out at most [b] per file the pending set grows at most geometrically. *)
  Lemma round_length : forall b p, (forall f, length (children f) <= b) -> length (round p) <= b * length p.
  Proof.
    intros b p H. induction p as [|f p IH]; cbn [C17Rounds.round flat_map length]; [lia|].
    rewrite app_length. specialize (H f). fold (round p). lia.
  Qed.

  (** Fan-out at most one (every instance file holds at most one func_instance): the total work is linear. *)
  Lemma work_linear_fanout1 : forall limit p, (forall f, length (children f) <= 1) ->
    l_work (loop limit p) <= limit * length p.
  Proof.
    intros limit p H. revert p. induction limit as [|k IH]; intros p; [cbn; lia|].
    rewrite loop_unfold. destruct p as [|f p]; [cbn; lia|].
    specialize (IH (round (f :: p))). pose proof (round_length 1 (f :: p) H) as L.
    destruct (loop k (round (f :: p))) as [[o r] w]. unfold l_work in *. cbn [fst snd] in *.
    nia.
  Qed.
End Graph.

(** A file that includes itself once: [limit] rounds, [limit] collapses, then RecursionError. *)
Lemma self_once : forall limit, loop (fun _ => [0]) limit [0] = (Raise, limit, limit).
Proof.
  induction limit as [|k IH]; [reflexivity|]. rewrite loop_unfold. cbn [C17Rounds.round flat_map app].
  rewrite IH. reflexivity.
Qed.

(** A file that includes itself twice: the pending set doubles every round, so the loop performs
    [2^limit - 1] collapses before it raises (defect #32: with the default limit of 100 that is 2^100 - 1). *)
Lemma round_double : forall n, round (fun _ => [0; 0]) (repeat 0 n) = repeat 0 (2 * n).
Proof.
  induction n as [|n IH]; [reflexivity|]. cbn [repeat C17Rounds.round flat_map app].
  fold (round (fun _ => [0; 0]) (repeat 0 n)). rewrite IH.
  replace (2 * S n) with (S (S (2 * n))) by lia. reflexivity.
Qed.

Lemma self_twice_general : forall limit n, 0 < n ->
  loop (fun _ => [0; 0]) limit (repeat 0 n) = (Raise, limit, n * (2 ^ limit - 1)).
Proof.
  induction limit as [|k IH]; intros n Hn; [cbn; f_equal; lia|].
  rewrite loop_unfold. destruct n as [|n]; [lia|]. cbn [repeat].
  change (0 :: repeat 0 n) with (repeat 0 (S n)). rewrite round_double, IH by lia.
  rewrite repeat_length. f_equal. 
  assert (1 <= 2 ^ k) by (apply Nat.neq_0_lt_0, Nat.pow_nonzero; lia).
  cbn [Nat.pow]. nia.
Qed.

Lemma self_twice : forall limit, loop (fun _ => [0; 0]) limit [0] = (Raise, limit, 2 ^ limit - 1).
Proof. intros. change [0] with (repeat 0 1). rewrite self_twice_general by lia. f_equal. lia. Qed.

(** Non-vacuity: an acyclic chain 2 -> 1 -> 0 finishes when the limit exceeds its depth and raises otherwise. *)
Definition chain (f : file) : list file := match f with 0 => [] | S k => [k] end.
Example chain_done : loop chain 4 [2] = (Done, 3, 3).
Proof. reflexivity. Qed.
Example chain_limit_too_small : loop chain 3 [2] = (Raise, 3, 3).
Proof. reflexivity. Qed.
