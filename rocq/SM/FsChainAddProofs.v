(** C19, round 4 — proofs about [add_sys] histories, the names the directory backend lists, and the impossibility behind
    the known finding (definitions in FsChainAdd.v). *)
From Coq Require Import List NArith Bool.
From SV Require Import SM.FsChain SM.FsChainProofs SM.FsChainWitness SM.FsChainForms SM.FsChainFormsProofs SM.FsChainWhole
     SM.FsChainWholeProofs SM.FsChainAdd.
Import ListNotations.
Open Scope N_scope.

(** * (1) histories *)
Section Hist.
  Context {A : Type}.

  Lemma fold_always (same : A -> A -> bool) (h : list (bool * A)) acc :
    fold_left (fun acc x => add_sys_g AddAlways same (InsertAt 0) Append (fst x) (snd x) acc) h acc
    = rev (map snd (filter (fun x => fst x) h)) ++ acc ++ map snd (filter (fun x => negb (fst x)) h).
  Proof.
    revert acc. induction h as [|[p m] h IH]; intros acc; cbn [fold_left filter map rev fst snd].
    - rewrite app_nil_r. reflexivity.
    - rewrite IH. destruct p; cbn [negb add_sys_g ins_at firstn skipn app map rev fst snd].
      + rewrite <- app_assoc. reflexivity.
      + rewrite <- app_assoc. reflexivity.
  Qed.

  (** Whatever the sequence of calls: with a method that always inserts, first for priority and last otherwise, the
      chain is the priority members latest first, then the others in the order they were added - every member that was
      added is in it, as often as it was added. *)
  Theorem build_chain_priority_order g (same : A -> A -> bool) prio plain (h : list (bool * A)) :
    guard_ok g = true -> actions_ok prio plain = true ->
    build_chain g same prio plain h = priority_order h.
  Proof.
    intros Hg Ha. destruct g; [|discriminate].
    destruct prio as [[|n]|]; try discriminate. destruct plain; try discriminate.
    unfold build_chain, priority_order. rewrite fold_always. reflexivity.
  Qed.

  Corollary build_chain_mounts_all g (same : A -> A -> bool) prio plain (h : list (bool * A)) m :
    guard_ok g = true -> actions_ok prio plain = true ->
    In m (map snd h) -> In m (build_chain g same prio plain h).
  Proof.
    intros Hg Ha Hin. rewrite (build_chain_priority_order g same prio plain h Hg Ha). unfold priority_order.
    apply in_map_iff in Hin as [[p x] [<- Hx]]. apply in_or_app. destruct p.
    - left. apply in_rev. rewrite rev_involutive. apply in_map_iff. exists (true, x). split; [reflexivity|].
      apply filter_In. split; [exact Hx|reflexivity].
    - right. apply in_map_iff. exists (false, x). split; [reflexivity|]. apply filter_In. split; [exact Hx|reflexivity].
  Qed.
End Hist.

Lemma Forall_priority_order {A} (P : A -> Prop) (h : list (bool * A)) :
  Forall P (map snd h) -> Forall P (priority_order h).
Proof.
  intros H. rewrite Forall_forall in H. apply Forall_forall. intros m Hm. unfold priority_order in Hm.
  apply H. apply in_app_or in Hm as [Hm|Hm].
  - apply in_rev in Hm. apply in_map_iff in Hm as [x [<- Hx]]. apply filter_In in Hx as [Hx _]. apply in_map. exact Hx.
  - apply in_map_iff in Hm as [x [<- Hx]]. apply filter_In in Hx as [Hx _]. apply in_map. exact Hx.
Qed.

(** The chain sentence over a whole program: after any sequence of [add_sys] calls over members of whatever backend
    kind, every lookup form of the resulting chain is the specification applied to the members in priority order. *)
Theorem chain_history_spec g same prio plain em (h : list (bool * kmember)) q :
  guard_ok g = true -> actions_ok prio plain = true -> exists_mode_ok em = true ->
  Forall kmember_ok (map snd h) ->
  let ms := build_chain g same prio plain h in
  let sp := map k_spec (priority_order h) in
  chain_get (map k_member ms) q = chain_spec sp q
  /\ chain_open (map k_member ms) q = chain_spec sp q
  /\ chain_exists em (map k_xmember ms) q = is_some (chain_spec sp q)
  /\ chain_read ms q = option_map snd (chain_spec sp q).
Proof.
  intros Hg Ha Hem Hms. cbv zeta. rewrite (build_chain_priority_order g same prio plain h Hg Ha).
  apply chain_every_form_spec; [exact Hem|]. apply Forall_priority_order. exact Hms.
Qed.

(** A guard that skips a member comparing equal (same kind and path label, same subfolder) to a mounted one:
    (a) a second archive mounted under the label of the first is dropped - a name only it holds is missing although a
        member that was added has it;
    (b) re-adding a mounted member with priority does not move it to the front - the lower-priority copy keeps winning. *)
Definition hist_twins : list (bool * dmember) :=
  [(false, (1, [([120], [1])], [])); (false, (1, [([121], [2])], []))].
Definition hist_promote : list (bool * dmember) :=
  [(false, (1, [([120], [1])], [])); (false, (2, [([120], [2])], [])); (true, (2, [([120], [2])], []))].
Theorem add_guard_skips_equal_refuted :
  chain_spec (map d_spec (priority_order hist_twins)) [121] = Some ([121], [2])
  /\ chain_spec (map d_spec (build_chain AddSkipMounted same_label (InsertAt 0) Append hist_twins)) [121] = None
  /\ chain_spec (map d_spec (build_chain AddAlways same_label (InsertAt 0) Append hist_twins)) [121] = Some ([121], [2])
  /\ chain_spec (map d_spec (priority_order hist_promote)) [120] = Some ([120], [2])
  /\ chain_spec (map d_spec (build_chain AddSkipMounted same_label (InsertAt 0) Append hist_promote)) [120] = Some ([120], [1]).
Proof. vm_compute. repeat split. Qed.

(** * (2) the names the directory backend lists *)
Theorem raw_walk_rel_file ops fs folder : raw_walk_rel RawRelFile ops fs folder = raw_walk ops fs folder.
Proof.
  unfold raw_walk_rel. rewrite <- (map_id (raw_walk ops fs folder)) at 2. apply map_ext. intros [n b]. reflexivity.
Qed.

(** ... so with a listing recognised as [RawRelFile] every listed name is a stored name (and the round-2 theorems
    about [raw_walk] are about what is listed). *)
Corollary raw_walk_rel_lists_stored r ops fs folder e :
  raw_rel_ok r = true -> In e (raw_walk_rel r ops fs folder) -> In e fs.
Proof.
  intros Hr. destruct r; [|discriminate]. rewrite raw_walk_rel_file. unfold raw_walk. intros H.
  apply filter_In in H as [H _]. exact H.
Qed.

(** Joining the directory's relative path with the file name afterwards: a file of the root folder is listed as "./x",
    which is not a stored name; in a chain it is not recognised as the "x" of another member, so the name is listed
    twice and the second entry is not what the lookup of "x" returns. *)
Definition rootfile : list file := [([120], [1])].
Definition chain_dir_mem (r : raw_rel) : list member :=
  [raw_member_of r [OSlash] rootfile []; member_of fixed_zip [([120], [2])] []].
Theorem raw_rel_dirjoin_refuted :
  map fst (raw_walk_rel RawRelDirJoin [OSlash] rootfile []) = [[46; 47; 120]]
  /\ map fst (raw_walk_rel RawRelFile [OSlash] rootfile []) = [[120]]
  /\ map fst (chain_walk RelDropSegs [OFold] (chain_dir_mem RawRelDirJoin) []) = [[46; 47; 120]; [120]]
  /\ map fst (chain_walk RelDropSegs [OFold] (chain_dir_mem RawRelFile) []) = [[120]]
  /\ chain_get (chain_dir_mem RawRelDirJoin) [120] = Some ([120], [1]).
Proof. vm_compute. repeat split. Qed.

(** * (3) the known finding: "the file stored last wins" is not a function of a container that forgets the order *)
Theorem winner_needs_order {C : Type} (container : list file -> C) (serve : C -> str -> option file) :
  container [dup_a; dup_A] = container [dup_A; dup_a] ->
  ~ (forall fs q, serve (container fs) q = spec_lookup fs q).
Proof.
  intros Hc H. pose proof (H [dup_a; dup_A] [97; 47; 120]) as H1. pose proof (H [dup_A; dup_a] [97; 47; 120]) as H2.
  rewrite Hc, H2 in H1. vm_compute in H1. discriminate.
Qed.

(** ... whereas without case-duplicates the order does not matter (FsChainProofs.lookup_order_irrelevant), and the two
    witnesses are clean file sets: the hypotheses describe a real situation. *)
Example winner_witness_clean : clean_fs [dup_a; dup_A] = true /\ spec_lookup [dup_a; dup_A] [97; 47; 120] = Some dup_A
                               /\ spec_lookup [dup_A; dup_a] [97; 47; 120] = Some dup_a.
Proof. vm_compute. repeat split. Qed.
