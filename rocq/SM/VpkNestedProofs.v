(** Proofs about SM/VpkNested.v: for every clean-up program that [prog_safe] accepts, deleting from the nested dicts is deleting
    from the flat table of SM/Vpk.v ([adel]), and raises KeyError exactly when the flat table has no such key — for every tree.
    The program of seeded fault c13_3 is refuted with a computed tree. *)
From Coq Require Import List NArith Bool Lia.
From SV Require Import Fmt.VpkDir SM.Vpk SM.VpkProofs SM.VpkNested.
Import ListNotations.
Open Scope N_scope.

Definition flat_files (e d : bytes) (fs : list (bytes * info)) : list (key * info) :=
  map (fun f => ((e, d, fst f), snd f)) fs.
Definition flat_dirs (e : bytes) (ds : list (bytes * list (bytes * info))) : list (key * info) :=
  flat_map (fun d => flat_files e (fst d) (snd d)) ds.

Lemma flat_tree_cons e t : flat_tree (e :: t) = flat_dirs (fst e) (snd e) ++ flat_tree t.
Proof. reflexivity. Qed.

Lemma bytes_eqb_sym a b : bytes_eqb a b = bytes_eqb b a.
Proof.
  destruct (bytes_eqb a b) eqn:E1, (bytes_eqb b a) eqn:E2; try reflexivity.
  - apply bytes_eqb_eq in E1. subst. rewrite (proj2 (bytes_eqb_eq b b) eq_refl) in E2. discriminate.
  - apply bytes_eqb_eq in E2. subst. rewrite (proj2 (bytes_eqb_eq a a) eq_refl) in E1. discriminate.
Qed.

Lemma adel_app {V} k (a b : list (key * V)) : adel k (a ++ b) = adel k a ++ adel k b.
Proof.
  induction a as [|[k' v] a IH]; cbn [app adel]; [reflexivity|].
  destruct (key_eqb k k'); [assumption|]. cbn [app]. now rewrite IH.
Qed.

(** ---- removing the file ---- *)
Lemma adel_flat_files x p n e d fs :
  adel (x, p, n) (flat_files e d fs) =
  if bytes_eqb e x && bytes_eqb d p then flat_files e d (filter (fun f => negb (bytes_eqb (fst f) n)) fs)
  else flat_files e d fs.
Proof.
  induction fs as [|f fs IH].
  - cbn. now destruct (bytes_eqb e x && bytes_eqb d p).
  - unfold flat_files in *. cbn [map adel filter key_eqb]. rewrite IH.
    rewrite (bytes_eqb_sym x e), (bytes_eqb_sym p d), (bytes_eqb_sym n (fst f)).
    destruct (bytes_eqb e x); cbn [andb]; [|reflexivity].
    destruct (bytes_eqb d p); cbn [andb]; [|reflexivity].
    destruct (bytes_eqb (fst f) n); cbn [negb]; reflexivity.
Qed.

Lemma adel_flat_dirs x p n e ds :
  adel (x, p, n) (flat_dirs e ds) =
  if bytes_eqb e x
  then flat_dirs e (map (fun d => if bytes_eqb (fst d) p
                                  then (fst d, filter (fun f => negb (bytes_eqb (fst f) n)) (snd d)) else d) ds)
  else flat_dirs e ds.
Proof.
  induction ds as [|d ds IH].
  - cbn. now destruct (bytes_eqb e x).
  - unfold flat_dirs in *. cbn [flat_map map]. rewrite adel_app, IH, adel_flat_files.
    destruct (bytes_eqb e x); cbn [andb]; [|reflexivity].
    destruct (bytes_eqb (fst d) p); reflexivity.
Qed.

Lemma flat_rm_name x p n t : flat_tree (rm_name x p n t) = adel (x, p, n) (flat_tree t).
Proof.
  induction t as [|e t IH]; [reflexivity|].
  unfold rm_name in *. cbn [map]. rewrite !flat_tree_cons, adel_app, IH, adel_flat_dirs.
  destruct (bytes_eqb (fst e) x); reflexivity.
Qed.

(** ---- membership ---- *)
Lemma existsb_flat_files x p n e d fs :
  existsb (fun kv => key_eqb (x, p, n) (fst kv)) (flat_files e d fs)
  = bytes_eqb e x && bytes_eqb d p && existsb (fun f => bytes_eqb (fst f) n) fs.
Proof.
  induction fs as [|f fs IH].
  - cbn. now rewrite andb_false_r.
  - change (flat_files e d (f :: fs)) with (((e, d, fst f), snd f) :: flat_files e d fs).
    cbn [existsb]. rewrite IH. cbn [fst key_eqb].
    rewrite (bytes_eqb_sym x e), (bytes_eqb_sym p d), (bytes_eqb_sym n (fst f)).
    destruct (bytes_eqb e x), (bytes_eqb d p), (bytes_eqb (fst f) n); reflexivity.
Qed.

Lemma nmem_flat t x p n :
  nmem t (x, p, n) = existsb (fun kv => key_eqb (x, p, n) (fst kv)) (flat_tree t).
Proof.
  induction t as [|e t IH]; [reflexivity|].
  rewrite flat_tree_cons, existsb_app. cbn [nmem existsb] in *. rewrite IH. f_equal.
  induction (snd e) as [|d ds IHd].
  - cbn. now rewrite andb_false_r.
  - unfold flat_dirs in *. cbn [flat_map existsb]. rewrite existsb_app, existsb_flat_files, <- IHd.
    destruct (bytes_eqb (fst e) x), (bytes_eqb (fst d) p); reflexivity.
Qed.

Lemma existsb_alookup {V} k (l : list (key * V)) :
  existsb (fun kv => key_eqb k (fst kv)) l = match alookup k l with Some _ => true | None => false end.
Proof.
  induction l as [|[k' v] l IH]; [reflexivity|]. cbn [existsb alookup fst].
  destruct (key_eqb k k'); [reflexivity|assumption].
Qed.

(** ---- popping empty dicts ---- *)
Definition dirs_empty (p : bytes) (ds : list (bytes * list (bytes * info))) : bool :=
  forallb (fun d => if bytes_eqb (fst d) p then is_nil (snd d) else true) ds.
Definition dirs_only (p : bytes) (ds : list (bytes * list (bytes * info))) : bool :=
  forallb (fun d => bytes_eqb (fst d) p) ds.

Lemma flat_dirs_pop e p ds : dirs_empty p ds = true ->
  flat_dirs e (filter (fun d => negb (bytes_eqb (fst d) p)) ds) = flat_dirs e ds.
Proof.
  induction ds as [|d ds IH]; [reflexivity|]. unfold dirs_empty, flat_dirs in *. cbn [forallb filter flat_map].
  intros H. apply andb_prop in H as [Hd Hs]. destruct (bytes_eqb (fst d) p); cbn [negb].
  - destruct (snd d); [|discriminate]. cbn. now apply IH.
  - cbn [flat_map]. now rewrite IH.
Qed.

Lemma flat_dirs_nil e p ds : dirs_empty p ds = true -> dirs_only p ds = true -> flat_dirs e ds = [].
Proof.
  induction ds as [|d ds IH]; [reflexivity|]. unfold dirs_empty, dirs_only, flat_dirs in *. cbn [forallb flat_map].
  intros H1 H2. apply andb_prop in H1 as [Hd Hs]. apply andb_prop in H2 as [Hp Ho]. rewrite Hp in Hd.
  destruct (snd d); [|discriminate]. cbn. now apply IH.
Qed.

Lemma flat_pop_folder x p t : files_empty x p t = true -> flat_tree (pop_folder x p t) = flat_tree t.
Proof.
  induction t as [|e t IH]; [reflexivity|]. unfold files_empty, pop_folder in *. cbn [forallb map].
  intros H. apply andb_prop in H as [He Ht]. rewrite !flat_tree_cons, (IH Ht).
  destruct (bytes_eqb (fst e) x); [|reflexivity]. cbn [fst snd]. now rewrite (flat_dirs_pop _ _ _ He).
Qed.

Lemma flat_pop_ext x p t : files_empty x p t = true -> others_none x p t = true ->
  flat_tree (pop_ext x t) = flat_tree t.
Proof.
  induction t as [|e t IH]; [reflexivity|]. unfold files_empty, others_none, pop_ext in *. cbn [forallb filter].
  intros H1 H2. apply andb_prop in H1 as [He Ht]. apply andb_prop in H2 as [Ho Hot].
  destruct (bytes_eqb (fst e) x); cbn [negb].
  - rewrite flat_tree_cons, (flat_dirs_nil _ _ _ He Ho). cbn [app]. now apply IH.
  - rewrite !flat_tree_cons. now rewrite IH.
Qed.

Lemma pop_ext_pop_folder x p t : pop_ext x (pop_folder x p t) = pop_ext x t.
Proof.
  induction t as [|e t IH]; [reflexivity|]. unfold pop_ext, pop_folder in *. cbn [map filter].
  destruct (bytes_eqb (fst e) x) eqn:E; cbn [fst]; rewrite E; cbn [negb]; now rewrite IH.
Qed.

Lemma prog_safe_at p fe oth0 : prog_safe p = true -> safe_at p fe oth0 = true.
Proof.
  unfold prog_safe. intros H. apply andb_prop in H as [H H4]. apply andb_prop in H as [H H3]. apply andb_prop in H as [H1 H2].
  destruct fe, oth0; assumption.
Qed.

(** The nested delete is the flat delete. *)
Theorem ndel_is_adel prog : prog_safe prog = true -> forall t k,
  match ndel prog t k with
  | Some t' => alookup k (flat_tree t) <> None /\ flat_tree t' = adel k (flat_tree t)
  | None => alookup k (flat_tree t) = None
  end.
Proof.
  intros Hs t [[x p] n]. unfold ndel. rewrite nmem_flat, existsb_alookup.
  destruct (alookup (x, p, n) (flat_tree t)) as [i|] eqn:L; [|reflexivity].
  pose proof (prog_safe_at prog (files_empty x p (rm_name x p n t)) (others_none x p (rm_name x p n t)) Hs) as Hat.
  unfold safe_at in Hat.
  destruct (outcome prog _ _ false false) as [[fp ep]|]; [|discriminate].
  apply andb_prop in Hat as [Hfp Hep]. split; [discriminate|].
  rewrite <- flat_rm_name.
  destruct ep.
  - cbn [implb] in Hep. apply andb_prop in Hep as [Hfe Ho].
    destruct fp.
    + rewrite pop_ext_pop_folder. now apply flat_pop_ext with (p := p).
    + now apply flat_pop_ext with (p := p).
  - destruct fp; [|reflexivity]. cbn [implb] in Hfp. now apply flat_pop_folder.
Qed.

(** The pinned clean-up is accepted (and leaves no empty dict behind); the program of seeded fault c13_3 is not, and loses a file:
    deleting the only file of folder [a] with extension [t] also deletes [b/y.t]. *)
Example del_prog_pinned_safe : prog_safe del_prog_pinned = true /\ prog_tidy del_prog_pinned = true.
Proof. vm_compute. split; reflexivity. Qed.

Definition ex_info : info := mkInfo 0 [] None 0 0.
Definition ex_tree : tree := [([116], [([97], [([120], ex_info)]); ([98], [([121], ex_info)])])].
Example del_prog_c13_3_refuted :
  prog_safe del_prog_c13_3 = false
  /\ option_map (@flat_tree) (ndel del_prog_c13_3 ex_tree ([116], [97], [120])) = Some []
  /\ adel ([116], [97], [120]) (flat_tree ex_tree) = [(([116], [98], [121]), ex_info)]
  /\ option_map (@flat_tree) (ndel del_prog_pinned ex_tree ([116], [97], [120])) = Some [(([116], [98], [121]), ex_info)].
Proof. vm_compute. repeat split; reflexivity. Qed.

(** ---- on the table of the state machine: the nested dicts that hold the table [tb] are [tree_of tb] up to order ---- *)
From Coq Require Import Permutation.

Lemma adel_perm {V} k (l1 l2 : list (key * V)) : Permutation l1 l2 -> Permutation (adel k l1) (adel k l2).
Proof.
  induction 1 as [|[k' v] l l' _ IH|[k1 v1] [k2 v2] l|l l' l'' _ IH1 _ IH2]; cbn [adel].
  - constructor.
  - destruct (key_eqb k k'); [assumption|now constructor].
  - destruct (key_eqb k k1), (key_eqb k k2); try apply Permutation_refl. apply perm_swap.
  - now transitivity (adel k l').
Qed.

Lemma alookup_none_perm {V} k (l1 l2 : list (key * V)) : Permutation l1 l2 -> alookup k l1 = None -> alookup k l2 = None.
Proof.
  intros P H. apply alookup_None. apply alookup_None in H. intros Hin. apply H.
  apply Permutation_in with (l := map fst l2); [|assumption]. apply Permutation_map. now apply Permutation_sym.
Qed.

Theorem ndel_tree_of prog : prog_safe prog = true -> forall tb k,
  match ndel prog (tree_of tb) k with
  | Some t' => alookup k tb <> None /\ Permutation (flat_tree t') (adel k tb)
  | None => alookup k tb = None
  end.
Proof.
  intros Hs tb k. pose proof (ndel_is_adel prog Hs (tree_of tb) k) as H. pose proof (tree_of_perm tb) as P.
  destruct (ndel prog (tree_of tb) k) as [t'|].
  - destruct H as [Hl He]. split.
    + intros Hn. apply Hl. apply (alookup_none_perm k tb); [now apply Permutation_sym|assumption].
    + rewrite He. now apply adel_perm.
  - now apply (alookup_none_perm k _ tb P).
Qed.
