(** C18 — executable enumeration used by the exhaustive model/implementation tie (checks/c18.py).
    The harness asks Coq (vm_compute) for the Adler-32 checksum of the model's results over a whole block of
    paths, enumerated here in the same order as itertools.product does in Python, and compares it with
    zlib.adler32 of the implementation's results.  Nothing here is used by a theorem. *)
From Coq Require Import List NArith ZArith Uint63.
From SV Require Import SM.PathNorm.
Import ListNotations.

Fixpoint tuples {A} (n : nat) (alpha : list A) : list (list A) :=
  match n with
  | O => [[]]
  | S k => flat_map (fun x => map (cons x) (tuples k alpha)) alpha
  end.

(** separator pattern: 0 all '/', 1 all '\', 2 alternating starting with '/', 3 alternating starting with '\' *)
Definition joint (kind : N) (i : nat) : N :=
  match kind with
  | 0%N => sep
  | 1%N => bslash
  | 2%N => if Nat.even i then sep else bslash
  | _ => if Nat.even i then bslash else sep
  end.
Fixpoint join_kind (kind : N) (i : nat) (l : list str) : str :=
  match l with
  | [] => []
  | x :: r => match r with [] => x | _ => x ++ joint kind i :: join_kind kind (S i) r end
  end.
Definition paths_of (prefix : str) (kind : N) (alpha : list str) (n : nat) : list str :=
  map (fun t => prefix ++ join_kind kind 0 t) (tuples n alpha).

(** Adler-32 over the results, each followed by a newline. *)
Open Scope uint63_scope.
Definition ad_char (st : int * int) (c : N) : int * int :=
  let a := (fst st + of_Z (Z.of_N c)) mod 65521 in (a, (snd st + a) mod 65521).
Definition ad_str (st : int * int) (s : str) : int * int := ad_char (fold_left ad_char s st) 10%N.
Definition ad_fin (st : int * int) : int := (snd st << 16) lor fst st.
Definition block_adler (f : str -> str) (paths : list str) : int :=
  ad_fin (fold_left (fun st p => ad_str st (f p)) paths (1, 0)).
Definition case_adlers (f : str -> str) (paths : list str) : list int :=
  map (fun p => ad_fin (ad_str (1, 0) (f p))) paths.
Close Scope uint63_scope.

Definition bang : str := [33%N].
Definition enc_res (r : res) : str := match r with Ok a => a | Escape => bang end.
Definition enc_opt (r : option str) : str := match r with Some a => 61%N :: a | None => bang end.
(** model verdict for the oracle: 1 = Ok and inside, 2 = Ok and NOT inside (an escape), 0 = rejected *)
Definition verdict (raise_if : gx) (cwd root_arg p : str) : str :=
  match resolve raise_if true cwd root_arg p with
  | Escape => [48%N]
  | Ok a => if seg_prefixb (segs (abspath cwd root_arg)) (segs a) then [49%N] else [50%N]
  end.
