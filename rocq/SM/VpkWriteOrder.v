(** What a *rejected* [FileInfo.write] leaves behind.  translate/c13_place.py executes the method in the rejection scenarios (archive
    read-only / index argument out of range / both) for every combination of the deciding facts and records, per run, whether a validation
    raised, which one, and which stores had already been executed when it did ([wstore]: fields of the entry, footer_data, an archive file
    opened).  The distinct outcomes go to Gen/VpkPlace_gen.v as [g_rej_table].  [write_guarded_t] gives the table a meaning: the whole
    method (guards included) run from the placement table and the rejection table, a rejected call keeping exactly the stores the table
    lists.  VpkWriteOrderProofs.v: for tables accepted by [rej_table_ok] ("every validation that can reject precedes the first store")
    this is the OWrite case of [step] of SM/Vpk.v — a rejected write leaves archive and entry untouched — and for the table of seeded
    c13_7 (checksum stored before the index is validated) the rejected write leaves an entry that fails verify(). *)
From Coq Require Import List NArith Bool.
From SV Require Import Fmt.VpkDir SM.Vpk SM.VpkPlace SM.VpkPlaceTable.
Import ListNotations.
Open Scope N_scope.

Inductive wstore := SCrc | SPre | SIdx | SOff | SLen | SFoot | SArch | SOther.
Inductive rej_kind := KMode | KIndex | KBoth.
(** (directory VPK?, same checksum as before?, what is wrong, did a validation raise, which one, stores executed before it raised) *)
Record rejrow := mkRej { j_dir : bool; j_same : bool; j_kind : rej_kind; j_raised : bool; j_by : rej_kind; j_dirty : list wstore }.

Definition kind_eqb (a b : rej_kind) : bool := match a, b with KMode, KMode | KIndex, KIndex | KBoth, KBoth => true | _, _ => false end.
Definition rej_key (dir same : bool) (k : rej_kind) (r : rejrow) : bool :=
  Bool.eqb (j_dir r) dir && Bool.eqb (j_same r) same && kind_eqb (j_kind r) k.

(** every validation that can reject raises, it is the right one (mode before index), and nothing has been stored yet; a singular VPK
    ignores the index *)
Definition rej_row_ok (r : rejrow) : bool :=
  match j_kind r with
  | KIndex => if j_dir r then j_raised r && kind_eqb (j_by r) KIndex && lnil (j_dirty r) else negb (j_raised r)
  | _ => j_raised r && kind_eqb (j_by r) KMode && lnil (j_dirty r)
  end.
Definition rej_keys : list (bool * bool * rej_kind) :=
  flat_map (fun d => flat_map (fun s => map (fun k => (d, s, k)) [KMode; KIndex; KBoth]) [false; true]) [false; true].
Definition rej_covers (t : list rejrow) : bool :=
  forallb (fun x => let '(d, s, k) := x in existsb (rej_key d s k) t) rej_keys.
Definition rej_table_ok (t : list rejrow) : bool := forallb rej_row_ok t && rej_covers t.

(** one store of the completed write [new] applied to the current (archive, entry) *)
Definition copy_store (new : vstate * info) (cur : vstate * info) (s : wstore) : vstate * info :=
  let '(sn, i') := new in
  let '(sc, i) := cur in
  match s with
  | SCrc => (sc, mkInfo (icrc i') (ipre i) (iidx i) (ioff i) (ilen i))
  | SPre => (sc, mkInfo (icrc i) (ipre i') (iidx i) (ioff i) (ilen i))
  | SIdx => (sc, mkInfo (icrc i) (ipre i) (iidx i') (ioff i) (ilen i))
  | SOff => (sc, mkInfo (icrc i) (ipre i) (iidx i) (ioff i') (ilen i))
  | SLen => (sc, mkInfo (icrc i) (ipre i) (iidx i) (ioff i) (ilen i'))
  | SFoot => ({| tbl := tbl sc; archs := archs sc; foot := foot sn; disk := disk sc; md := md sc |}, i)
  | SArch => ({| tbl := tbl sc; archs := archs sn; foot := foot sc; disk := disk sc; md := md sc |}, i)
  | SOther => cur
  end.

Definition code_of (k : rej_kind) : N := match k with KIndex => rBadIndex | _ => rReadOnly end.

(** FileInfo.write with its validations, from the two tables: (archive, entry, result code) *)
Definition write_guarded_t (jt : list rejrow) (pt : list prow) (crc : bytes -> N) (cf : vcfg) (st : vstate) (i : info) (d : bytes)
  (ix : option N) : option (vstate * info * N) :=
  let same := crc d =? icrc i in
  let bad := negb (idx_ok cf ix) in
  let kind := if writable (md st) then (if bad then Some KIndex else None) else Some (if bad then KBoth else KMode) in
  match write_info_t pt crc cf st i d ix with
  | None => None
  | Some new =>
      match kind with
      | None => Some (new, rOk)
      | Some k =>
          match find (rej_key (v_is_dir cf) same k) jt with
          | None => None
          | Some r => if j_raised r then Some (fold_left (copy_store new) (j_dirty r) (st, i), code_of (j_by r)) else Some (new, rOk)
          end
      end
  end.

(** the OWrite case of [step] once the entry has been found *)
Definition write_guarded_model (crc : bytes -> N) (cf : vcfg) (st : vstate) (i : info) (d : bytes) (ix : option N) : vstate * info * N :=
  if negb (writable (md st)) then (st, i, rReadOnly)
  else if idx_rejected cf ix then (st, i, rBadIndex)
  else (write_info crc cf st i d ix, rOk).

(** the table of the pinned source, and the table of seeded c13_7 (`_check_arch_index` moved below `self.crc = new_checksum`) *)
Definition rej_table_pinned : list rejrow :=
  flat_map (fun d => flat_map (fun s =>
    [mkRej d s KMode true KMode []; mkRej d s KIndex d KIndex []; mkRej d s KBoth true KMode []]) [false; true]) [false; true].
Definition rej_table_late_check : list rejrow :=
  flat_map (fun d => flat_map (fun s =>
    [mkRej d s KMode true KMode []; mkRej d s KIndex (d && negb s) KIndex (if d && negb s then [SCrc] else []); mkRej d s KBoth true KMode []])
    [false; true]) [false; true].
