From Coq Require Import List PArith ZArith Bool String FMapPositive.
From SV Require Import SM.Store SM.StoreProofs SM.StoreCopy SM.StoreCopyProofs SM.StoreCert SM.StoreCertProofs.
Import ListNotations.
Open Scope positive_scope.

(** Non-vacuity of [census_copy_independent]: an object with an immutable field and a mutable vector,
    copied with (share, deep). *)
Definition ex_l  : list (loc * node) := [(1, Node true [VAtom 5; VRef 2]); (2, Node true [VAtom 1])].
Definition ex_l' : list (loc * node) := ex_l ++ [(3, Node true [VAtom 5; VRef 4]); (4, Node true [VAtom 1])].
Definition ex_census : census := [("name"%string, KImm, HShare); ("pos"%string, KMut, HDeep)].

Lemma ex_extends : extends (hof (mk_heap ex_l)) (hof (mk_heap ex_l')).
Proof.
  intros l nd H. apply find_mk_heap in H. cbn in H.
  destruct H as [H|[H|[]]]; inversion H; subst; reflexivity.
Qed.

Example census_copy_independent_applies :
  let h := hof (mk_heap ex_l) in let h' := hof (mk_heap ex_l') in
  (forall ms h'' R, steps (h', [3]) ms (h'', R) -> forall n, unfold n h'' (VRef 1) = unfold n h' (VRef 1)) /\
  (forall ms h'' R, steps (h', [1]) ms (h'', R) -> forall n, unfold n h'' (VRef 3) = unfold n h' (VRef 3)).
Proof.
  intros h h'.
  apply (census_copy_independent ex_census h h' 1 3 (Node true [VAtom 5; VRef 2]) (Node true [VAtom 5; VRef 4])).
  - apply heap_closed_sound. vm_compute. reflexivity.
  - apply heap_closed_sound. vm_compute. reflexivity.
  - exact ex_extends.
  - reflexivity.
  - reflexivity.
  - reflexivity.
  - reflexivity.
  - cbn. constructor; [intros l []| reflexivity |].
    constructor; [exact I | | constructor].
    cbn. intros l Hl _. cbn in Hl.
    destruct (reach_head _ _ _ Hl) as [->|(nd & r' & H1 & H2 & _)]; [reflexivity|].
    vm_compute in H1. inversion H1; subst nd. destruct H2 as [H2|[]]. discriminate.
Qed.
