(** Proofs about SM/IndexGlue.v: glue statement lists / shapes that pass their named obligations are the operations
    of the hand model (SM/IndexModel.v) for all arguments and states. *)
From stdpp Require Import gmap sets list.
From Coq Require Import NArith Lia.
From SV Require Import SM.IndexModel SM.IndexProofs SM.IndexShapes SM.IndexGlue.

Lemma dset_absent k v l : dget k l = None → dset k v l = l ++ [(k, v)].
Proof.
  induction l as [|[k0 v0] r IH]; simpl; [done|]. destruct (decide (k0 = k)); [done|]. intros H. by rewrite IH.
Qed.

Section glue.
  Variable fold : str → str.
  Hypothesis fold_nil : fold [] = [].
  Hypothesis fold_cn : fold cn = cn.
  Hypothesis fold_tn : fold tn = tn.
  Hypothesis fold_ws : fold ws = ws.

  (** ** VMF.__init__ *)
  Lemma g_steps_prefix l env loc : g_steps fold l env loc blank = g_steps fold (g_rest l) env loc blank.
  Proof.
    induction l as [|s r IH]; [done|]. simpl g_rest. destruct (is_fresh s) eqn:E; [|done].
    destruct s; try done; simpl; apply IH.
  Qed.

  Lemma init_core r1 r2 env :
    g_steps fold [GNewEnt GKNone; GAssignSpawn; GSetItem r1 cn ws; GAddTarget GTNone r2] env 0 blank = init ∧
    g_steps fold [GNewEnt GKNone; GAssignSpawn; GAddTarget GTNone r2; GSetItem r1 cn ws] env 0 blank = init.
  Proof.
    assert (Hs : ∀ bt, (set_item fold 0 cn ws (MS (<[0 := []]> ∅) 1 [] 0 ∅ bt)).1 = MS {[0 := [(cn, ws)]]} 1 [] 0 {[ws := {[0]}]} bt).
    { intros bt. set (s0 := MS (<[0 := []]> ∅) 1 [] 0 ∅ bt).
      assert (Hk : keys_of s0 0 = []) by (unfold keys_of, s0; simpl; by rewrite lookup_insert).
      unfold set_item. rewrite Hk. cbn [default kv_find kv_set]. rewrite fold_cn, fold_nil, fold_ws.
      rewrite (decide_True (P := cn = cn)) by done.
      rewrite (decide_False (P := 0 ∈ ents s0)) by (by intros ?%elem_of_nil).
      rewrite (decide_True (P := 0 = spawn s0)) by done.
      rewrite (decide_True (P := ws = ws)) by done.
      unfold s0, with_keys, upd_class. cbn [fst objs nobj ents spawn by_class by_target].
      f_equal; [by rewrite insert_insert|].
      unfold ix_add, ix_remove, ix_get. rewrite !lookup_empty. cbn [default]. by rewrite union_empty_r_L. }
    split; destruct r1, r2; cbn [g_steps g_step g_ref g_tk g_src new_ent update new_obj blank objs nobj ents spawn by_class by_target fst];
      unfold upd_target; cbn [objs nobj ents spawn by_class by_target];
      rewrite Hs; cbn [objs nobj ents spawn by_class by_target];
      unfold init; f_equal; unfold ix_add, ix_get; rewrite lookup_empty; cbn [default]; by rewrite union_empty_r_L.
  Qed.

  Theorem vmf_init_pg_ok l env : vmf_init_ok l = true → g_run fold l env blank = init.
  Proof.
    unfold vmf_init_ok, vmf_init_spawn_ok. rewrite andb_true_iff. intros [_ H]. unfold g_run. rewrite g_steps_prefix.
    repeat case_match; try done; apply andb_true_iff in H as [->%bool_decide_eq_true ->%bool_decide_eq_true];
      apply init_core.
  Qed.

  (** a store of the classname does not read or write the name index, nor the targetname: the two last statements of
      the worldspawn replacement may stand in either order *)
  Lemma set_item_cn_upd_target f e v st :
    (set_item fold e cn v (upd_target f st)).1 = upd_target f (set_item fold e cn v st).1.
  Proof.
    unfold set_item. rewrite fold_cn. rewrite (decide_True (P := cn = cn)) by done.
    change (keys_of (upd_target f st) e) with (keys_of st e). change (ents (upd_target f st)) with (ents st).
    change (spawn (upd_target f st)) with (spawn st).
    repeat case_decide; try congruence; reflexivity.
  Qed.
  Lemma set_item_cn_tgt e v st : tgt_of fold (set_item fold e cn v st).1 e = tgt_of fold st e.
  Proof.
    assert (Hk : ∀ v l, tgt_of_keys fold (kv_set fold cn v l) = tgt_of_keys fold l).
    { intros v' l. unfold tgt_of_keys. rewrite kv_find_set_ne; [done|]. rewrite fold_cn. done. }
    unfold set_item. rewrite fold_cn. rewrite (decide_True (P := cn = cn)) by done.
    unfold tgt_of. repeat case_decide; cbn [fst]; unfold keys_of, with_keys, upd_class; cbn [objs];
      rewrite ?lookup_insert; cbn [default]; unfold id; rewrite ?Hk; try done.
  Qed.

  (** ** VMF.parse: the worldspawn replacement *)
  Theorem parse_spawn_pg_ok l keys c st : parse_spawn_ok l = true →
    g_run fold l (GE keys c) st = replace_spawn fold keys st.
  Proof.
    unfold parse_spawn_ok, parse_drops_the_placeholder, parse_files_the_new_spawn, is_rem_class_old, is_rem_target_old.
    rewrite andb_true_iff. intros [H1 H2].
    repeat case_match; try done; simplify_eq;
      apply andb_true_iff in H2 as [->%bool_decide_eq_true ->%bool_decide_eq_true];
      apply orb_true_iff in H1 as [H1|H1]; apply andb_true_iff in H1 as [Ha Hb]; try done;
      try apply bool_decide_eq_true in Ha; try apply bool_decide_eq_true in Hb; simplify_eq;
      unfold g_run, replace_spawn;
      match goal with
      | |- context [GSetItem ?a _ _ :: GAddTarget (GTCur ?b) ?c :: _] => destruct a, b, c
      | |- context [GAddTarget (GTCur ?b) ?c :: GSetItem ?a _ _ :: _] => destruct a, b, c
      end;
      cbn [g_steps g_step g_ref g_tk g_src g_keys spawn objs nobj ents by_class by_target upd_class upd_target];
      rewrite ?set_item_cn_upd_target, ?set_item_cn_tgt;
      rewrite ?(proj1 (set_item_frame fold _ _ _ _)); cbn [spawn]; rewrite ?set_item_cn_tgt; reflexivity.
  Qed.

  (** the entity loop of parse and VMF.create_ent *)
  Theorem parse_ent_pg_ok l keys c st : parse_ent_ok l = true →
    g_run fold l (GE keys c) st = add_ent fold (nobj st) (new_ent fold keys st).
  Proof. unfold parse_ent_ok. intros ->%bool_decide_eq_true. reflexivity. Qed.
  Theorem create_ent_pg_ok l keys c st : create_ent_ok l = true → dget cn keys = None →
    g_run fold l (GE keys c) st = create_ent fold c keys st.
  Proof.
    unfold create_ent_ok. intros ->%bool_decide_eq_true Hk. unfold g_run, create_ent. cbn [g_steps g_step g_src g_ref g_keys g_cls].
    by rewrite (dset_absent _ _ _ Hk).
  Qed.

  Theorem parse_pg_ok pi ps pe sk ek :
    vmf_init_ok pi = true → parse_spawn_ok ps = true → parse_ent_ok pe = true →
    parse_pg fold pi ps pe sk ek = parse_init fold sk ek.
  Proof.
    intros Hi Hs He. unfold parse_pg, parse_init. rewrite (vmf_init_pg_ok _ _ Hi), (parse_spawn_pg_ok _ _ _ _ Hs).
    generalize (replace_spawn fold sk init). induction ek as [|l r IH]; intros st; [done|]. simpl.
    rewrite (parse_ent_pg_ok _ _ _ _ He). apply IH.
  Qed.

  (** ** Entity.__init__, Entity.pop *)
  Theorem new_ent_sh_ok sh l st : einit_ok sh = true → new_ent_sh fold sh l st = new_ent fold l st.
  Proof. unfold einit_ok, new_ent_sh. destruct (ei_store sh); rewrite ?andb_false_r; done. Qed.

  Lemma first_match_find kf l :
    match first_match (λ k, bool_decide (fold k = kf)) l with
    | Some k0 => fold k0 = kf ∧ is_Some (kv_find fold kf l)
    | None => kv_find fold kf l = None
    end.
  Proof.
    induction l as [|[k v] r IH]; simpl; [done|]. case_bool_decide as E.
    - rewrite decide_True by done. eauto.
    - rewrite decide_False by done. done.
  Qed.
  Lemma del_item_fold_eq e k k' st : fold k = fold k' → del_item fold e k st = del_item fold e k' st.
  Proof. intros E. unfold del_item. by rewrite E. Qed.

  Theorem pop_item_sh_ok sh e key st : (∀ s, fold (fold s) = fold s) → pop_ok sh = true →
    pop_item_sh fold sh e key st = pop_item fold e key st.
  Proof.
    intros Hidem. unfold pop_ok, pop_lookup_is_case_insensitive, pop_deletes_through_delitem, pop_item_sh, pop_item.
    rewrite !andb_true_iff. intros [[-> ->] Hd].
    pose proof (first_match_find (fold key) (keys_of st e)) as H.
    destruct (first_match _ _) as [k0|].
    - destruct H as [E [v ->]]. destruct (ps_del sh); try done; apply del_item_fold_eq; [done|apply Hidem].
    - by rewrite H.
  Qed.

  (** ** Entity.make_unique *)
  Lemma free_name_sh_ok fuel i base bt : free_name_sh fold true 1 fuel i base bt = free_name fold fuel i base bt.
  Proof. revert i. induction fuel as [|f IH]; intros i; [done|]. cbn [free_name_sh free_name]. unfold pk. destruct (decide _); [done|]. apply IH. Qed.

  Theorem make_unique_sh_ok sh e p st : mu_ok sh = true → make_unique_sh fold sh e p st = make_unique fold e p st.
  Proof.
    unfold mu_ok, mu_unique_test_ok, mu_clears_ok, mu_base_ok, mu_loop_ok. rewrite !andb_true_iff, !bool_decide_eq_true.
    intros [[[[[Hu1 Hu2] [Hc1 Hc2]] [Hb1 Hb2]] [[[Hs1 Hs2] Hl1] _]] _].
    unfold make_unique_sh, make_unique. rewrite Hu1, Hu2, Hc1, Hc2, Hb1, Hb2, Hs1, Hs2, Hl1. unfold pk.
    set (orig := default [] (kv_find fold tn (keys_of st e))).
    destruct (decide (orig ≠ [] ∧ ix_get (by_target st) (Some (fold orig)) = {[e]})) as [[H1 H2]|Hn].
    - rewrite bool_decide_eq_true_2 by done. rewrite bool_decide_eq_true_2 by done. done.
    - assert (bool_decide (orig ≠ []) && bool_decide (ix_get (by_target st) (Some (fold orig)) = {[e]}) = false) as ->.
      { apply andb_false_iff. destruct (decide (orig ≠ [])) as [Ho|Ho].
        - right. apply bool_decide_eq_false. tauto.
        - left. by apply bool_decide_eq_false. }
      destruct (decide (orig = [])) as [Ho|Ho].
      + case_decide; [done|]. by rewrite free_name_sh_ok.
      + destruct (set_item fold e tn [] st) as [st1 er1]. case_decide; [done|]. by rewrite free_name_sh_ok.
  Qed.
End glue.

(** Today's shapes pass. *)
Lemma glue_today_ok :
  vmf_init_ok vmf_init_today = true ∧ parse_spawn_ok parse_spawn_today = true ∧ parse_ent_ok glue_ent_today = true ∧
  create_ent_ok create_ent_today = true ∧ einit_ok einit_today = true ∧ copy_ok copy_today = true ∧
  pop_ok pop_today = true ∧ mu_ok mu_today = true.
Proof. repeat split; reflexivity. Qed.

(** ** Refutations by computed witnesses (ASCII folding) *)
Local Ltac not_in_index Hp :=
  (* Hp : e ∈ ix_get idx k, where the set computes to one not containing e *)
  apply elem_of_elements in Hp; revert Hp;
  match goal with |- _ ∈ ?l → _ => let l' := eval vm_compute in l in change l with l' end;
  rewrite ?elem_of_cons, elem_of_nil; naive_solver lia.

(** VMF.__init__ without `self.by_target[None].add(self.spawn)`: the worldspawn is present and unnamed but
    by_target[None] does not hold it. *)
Lemma vmf_init_forgets_target_refuted :
  vmf_init_containers_first vmf_init_forgets_target = true ∧ vmf_init_spawn_ok vmf_init_forgets_target = false ∧
  ¬ Inv ascii_fold (g_run ascii_fold vmf_init_forgets_target env0 blank).
Proof.
  split; [reflexivity|]. split; [reflexivity|]. intros HI.
  pose proof (proj2 (inv_by_target ascii_fold _ None 0 HI)) as Hp.
  assert (H0 : 0 ∈ ix_get (by_target (g_run ascii_fold vmf_init_forgets_target env0 blank)) None).
  { apply Hp. split; [left; vm_compute; reflexivity|vm_compute; reflexivity]. }
  not_in_index H0.
Qed.

(** VMF.parse assigning the new spawn before it takes the placeholder out of the indexes: the removals then hit the
    new spawn, the placeholder (object 0, no longer the spawn, not in the entity list) stays under 'worldspawn'. *)
Lemma parse_spawn_assign_first_refuted :
  parse_drops_the_placeholder parse_spawn_assign_first = false ∧
  Inv ascii_fold (init) ∧
  ¬ Inv ascii_fold (g_run ascii_fold parse_spawn_assign_first (GE [] []) init).
Proof.
  split; [reflexivity|]. split; [by apply init_inv|]. intros HI.
  pose proof (proj1 (inv_by_class ascii_fold _ ws 0 HI)) as Hp.
  assert (H0 : 0 ∈ ix_get (by_class (g_run ascii_fold parse_spawn_assign_first (GE [] []) init)) ws).
  { apply elem_of_elements.
    match goal with |- _ ∈ ?l => let l' := eval vm_compute in l in change l with l' end.
    rewrite !elem_of_cons. naive_solver. }
  destruct (Hp H0) as [[Hs|He] _]; revert Hs || revert He.
  - vm_compute. done.
  - match goal with |- _ ∈ ?l → _ => let l' := eval vm_compute in l in change l with l' end. by intros ?%elem_of_nil.
Qed.

(** Entity.pop through `self._keys.pop(k)`: the name index is not told. *)
Lemma pop_direct_refuted :
  pop_deletes_through_delitem pop_direct = false ∧
  let st0 := run ascii_fold [CreateEnt [97]%N [(tn, [120]%N)]] init in
  let r := pop_item_sh ascii_fold pop_direct 1 tn st0 in
  Inv ascii_fold st0 ∧ r.2 = 0 ∧ keys_of r.1 1 = [(cn, [97]%N)] ∧ ¬ Inv ascii_fold r.1.
Proof.
  split; [reflexivity|]. split; [by apply run_inv, init_inv|]. split; [vm_compute; reflexivity|].
  split; [vm_compute; reflexivity|]. intros HI.
  pose proof (proj1 (inv_by_target ascii_fold _ (Some [120]%N) 1 HI)) as Hp.
  assert (H1 : 1 ∈ ix_get (by_target (pop_item_sh ascii_fold pop_direct 1 tn
                 (run ascii_fold [CreateEnt [97]%N [(tn, [120]%N)]] init)).1) (Some [120]%N)).
  { apply elem_of_elements.
    match goal with |- _ ∈ ?l => replace l with [1] by (vm_compute; reflexivity) end. apply elem_of_list_here. }
  destruct (Hp H1) as [_ Ht]. revert Ht.
  match goal with |- ?t = _ → _ => replace t with (@None str) by (vm_compute; reflexivity) end. done.
Qed.

(** Entity.__init__ filling the key dict directly: two spellings of one key survive in the key list. *)
Lemma einit_direct_refuted :
  einit_ok einit_direct = false ∧
  ¬ Inv ascii_fold (new_ent_sh ascii_fold einit_direct [([65]%N, [120]%N); ([97]%N, [121]%N)] init).
Proof.
  split; [reflexivity|]. intros HI. pose proof (inv_keys _ _ HI 1) as Hk. revert Hk.
  unfold fold_nodup.
  match goal with |- NoDup ?l → _ => let l' := eval vm_compute in l in change l with l' end.
  intros Hn. apply NoDup_cons in Hn as [Hn _]. apply Hn. apply elem_of_list_here.
Qed.

(** make_unique looking the candidate up in its own spelling: a name that is taken in another letter case is handed
    out again (the indexes stay consistent - this concerns the uniqueness of names, not property C07 itself). *)
Lemma mu_unfolded_cand_differs :
  mu_loop_ok mu_unfolded_cand = false ∧
  let st0 := run ascii_fold [CreateEnt [97]%N [(tn, [88]%N)]; CreateEnt [97]%N [(tn, [88;49]%N)]; CreateEnt [97]%N [(tn, [88]%N)]] init in
  kv_find ascii_fold tn (keys_of (make_unique_sh ascii_fold mu_unfolded_cand 3 [] st0).1 3) = Some [88;49]%N ∧
  kv_find ascii_fold tn (keys_of (make_unique ascii_fold 3 [] st0).1 3) = Some [88;50]%N.
Proof. split; [reflexivity|]. split; vm_compute; reflexivity. Qed.
