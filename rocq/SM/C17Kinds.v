(** C17 — the contract [respects] of SM/C17Whole.v narrowed to a per-statement classification that is GENERATED.

    translate/c17_formulas.py gives every numbered site of the skeleton of collapse_one (statement, test of an `if`,
    header of a `for`, update of the module-level set) a kind, decided syntactically from where the names bound to
    template objects (`file`, the loop variables over `file.vmf.*`, the locals bound from `file.proxy_*[...]`) occur:

      [KdLocal]      no template object is mentioned: the statement works on the values in hand only;
      [KdRead]       template objects are mentioned only in reading positions (attribute / item loads that are compared,
                    tested, used as a key, iterated over, formatted, or - when C09's census says the field is immutable -
                    kept), or handed to a function of vmf.py whose body only reads that parameter;
      [KdCopy cls]   as [KdRead], and `<template object of class cls>.copy(...)` is called;
      [KdOther]      anything else (a store / del / augmented assignment through a template object, a mutating or unknown
                    method called on one, a template object handed out, kept or returned).

    [follows] is what is still assumed about the meaning of a statement, kind by kind (it is all that is left of
    [respects]; an [KdOther] statement is not constrained at all):
      heap    [KdLocal], [KdRead]: the statement changes the heap by in-place stores and allocations through the
              references the code holds ([steps] of SM/Store.v) - it never builds a copy;
              [KdCopy cls]: [disciplined] with [cls] as the only copied class;
      values  [KdLocal]: what the statement computes (next values, raises or not, condition, loop count, the update of
              the module-level state) is a function of the values in hand - the heap is not looked at;
              [KdRead], [KdCopy]: ... of the values in hand and the VALUE of the template ([alike]).
    [kinds_ok]: every site of the skeleton is in the table, no entry is [KdOther], every copied class is one of the
    generated list of copied classes.  SM/C17KindsProofs.v: [kinds_ok] + [follows] give [respects]. *)
From Coq Require Import List Bool String Arith.
From SV Require Import SM.Store SM.StoreCopy SM.C17Frame SM.C17Global SM.C17Whole.
Import ListNotations.

Inductive skind := KdLocal | KdRead | KdCopy (cls : string) | KdOther.

Definition kind_table := list (nat * skind).

Fixpoint kind_of (tbl : kind_table) (i : nat) : option skind :=
  match tbl with
  | [] => None
  | (j, k) :: r => if Nat.eqb j i then Some k else kind_of r i
  end.

(** the numbered sites of a skeleton *)
Fixpoint sites (p : skel) : list nat :=
  match p with
  | KNil | KLog | KJump _ => []
  | KSeq a b => sites a ++ sites b
  | KEff i | KTainted i | KUpd i => [i]
  | KIf (TOther i) a b | KIf (TGlobal i) a b => i :: sites a ++ sites b
  | KLoop i b => i :: sites b
  | KTry a b c => sites a ++ sites b ++ sites c
  | KCall c => sites c
  end.

Definition kind_ok (copied : list string) (k : skind) : bool :=
  match k with
  | KdLocal | KdRead => true
  | KdCopy cls => existsb (String.eqb cls) copied
  | KdOther => false
  end.

Definition kinds_ok (tbl : kind_table) (copied : list string) (body : skel) : bool :=
  forallb (fun e => kind_ok copied (snd e)) tbl &&
  forallb (fun i => match kind_of tbl i with Some _ => true | None => false end) (sites body).

(** census for the evidence *)
Definition count_kind (f : skind -> bool) (tbl : kind_table) : nat := List.length (filter (fun e => f (snd e)) tbl).
Definition is_local k := match k with KdLocal => true | _ => false end.
Definition is_read k := match k with KdRead => true | _ => false end.
Definition is_copy k := match k with KdCopy _ => true | _ => false end.
Definition is_other k := match k with KdOther => true | _ => false end.

(** The values a statement keeps from template objects (`out.target = proxy_out.target`, `ids[old_ent.id] = ...`,
    the elements of `old_ent.visgroup_ids`): (class, field, element?) - by C09's census the field must hold an
    immutable value, or be a container of immutable values when it is the elements that are kept. *)
Definition kept_ok (all : list (string * census)) (e : string * string * bool) : bool :=
  let '(cls, f, elem) := e in
  match lookup_census all cls with
  | None => false
  | Some c =>
      existsb (fun r => let '(n, k, _) := r in
                 String.eqb n f &&
                 match k, elem with
                 | (KImm | KId), false => true
                 | KCont false, true => true
                 | _, _ => false
                 end) c
  end.
Definition kept_reads_immutable (all : list (string * census)) (l : list (string * string * bool)) : bool :=
  forallb (kept_ok all) l.

Section Follows.
  Variable all : list (string * census).
  Variables X G : Type.
  Variable a : loc.
  Variable tbl : kind_table.
  Variable m : sem (pstate X) G.

  Definition heap_by_kind (k : option skind) (s s1 : pstate X) : Prop :=
    match k with
    | Some (KdCopy cls) => disciplined all [cls] (p_heap _ s) (p_roots _ s) (p_heap _ s1) (p_roots _ s1)
    | Some KdOther => True
    | _ => exists ms, steps (p_heap _ s, p_roots _ s) ms (p_heap _ s1, p_roots _ s1)
    end.

  Definition val_by_kind (k : option skind) {B : Type} (f : pstate X -> B) : Prop :=
    match k with
    | Some KdOther => True
    | Some (KdRead | KdCopy _) => forall s s', alike X a s s' -> f s = f s'
    | _ => forall s s', p_x _ s = p_x _ s' -> f s = f s'
    end.

  Record follows : Prop := {
    f_eff_heap : forall i s, wf X a s -> heap_by_kind (kind_of tbl i) s (fst (eff _ _ m i s));
    f_teff_heap : forall i s g, wf X a s -> heap_by_kind (kind_of tbl i) s (fst (teff _ _ m i s g));
    f_next_heap : forall i s, wf X a s -> heap_by_kind (kind_of tbl i) s (next _ _ m i s);
    f_eff_val : forall i, val_by_kind (kind_of tbl i) (fun s => (p_x _ (fst (eff _ _ m i s)), snd (eff _ _ m i s)));
    f_teff_val : forall i g, val_by_kind (kind_of tbl i) (fun s => (p_x _ (fst (teff _ _ m i s g)), snd (teff _ _ m i s g)));
    f_next_val : forall i, val_by_kind (kind_of tbl i) (fun s => p_x _ (next _ _ m i s));
    f_cond_val : forall i, val_by_kind (kind_of tbl i) (cond _ _ m i);
    f_gcond_val : forall i g, val_by_kind (kind_of tbl i) (fun s => gcond _ _ m i s g);
    f_gupd_val : forall i g, val_by_kind (kind_of tbl i) (fun s => gupd _ _ m i s g);
    f_count_val : forall i, val_by_kind (kind_of tbl i) (count _ _ m i) }.
End Follows.
