(** Python dicts have no two entries with the same key; the association lists of SM/VpkNested.v can.  [tree_wf] states it for the three
    levels; it holds for the empty archive and is preserved by new_file ([nins]) and __delitem__ ([ndel]).  For such trees the first-match
    lookup of the nested dicts is the lookup in the list of files that __iter__ walks ([flat_tree]), that list has no file twice, and
    with the simulation relation of VpkNestedSim.v it is, as a set, the table of the state machine. *)
From Coq Require Import List NArith Bool Permutation.
From SV Require Import Fmt.VpkDir SM.Vpk SM.VpkProofs SM.VpkNested SM.VpkNestedProofs SM.VpkNestedMap SM.VpkNestedMapProofs SM.VpkNestedSim.
Import ListNotations.
Open Scope N_scope.

Definition files_wf (fs : list (bytes * info)) : Prop := NoDup (map fst fs).
Definition dirs_wf (ds : list (bytes * list (bytes * info))) : Prop := NoDup (map fst ds) /\ Forall (fun d => files_wf (snd d)) ds.
Definition tree_wf (t : tree) : Prop := NoDup (map fst t) /\ Forall (fun e => dirs_wf (snd e)) t.

Lemma tree_wf_nil : tree_wf [].
Proof. split; constructor. Qed.

(** ---- association lists with distinct keys ---- *)
Section b.
  Context {V : Type}.
  Lemma bset_keys_in k (v : V) l k' : In k' (map fst (bset k v l)) -> k' = k \/ In k' (map fst l).
  Proof.
    induction l as [|[k0 v0] l IH]; cbn [bset map fst In].
    - intros [H|[]]. now left.
    - destruct (bytes_eqb k k0) eqn:E; cbn [map fst In].
      + apply bytes_eqb_eq in E. subst. intros [H|H]; auto.
      + intros [H|H]; [auto|]. destruct (IH H); auto.
  Qed.
  Lemma bset_nodup k (v : V) l : NoDup (map fst l) -> NoDup (map fst (bset k v l)).
  Proof.
    induction l as [|[k0 v0] l IH]; cbn [bset map fst]; intros H.
    - constructor; [intros []|constructor].
    - inversion H as [|? ? Hn Hd]; subst. destruct (bytes_eqb k k0) eqn:E; cbn [map fst].
      + apply bytes_eqb_eq in E. subst. now constructor.
      + constructor; [|now apply IH]. intros Hin. destruct (bset_keys_in _ _ _ _ Hin) as [->|Hin']; [|contradiction].
        rewrite (proj2 (bytes_eqb_eq k k) eq_refl) in E. discriminate.
  Qed.
  Lemma bset_Forall (P : bytes * V -> Prop) k v l : (forall k', P (k', v)) -> Forall P l -> Forall P (bset k v l).
  Proof.
    intros Hv. induction 1 as [|[k0 v0] l Hp Hl IH]; cbn [bset]; [repeat constructor; apply Hv|].
    destruct (bytes_eqb k k0); constructor; auto.
  Qed.
  Lemma bget_In k (l : list (bytes * V)) v : bget k l = Some v -> In (k, v) l.
  Proof.
    induction l as [|[k0 v0] l IH]; cbn [bget]; [discriminate|]. destruct (bytes_eqb k k0) eqn:E.
    - intros [= <-]. apply bytes_eqb_eq in E. subst. now left.
    - intros H. right. now apply IH.
  Qed.
  Lemma bget_notin k (l : list (bytes * V)) : ~ In k (map fst l) -> bget k l = None.
  Proof.
    induction l as [|[k0 v0] l IH]; cbn [bget map fst In]; [reflexivity|]. intros H.
    destruct (bytes_eqb k k0) eqn:E; [apply bytes_eqb_eq in E; subst; exfalso; auto|]. apply IH. auto.
  Qed.
  Lemma filter_keys_in (q : bytes * V -> bool) l k : In k (map fst (filter q l)) -> In k (map fst l).
  Proof.
    induction l as [|e l IH]; cbn [filter map]; [auto|]. destruct (q e); cbn [map In]; intros H; [destruct H; auto|auto].
  Qed.
  Lemma filter_nodup (q : bytes * V -> bool) l : NoDup (map fst l) -> NoDup (map fst (filter q l)).
  Proof.
    induction l as [|e l IH]; cbn [filter map]; intros H; [constructor|]. inversion H as [|? ? Hn Hd]; subst.
    destruct (q e); cbn [map]; [|auto]. constructor; [|auto]. intros Hin. apply Hn. eapply filter_keys_in; eassumption.
  Qed.
  Lemma filter_Forall (P : bytes * V -> Prop) (q : bytes * V -> bool) l : Forall P l -> Forall P (filter q l).
  Proof. induction 1 as [|e l Hp Hl IH]; cbn [filter]; [constructor|]. destruct (q e); [constructor|]; auto. Qed.
  Lemma map_keys (f : bytes * V -> bytes * V) l : (forall e, fst (f e) = fst e) -> map fst (map f l) = map fst l.
  Proof. intros Hf. induction l as [|e l IH]; cbn [map]; [reflexivity|]. now rewrite Hf, IH. Qed.
End b.

(** ---- preserved by new_file ---- *)
Lemma dirs_wf_nil : dirs_wf [].
Proof. split; constructor. Qed.
Lemma files_wf_nil : files_wf [].
Proof. constructor. Qed.

Lemma tree_wf_bget t x ds : tree_wf t -> bget x t = Some ds -> dirs_wf ds.
Proof. intros [_ Hf] Hb. apply bget_In in Hb. rewrite Forall_forall in Hf. exact (Hf _ Hb). Qed.
Lemma dirs_wf_bget ds p fs : dirs_wf ds -> bget p ds = Some fs -> files_wf fs.
Proof. intros [_ Hf] Hb. apply bget_In in Hb. rewrite Forall_forall in Hf. exact (Hf _ Hb). Qed.

Theorem tree_wf_nins g1 g2 : goc_ok g1 = true -> goc_ok g2 = true -> forall t k i t',
  tree_wf t -> nins g1 g2 t k i = Some t' -> tree_wf t'.
Proof.
  intros H1 H2 t [[x p] n] i t' Hw. unfold nins. rewrite (goc_ok_step g1 x t H1), (goc_ok_step g2 p _ H2). intros [= E]. subst t'.
  assert (dirs_wf (match bget x t with Some v => v | None => [] end)) as Hds.
  { destruct (bget x t) eqn:E; [eapply tree_wf_bget; eassumption|apply dirs_wf_nil]. }
  set (ds := match bget x t with Some v => v | None => [] end) in *.
  assert (files_wf (match bget p ds with Some v => v | None => [] end)) as Hfs.
  { destruct (bget p ds) eqn:E; [eapply dirs_wf_bget; eassumption|apply files_wf_nil]. }
  destruct Hw as [Hn Hf]. split; [now apply bset_nodup|].
  apply bset_Forall; [|exact Hf]. intros k0. cbn [snd]. pose proof (proj1 Hds) as Hdn. pose proof (proj2 Hds) as Hdf. split; [now apply bset_nodup|].
  apply bset_Forall; [|exact Hdf]. intros k1. cbn [snd]. now apply bset_nodup.
Qed.

(** ---- preserved by __delitem__ ---- *)
Lemma tree_wf_rm_name x p n t : tree_wf t -> tree_wf (rm_name x p n t).
Proof.
  intros [Hn Hf]. unfold rm_name. split.
  - rewrite map_keys; [exact Hn|]. intros e. now destruct (bytes_eqb (fst e) x).
  - apply Forall_map. eapply Forall_impl; [|exact Hf]. intros e [Hdn Hdf]. destruct (bytes_eqb (fst e) x); [|now split]. cbn [snd]. split.
    + rewrite map_keys; [exact Hdn|]. intros d. now destruct (bytes_eqb (fst d) p).
    + apply Forall_map. eapply Forall_impl; [|exact Hdf]. intros d Hd. destruct (bytes_eqb (fst d) p); [|exact Hd]. cbn [snd].
      now apply filter_nodup.
Qed.
Lemma tree_wf_pop_folder x p t : tree_wf t -> tree_wf (pop_folder x p t).
Proof.
  intros [Hn Hf]. unfold pop_folder. split.
  - rewrite map_keys; [exact Hn|]. intros e. now destruct (bytes_eqb (fst e) x).
  - apply Forall_map. eapply Forall_impl; [|exact Hf]. intros e [Hdn Hdf]. destruct (bytes_eqb (fst e) x); [|now split]. cbn [snd].
    split; [now apply filter_nodup|now apply filter_Forall].
Qed.
Lemma tree_wf_pop_ext x t : tree_wf t -> tree_wf (pop_ext x t).
Proof. intros [Hn Hf]. unfold pop_ext. split; [now apply filter_nodup|now apply filter_Forall]. Qed.

Theorem tree_wf_ndel prog t k t' : tree_wf t -> ndel prog t k = Some t' -> tree_wf t'.
Proof.
  destruct k as [[x p] n]. intros Hw. unfold ndel. destruct (nmem t (x, p, n)); [|discriminate].
  destruct (outcome prog _ _ false false) as [[fp ep]|]; [|discriminate]. intros [= E]. subst t'.
  pose proof (tree_wf_rm_name x p n t Hw) as H1.
  destruct ep; [apply tree_wf_pop_ext|]; (destruct fp; [now apply tree_wf_pop_folder|exact H1]).
Qed.

(** ---- for trees without shadowed entries the first-match lookup is the lookup in the list __iter__ walks ---- *)
Lemma alookup_app {V} k (a b : list (key * V)) :
  alookup k (a ++ b) = match alookup k a with Some v => Some v | None => alookup k b end.
Proof. induction a as [|[k0 v0] a IH]; cbn [app alookup]; [reflexivity|]. destruct (key_eqb k k0); [reflexivity|exact IH]. Qed.

Lemma alookup_flat_files x p n e d fs :
  alookup (x, p, n) (flat_files e d fs) = if bytes_eqb x e && bytes_eqb p d then bget n fs else None.
Proof.
  induction fs as [|[n0 i0] fs IH]; unfold flat_files in *; cbn [map alookup bget fst snd key_eqb].
  - now destruct (bytes_eqb x e && bytes_eqb p d).
  - rewrite IH. destruct (bytes_eqb x e), (bytes_eqb p d); cbn [andb]; reflexivity.
Qed.

Lemma alookup_flat_dirs x p n e ds : NoDup (map fst ds) ->
  alookup (x, p, n) (flat_dirs e ds) =
  if bytes_eqb x e then match bget p ds with Some fs => bget n fs | None => None end else None.
Proof.
  induction ds as [|[p0 fs0] ds IH]; intros Hn; unfold flat_dirs in *; cbn [flat_map map fst snd bget].
  - now destruct (bytes_eqb x e).
  - inversion Hn as [|? ? Hni Hnd]; subst. rewrite alookup_app, alookup_flat_files, (IH Hnd).
    destruct (bytes_eqb x e); cbn [andb]; [|reflexivity].
    destruct (bytes_eqb p p0) eqn:E; [|reflexivity]. apply bytes_eqb_eq in E. subst p0.
    rewrite (bget_notin p ds Hni). now destruct (bget n fs0).
Qed.

Theorem alookup_flat_tree t k : tree_wf t -> alookup k (flat_tree t) = nlookup t k.
Proof.
  destruct k as [[x p] n]. induction t as [|[x0 ds0] t IH]; intros [Hn Hf]; [reflexivity|].
  inversion Hn as [|? ? Hni Hnd]; subst. inversion Hf as [|? ? [Hdn Hdf] Hft]; subst. cbn [snd] in *.
  rewrite flat_tree_cons, alookup_app. cbn [fst snd]. rewrite (alookup_flat_dirs x p n x0 ds0 Hdn).
  unfold nlookup in *. cbn [bget]. destruct (bytes_eqb x x0) eqn:E.
  - apply bytes_eqb_eq in E. subst x0. rewrite (IH (conj Hnd Hft)), (bget_notin x t Hni).
    destruct (bget p ds0) as [fs|]; [|reflexivity]. now destruct (bget n fs).
  - exact (IH (conj Hnd Hft)).
Qed.

(** ---- ... and no file is listed twice ---- *)
Lemma NoDup_app_intro {A} (a b : list A) : NoDup a -> NoDup b -> (forall x, In x a -> ~ In x b) -> NoDup (a ++ b).
Proof.
  induction a as [|x a IH]; cbn [app]; intros Ha Hb Hd; [exact Hb|]. inversion Ha as [|? ? Hx Ha']; subst.
  constructor.
  - intros Hin. apply in_app_or in Hin as [Hin|Hin]; [contradiction|]. exact (Hd x (or_introl eq_refl) Hin).
  - apply IH; auto. intros y Hy. apply Hd. now right.
Qed.

Lemma flat_files_keys e d fs k : In k (map fst (flat_files e d fs)) -> exists n, k = (e, d, n) /\ In n (map fst fs).
Proof.
  unfold flat_files. rewrite map_map. cbn [fst]. intros H. apply in_map_iff in H as (f & <- & Hf). exists (fst f). split; [reflexivity|].
  now apply in_map.
Qed.
Lemma flat_files_nodup e d fs : files_wf fs -> NoDup (map fst (flat_files e d fs)).
Proof.
  unfold files_wf, flat_files. rewrite map_map. cbn [fst]. induction fs as [|[n0 i0] fs IH]; cbn [map fst]; intros H; [constructor|].
  inversion H as [|? ? Hn Hd]; subst. constructor; [|auto]. intros Hin. apply in_map_iff in Hin as (f & Ef & Hf). injection Ef as Ef.
  apply Hn. rewrite <- Ef. now apply in_map.
Qed.
Lemma flat_dirs_keys e ds k : In k (map fst (flat_dirs e ds)) -> exists d n, k = (e, d, n) /\ In d (map fst ds).
Proof.
  unfold flat_dirs. induction ds as [|[p0 fs0] ds IH]; cbn [flat_map map fst snd]; [intros []|]. rewrite map_app. intros H.
  apply in_app_or in H as [H|H].
  - apply flat_files_keys in H as (n & -> & _). exists p0, n. split; [reflexivity|now left].
  - destruct (IH H) as (d & n & -> & Hd). exists d, n. split; [reflexivity|now right].
Qed.
Lemma flat_dirs_nodup e ds : dirs_wf ds -> NoDup (map fst (flat_dirs e ds)).
Proof.
  unfold flat_dirs. induction ds as [|[p0 fs0] ds IH]; intros [Hn Hf]; cbn [flat_map map fst snd]; [constructor|].
  inversion Hn as [|? ? Hni Hnd]; subst. inversion Hf as [|? ? Hfs Hft]; subst. cbn [snd] in *. rewrite map_app.
  apply NoDup_app_intro; [now apply flat_files_nodup|apply IH; now split|].
  intros k Hk Hk'. apply flat_files_keys in Hk as (n & -> & _). apply (flat_dirs_keys e ds) in Hk' as (d & n' & Ek & Hd).
  injection Ek as -> _. contradiction.
Qed.
Lemma flat_tree_keys t k : In k (map fst (flat_tree t)) -> In (fst (fst k)) (map fst t).
Proof.
  induction t as [|[x0 ds0] t IH]; [intros []|]. rewrite flat_tree_cons, map_app. cbn [fst snd map]. intros H.
  apply in_app_or in H as [H|H].
  - apply flat_dirs_keys in H as (d & n & -> & _). now left.
  - right. now apply IH.
Qed.
Theorem flat_tree_nodup t : tree_wf t -> NoDup (map fst (flat_tree t)).
Proof.
  induction t as [|[x0 ds0] t IH]; intros [Hn Hf]; [constructor|].
  inversion Hn as [|? ? Hni Hnd]; subst. inversion Hf as [|? ? Hds Hft]; subst. cbn [snd] in *.
  rewrite flat_tree_cons, map_app. cbn [fst snd]. apply NoDup_app_intro; [now apply flat_dirs_nodup|apply IH; now split|].
  intros k Hk Hk'. apply flat_dirs_keys in Hk as (d & n & -> & _). apply flat_tree_keys in Hk'. cbn [fst] in Hk'. contradiction.
Qed.

(** ---- with the simulation relation: what __iter__ walks is the table ---- *)
Theorem wf_walk_is_table t tb : tree_wf t -> nrel t tb -> NoDup (map fst tb) ->
  Permutation (map fst (flat_tree t)) (map fst tb) /\ forall k, alookup k (flat_tree t) = alookup k tb.
Proof.
  intros Hw R Hnd. assert (forall k, alookup k (flat_tree t) = alookup k tb) as L by (intros k; now rewrite alookup_flat_tree, R).
  split; [|exact L]. apply NoDup_Permutation; [now apply flat_tree_nodup|exact Hnd|]. intros k. specialize (L k). split; intros Hin.
  - destruct (alookup k tb) as [v|] eqn:E; [apply alookup_In in E; apply (in_map fst) in E; exact E|].
    exfalso. assert (alookup k (flat_tree t) = None) as L' by congruence. apply alookup_None in L'. contradiction.
  - destruct (alookup k (flat_tree t)) as [v|] eqn:E; [apply alookup_In in E; apply (in_map fst) in E; exact E|].
    exfalso. assert (alookup k tb = None) as L' by congruence. apply alookup_None in L'. contradiction.
Qed.

(** ... and __delitem__ raises KeyError exactly when the table has no such file *)
Theorem wf_ndel_exact prog : prog_safe prog = true -> forall t tb k, tree_wf t -> nrel t tb ->
  (ndel prog t k = None <-> alookup k tb = None).
Proof.
  intros Hs t tb k Hw R. pose proof (ndel_is_adel prog Hs t k) as H. rewrite <- R, <- (alookup_flat_tree t k Hw).
  destruct (ndel prog t k); [|tauto]. destruct H as [H _]. split; [discriminate|contradiction].
Qed.

(** ---- every sequence of new_file / in-place updates / deletes, from the empty archive ---- *)
Inductive tbop := TSet (k : key) (i : info) | TDel (k : key).
Fixpoint tb_run (tb : list (key * info)) (ops : list tbop) : list (key * info) :=
  match ops with
  | [] => tb
  | TSet k i :: r => tb_run (aset k i tb) r
  | TDel k :: r => tb_run (adel k tb) r
  end.
(** on the nested dicts; a delete that raises KeyError changes nothing; [None] = an insertion raised *)
Fixpoint nt_run (g1 g2 : goc) (prog : dprog) (t : tree) (ops : list tbop) : option tree :=
  match ops with
  | [] => Some t
  | TSet k i :: r => match nins g1 g2 t k i with Some t' => nt_run g1 g2 prog t' r | None => None end
  | TDel k :: r => match ndel prog t k with Some t' => nt_run g1 g2 prog t' r | None => nt_run g1 g2 prog t r end
  end.

Lemma adel_absent {V} k (l : list (key * V)) : alookup k l = None -> adel k l = l.
Proof.
  induction l as [|[k0 v0] l IH]; cbn [alookup adel]; [reflexivity|]. destruct (key_eqb k k0); [discriminate|]. intros H. now rewrite IH.
Qed.

Theorem nested_history g1 g2 prog : goc_ok g1 = true -> goc_ok g2 = true -> prog_safe prog = true -> forall ops t tb,
  tree_wf t -> nrel t tb -> NoDup (map fst tb) ->
  exists t', nt_run g1 g2 prog t ops = Some t' /\ tree_wf t' /\ nrel t' (tb_run tb ops) /\ NoDup (map fst (tb_run tb ops)).
Proof.
  intros H1 H2 Hs. induction ops as [|[k i|k] ops IH]; intros t tb Hw R Hn; cbn [nt_run tb_run].
  - exists t. auto.
  - destruct (nrel_nins g1 g2 H1 H2 t tb k i R) as (t1 & E & R1). rewrite E.
    apply IH; [exact (tree_wf_nins g1 g2 H1 H2 t k i t1 Hw E)|exact R1|now apply aset_keys].
  - pose proof (nrel_ndel prog Hs t tb k R) as Hd. destruct (ndel prog t k) as [t1|] eqn:E.
    + apply IH; [exact (tree_wf_ndel prog t k t1 Hw E)|exact Hd|now apply adel_keys].
    + rewrite (adel_absent k tb Hd). now apply IH.
Qed.

(** From the empty archive: the nested dicts never raise on insertion, and what __iter__ walks afterwards is exactly the table the state
    machine holds after the same operations: the same names, none twice, each with the same entry. *)
Theorem nested_history_lists_table g1 g2 prog : goc_ok g1 = true -> goc_ok g2 = true -> prog_safe prog = true -> forall ops,
  exists t, nt_run g1 g2 prog [] ops = Some t
  /\ Permutation (map fst (flat_tree t)) (map fst (tb_run [] ops))
  /\ forall k, alookup k (flat_tree t) = alookup k (tb_run [] ops).
Proof.
  intros H1 H2 Hs ops.
  destruct (nested_history g1 g2 prog H1 H2 Hs ops [] [] tree_wf_nil nrel_nil (NoDup_nil _)) as (t & E & Hw & R & Hn).
  exists t. split; [exact E|]. now apply wf_walk_is_table.
Qed.
