(** C16 — what a copy shares with the original (round 5).

    EntityDef.engine_def() and FGD.engine_dbase() hand out `deepcopy` copies of the definitions that the lazily decoded engine
    database caches; "looking entities up one at a time gives the same definitions as the whole database" holds for a HISTORY of
    calls only if nothing a caller can change in place through such a copy is an object of the cached definition.
    EntityDef.__deepcopy__ is hand-written (field by field, for speed), so this is a property of its text.

    Values are trees of MUTABLE objects with an identity (address) over immutable leaves; a heap in which an address occurs
    twice is a shared object.  [ftype] is the shape a field's annotation promises, [cexpr] is how the copy of a field is
    produced (translate/c16_fgd.py reads both off the source), [do_copy] is what such an expression builds (fresh objects
    get addresses from [base] upwards), [isolates] is the decision procedure: does the expression re-create EVERY mutable
    layer the type has?  FgdCopyShareProofs: if it does, no address of the copy is an address of the original, hence
    no in-place change through the copy is visible in the original. *)
From Coq Require Import List NArith Bool.
Import ListNotations.
Open Scope N_scope.

(** the shape of a field: immutable (str, enum, bool, tuple, frozenset, frozen attrs class) / a container of elements of one
    shape (list, dict values, set) / an object with fields (KVDef, IODef: constructor order) / anything (EntityDef, Helper) *)
Inductive ftype := TImm | TColl (elem : ftype) | TObj (fields : list ftype) | TAny.
(** how a copy is produced: the same object / a new container with the same elements (`x.copy()`, `list(x)`, `dict(x)`) /
    `deepcopy(x)` or a constant / a comprehension that copies every element by [inner] / a constructor call whose arguments
    are produced by [fields] *)
Inductive cexpr := CShare | CShallow | CDeep | CMap (inner : cexpr) | CObj (fields : list cexpr).
Inductive val := VImm (n : N) | VMut (a : N) (kids : list val).

Definition is_imm (t : ftype) : bool := match t with TImm => true | _ => false end.

(** an immutable value (None, `()`) may stand wherever the annotation allows a container (Optional[list], Sequence) *)
Fixpoint has_type (t : ftype) (v : val) {struct v} : bool :=
  match v with
  | VImm _ => true
  | VMut _ ks =>
      match t with
      | TImm => false
      | TAny => true
      | TColl e => forallb (has_type e) ks
      | TObj fs =>
          (fix go (fs : list ftype) (ks : list val) {struct ks} : bool :=
             match fs, ks with
             | [], [] => true
             | f :: fs', k :: ks' => has_type f k && go fs' ks'
             | _, _ => false
             end) fs ks
      end
  end.

(** every object (address) reachable from a value *)
Fixpoint addrs (v : val) : list N :=
  match v with VImm _ => [] | VMut a ks => a :: flat_map addrs ks end.

(** what the copy expression builds; a new object for the one at address [a] gets the address [base + a] *)
Fixpoint do_copy (base : N) (e : cexpr) (v : val) {struct v} : val :=
  match v with
  | VImm n => VImm n
  | VMut a ks =>
      match e with
      | CShare => VMut a ks
      | CShallow => VMut (base + a) ks
      | CDeep => VMut (base + a) (map (do_copy base CDeep) ks)
      | CMap e' => VMut (base + a) (map (do_copy base e') ks)
      | CObj es =>
          VMut (base + a)
            ((fix zip (es : list cexpr) (ks : list val) {struct ks} : list val :=
                match ks with
                | [] => []
                | k :: ks' => match es with
                              | [] => k :: zip [] ks'
                              | e1 :: es' => do_copy base e1 k :: zip es' ks'
                              end
                end) es ks)
      end
  end.

(** does the expression re-create every mutable layer of the shape? *)
Fixpoint isolates (e : cexpr) (t : ftype) {struct e} : bool :=
  match t with
  | TImm => true
  | _ =>
      match e with
      | CDeep => true
      | CShare => false
      | CShallow => match t with TColl t' => is_imm t' | TObj ts => forallb is_imm ts | _ => false end
      | CMap e' => match t with TColl t' => isolates e' t' | _ => false end
      | CObj es =>
          match t with
          | TObj ts =>
              (fix go (es : list cexpr) (ts : list ftype) {struct es} : bool :=
                 match es, ts with
                 | [], [] => true
                 | e1 :: es', t1 :: ts' => isolates e1 t1 && go es' ts'
                 | _, _ => false
                 end) es ts
          | _ => false
          end
      end
  end.

(** an in-place change: the object at address [a] gets the content [new], wherever it is reachable from *)
Fixpoint update (a : N) (new : list val) (v : val) : val :=
  match v with
  | VImm n => VImm n
  | VMut b ks => if N.eqb a b then VMut b new else VMut b (map (update a new) ks)
  end.

(** the plan of a whole object copy: (field name as code points are not needed here: an index) shape and expression per field *)
Definition plan := list (ftype * cexpr).
Definition plan_isolates (p : plan) : bool := forallb (fun fe => isolates (snd fe) (fst fe)) p.
