(** Proofs about the entry of a writer that still holds a temp file (model: SM/AtomicAbandon.v). *)
From Coq Require Import List Bool Arith PeanoNat Lia.
From SV Require Import SM.AtomicWriter SM.AtomicWriterProofs SM.AtomicWriterThms SM.AtomicExit SM.AtomicReuse SM.AtomicRetry
  SM.AtomicRetryProofs SM.AtomicReuseProofs SM.AtomicAbandon.
Import ListNotations.

Lemma is_leaf_inv t : is_leaf t = true -> exists b, t = XDone b.
Proof. destruct t; cbn; try discriminate. eauto. Qed.
Lemma is_raise_inv t : is_raise t = true -> t = XDone true.
Proof. destruct t as [[]| | | |]; cbn; try discriminate. reflexivity. Qed.

Lemma upd_tmp_other (d : dir) j n : n <> Tmp j -> upd d (Tmp j) None n = d n.
Proof. intros H. unfold upd. rewrite name_eqb_neq by assumption. reflexivity. Qed.
Lemma upd_tmp_same (d : dir) j : upd d (Tmp j) None (Tmp j) = None.
Proof. unfold upd. rewrite name_eqb_refl. reflexivity. Qed.

(** A prologue that gives the old temp file up changes nothing but tmp_j, never ends outside the model, and goes on
    only when the close was not refused. *)
Lemma gives_up_run t : gives_up t = true -> forall j fs d,
  (exists b, snd (pro_run t j fs d) = Some b) /\
  (forall n, n <> Tmp j -> fst (pro_run t j fs d) n = d n) /\
  (fst (pro_run t j fs d) (Tmp j) = None \/ fst (pro_run t j fs d) (Tmp j) = d (Tmp j)) /\
  (snd (pro_run t j fs d) = Some false -> hd false fs = false).
Proof.
  intros H j fs d.
  destruct t as [| |ok fl| |]; cbn in H; try discriminate.
  destruct ok as [| | | |a b c]; try discriminate.
  destruct a as [[]| | | |]; try discriminate.
  apply andb_prop in H as [H Hfl]. apply andb_prop in H as [Hb Hc].
  apply is_leaf_inv in Hb as [rb ->]. apply is_leaf_inv in Hc as [rc ->].
  assert (Hfl' : fl = XDone true \/ fl = XUnlink (XDone true) (XDone true) (XDone true)).
  { destruct fl as [[]| | | |a b c]; cbn in Hfl; try discriminate; auto.
    apply andb_prop in Hfl as [Hx Hz]. apply andb_prop in Hx as [Hx Hy].
    apply is_raise_inv in Hx, Hy, Hz. subst. auto. }
  destruct fs as [|f1 [|f2 fs]]; try destruct f1; try destruct f2;
    destruct Hfl' as [-> | ->]; cbn; destruct (d (Tmp j)) eqn:E; cbn;
    (split; [eexists; reflexivity |
     split; [intros n Hn; try reflexivity; apply upd_tmp_other; assumption |
     split; [try (left; apply upd_tmp_same); try (right; reflexivity); try (left; assumption) |
             intros X; try reflexivity; try discriminate X]]]).
Qed.

Section Reentry.
Variable x : xproto.
Hypothesis Hok : retry_ok x = true.
Hypothesis Hout : proto_outcome_ok x = true.

(** Entering a writer that still holds tmp_j, then using it (one writer alone, any refused operations in the prologue
    and in the use): the prologue touches nothing but tmp_j; when it fails every file is as before; when it goes on,
    the use that follows is a good single use relative to the directory the prologue left — in particular the
    destination ends up with its previous content or with the complete new content of THIS use (the tokens written to a
    temp file created afresh by the temp-name loop), never with anything the abandoned attempt wrote. *)
Theorem reentry_then_good_use : forall t, gives_up t = true -> forall j fs d s faults,
  let d' := fst (pro_run t j fs d) in
  let r := snd (pro_run t j fs d) in
  let st := alonet x s faults d' in
  (exists b, r = Some b) /\
  (forall n, n <> Tmp j -> d' n = d n) /\
  (d' (Tmp j) = None \/ d' (Tmp j) = d (Tmp j)) /\
  (r = Some false ->
     good_use d' s st /\
     sdt st (File (dest s)) = (if committedt (q1 st) then Some (new s) else d (File (dest s)))).
Proof.
  intros t Ht j fs d s faults d' r st.
  destruct (gives_up_run t Ht j fs d) as (Hb & Hn & Hj & _).
  split; [exact Hb |]. split; [exact Hn |]. split; [exact Hj |].
  intros _. pose proof (retry_good_use x d' s Hok Hout faults) as Hg. fold st in Hg.
  split; [exact Hg |]. destruct Hg as (Hd & _). rewrite Hd.
  destruct (committedt (q1 st)); [reflexivity |]. apply Hn. discriminate.
Qed.
End Reentry.

(** The generated-object form: [reentry_ok o p] gives [gives_up] for the tree of every state with a handle. *)
Lemma reentry_ok_gives_up o p : reentry_ok o p = true -> forall a, In a (holding o) -> gives_up (reentry_tree o p a) = true.
Proof.
  unfold reentry_ok. intros H a Ha. apply andb_prop in H as [_ H]. rewrite forallb_forall in H. apply H. exact Ha.
Qed.

(** Examples: the prologue of rounds 1-4 and the repaired one both give the old temp file up; only the repaired one
    forgets the handle when the entry fails; the prologue that keeps an open handle (seeded c12_8) does neither — in the
    state "handle, temp name, destination" its tree is [XBad]: it returns before any temp file is created. *)
Lemma reentry_examples :
  reentry_ok obj_fixed prologue_r4 = true /\ reentry_forgets obj_fixed prologue_r4 = false /\
  reentry_ok obj_fixed prologue_r5 = true /\ reentry_forgets obj_fixed prologue_r5 = true /\
  entry_inert obj_fixed prologue_r5 = true /\
  reentry_ok obj_fixed prologue_keep_open_handle = false /\
  reentry_tree obj_fixed prologue_keep_open_handle [Some VTemp; Some VTName; Some VDest] = XBad /\
  reentry_tree obj_fixed prologue_r5 [Some VTemp; Some VTName; Some VDest]
    = XClose (XUnlink (XDone false) (XDone true) (XDone false)) (XUnlink (XDone true) (XDone true) (XDone true)).
Proof. vm_compute. auto 10. Qed.

(** The repaired prologue on a directory: the object holds tmp_1 (content [9]: what the abandoned attempt wrote); the
    prologue removes it and goes on; with the close refused the file is removed as well and the entry fails. *)
Lemma reentry_run_example :
  let t := reentry_tree obj_fixed prologue_r5 [Some VTemp; Some VTName; Some VDest] in
  let d := upd d_old (Tmp 1) (Some [9]) in
  snd (pro_run t 1 [] d) = Some false /\ fst (pro_run t 1 [] d) (Tmp 1) = None /\
  snd (pro_run t 1 [true] d) = Some true /\ fst (pro_run t 1 [true] d) (Tmp 1) = None /\
  fst (pro_run t 1 [] d) (File 0) = d_old (File 0).
Proof. vm_compute. auto 10. Qed.

(** ** The property for a generated object: every hypothesis is a boolean on generated objects
    ([o]: the writer class as read from the source — __exit__ program, attribute facts, open modes; [p]: the entry
    prologue of make_tempfile; [n]: the number of named OSError subclasses of the translator's table), except
    [dest s1 <> dest s2] (the property speaks of writers to different files), membership of the run class, and the
    well-formedness of the attribute states of a history ([hstates_ok]: constants keep their value). *)
Definition two_writer_property (x : xproto) : Prop :=
  forall d0 s1 s2, dest s1 <> dest s2 -> forall sched, let st := run2t x s1 s2 sched (startt d0) in
  (sdt st (File (dest s1)) = (if committedt (q1 st) then Some (new s1) else d0 (File (dest s1))) /\
   sdt st (File (dest s2)) = (if committedt (q2 st) then Some (new s2) else d0 (File (dest s2)))) /\
  (forall r l b, q1 st = TDone r l b ->
     b = negb (committedt (q1 st)) /\ (b = true -> sdt st (File (dest s1)) = d0 (File (dest s1)))) /\
  (forall r, raise_at s1 = Some r -> r <= length (body s1) -> committedt (q1 st) = false) /\
  (finishedt (q1 st) = true -> (forall i, ~ In (false, (EUnlink i, RFault)) (trt st)) ->
   assoct (q1 st) = None /\ forall i, assoct (q2 st) <> Some i -> sdt st (Tmp i) = d0 (Tmp i)) /\
  ((forall i, assoct (q1 st) = Some i -> assoct (q2 st) = Some i -> False) /\
   (forall i, assoct (q1 st) = Some i \/ assoct (q2 st) = Some i -> d0 (Tmp i) = None /\ sdt st (Tmp i) <> None) /\
   (forall i, about_to_replace (q1 st) i -> sdt st (Tmp i) = Some (new s1)) /\
   (forall i, about_to_replace (q2 st) i -> sdt st (Tmp i) = Some (new s2)) /\
   (forall n, n <> File (dest s1) -> n <> File (dest s2) -> d0 n <> None -> sdt st n = d0 n)).
Definition reentry_property (x : xproto) (t : xtree) : Prop :=
  forall j fs d s faults,
  let d' := fst (pro_run t j fs d) in
  let r := snd (pro_run t j fs d) in
  let st := alonet x s faults d' in
  (exists b, r = Some b) /\
  (forall n, n <> Tmp j -> d' n = d n) /\
  (d' (Tmp j) = None \/ d' (Tmp j) = d (Tmp j)) /\
  (r = Some false ->
     good_use d' s st /\
     sdt st (File (dest s)) = (if committedt (q1 st) then Some (new s) else d (File (dest s)))).

Theorem generated_object_property n o p r :
  all_classes n o (fun o' => retry_ok (obj_proto o') && proto_outcome_ok (obj_proto o') && reuse_indep o') = true ->
  reentry_ok o p = true -> In r (run_classes n) ->
  let o' := with_class r o in
  let x := obj_proto o' in
  two_writer_property x /\
  (proto_ok x = true -> forall h, hstates_ok o' h -> forall d, hist_good o' h d) /\
  (forall a, In a (holding o) -> reentry_property x (reentry_tree o p a)).
Proof.
  intros H Hp Hr o' x. unfold all_classes in H. rewrite forallb_forall in H. specialize (H r Hr).
  fold o' in H. apply andb_prop in H as [H Hi]. apply andb_prop in H as [Hok Hout]. fold x in Hok, Hout.
  split; [| split].
  - unfold two_writer_property. intros d0 s1 s2 Hd sched. exact (whole_property x d0 s1 s2 Hd Hok Hout sched).
  - intros Hpo h Hh d. exact (reuse_history_good o' Hi Hpo h Hh d).
  - intros a Ha. unfold reentry_property. intros j fs d s faults.
    exact (reentry_then_good_use x Hok Hout _ (reentry_ok_gives_up o p Hp a Ha) j fs d s faults).
Qed.

(** Today's class satisfies the hypotheses (8 named subclasses), with the prologue of rounds 1-4 and the repaired one. *)
Lemma generated_object_hypotheses_hold :
  all_classes 8 obj_fixed (fun o' => retry_ok (obj_proto o') && proto_outcome_ok (obj_proto o') && reuse_indep o') = true /\
  reentry_ok obj_fixed prologue_r5 = true /\ reentry_ok obj_fixed prologue_r4 = true /\
  all_classes 8 obj_fixed (fun o' => proto_ok (obj_proto o')) = true /\ holding obj_fixed <> [].
Proof. vm_compute. repeat split; discriminate. Qed.
