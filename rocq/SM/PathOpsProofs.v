(** C18 — proofs about SM/PathOps.v: every access site that hands the OS a _resolve_path result stays inside the
    root for every input (strings, File handles, chain prefixes); os.walk results stay inside; refutations of the
    two tempting shortcuts (trusting a handle because its name was validated; a chain prefix as a jail). *)
From Coq Require Import List NArith Bool Lia String.
From SV Require Import SM.PathNorm SM.PathNormProofs SM.PathOps.
Import ListNotations.
Open Scope N_scope.

Lemma is_resolved_inv e : is_resolved e = true -> exists e', e = PResolve e'.
Proof. destruct e; try discriminate. intros _. now eexists. Qed.

(** A resolved expression evaluates to something only through [resolve ... = Ok]. *)
Lemma peval_resolved g con cwd root_arg i e a :
  is_resolved e = true -> peval g con cwd root_arg i e = Some a ->
  exists s, resolve g con cwd root_arg s = Ok a.
Proof.
  intros H Hev. destruct (is_resolved_inv e H) as [e' ->]. cbn [peval] in Hev.
  destruct (peval g con cwd root_arg i e') as [s|]; [|discriminate].
  exists s. destruct (resolve g con cwd root_arg s); [|discriminate]. now inversion Hev.
Qed.

(** Every access of every operation, for every input whatsoever. *)
Theorem ops_accesses_inside g cwd root_arg (sites : list site) :
  raise_sound g = true -> is_abs cwd = true -> sites_ok sites = true ->
  forall s i a, In s sites -> peval g true cwd root_arg i (st_arg s) = Some a ->
    inside (abspath cwd root_arg) a.
Proof.
  intros Hg Hc Hok s i a Hin Hev. unfold sites_ok in Hok. rewrite forallb_forall in Hok.
  specialize (Hok s Hin). destruct (peval_resolved g true cwd root_arg i _ a Hok Hev) as [p Hp].
  exact (segprefix_guard_sound g cwd root_arg p a Hg Hc Hp).
Qed.

(** The executable access list used by the correspondence is covered by the theorem. *)
Corollary site_accesses_inside g cwd root_arg (sites : list site) :
  raise_sound g = true -> is_abs cwd = true -> sites_ok sites = true ->
  forall i m b c a, In (c, a) (site_accesses g cwd root_arg i m b sites) -> inside (abspath cwd root_arg) a.
Proof.
  intros Hg Hc Hok i m b c a Hin. unfold site_accesses in Hin. apply in_flat_map in Hin as (s & Hs & Hin).
  destruct (String.eqb (st_method s) m && String.eqb (st_branch s) b)%bool; [|contradiction].
  destruct (peval g true cwd root_arg i (st_arg s)) as [x|] eqn:E; [|contradiction].
  destruct Hin as [Hin|[]]. inversion Hin; subst. eapply ops_accesses_inside; eauto.
Qed.

(** File handles: whatever string a handle carries (built by this system from a name with the slashes changed,
    produced by an unconstrained system, or written by hand), the sites that consume it stay inside. *)
Corollary handle_consumers_inside g cwd root_arg (sites : list site) :
  raise_sound g = true -> is_abs cwd = true -> sites_ok (handle_sites sites) = true ->
  forall s data hpath i a, In s (handle_sites sites) ->
    peval g true cwd root_arg
      {| i_arg := i_arg i; i_data := data; i_hpath := hpath; i_prefix := i_prefix i; i_walked := i_walked i |}
      (st_arg s) = Some a ->
    inside (abspath cwd root_arg) a.
Proof. intros Hg Hc Hok s data hpath i a. apply ops_accesses_inside; assumption. Qed.

(** Lookup followed by an open of the returned handle: the handle stores [so_path]/[so_data] computed from the
    looked-up name (e.g. the name with backslashes replaced); the consumer's access is inside. *)
Corollary lookup_then_consume_inside g cwd root_arg (sites : list site) (st : store) :
  raise_sound g = true -> is_abs cwd = true -> sites_ok sites = true ->
  forall s i data hpath a, In s sites ->
    peval g true cwd root_arg i (so_data st) = Some data ->
    peval g true cwd root_arg i (so_path st) = Some hpath ->
    peval g true cwd root_arg
      {| i_arg := i_arg i; i_data := data; i_hpath := hpath; i_prefix := i_prefix i; i_walked := i_walked i |}
      (st_arg s) = Some a ->
    inside (abspath cwd root_arg) a.
Proof. intros Hg Hc Hok s i data hpath a Hin _ _. now apply ops_accesses_inside with (sites := sites). Qed.

(** FileSystemChain: it only calls member methods with strings computed from the prefix and the argument. *)
Theorem chain_accesses_inside g cwd root_arg (sites : list site) :
  raise_sound g = true -> is_abs cwd = true -> sites_ok sites = true ->
  forall c s i a, In s sites -> chain_access g cwd root_arg i c s = Some a ->
    inside (abspath cwd root_arg) a.
Proof.
  intros Hg Hc Hok c s i a Hin Hev. unfold chain_access in Hev.
  destruct (peval g true cwd root_arg i (cc_arg c)) as [x|]; [|discriminate].
  eapply ops_accesses_inside; eauto.
Qed.

(** ---------------------------------------------------------------- refutations (computed witnesses) *)
Open Scope string_scope.
(** The shortcut of seeded fault c18_2: open(os.path.join(self.path, self._get_data(file))) "because the handle
    was validated when it was produced".  _get_file validates [name] and stores [name.replace('\\','/')]. *)
Definition unsafe_open_site : site :=
  {| st_method := "open_bin"; st_callee := "open"; st_branch := "File"; st_arg := PJoin PSelfRoot PHandleData |}.

Theorem trusting_validated_name_refuted :
  exists cwd root_arg name validated data opened,
    is_abs cwd = true /\
    (* the lookup validates the name as given: it is a (literal) file name inside the root *)
    resolve guard_rstrip_sep true cwd root_arg name = Ok validated /\
    seg_prefixb (segs (abspath cwd root_arg)) (segs validated) = true /\
    (* the handle stores the name with the backslashes replaced *)
    peval guard_rstrip_sep true cwd root_arg
      {| i_arg := name; i_data := []; i_hpath := []; i_prefix := []; i_walked := [] |} (PUnbs PArg) = Some data /\
    (* the unvalidated open reaches a file that is not under the root *)
    peval guard_rstrip_sep true cwd root_arg
      {| i_arg := name; i_data := data; i_hpath := data; i_prefix := []; i_walked := [] |}
      (st_arg unsafe_open_site) = Some opened /\
    seg_prefixb (segs (abspath cwd root_arg)) (segs (abspath cwd opened)) = false /\
    (* while the re-validating open raises RootEscapeError *)
    peval guard_rstrip_sep true cwd root_arg
      {| i_arg := name; i_data := data; i_hpath := data; i_prefix := []; i_walked := [] |}
      (PResolve PHandleData) = None.
Proof.
  exists (s2l "/w"), (s2l "/t/root"), (s2l "..\secret.txt"), (s2l "/t/root/..\secret.txt"),
         (s2l "../secret.txt"), (s2l "/t/root/../secret.txt").
  vm_compute. repeat split.
Qed.

(** A chain prefix is not a jail: member 'sub' of a chain can be left with '..' (staying inside the member's root).
    C18 speaks about the root directory only; this is recorded as an observation. *)
Definition chain_getfile_call : ccall :=
  {| cc_method := "_get_file"; cc_member := "_get_file"; cc_arg := PUnbs (PJoin PPrefix PArg) |}.
Definition resolved_arg_site : site :=
  {| st_method := "_get_file"; st_callee := "os.path.isfile"; st_branch := "str"; st_arg := PResolve PArg |}.

Theorem chain_prefix_not_confined_refuted :
  exists cwd root_arg prefix name a,
    chain_access guard_rstrip_sep cwd root_arg
      {| i_arg := name; i_data := []; i_hpath := []; i_prefix := prefix; i_walked := [] |}
      chain_getfile_call resolved_arg_site = Some a /\
    seg_prefixb (segs (abspath cwd root_arg)) (segs a) = true /\
    seg_prefixb (segs (pjoin (abspath cwd root_arg) prefix)) (segs a) = false.
Proof.
  exists (s2l "/w"), (s2l "/t/root"), (s2l "sub"), (s2l "../in.txt"), (s2l "/t/root/in.txt").
  vm_compute. repeat split.
Qed.
Close Scope string_scope.

(** ---------------------------------------------------------------- os.walk *)
Lemma entry_nameb_spec c : entry_nameb c = true -> valid c /\ is_dotdot c = false.
Proof.
  unfold entry_nameb. intros H. apply andb_true_iff in H as [H H3]. apply andb_true_iff in H as [H1 H2].
  apply negb_true_iff in H2, H3. repeat split; try assumption.
  unfold sep_free. apply Forall_forall. intros x Hx. rewrite forallb_forall in H1.
  specialize (H1 x Hx). now apply negb_true_iff in H1.
Qed.

Lemma valid_not_starts_sep c : valid c -> starts_sep c = false.
Proof.
  intros [Hf Hs]. destruct c as [|x c]; [reflexivity|]. cbn [starts_sep]. now inversion Hf.
Qed.

(** Joining a directory-entry name appends exactly one segment. *)
Lemma segs_pjoin_entry a n : valid n -> segs (pjoin a n) = segs a ++ [n].
Proof.
  intros Hv. unfold pjoin. rewrite (valid_not_starts_sep n Hv).
  destruct a as [|c a'].
  - cbn [app]. now rewrite (segs_single n Hv).
  - destruct (ends_sep (c :: a')) eqn:E.
    + destruct (ends_sep_inv _ E) as [u Hu]. rewrite Hu, <- app_assoc. cbn [app].
      now rewrite segs_app_sep, segs_snoc_sep, (segs_single n Hv).
    + now rewrite segs_app_sep, (segs_single n Hv).
Qed.

Lemma pjoin_entry_abs a n : valid n -> is_abs a = true -> is_abs (pjoin a n) = true.
Proof. intros _ Ha. now apply pjoin_abs. Qed.

Lemma inside_pjoin_entry root a n : entry_nameb n = true -> inside root a -> inside root (pjoin a n).
Proof.
  intros Hn (Ha & [rest Hp] & Hd). destruct (entry_nameb_spec n Hn) as [Hv Hdd].
  repeat split.
  - now apply pjoin_abs.
  - exists (rest ++ [n]). now rewrite (segs_pjoin_entry a n Hv), Hp, app_assoc.
  - unfold no_dotdot in *. rewrite (segs_pjoin_entry a n Hv). apply Forall_app. split; [exact Hd|].
    now repeat constructor.
Qed.

Lemma inside_descend root names : forall a, forallb entry_nameb names = true -> inside root a ->
  inside root (descend a names).
Proof.
  induction names as [|n r IH]; intros a Hn Hi; [exact Hi|]. cbn [forallb] in Hn.
  apply andb_true_iff in Hn as [H1 H2]. cbn [descend]. apply IH; [exact H2|]. now apply inside_pjoin_entry.
Qed.

Section Walk.
  (** What os.walk(top) yields: (dirpath, file names).  The OS is outside the model; its behaviour enters as the
      hypothesis that every dirpath is [top] joined with directory-entry names and the file names are entry names. *)
  Variable os_walk : str -> list (str * list str).
  Hypothesis walk_shape : forall top d fs, In (d, fs) (os_walk top) ->
    (exists names, forallb entry_nameb names = true /\ d = descend top names) /\ forallb entry_nameb fs = true.

  (** RawFileSystem.walk_folder(folder): path = _resolve_path(folder); for dirpath, _, filenames in os.walk(path):
      every file found (os.path.join(dirpath, file)) is inside the root. *)
  Theorem walk_found_inside g cwd root_arg folder top d fs f :
    raise_sound g = true -> is_abs cwd = true ->
    resolve g true cwd root_arg folder = Ok top ->
    In (d, fs) (os_walk top) -> In f fs ->
    inside (abspath cwd root_arg) (pjoin d f).
  Proof.
    intros Hg Hc Hres Hin Hf.
    pose proof (segprefix_guard_sound g cwd root_arg folder top Hg Hc Hres) as Htop.
    destruct (walk_shape top d fs Hin) as [(names & Hn & ->) Hfs].
    rewrite forallb_forall in Hfs. apply inside_pjoin_entry; [now apply Hfs|]. now apply inside_descend.
  Qed.

  (** ... and so is every directory os.walk lists on the way (the scandir calls it makes). *)
  Theorem walk_dirs_inside g cwd root_arg folder top d fs :
    raise_sound g = true -> is_abs cwd = true ->
    resolve g true cwd root_arg folder = Ok top ->
    In (d, fs) (os_walk top) -> inside (abspath cwd root_arg) d.
  Proof.
    intros Hg Hc Hres Hin.
    pose proof (segprefix_guard_sound g cwd root_arg folder top Hg Hc Hres) as Htop.
    destruct (walk_shape top d fs Hin) as [(names & Hn & ->) _]. now apply inside_descend.
  Qed.

  (** Whatever string walk_folder stores in the handle it yields (relpath of the found file, slashes changed),
      consuming the handle through a table of sound sites stays inside. *)
  Theorem walk_yield_consumed_inside g cwd root_arg (sites : list site) :
    raise_sound g = true -> is_abs cwd = true -> sites_ok sites = true ->
    forall yielded s i a, In s sites ->
      peval g true cwd root_arg
        {| i_arg := i_arg i; i_data := yielded; i_hpath := yielded; i_prefix := i_prefix i; i_walked := i_walked i |}
        (st_arg s) = Some a ->
      inside (abspath cwd root_arg) a.
  Proof. intros Hg Hc Hok yielded s i a. now apply ops_accesses_inside. Qed.
End Walk.

(** Non-vacuity of the walk hypothesis: a walk of /t/root that finds sub/deep.txt. *)
Example walk_shape_satisfiable :
  let top := s2l "/t/root" in
  let w := fun t : str => if str_eqb t top then [(top, [s2l "in.txt"]); (s2l "/t/root/sub", [s2l "deep.txt"])] else [] in
  forall t d fs, In (d, fs) (w t) ->
    (exists names, forallb entry_nameb names = true /\ d = descend t names) /\ forallb entry_nameb fs = true.
Proof.
  intros top w t d fs H. unfold w in H. destruct (str_eqb t top) eqn:E; [|contradiction].
  apply str_eqb_eq in E. subst t. destruct H as [H|[H|[]]]; inversion H; subst.
  - split; [exists []; now split | reflexivity].
  - split; [exists [s2l "sub"]; now split | reflexivity].
Qed.

(** ---------------------------------------------------------------- the working directory at call time is irrelevant *)
Theorem resolve_cwd_at_call_irrelevant g con cwd0 cwd1 root_arg path :
  is_abs cwd0 = true -> resolve2 g con cwd0 cwd1 root_arg path = resolve g con cwd0 root_arg path.
Proof.
  intros Hc. unfold resolve2, resolve.
  assert (Hj : is_abs (pjoin (abspath cwd0 root_arg) path) = true) by now apply pjoin_abs, abspath_is_abs.
  assert (E : forall c, abspath c (pjoin (abspath cwd0 root_arg) path) = normpath (pjoin (abspath cwd0 root_arg) path)).
  { intros c. set (q := pjoin (abspath cwd0 root_arg) path) in *. unfold abspath at 1. now rewrite Hj. }
  now rewrite (E cwd1), (E cwd0).
Qed.

Corollary resolve2_inside g cwd0 cwd1 root_arg path a :
  raise_sound g = true -> is_abs cwd0 = true ->
  resolve2 g true cwd0 cwd1 root_arg path = Ok a -> inside (abspath cwd0 root_arg) a.
Proof.
  intros Hg Hc H. rewrite (resolve_cwd_at_call_irrelevant g true cwd0 cwd1 root_arg path Hc) in H.
  exact (segprefix_guard_sound g cwd0 root_arg path a Hg Hc H).
Qed.

(** ---------------------------------------------------------------- what [inside] means for the directory walk *)
(** The OS reaches the file named by an absolute path by following its segments from '/'.  For a path that is
    [inside] the root this walk never goes up, passes through the root directory and stays in it from then on:
    the stack of directories (innermost first) always ends with the root's stack once the root has been reached. *)
Lemma follow_no_dotdot l : forall st, no_dotdot l -> follow st l = Some (rev l ++ st).
Proof.
  induction l as [|c r IH]; intros st H; [reflexivity|]. inversion H as [|? ? Hc Hr]; subst.
  cbn [follow]. rewrite Hc, (IH (c :: st) Hr). cbn [rev]. now rewrite <- app_assoc.
Qed.

Theorem inside_walk_stays_in_root root a : inside root a ->
  exists rest,
    segs a = segs root ++ rest /\
    (* the walk from '/' arrives at the root directory (k = 0) and every further step (every prefix of the
       remaining segments) is at or below it *)
    forall k, follow [] (segs root ++ firstn k rest) = Some (rev (firstn k rest) ++ rev (segs root)).
Proof.
  intros (_ & [rest Hp] & Hd). exists rest. split; [exact Hp|].
  intros k. rewrite Hp in Hd. unfold no_dotdot in Hd. apply Forall_app in Hd as [Hr Hrest].
  assert (Hk : no_dotdot (segs root ++ firstn k rest)).
  { unfold no_dotdot. apply Forall_app. split; [exact Hr|].
    rewrite <- (firstn_skipn k rest) in Hrest. now apply Forall_app in Hrest as [H _]. }
  rewrite (follow_no_dotdot _ [] Hk), app_nil_r. now rewrite rev_app_distr.
Qed.
