(** C19, round 3 — chains that also contain the directory backend (RawFileSystem, exact-case names).

    The property lets the directory filesystem take part "for exact-case names".  A chain whose members are folding
    backends of any kind ([FsChainWhole.kmember]) or directory backends answers a query like the specification
    [chain_spec] whenever, for every directory member, the name it is asked for - subfolder joined with the query,
    slashes converted, redundant parts removed - is either exactly a stored name of that member or matches none of them
    even up to case (i.e. the query does not rely on case folding inside a directory member).
    Executable definitions only; proofs are in FsChainMixedProofs.v. *)
From Coq Require Import List NArith Bool.
From SV Require Import SM.FsChain SM.FsChainProofs SM.FsChainWitness SM.FsChainRaw SM.FsChainForms SM.FsChainFormsProofs SM.FsChainWhole.
Import ListNotations.
Open Scope N_scope.

Inductive mmember :=
| MFold (k : kmember)                                   (* in-memory / zip / VPK member *)
| MRaw (ops : list sop) (fs : list file) (p : str).     (* directory member: [ops] = what reaches _resolve_path *)

Definition m_spec (m : mmember) : list file * str :=
  match m with MFold k => k_spec k | MRaw _ fs p => (fs, p) end.

Definition m_get (m : mmember) (q : str) : option file :=
  match m with
  | MFold k => lookup (k_b k) (k_fs k) (full_name (k_p k) q)
  | MRaw ops fs p => raw_lookup_ops ops fs (full_name p q)
  end.

Fixpoint mchain_get (ms : list mmember) (q : str) : option file :=
  match ms with
  | [] => None
  | m :: r => match m_get m q with Some e => Some e | None => mchain_get r q end
  end.

(** the name is spelt exactly for this directory: it is a stored name, or no stored name equals it even up to case *)
Definition exact_or_absent (fs : list file) (n : str) : Prop :=
  (exists e, In e fs /\ fst e = n) \/ (forall e, In e fs -> nkey (fst e) <> nkey n).

Definition mmember_ok (q : str) (m : mmember) : Prop :=
  match m with
  | MFold k => kmember_ok k
  | MRaw ops fs p =>
      raw_ops_ok ops = true /\ clean_fs fs = true /\ NoDup (map (fun e => nkey (fst e)) fs)
      /\ exact_or_absent fs (normpath (slash (pjoin p q)))
  end.

Definition mixed_raw : list mmember := [MRaw [OSlash] [([65], [1])] []; MFold kw_mem].
Definition mixed_fold : list mmember :=
  [MFold {| k_b := fixed_zip; k_fs := [([65], [1])]; k_p := []; k_store := None |}; MFold kw_mem].
