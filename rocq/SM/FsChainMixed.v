(** C19, round 3 — chains that also contain the directory backend (RawFileSystem, exact-case names).

    The property lets the directory filesystem take part "for exact-case names".  A chain whose members are folding
    backends of any kind ([FsChainWhole.kmember]) or directory backends answers a query like the specification
    [chain_spec] whenever, for every directory member, the name it is asked for - subfolder joined with the query,
    slashes converted, redundant parts removed - is either exactly a stored name of that member or matches none of them
    even up to case (i.e. the query does not rely on case folding inside a directory member).
    Definitions and proofs. *)
From Coq Require Import List NArith Bool.
From SV Require Import SM.FsChain SM.FsChainProofs SM.FsChainWitness SM.FsChainRaw SM.FsChainForms SM.FsChainFormsProofs SM.FsChainWhole.
Import ListNotations.
Open Scope N_scope.

Inductive mmember :=
| MFold (k : kmember)                                   (* in-memory / zip / VPK member *)
| MRaw (ops : list sop) (fs : list file) (p : str).     (* directory member: [ops] = what reaches _resolve_path *)

Definition m_spec (m : mmember) : list file * str :=
  match m with MFold k => k_spec k | MRaw _ fs p => (fs, p) end.

Definition m_get (m : mmember) (q : str) : option file :=
  match m with
  | MFold k => lookup (k_b k) (k_fs k) (full_name (k_p k) q)
  | MRaw ops fs p => raw_lookup_ops ops fs (full_name p q)
  end.

Fixpoint mchain_get (ms : list mmember) (q : str) : option file :=
  match ms with
  | [] => None
  | m :: r => match m_get m q with Some e => Some e | None => mchain_get r q end
  end.

(** the name is spelt exactly for this directory: it is a stored name, or no stored name equals it even up to case *)
Definition exact_or_absent (fs : list file) (n : str) : Prop :=
  (exists e, In e fs /\ fst e = n) \/ (forall e, In e fs -> nkey (fst e) <> nkey n).

Definition mmember_ok (q : str) (m : mmember) : Prop :=
  match m with
  | MFold k => kmember_ok k
  | MRaw ops fs p =>
      raw_ops_ok ops = true /\ clean_fs fs = true /\ NoDup (map (fun e => nkey (fst e)) fs)
      /\ exact_or_absent fs (normpath (slash (pjoin p q)))
  end.

Lemma find_all_false {A} (f : A -> bool) l : (forall x, In x l -> f x = false) -> find f l = None.
Proof.
  induction l as [|a l IH]; intros H; [reflexivity|]. cbn [find]. rewrite (H a (or_introl eq_refl)).
  apply IH. intros x Hx. apply H. right. exact Hx.
Qed.

Lemma raw_member_spec ops fs p q :
  raw_ops_ok ops = true -> clean_fs fs = true -> NoDup (map (fun e => nkey (fst e)) fs) ->
  exact_or_absent fs (normpath (slash (pjoin p q))) ->
  raw_lookup_ops ops fs (full_name p q) = spec_lookup fs (normpath (slash (pjoin p q))).
Proof.
  intros Ho Hc Hnd [[e [He Hn]]|Habs].
  - destruct (raw_lookup_slash_agree ops fs e (full_name p q) Ho Hc Hnd He) as [Hr Hs].
    + unfold full_name. rewrite slash_idem. symmetry. exact Hn.
    + unfold full_name in Hs. rewrite slash_idem in Hs. rewrite Hr, Hs. reflexivity.
  - unfold raw_lookup_ops, spec_lookup. rewrite (raw_ops_sem ops _ Ho). unfold full_name. rewrite slash_idem.
    rewrite !find_all_false; [reflexivity| |].
    + intros x Hx. apply in_rev in Hx. destruct (eqb_str_spec (nkey (fst x)) (nkey (normpath (slash (pjoin p q))))) as [E|_]; [|reflexivity].
      exfalso. exact (Habs x Hx E).
    + intros x Hx. apply in_rev in Hx. destruct (eqb_str_spec (fst x) (normpath (slash (pjoin p q)))) as [E|_]; [|reflexivity].
      exfalso. apply (Habs x Hx). rewrite E. reflexivity.
Qed.

(** A chain with directory members answers like the specification on queries that are exact for those members. *)
Theorem mchain_get_spec ms q :
  Forall (mmember_ok q) ms -> mchain_get ms q = chain_spec (map m_spec ms) q.
Proof.
  induction 1 as [|m r Hm _ IH]; [reflexivity|].
  cbn [map mchain_get chain_spec]. destruct m as [k|ops fs p]; cbn [m_get m_spec mmember_ok] in *.
  - unfold k_spec. rewrite (k_lookup_spec k q Hm). destruct (spec_lookup _ _); [reflexivity|exact IH].
  - destruct Hm as [Ho [Hc [Hnd Hx]]]. rewrite (raw_member_spec ops fs p q Ho Hc Hnd Hx).
    destruct (spec_lookup _ _); [reflexivity|exact IH].
Qed.

(** Hence replacing a directory member by any folding backend holding the same files (or the other way round) cannot
    be observed on such queries. *)
Theorem mchain_kind_unobservable ms1 ms2 q :
  Forall (mmember_ok q) ms1 -> Forall (mmember_ok q) ms2 -> map m_spec ms1 = map m_spec ms2 ->
  mchain_get ms1 q = mchain_get ms2 q.
Proof. intros H1 H2 E. rewrite (mchain_get_spec ms1 q H1), (mchain_get_spec ms2 q H2), E. reflexivity. Qed.

(** The premise cannot be dropped: a directory member asked for a name in the wrong case misses where a folding member
    holding the same file hits - and a later member's file is served instead. *)
Definition mixed_raw : list mmember := [MRaw [OSlash] [([65], [1])] []; MFold kw_mem].
Definition mixed_fold : list mmember :=
  [MFold {| k_b := fixed_zip; k_fs := [([65], [1])]; k_p := []; k_store := None |}; MFold kw_mem].
Theorem mchain_case_needs_exact_refuted :
  map m_spec mixed_raw = map m_spec mixed_fold
  /\ mchain_get mixed_raw [97] = None /\ mchain_get mixed_fold [97] = Some ([65], [1])
  /\ mchain_get mixed_raw [65] = Some ([65], [1]) /\ mchain_get mixed_fold [65] = Some ([65], [1])
  /\ Forall (mmember_ok [65]) mixed_raw.
Proof.
  split; [reflexivity|]. split; [vm_compute; reflexivity|]. split; [vm_compute; reflexivity|].
  split; [vm_compute; reflexivity|]. split; [vm_compute; reflexivity|].
  unfold mixed_raw. apply Forall_cons; [|apply Forall_cons; [|apply Forall_nil]].
  - cbn [mmember_ok]. split; [reflexivity|]. split; [reflexivity|]. split; [repeat constructor; intros []|].
    left. exists ([65], [1]). split; [left; reflexivity|vm_compute; reflexivity].
  - cbn [mmember_ok]. split; [vm_compute; reflexivity|]. split; [vm_compute; reflexivity|exact I].
Qed.
