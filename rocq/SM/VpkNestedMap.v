(** The nested dictionaries [_fileinfo[ext][folder][name]] as a finite map: lookup as [VPK.__getitem__] / [__contains__] do it (first
    entry with the key at each of the three levels: Python dict semantics on association lists), insertion as [VPK.new_file] does it,
    over a description of the two "get the dict of this level or create it" steps read from the source (Gen/VpkNested_gen.v
    [g_ins_ext], [g_ins_dir]: what happens when the key is present / absent).  VpkNestedMapProofs.v shows the three laws of a finite
    map for [nlookup] / [nins] / [ndel] (SM/VpkNested.v) for every accepted description, with no well-formedness assumption on the tree.
    Executable definitions only. *)
From Coq Require Import List NArith Bool.
From SV Require Import Fmt.VpkDir SM.Vpk SM.VpkNested.
Import ListNotations.
Open Scope N_scope.

Section bassoc.
  Context {V : Type}.
  (** d[k] / d.get(k) *)
  Fixpoint bget (k : bytes) (l : list (bytes * V)) : option V :=
    match l with [] => None | (k', v) :: r => if bytes_eqb k k' then Some v else bget k r end.
  (** d[k] = v: in place when the key exists, at the end otherwise *)
  Fixpoint bset (k : bytes) (v : V) (l : list (bytes * V)) : list (bytes * V) :=
    match l with
    | [] => [(k, v)]
    | (k', v') :: r => if bytes_eqb k k' then (k, v) :: r else (k', v') :: bset k v r
    end.
End bassoc.

(** VPK.__getitem__: self._fileinfo[ext][path][filename]; [None] = KeyError *)
Definition nlookup (t : tree) (k : key) : option info :=
  let '(x, p, n) := k in
  match bget x t with
  | None => None
  | Some ds => match bget p ds with None => None | Some fs => bget n fs end
  end.

(** What a "get or create" step does when the key is present: the dict found is the one worked on / a new empty dict is stored in its
    place / a new dict is worked on that is stored nowhere; and when it is absent: a new dict is stored under the key / a new dict is
    worked on that is stored nowhere / KeyError. *)
Inductive on_present := PReuse | PReplace | PDetached.
Inductive on_absent := ACreate | ADetached | ARaise.
Record goc := { g_present : on_present; g_absent : on_absent }.
Definition goc_ok (g : goc) : bool :=
  match g_present g, g_absent g with PReuse, ACreate => true | _, _ => false end.

(** the dict to work on and whether the result is stored back under the key; [None] = KeyError *)
Definition goc_step {V} (g : goc) (k : bytes) (l : list (bytes * list V)) : option (list V * bool) :=
  match bget k l with
  | Some v => Some (match g_present g with PReuse => (v, true) | PReplace => ([], true) | PDetached => ([], false) end)
  | None => match g_absent g with ACreate => Some ([], true) | ADetached => Some ([], false) | ARaise => None end
  end.

(** VPK.new_file on the nested dicts (after the checks): get or create the extension's dict, then the folder's, then
    [dir_infos[name] = info]. *)
Definition nins (g1 g2 : goc) (t : tree) (k : key) (i : info) : option tree :=
  let '(x, p, n) := k in
  match goc_step g1 x t with
  | None => None
  | Some (ds, st1) =>
      match goc_step g2 p ds with
      | None => None
      | Some (fs, st2) =>
          let fs' := bset n i fs in
          let ds' := if st2 then bset p fs' ds else ds in
          Some (if st1 then bset x ds' t else t)
      end
  end.

(** vpk.py as pinned: try: d = parent[k] / except KeyError: d = parent[k] = {} at both levels *)
Definition goc_pinned : goc := {| g_present := PReuse; g_absent := ACreate |}.
(** [d = parent[k] = {}] unconditionally: every other file of the extension / folder disappears *)
Definition goc_always_new : goc := {| g_present := PReplace; g_absent := ACreate |}.
(** [except KeyError: d = {}]: the new dict is never stored *)
Definition goc_forgets_store : goc := {| g_present := PReuse; g_absent := ADetached |}.

(** For the correspondence: a sequence of new_file and del on the nested dicts; per operation whether it succeeded. new_file on a name
    that exists raises FileExistsError when [chk]. *)
Inductive nop := NIns (k : key) | NDel (k : key).
Fixpoint nrun (g1 g2 : goc) (chk : bool) (prog : dprog) (t : tree) (ops : list nop) : list bool * tree :=
  match ops with
  | [] => ([], t)
  | NIns k :: r =>
      if chk && match nlookup t k with Some _ => true | None => false end
      then let '(l, t') := nrun g1 g2 chk prog t r in (false :: l, t')
      else match nins g1 g2 t k (mkInfo 0 [] None 0 0) with
           | None => let '(l, t') := nrun g1 g2 chk prog t r in (false :: l, t')
           | Some t1 => let '(l, t') := nrun g1 g2 chk prog t1 r in (true :: l, t')
           end
  | NDel k :: r =>
      match ndel prog t k with
      | None => let '(l, t') := nrun g1 g2 chk prog t r in (false :: l, t')
      | Some t1 => let '(l, t') := nrun g1 g2 chk prog t1 r in (true :: l, t')
      end
  end.
