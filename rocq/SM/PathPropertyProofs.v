(** C18 — proofs about SM/PathProperty.v. *)
From Coq Require Import List NArith Bool String Lia.
From SV Require Import SM.PathNorm SM.PathNormProofs SM.PathOps SM.PathOpsProofs SM.PathMemo SM.PathMemoProofs
  SM.PathHistory SM.PathHistoryProofs SM.PathProperty.
Import ListNotations.

(** ------------------------------------------------------------------ the run is the step-by-step model *)
Theorem prop_run_transparent wf g cwd evict :
  only_drops evict ->
  forall steps c, cache_valid g cwd c -> forallb (step_covered wf) steps = true ->
    prop_run wf g cwd evict c steps = map (step_plain g cwd) steps.
Proof.
  intros He. induction steps as [|st rest IH]; intros c Hv Hall; [reflexivity|].
  cbn in Hall. apply andb_prop in Hall as [Hc Hr]. cbn [prop_run map]. unfold step_plain at 1.
  destruct (step_op g cwd st) as [op|] eqn:Hop; [|f_equal; now apply IH].
  assert (Hcov : wf || oc_con op = true).
  { unfold step_op in Hop. destruct (route_in g cwd (sp_root st) (sp_con st) (sp_in st) (sp_route st)); [|discriminate].
    inversion Hop; subst op. exact Hc. }
  destruct (peval_m_transparent wf g cwd evict (oc_root op) (oc_con op) (oc_in op) He Hcov (st_arg (oc_site op)) c Hv)
    as [H1 H2].
  destruct (peval_m wf g cwd evict c (oc_root op) (oc_con op) (oc_in op) (st_arg (oc_site op))) as [c' v].
  cbn in H1, H2. subst v. unfold op_plain. f_equal. now apply IH.
Qed.

(** Without any table (the policy that keeps nothing: today's source) the key does not matter at all. *)
Lemma peval_m_no_table wf g cwd root_arg con i :
  forall e, peval_m wf g cwd (fun _ => []) [] root_arg con i e = ([], peval g con cwd root_arg i e).
Proof.
  induction e; cbn [peval_m peval]; try reflexivity.
  - rewrite IHe. reflexivity.
  - rewrite IHe1. destruct (peval g con cwd root_arg i e1); [|reflexivity]. rewrite IHe2.
    destruct (peval g con cwd root_arg i e2); reflexivity.
  - rewrite IHe. destruct (peval g con cwd root_arg i e) as [s|]; [|reflexivity].
    unfold memo_step. cbn [lookup]. unfold plain. cbn.
    destruct (resolve g con cwd root_arg s); reflexivity.
Qed.

Theorem prop_run_no_table wf g cwd :
  forall steps, prop_run wf g cwd (fun _ => []) [] steps = map (step_plain g cwd) steps.
Proof.
  induction steps as [|st rest IH]; [reflexivity|]. cbn [prop_run map]. unfold step_plain at 1.
  destruct (step_op g cwd st) as [op|]; [|now rewrite IH].
  rewrite peval_m_no_table. unfold op_plain. now rewrite IH.
Qed.

(** ------------------------------------------------------------------ one step *)
Lemma step_op_fields g cwd st op : step_op g cwd st = Some op ->
  oc_root op = sp_root st /\ oc_con op = sp_con st /\ oc_site op = sp_site st.
Proof.
  unfold step_op. destruct (route_in g cwd (sp_root st) (sp_con st) (sp_in st) (sp_route st)); [|discriminate].
  intro H. inversion H. cbn. repeat split.
Qed.

Lemma all_sites_ok s x : calls_ok s = true -> In x (all_sites s) -> site_ok x = true.
Proof. unfold calls_ok, sites_ok. rewrite forallb_forall. intros H Hin. now apply H. Qed.

(** [calls_ok] needs both: every RawFileSystem site validated, and no OS call anywhere else *)
Lemma calls_ok_spec s : calls_ok s = true <-> sites_ok (src_sites s) = true /\ src_other s = [].
Proof.
  unfold calls_ok, all_sites, sites_ok. rewrite forallb_app. split.
  - intro H. apply andb_prop in H as [H1 H2]. split; [exact H1|].
    destruct (src_other s) as [|x r]; [reflexivity|]. cbn in H2. discriminate.
  - intros [H1 H2]. rewrite H1, H2. reflexivity.
Qed.

Lemma step_plain_inside s cwd st a :
  guard_ok s = true -> calls_ok s = true -> is_abs cwd = true ->
  sp_con st = true -> In (sp_site st) (all_sites s) ->
  step_plain (src_guard s) cwd st = Some a ->
  exists p, resolve (src_guard s) true cwd (sp_root st) p = Ok a.
Proof.
  intros Hg Hs Hc Hcon Hin Hp. unfold step_plain in Hp.
  destruct (step_op (src_guard s) cwd st) as [op|] eqn:Hop; [|discriminate].
  destruct (step_op_fields _ _ _ _ Hop) as (Hr & Hco & Hsi). unfold op_plain in Hp. rewrite Hr, Hco, Hsi, Hcon in Hp.
  exact (peval_resolved (src_guard s) true cwd (sp_root st) (oc_in op) _ a (all_sites_ok s _ Hs Hin) Hp).
Qed.

(** ------------------------------------------------------------------ the property *)
Section Property.
  Variable s : source.
  Hypothesis Hok : source_ok s = true.
  Variable cwd : str.
  Hypothesis Hcwd : is_abs cwd = true.

  Lemma source_ok_parts : guard_ok s = true /\ calls_ok s = true.
  Proof.
    unfold source_ok in Hok. apply andb_prop in Hok as [Hok _]. apply andb_prop in Hok as [Hok _].
    apply andb_prop in Hok as [Hok _]. apply andb_prop in Hok as [Hg Hc]. split; assumption.
  Qed.

  (** every history, any table whose key covers the steps *)
  Theorem property_accesses_inside wf evict steps :
    only_drops evict -> forallb (step_covered wf) steps = true ->
    forall n st a, nth_error steps n = Some st -> sp_con st = true -> In (sp_site st) (all_sites s) ->
      nth_error (prop_run wf (src_guard s) cwd evict [] steps) n = Some (Some a) ->
      inside (abspath cwd (sp_root st)) a.
  Proof.
    intros He Hall n st a Hn Hcon Hin Hr. destruct source_ok_parts as [Hg Hs].
    rewrite (prop_run_transparent wf _ cwd evict He steps [] (cache_valid_nil _ cwd) Hall) in Hr.
    rewrite nth_error_map, Hn in Hr. cbn in Hr. inversion Hr as [Hp].
    destruct (step_plain_inside s cwd st a Hg Hs Hcwd Hcon Hin Hp) as [p Hres].
    exact (segprefix_guard_sound _ cwd (sp_root st) p a Hg Hcwd Hres).
  Qed.

  (** every history of today's table-free source: no condition on the objects at all *)
  Theorem property_accesses_inside_no_table wf steps :
    forall n st a, nth_error steps n = Some st -> sp_con st = true -> In (sp_site st) (all_sites s) ->
      nth_error (prop_run wf (src_guard s) cwd (fun _ => []) [] steps) n = Some (Some a) ->
      inside (abspath cwd (sp_root st)) a.
  Proof.
    intros n st a Hn Hcon Hin Hr. destruct source_ok_parts as [Hg Hs].
    rewrite prop_run_no_table, nth_error_map, Hn in Hr. cbn in Hr. inversion Hr as [Hp].
    destruct (step_plain_inside s cwd st a Hg Hs Hcwd Hcon Hin Hp) as [p Hres].
    exact (segprefix_guard_sound _ cwd (sp_root st) p a Hg Hcwd Hres).
  Qed.

  (** folder walks: whatever a constrained step hands to os.walk, everything os.walk lists and finds from there is inside *)
  Theorem property_walk_inside (os_walk : str -> list (str * list str)) :
    walk_contract os_walk ->
    forall st top d fs f, sp_con st = true -> In (sp_site st) (all_sites s) ->
      step_plain (src_guard s) cwd st = Some top -> In (d, fs) (os_walk top) ->
      inside (abspath cwd (sp_root st)) d /\ (In f fs -> inside (abspath cwd (sp_root st)) (pjoin d f)).
  Proof.
    intros Hw st top d fs f Hcon Hin Hp Hd. destruct source_ok_parts as [Hg Hs].
    destruct (step_plain_inside s cwd st top Hg Hs Hcwd Hcon Hin Hp) as [p Hres]. split.
    - exact (walk_dirs_inside os_walk Hw _ cwd (sp_root st) p top d fs Hg Hcwd Hres Hd).
    - intro Hf. exact (walk_found_inside os_walk Hw _ cwd (sp_root st) p top d fs f Hg Hcwd Hres Hd Hf).
  Qed.
End Property.

(** The whole property. *)
Theorem property_holds :
  forall s, source_ok s = true ->
  forall cwd, is_abs cwd = true ->
  forall wf evict steps,
    (only_drops evict /\ forallb (step_covered wf) steps = true) \/ evict = (fun _ => []) ->
    let run := prop_run wf (src_guard s) cwd evict [] steps in
    (* the table is invisible *)
    run = map (step_plain (src_guard s) cwd) steps /\
    (* every path a constrained object hands to the OS is inside its root *)
    (forall n st a, nth_error steps n = Some st -> sp_con st = true -> In (sp_site st) (all_sites s) ->
       nth_error run n = Some (Some a) -> inside (abspath cwd (sp_root st)) a) /\
    (* and so is everything a folder walk started there lists and finds, for any os.walk obeying the entry-name contract *)
    (forall os_walk, walk_contract os_walk ->
     forall n st top d fs f, nth_error steps n = Some st -> sp_con st = true -> In (sp_site st) (all_sites s) ->
       nth_error run n = Some (Some top) -> In (d, fs) (os_walk top) ->
       inside (abspath cwd (sp_root st)) d /\ (In f fs -> inside (abspath cwd (sp_root st)) (pjoin d f))).
Proof.
  intros s Hok cwd Hc wf evict steps Hpol run.
  assert (Hrun : run = map (step_plain (src_guard s) cwd) steps).
  { unfold run. destruct Hpol as [[He Hall]| ->].
    - exact (prop_run_transparent wf _ cwd evict He steps [] (cache_valid_nil _ cwd) Hall).
    - apply prop_run_no_table. }
  split; [exact Hrun|]. split.
  - intros n st a Hn Hcon Hin Hr. rewrite Hrun, nth_error_map, Hn in Hr. cbn in Hr. inversion Hr as [Hp].
    destruct (source_ok_parts s Hok) as [Hg Hs].
    destruct (step_plain_inside s cwd st a Hg Hs Hc Hcon Hin Hp) as [p Hres].
    exact (segprefix_guard_sound _ cwd (sp_root st) p a Hg Hc Hres).
  - intros w Hw n st top d fs f Hn Hcon Hin Hr Hd. rewrite Hrun, nth_error_map, Hn in Hr. cbn in Hr. inversion Hr as [Hp].
    exact (property_walk_inside s Hok cwd Hc w Hw st top d fs f Hcon Hin Hp Hd).
Qed.

(** ------------------------------------------------------------------ the hypotheses are satisfiable, and each is needed *)
Open Scope string_scope.
Open Scope list_scope.
Definition site_of (m c b : string) (e : pexp) : site := {| st_method := m; st_callee := c; st_branch := b; st_arg := e |}.
Definition example_source : source :=
  {| src_guard := guard_rstrip_sep; src_root_abs := true; src_root_reassigned := false; src_flag_ctor := true;
     src_ctor_sig := true;
     src_sites := [ site_of "open_bin" "open" "str" (PResolve (PUnbs PArg));
                    site_of "open_bin" "open" "File" (PResolve (PUnbs PHandleData));
                    site_of "_get_file" "os.path.isfile" "str" (PResolve (PUnbs PArg));
                    site_of "walk_folder" "os.walk" "str" (PResolve (PUnbs PArg)) ];
     src_other := [];
     src_chain := [ {| cc_method := "_get_file"; cc_member := "_get_file"; cc_arg := PUnbs (PJoin PPrefix PArg) |} ];
     src_entries := [ {| cc_method := "__getitem__"; cc_member := "_get_file"; cc_arg := PArg |};
                      {| cc_method := "File.open_bin"; cc_member := "open_bin"; cc_arg := PHandleData |} ];
     src_entry_unread := []; src_census := [[]; []; []] |}.

(** user code: chain[name] on a chain inside a chain (prefixes "sub" and "x"), landing in the member on /t/root *)
Definition example_step (con : bool) (name : string) : step :=
  {| sp_root := s2l "/t/root"; sp_con := con;
     sp_route := [ {| h_call := {| cc_method := "__getitem__"; cc_member := "_get_file"; cc_arg := PArg |}; h_prefix := [] |};
                   {| h_call := {| cc_method := "_get_file"; cc_member := "_get_file"; cc_arg := PUnbs (PJoin PPrefix PArg) |};
                      h_prefix := s2l "sub" |};
                   {| h_call := {| cc_method := "_get_file"; cc_member := "_get_file"; cc_arg := PUnbs (PJoin PPrefix PArg) |};
                      h_prefix := s2l "x" |} ];
     sp_site := site_of "_get_file" "os.path.isfile" "str" (PResolve (PUnbs PArg));
     sp_in := {| i_arg := s2l name; i_data := []; i_hpath := []; i_prefix := []; i_walked := [] |} |}.

Theorem property_hypotheses_satisfiable :
  source_ok example_source = true /\
  linked "_get_file" (sp_route (example_step true "a")) = true /\
  (* inner prefix "sub", outer prefix "x": name a.txt arrives as x/sub/a.txt ... *)
  prop_run true guard_rstrip_sep (s2l "/w") (fun _ => []) []
    [example_step true "a.txt"; example_step true "..\..\..\secret.txt"; example_step false "..\..\..\secret.txt";
     example_step true "../../../secret.txt"]
  = [Some (s2l "/t/root/x/sub/a.txt"); None; Some (s2l "/t/secret.txt"); None].
Proof. vm_compute. repeat split. Qed.

(** each conjunct of [calls_ok] / [guard_ok] is needed: drop one and an access leaves the root *)
Definition with_sites (l : list site) (o : triples) (g : gx) : source :=
  {| src_guard := g; src_root_abs := true; src_root_reassigned := false; src_flag_ctor := true; src_ctor_sig := true;
     src_sites := l; src_other := o; src_chain := []; src_entries := []; src_entry_unread := []; src_census := [] |}.
Definition direct (st : site) (name : string) : step :=
  {| sp_root := s2l "/t/root"; sp_con := true; sp_route := []; sp_site := st;
     sp_in := {| i_arg := s2l name; i_data := []; i_hpath := []; i_prefix := []; i_walked := [] |} |}.

Theorem property_hypotheses_needed_refuted :
  (* an OS call in FileSystem itself (src_other non-empty): source_ok fails and the call reaches the outside *)
  (let s := with_sites [] [("FileSystem", "__contains__", "os.path.exists")] guard_rstrip_sep in
   source_ok s = false /\
   exists st, In st (all_sites s) /\
     prop_run true (src_guard s) (s2l "/w") (fun _ => []) [] [direct st "/t/secret.txt"] = [Some (s2l "/t/secret.txt")]) /\
  (* a site that converts after the check (seeded c18_3 / c18_5) *)
  (let st := site_of "open_bin" "open" "str" (PUnbs (PResolve PArg)) in
   let s := with_sites [st] [] guard_rstrip_sep in
   source_ok s = false /\
   prop_run true (src_guard s) (s2l "/w") (fun _ => []) [] [direct st "..\secret.txt"] = [Some (s2l "/t/root/../secret.txt")]) /\
  (* the string-prefix guard *)
  (let st := site_of "open_bin" "open" "str" (PResolve (PUnbs PArg)) in
   let s := with_sites [st] [] guard_strprefix in
   source_ok s = false /\
   prop_run true (src_guard s) (s2l "/w") (fun _ => []) [] [direct st "..\root_evil\x"] = [Some (s2l "/t/root_evil/x")]).
Proof.
  split; [|split].
  - split; [reflexivity|]. eexists. split; [left; reflexivity|]. vm_compute. reflexivity.
  - split; vm_compute; reflexivity.
  - split; vm_compute; reflexivity.
Qed.

(** ------------------------------------------------------------------ per-object tables *)
(** A table kept on ONE object (root and flag fixed) is a history in which every call has the same root and flag: even a
    key that ignores the flag (the table is the object's own) is transparent. *)
Theorem per_object_table_transparent g cwd evict root con :
  only_drops evict ->
  forall paths,
    memo_run true g cwd evict [] (map (fun p => {| rc_root := root; rc_con := con; rc_path := p |}) paths)
    = map (fun p => resolve g con cwd root p) paths.
Proof.
  intros He paths.
  rewrite (memo_transparent true g cwd evict He _ [] (cache_valid_nil g cwd)).
  - rewrite map_map. reflexivity.
  - rewrite forallb_forall. intros x _. reflexivity.
Qed.

(** ------------------------------------------------------------------ symbolic links: lexical vs real containment *)
Lemma real_link_free lnk : forall rest fuel base,
  link_free lnk base rest -> (List.length rest < fuel)%nat -> real lnk fuel base rest = Some (base ++ rest).
Proof.
  induction rest as [|c r IH]; intros fuel base Hl Hf.
  - destruct fuel; [cbn in Hf; lia|]. cbn. now rewrite app_nil_r.
  - destruct fuel; [cbn in Hf; lia|]. cbn [real]. destruct Hl as [H1 H2]. rewrite H1.
    rewrite (IH fuel (base ++ [c]) H2); [|cbn in Hf; lia]. now rewrite <- app_assoc.
Qed.

(** If the root's own segments are already real (resolved) and no entry strictly below it on the way is a link, then
    a lexically inside path IS inside: the kernel arrives at root ++ rest. *)
Theorem lexical_inside_is_real_without_links lnk root a :
  inside root a ->
  exists rest, segs a = segs root ++ rest /\
    (link_free lnk (segs root) rest -> real lnk (S (List.length rest)) (segs root) rest = Some (segs root ++ rest)).
Proof.
  intros (_ & [rest Hr] & _). exists rest. split; [exact Hr|]. intro Hl. apply real_link_free; [exact Hl|lia].
Qed.

(** ... and with a link inside the root that points out, a lexically inside path is really outside: _resolve_path
    (os.path.abspath, no file-system access) accepts link/secret.txt under /t/root while the kernel opens /t/outside/secret.txt.
    With os.path.realpath in place of abspath the same name would be refused.  C18 is read lexically. *)
Fixpoint seglist_eqb (a b : list str) : bool :=
  match a, b with
  | [], [] => true
  | x :: a', y :: b' => str_eqb x y && seglist_eqb a' b'
  | _, _ => false
  end.
Definition example_links (p : list str) : option (list str) :=
  if seglist_eqb p [s2l "t"; s2l "root"; s2l "link"] then Some [s2l "t"; s2l "outside"] else None.

Theorem symlink_inside_root_leaves_refuted :
  exists cwd root_arg name a,
    is_abs cwd = true /\ raise_sound guard_rstrip_sep = true /\
    resolve guard_rstrip_sep true cwd root_arg name = Ok a /\
    seg_prefixb (segs (abspath cwd root_arg)) (segs a) = true /\
    (* the root itself is link-free: it resolves to itself *)
    real example_links 10 [] (segs (abspath cwd root_arg)) = Some (segs (abspath cwd root_arg)) /\
    (* where the kernel arrives *)
    real example_links 10 [] (segs a) = Some [s2l "t"; s2l "outside"; s2l "secret.txt"] /\
    seg_prefixb (segs (abspath cwd root_arg)) [s2l "t"; s2l "outside"; s2l "secret.txt"] = false /\
    (* '..' after the link is taken lexically: link/../in.txt is /t/root/in.txt, the kernel would have gone to /t/in.txt *)
    resolve guard_rstrip_sep true cwd root_arg (s2l "link/../in.txt") = Ok (s2l "/t/root/in.txt").
Proof.
  exists (s2l "/w"), (s2l "/t/root"), (s2l "link/secret.txt"), (s2l "/t/root/link/secret.txt").
  vm_compute. repeat split.
Qed.

(** ------------------------------------------------------------------ foreign path syntax on POSIX, odd names *)
(** Drive letters, UNC prefixes, NUL and over-long names are ordinary characters for posixpath; the containment theorem
    quantifies over all strings, these are the computed instances (root /t/root, cwd /w): what is accepted is inside. *)
Definition verdict_of (name : str) : res := resolve guard_rstrip_sep true (s2l "/w") (s2l "/t/root") (unbackslash name).
Theorem foreign_syntax_examples :
  verdict_of (s2l "C:\Windows\win.ini") = Ok (s2l "/t/root/C:/Windows/win.ini") /\
  verdict_of (s2l "C:\..\..\secret.txt") = Escape /\
  verdict_of (s2l "C:/../in.txt") = Ok (s2l "/t/root/in.txt") /\
  verdict_of (s2l "\\server\share\x") = Escape /\          (* //server/share/x: absolute, two slashes kept *)
  verdict_of (s2l "\\?\C:\x") = Escape /\
  verdict_of (s2l "//t/root/in.txt") = Escape /\            (* '//t/root' is not '/t/root' for posixpath *)
  verdict_of (s2l "///t/root/in.txt") = Ok (s2l "/t/root/in.txt") /\
  verdict_of (s2l "nope/../../secret.txt") = Escape /\      (* '..' after a component that does not exist *)
  verdict_of (s2l "nope/../in.txt") = Ok (s2l "/t/root/in.txt") /\
  verdict_of (s2l "a" ++ [0%N] ++ s2l "/../../secret.txt") = Escape /\
  verdict_of (s2l "in.txt" ++ [0%N] ++ s2l "/../..") = Escape /\
  verdict_of (s2l "a" ++ [0%N] ++ s2l "b") = Ok (s2l "/t/root/a" ++ [0%N] ++ s2l "b").
Proof. vm_compute. repeat split. Qed.
