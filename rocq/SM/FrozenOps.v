(** C05 (b) — frame model for frozen immutability and copy independence.

    The values themselves (floats produced by sin/cos/atan2) are NOT modelled: a register holds an abstract
    value and an operation may replace the value of exactly those registers that the mutation census of
    math.py (Gen/AngleSites_gen.v, [mut_events]) allows the called method to write.  Definitions only. *)
From Coq Require Import List String Ascii Bool Arith.
Import ListNotations.
Open Scope string_scope.

(** which object a method writes (objects created inside the method are not listed by the census) *)
Inductive origin :=
  | Self          (* the receiver *)
  | Param         (* an argument *)
  | CopyOfSelf    (* the result of self.copy(): the receiver itself when it is frozen *)
  | CopyOfParam   (* the result of arg.copy(): the argument itself when it is frozen *)
  | MaybeAlias    (* FrozenX(arg) / to_matrix(arg): the argument itself when it already has that type *)
  | Unknown.

Definition mut_event := (string * string * origin * string)%type.   (* defining class, method, object, what *)

Definition frozen_class (c : string) : bool :=
  (c =? "FrozenVec") || (c =? "FrozenAngle") || (c =? "FrozenMatrix").
Definition base_of (c : string) : string :=
  if (c =? "FrozenVec") || (c =? "Vec") then "VecBase"
  else if (c =? "FrozenAngle") || (c =? "Angle") then "AngleBase"
  else if (c =? "FrozenMatrix") || (c =? "Matrix") then "MatrixBase" else c.
(** classes whose methods can run with a frozen receiver *)
Definition frozen_reachable (c : string) : bool :=
  frozen_class c || (c =? "VecBase") || (c =? "AngleBase") || (c =? "MatrixBase").
(** private helpers (a single leading underscore: `_mat_mul`, `_vec_rot`, `_to_angle`, whatever they are called
    today) may write their receiver/argument by design; they are not operations of the public API, and every call of
    one that writes is itself an event of the calling method in the census (the translator derives the set of writing
    methods from the source on every run) *)
Definition helper (m : string) : bool :=
  match m with
  | String c1 (String c2 _) => Ascii.eqb c1 "_"%char && negb (Ascii.eqb c2 "_"%char)      (* _name, not __dunder__ *)
  | _ => false
  end.

(** a public operation: method [meth] called on register [recv] (of class [rcls]) with argument registers *)
Record op := { meth : string; recv : nat; args : list nat }.

Section Frame.
  Variable V : Type.
  Definition reg := (string * V)%type.          (* class tag, observable value *)
  Variable table : list mut_event.

  Definition applies (rcls : string) (m : string) (e : mut_event) : bool :=
    let '(c, m', _, _) := e in ((c =? rcls) || (c =? base_of rcls)) && (m' =? m).

  Definition cls_of (st : list reg) (i : nat) : string := match nth_error st i with Some (c, _) => c | None => "" end.

  (** may the call [o] write register [i]? *)
  Definition may_write (st : list reg) (o : op) (i : nat) : bool :=
    existsb (fun e =>
      applies (cls_of st (recv o)) (meth o) e &&
      match snd (fst e) with
      | Self => Nat.eqb i (recv o)
      | Param | MaybeAlias => existsb (Nat.eqb i) (args o)
      | CopyOfSelf => Nat.eqb i (recv o) && frozen_class (cls_of st i)
      | CopyOfParam => existsb (Nat.eqb i) (args o) && frozen_class (cls_of st i)
      | Unknown => true
      end) table.

  (** one step: registers that may be written receive arbitrary new values (oracle [nv]); results are
      appended as new registers [res] (copy/freeze/thaw/pickle/operators all create registers) *)
  Definition step (st : list reg) (x : op * (nat -> V) * list reg) : list reg :=
    let '(o, nv, res) := x in
    app (map (fun ir : nat * reg => let '(i, (c, v)) := ir in if may_write st o i then (c, nv i) else (c, v))
             (combine (seq 0 (List.length st)) st)) res.
  Definition run (h : list (op * (nat -> V) * list reg)) (st : list reg) : list reg := fold_left step h st.

  (** what the census must satisfy (one boolean per event, so that a failure names the method) *)
  Definition event_ok (carve : mut_event -> bool) (e : mut_event) : bool :=
    let '(c, m, o, _) := e in
    helper m || carve e ||
    match o with
    | Self | CopyOfSelf => negb (frozen_reachable c)
    | Param | CopyOfParam | MaybeAlias | Unknown => false
    end.
  Definition table_ok (carve : mut_event -> bool) : bool := forallb (event_ok carve) table.
  Definition public (o : op) : bool := negb (helper (meth o)).
End Frame.

Definition no_carve (e : mut_event) : bool := false.
(** Known defect #5 of the pinned tree (repaired by the C04 change): MatrixBase.__matmul__ multiplies into
    self.copy(), which is self for a FrozenMatrix.  MatrixBase.__rmatmul__ does the same with other.copy();
    that branch is not reachable through the @ operator (MatrixBase.__matmul__ of the left operand never
    returns NotImplemented for a matrix), only by calling the dunder directly. *)
Definition carve_matmul (e : mut_event) : bool :=
  let '(c, m, o, _) := e in
  (c =? "MatrixBase") && (((m =? "__matmul__") && match o with CopyOfSelf => true | _ => false end) ||
                          ((m =? "__rmatmul__") && match o with CopyOfParam => true | _ => false end)).
Definition bad_events (carve : mut_event -> bool) (t : list mut_event) : list (string * string) :=
  map (fun e : mut_event => (fst (fst (fst e)), snd (fst (fst e)))) (filter (fun e => negb (event_ok carve e)) t).
