(** C05 (b) — proofs for SM/FrozenCopyValue.v: a copy-like method whose shape passes [copy_shapes_ok] returns an
    object with the same value as its source: slot for slot identical for vectors and matrices, and for angles equal
    as real numbers whenever the source satisfies the range invariant (the constructor's [% 360 % 360] is the identity
    on [0, 360): Num/Mod360Id.v). *)
From Coq Require Import List String Bool Arith Reals.
From Flocq Require Import Core BinarySingleNaN.
From SV Require Import Num.Mod360 Num.Mod360Proofs Num.Mod360Id Num.AngleSites SM.FrozenOps SM.FrozenCopy SM.FrozenCopyValue.
Import ListNotations.
Open Scope string_scope.

Lemma list_eqb_eq a b : list_eqb a b = true -> a = b.
Proof.
  unfold list_eqb. revert b. induction a as [|x a IH]; intros [|y b]; simpl; try discriminate; auto.
  rewrite andb_true_iff, Nat.eqb_eq. intros [L H]. rewrite andb_true_iff in H. destruct H as [E H].
  apply String.eqb_eq in E. cbn [fst snd] in E. subst y. f_equal. apply IH. rewrite andb_true_iff, Nat.eqb_eq. split; [congruence|exact H].
Qed.

Section Generic.
  Variable V : Type.
  Variable norm : V -> V.
  Variable dflt : V.
  Variable same : V -> V -> Prop.            (* "has the same observable value" *)
  Variable good : V -> Prop.                 (* the invariant under which norm does not move a value *)
  Hypothesis same_refl : forall v, same v v.
  Hypothesis norm_id : forall v, good v -> same (norm v) v.

  (** a slot listed by the transfer is found by [built] (first entry for that name) *)
  Lemma built_in t src s : In s (map (fun e : string * string * xfer => fst (fst e)) t) ->
    exists e, In e t /\ fst (fst e) = s /\ built V norm dflt t src s = conv V norm (snd e) (src (snd (fst e))).
  Proof.
    unfold built. induction t as [|e t IH]; simpl; [tauto|].
    intros H. destruct (fst (fst e) =? s) eqn:E.
    - apply String.eqb_eq in E. exists e; auto.
    - destruct H as [H|H]; [apply String.eqb_neq in E; contradiction|].
      destruct (IH H) as [e' [I [F B]]]. exists e'; auto.
  Qed.

  Theorem copy_value_same : forall rc t src,
    transfer_ok rc t = true ->
    (angle_family rc = true -> forall s, In s (slots_of rc) -> good (src s)) ->
    forall s, In s (slots_of rc) -> same (built V norm dflt t src s) (src s).
  Proof.
    intros rc t src OK G s Hs. unfold transfer_ok in OK. apply andb_true_iff in OK. destruct OK as [L F].
    apply list_eqb_eq in L. rewrite <- L in Hs.
    destruct (built_in t src s Hs) as [e [I [Fe B]]]. rewrite B.
    rewrite forallb_forall in F. specialize (F e I). apply andb_true_iff in F. destruct F as [E X].
    apply String.eqb_eq in E. assert (Es : snd (fst e) = s) by congruence. rewrite Es.
    destruct (snd e); simpl; try apply same_refl.
    apply norm_id. apply G; [exact X|]. rewrite <- L. exact Hs.
  Qed.

  (** vectors and matrices: no conversion that could move a value, whatever the slots hold *)
  Theorem copy_value_exact : forall rc t src,
    transfer_ok rc t = true -> angle_family rc = false ->
    forall s, In s (slots_of rc) -> built V norm dflt t src s = src s.
  Proof.
    intros rc t src OK NA s Hs. unfold transfer_ok in OK. apply andb_true_iff in OK. destruct OK as [L F].
    apply list_eqb_eq in L. rewrite <- L in Hs.
    destruct (built_in t src s Hs) as [e [I [Fe B]]]. rewrite B.
    rewrite forallb_forall in F. specialize (F e I). apply andb_true_iff in F. destruct F as [E X].
    apply String.eqb_eq in E. assert (Es : snd (fst e) = s) by congruence. rewrite Es.
    destruct (snd e); simpl; try reflexivity. rewrite NA in X. discriminate.
  Qed.
End Generic.

(** the table level: an entry of a checked table is the receiver itself or a transfer that passes [transfer_ok] into
    the class the method has to return *)
Lemma shapes_entry l c m rc sh : copy_shapes_ok l = true -> In (c, m, rc, sh) l ->
  rc = result_class c m /\ (sh = CSelf \/ exists t, sh = CSlots t /\ transfer_ok rc t = true).
Proof.
  intros OK I. unfold copy_shapes_ok in OK. rewrite forallb_forall in OK. specialize (OK _ I). simpl in OK.
  apply andb_true_iff in OK. destruct OK as [OK S]. apply andb_true_iff in OK. destruct OK as [_ R].
  apply String.eqb_eq in R. split; [exact R|]. destruct sh; [left; reflexivity|right; eauto|discriminate].
Qed.

(** binary64 instance: [norm] is Python's double modulo, "same" is equality of the real values of finite doubles *)
Definition same64 (a b : b64) : Prop := is_finite a = true /\ is_finite b = true /\ B2R a = B2R b.

Theorem copy_value_equal_angles : forall l, copy_shapes_ok l = true ->
  forall c m rc t, In (c, m, rc, CSlots t) l -> angle_family rc = true ->
  forall src : string -> b64, (forall s, In s (slots_of rc) -> in_range (src s)) ->
  forall s, In s (slots_of rc) ->
    same64 (built b64 double360 (B754_zero false) t src s) (src s) /\ in_range (built b64 double360 (B754_zero false) t src s).
Proof.
  intros l OK c m rc t I A src G s Hs.
  destruct (shapes_entry l c m rc (CSlots t) OK I) as [_ [D|[t' [E T]]]]; [discriminate|]. injection E as <-.
  assert (S : forall s, In s (slots_of rc) ->
              (fun a b => in_range b -> same64 a b) (built b64 double360 (B754_zero false) t src s) (src s)).
  { apply (copy_value_same b64 double360 (B754_zero false) (fun a b => in_range b -> same64 a b) in_range).
    - intros v [Fv _]. repeat split; auto.
    - intros v [Fv Rv] _. destruct (double360_id v Fv Rv) as [Eq Fin]. repeat split; auto.
    - exact T.
    - intros _. exact G. }
  pose proof (S s Hs (G s Hs)) as [F1 [F2 Eq]]. split; [repeat split; auto|].
  destruct (G s Hs) as [_ R]. split; [exact F1|]. rewrite Eq. exact R.
Qed.

Theorem copy_value_equal_exact : forall l, copy_shapes_ok l = true ->
  forall c m rc t, In (c, m, rc, CSlots t) l -> angle_family rc = false ->
  forall (V : Type) (norm : V -> V) (dflt : V) (src : string -> V) s, In s (slots_of rc) -> built V norm dflt t src s = src s.
Proof.
  intros l OK c m rc t I NA V norm dflt src s Hs.
  destruct (shapes_entry l c m rc (CSlots t) OK I) as [_ [D|[t' [E T]]]]; [discriminate|]. injection E as <-.
  exact (copy_value_exact V norm dflt rc t src T NA s Hs).
Qed.

(** the result class is the one the method promises, and has the slots of the source's family *)
Theorem copy_result_class : forall l, copy_shapes_ok l = true ->
  forall c m rc sh, In (c, m, rc, sh) l -> rc = result_class c m.
Proof. intros l OK c m rc sh I. exact (proj1 (shapes_entry l c m rc sh OK I)). Qed.

(** necessary: a copy() that swaps two slots fails the check and changes the value; one that stores the roll through a
    single conversion-free path but from another slot likewise *)
Definition swapped : transfer := [("_x", "_x", TFloat); ("_y", "_z", TFloat); ("_z", "_y", TFloat)].
Theorem copy_value_refuted :
  copy_shapes_ok [("Vec", "copy", "Vec", CSlots swapped)] = false /\
  built nat (fun v => v) 0%nat swapped (fun s => if s =? "_y" then 1%nat else if s =? "_z" then 2%nat else 0%nat) "_y" = 2%nat.
Proof. split; reflexivity. Qed.

(** not vacuous *)
Example shapes_satisfiable :
  copy_shapes_ok [("Angle", "copy", "Angle", CSlots [("_pitch", "_pitch", TNorm360); ("_yaw", "_yaw", TNorm360); ("_roll", "_roll", TNorm360)]);
                  ("Vec", "freeze", "FrozenVec", CSlots [("_x", "_x", TFloat); ("_y", "_y", TFloat); ("_z", "_z", TFloat)]);
                  ("FrozenMatrix", "copy", "FrozenMatrix", CSelf)] = true.
Proof. reflexivity. Qed.
