(** Source-shaped model for property C07, round 3: [Entity.clear] as written — a straight-line list of steps read off
    vmf.py by translate/c07_index_del.py on every run ([gen_clear] in Gen/IndexDel_gen.v): the classname is reset
    through __setitem__ and the targetname deleted through __delitem__ (so that the indexes follow) *before* the key
    dict is emptied directly, and the classname is stored back directly afterwards.

    Executable definitions only; proofs are in IndexClearProofs.v. *)
From stdpp Require Import gmap sets list.
From Coq Require Import NArith.
From SV Require Import SM.IndexModel SM.IndexShapes SM.IndexMaint.

Inductive cstep :=
| CSetClass          (* self['classname'] = classname   where classname = 'worldspawn' if self is self.map.spawn else 'info_null' *)
| CDelKey (k : str)  (* del self['<k>'] *)
| CKeysClear         (* self._keys.clear() *)
| CStoreClass.       (* self._keys['classname'] = classname *)

Global Instance cstep_eq_dec : EqDecision cstep.
Proof. solve_decision. Defined.

Section clear.
  Variable fold : str → str.

  Definition cstep_run (s : cstep) (c : str) (e : nat) (st : mstate) : mstate * nat :=
    match s with
    | CSetClass => set_item fold e cn c st
    | CDelKey k => del_item fold e k st
    | CKeysClear => (with_keys e [] st, 0)
    | CStoreClass => (with_keys e (dset cn c (keys_of st e)) st, 0)   (* exact dict store *)
    end.
  Fixpoint csteps_run (l : list cstep) (c : str) (e : nat) (st : mstate) : mstate * nat :=
    match l with
    | [] => (st, 0)
    | s :: r => let '(st1, er) := cstep_run s c e st in
                match er with 0 => csteps_run r c e st1 | _ => (st1, er) end
    end.
  Definition clear_pg (l : list cstep) (e : nat) (st : mstate) : mstate * nat :=
    csteps_run l (if decide (e = spawn st) then ws else inull) e st.

  (** the named obligations *)
  Fixpoint before_clear (l : list cstep) : list cstep :=
    match l with [] => [] | CKeysClear :: _ => [] | s :: r => s :: before_clear r end.
  Fixpoint from_clear (l : list cstep) : list cstep :=
    match l with [] => [] | CKeysClear :: r => CKeysClear :: r | _ :: r => from_clear r end.
  (** before the dict is emptied: the classname reset, then the targetname deletion, then at most `del self['nodeid']` *)
  Definition clear_reindexes_before_emptying (l : list cstep) : bool :=
    bool_decide (before_clear l = [CSetClass; CDelKey tn]) || bool_decide (before_clear l = [CSetClass; CDelKey tn; CDelKey nodeid]).
  (** the dict is emptied once and the classname stored back *)
  Definition clear_keeps_the_classname (l : list cstep) : bool := bool_decide (from_clear l = [CKeysClear; CStoreClass]).
  Definition clear_ok (l : list cstep) : bool := clear_reindexes_before_emptying l && clear_keeps_the_classname l.

  Definition clear_today : list cstep := [CSetClass; CDelKey tn; CDelKey nodeid; CKeysClear; CStoreClass].
  (** without `del self['targetname']`: the name index is not told *)
  Definition clear_forgets_targetname : list cstep := [CSetClass; CDelKey nodeid; CKeysClear; CStoreClass].
End clear.
