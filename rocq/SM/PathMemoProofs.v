(** C18 — proofs about SM/PathMemo.v (memo table in front of _resolve_path, histories over several objects). *)
From Coq Require Import List NArith Bool.
From SV Require Import SM.PathNorm SM.PathNormProofs SM.PathMemo.
Import ListNotations.

Lemma resolve_is_resolve_abs g con cwd root_arg path :
  resolve g con cwd root_arg path = resolve_abs g con cwd (abspath cwd root_arg) path.
Proof. reflexivity. Qed.

Lemma mkey_eqb_eq a b : mkey_eqb a b = true -> a = b.
Proof.
  unfold mkey_eqb. intro H. apply andb_prop in H as [H Hp]. apply andb_prop in H as [Hr Hc].
  apply str_eqb_eq in Hr. apply str_eqb_eq in Hp. apply Bool.eqb_prop in Hc.
  destruct a, b; cbn in *; congruence.
Qed.

(** invariant of the table: every entry is what the unmemoised function answers for its key *)
Definition cache_valid (g : gx) (cwd : str) (c : cache) : Prop :=
  forall k a, lookup k c = Some a -> resolve_abs g (k_con k) cwd (k_root k) (k_path k) = Ok a.

Lemma cache_valid_nil g cwd : cache_valid g cwd [].
Proof. intros k a H. discriminate H. Qed.

Lemma key_plain wf g cwd call : key_covers wf call = true ->
  let k := key_of wf cwd call in
  resolve_abs g (k_con k) cwd (k_root k) (k_path k) = plain g cwd call.
Proof.
  intros Hc. unfold plain. rewrite resolve_is_resolve_abs. cbn.
  unfold key_covers in Hc. destruct wf; cbn in *; [reflexivity|]. now rewrite Hc.
Qed.

Lemma memo_step_transparent wf g cwd evict c call :
  only_drops evict -> cache_valid g cwd c -> key_covers wf call = true ->
  snd (memo_step wf g cwd evict c call) = plain g cwd call /\
  cache_valid g cwd (fst (memo_step wf g cwd evict c call)).
Proof.
  intros He Hv Hc. unfold memo_step.
  destruct (lookup (key_of wf cwd call) c) as [a|] eqn:El.
  - cbn. split; [|exact Hv]. apply Hv in El. rewrite (key_plain wf g cwd call Hc) in El. now rewrite El.
  - destruct (plain g cwd call) as [a|] eqn:Ep; cbn; (split; [reflexivity|]); [|exact Hv].
    intros k b Hk. apply He in Hk. cbn in Hk.
    destruct (mkey_eqb k (key_of wf cwd call)) eqn:Ek.
    + apply mkey_eqb_eq in Ek. subst k. inversion Hk; subst b.
      rewrite (key_plain wf g cwd call Hc). exact Ep.
    + now apply Hv.
Qed.

(** For every history, every replacement policy, every guard (sound or not): a table whose key contains the flag, or
    that is only ever used by constrained systems, answers exactly what the unmemoised method answers. *)
Theorem memo_transparent wf g cwd evict :
  only_drops evict ->
  forall calls c, cache_valid g cwd c -> forallb (key_covers wf) calls = true ->
    memo_run wf g cwd evict c calls = map (plain g cwd) calls.
Proof.
  intros He. induction calls as [|call rest IH]; intros c Hv Hall; [reflexivity|].
  cbn in Hall. apply andb_prop in Hall as [Hc Hr]. cbn [memo_run map].
  destruct (memo_step_transparent wf g cwd evict c call He Hv Hc) as [H1 H2].
  destruct (memo_step wf g cwd evict c call) as [c' r]. cbn in H1, H2. subst r. f_equal. now apply IH.
Qed.

(** ... hence, with a sound guard, whatever any constrained object is answered at any point of any history over any
    number of objects (constrained or not, same or different roots) is inside that object's root. *)
Theorem memo_history_inside g cwd evict :
  raise_sound g = true -> is_abs cwd = true -> only_drops evict ->
  forall calls n call a,
    nth_error calls n = Some call -> rc_con call = true ->
    nth_error (memo_run true g cwd evict [] calls) n = Some (Ok a) ->
    inside (abspath cwd (rc_root call)) a.
Proof.
  intros Hg Hc He calls n call a Hn Hcon Hr.
  rewrite (memo_transparent true g cwd evict He calls [] (cache_valid_nil g cwd)) in Hr.
  2:{ apply forallb_forall. intros x _. reflexivity. }
  rewrite nth_error_map, Hn in Hr. cbn in Hr. inversion Hr as [Hp]. unfold plain in Hp. rewrite Hcon in Hp.
  exact (segprefix_guard_sound g cwd (rc_root call) (rc_path call) a Hg Hc Hp).
Qed.

(** The same for a table keyed without the flag when no unconstrained object ever uses it. *)
Theorem memo_constrained_only_inside g cwd evict :
  raise_sound g = true -> is_abs cwd = true -> only_drops evict ->
  forall calls n call a,
    forallb rc_con calls = true ->
    nth_error calls n = Some call ->
    nth_error (memo_run false g cwd evict [] calls) n = Some (Ok a) ->
    inside (abspath cwd (rc_root call)) a.
Proof.
  intros Hg Hc He calls n call a Hall Hn Hr.
  rewrite (memo_transparent false g cwd evict He calls [] (cache_valid_nil g cwd)) in Hr by exact Hall.
  rewrite nth_error_map, Hn in Hr. cbn in Hr. inversion Hr as [Hp]. unfold plain in Hp.
  assert (Hcon : rc_con call = true).
  { rewrite forallb_forall in Hall. apply Hall. eapply nth_error_In; eauto. }
  rewrite Hcon in Hp.
  exact (segprefix_guard_sound g cwd (rc_root call) (rc_path call) a Hg Hc Hp).
Qed.

(** no table at all is a policy *)
Lemma drop_all_only_drops : only_drops (fun _ => []).
Proof. intros c k a H. discriminate H. Qed.
Lemma keep_all_only_drops : only_drops (fun c => c).
Proof. intros c k a H. exact H. Qed.
(** bounded table (lru_cache(maxsize=n)): keep the n newest *)
Lemma firstn_only_drops n : only_drops (firstn n).
Proof.
  intros c. revert n. induction c as [|[k' v] r IH]; intros n k a H.
  - now rewrite firstn_nil in H.
  - destruct n; [discriminate H|]. cbn in *. destruct (mkey_eqb k k'); [exact H|]. now apply (IH n).
Qed.

From Coq Require Import String.
Open Scope string_scope.
(** The fault: the key of functools.lru_cache on the method ignores constrain_path.  History: an unconstrained
    RawFileSystem('/t/root') resolves '../secret.txt'; a constrained RawFileSystem('/t/root') is asked the same. *)
Definition fault_history : list rcall :=
  [ {| rc_root := s2l "/t/root"; rc_con := false; rc_path := s2l "../secret.txt" |};
    {| rc_root := s2l "/t/root"; rc_con := true;  rc_path := s2l "../secret.txt" |} ].

Theorem memo_key_without_flag_refuted :
  raise_sound guard_rstrip_sep = true /\
  memo_run false guard_rstrip_sep (s2l "/w") (fun c => c) [] fault_history
    = [Ok (s2l "/t/secret.txt"); Ok (s2l "/t/secret.txt")] /\
  seg_prefixb (segs (abspath (s2l "/w") (s2l "/t/root"))) (segs (s2l "/t/secret.txt")) = false /\
  memo_run true guard_rstrip_sep (s2l "/w") (fun c => c) [] fault_history = [Ok (s2l "/t/secret.txt"); Escape] /\
  map (plain guard_rstrip_sep (s2l "/w")) fault_history = [Ok (s2l "/t/secret.txt"); Escape] /\
  (* the constrained object alone keeps refusing: raising calls are not stored *)
  memo_run false guard_rstrip_sep (s2l "/w") (fun c => c) [] (tl fault_history ++ tl fault_history)%list = [Escape; Escape].
Proof. vm_compute. repeat split. Qed.
