(** C16 — several engine databases (srctools.fgd._ENGINE_DB is a LIST: add_engine_database() puts another
    binary database in front of the bundled one).

      EntityDef.engine_def(c)   walks the list and returns the answer of the first database whose get_ent does
                                not raise KeyError (a look-up that misses does not decode anything);
      FGD.engine_dbase()        loads every database completely (get_fgd) and merges the `entities` dictionaries
                                in list order; how a class name that is already present is treated is the
                                decisive code shape: kept (`if not k in d: d[k] = v`, [FirstWins]) or overwritten
                                (`d.update(...)` / `d[k] = v`, [LastWins]) — read from the source by
                                translate/c16_fgd.py ([engine_dbase_merge]).

    Every database is the state machine of SM/LazyDb.v; they share nothing (each has its own blocks, its own
    shared strings = part of its block bytes as far as [decode] is concerned). *)
From Coq Require Import List Arith Bool.
From SV Require Import SM.LazyDb.
Import ListNotations.

(** * dictionaries as the merge loop sees them: newest binding first *)
Inductive merge_mode := FirstWins | LastWins.
Section Dict.
Variables (K V : Type).
Variable eqb : K -> K -> bool.
Definition dict : Type := list (K * V).
Fixpoint dget (c : K) (m : dict) : option V :=
  match m with [] => None | (k, v) :: r => if eqb k c then Some v else dget c r end.
(** one `(classname, ent)` item of `dbasefgd.entities.items()` *)
Definition merge_step (mode : merge_mode) (m : dict) (kv : K * V) : dict :=
  match mode with
  | LastWins => kv :: m
  | FirstWins => match dget (fst kv) m with Some _ => m | None => kv :: m end
  end.
(** `for dbase in databases: for k, v in dbase.get_fgd().entities.items(): ...` starting from an empty FGD *)
Definition merge (mode : merge_mode) (tables : list dict) : dict :=
  fold_left (fun m t => fold_left (merge_step mode) t m) tables [].
Fixpoint first_some {A} (l : list (option A)) : option A :=
  match l with [] => None | Some x :: _ => Some x | None :: r => first_some r end.
End Dict.

Section Multi.
Variables (name ent bytes : Type).
Variable name_eqb : name -> name -> bool.
Variable decode : list name -> bytes -> list ent.
Variable ent_bases : ent -> list name.
Variable is_empty : bytes -> bool.
Variable empty_bytes : bytes.
Variable via_get_ent : bool.

Local Notation db := (db name ent bytes).
Local Notation get_full := (get_full name ent bytes name_eqb decode ent_bases is_empty empty_bytes via_get_ent).
Local Notation parse_all := (parse_all name ent bytes name_eqb decode ent_bases is_empty empty_bytes via_get_ent).
Definition answer : Type := (ent * list (option ent))%type.   (* a definition and what its stored base names were replaced by *)

(** EntityDef.engine_def: `for dbase in databases: try: return dbase.get_ent(c) except KeyError: pass`; None = KeyError *)
Fixpoint engine_def (fuel : nat) (ds : list db) (c : name) : option answer * list db :=
  match ds with
  | [] => (None, [])
  | d :: r =>
      let '(x, d') := get_full fuel d c in
      match x with
      | Some a => (Some a, d' :: r)
      | None => let '(y, r') := engine_def fuel r c in (y, d' :: r')
      end
  end.

(** a history of engine_def() calls on one process-wide list of databases *)
Fixpoint run_defs (fuel : nat) (ds : list db) (qs : list name) : list (option answer) * list db :=
  match qs with
  | [] => ([], ds)
  | c :: r => let '(x, ds') := engine_def fuel ds c in let '(xs, ds'') := run_defs fuel ds' r in (x :: xs, ds'')
  end.

(** EngineDB.get_fgd().entities of one database: every class name of the file with its definition in the completely
    loaded database *)
Definition loaded_entries (fuel : nat) (B : list (block name bytes)) : dict name answer :=
  let d := parse_all fuel (init name ent bytes B) in
  flat_map (fun k => match fst (get_full fuel d k) with Some a => [(k, a)] | None => [] end) (flat_map fst B).

(** FGD.engine_dbase()[c] *)
Definition engine_dbase (mode : merge_mode) (fuel : nat) (Bs : list (list (block name bytes))) (c : name) : option answer :=
  dget name answer name_eqb c (merge name answer name_eqb mode (map (loaded_entries fuel) Bs)).

(** the shortcut `if len(databases) == 1: return databases[0].get_fgd()` *)
Definition engine_dbase_single (fuel : nat) (B : list (block name bytes)) (c : name) : option answer :=
  dget name answer name_eqb c (loaded_entries fuel B).
End Multi.
