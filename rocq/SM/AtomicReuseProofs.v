(** Proofs about SM/AtomicReuse.v: reuse of one AtomicWriter object for several [with] blocks. *)
From Coq Require Import List Bool Arith PeanoNat Lia.
From SV Require Import SM.AtomicWriter SM.AtomicWriterProofs SM.AtomicWriterThms SM.AtomicExit SM.AtomicExitProofs
  SM.AtomicReuse.
Import ListNotations.

(** ** The enumeration of attribute states is complete *)
Lemma opt_vals_complete (w : option xval) : In w opt_vals.
Proof. destruct w as [[]|]; cbn; tauto. Qed.

Lemma states_complete const : forall attrs init a, consistent attrs init const a -> In a (states attrs init const).
Proof.
  induction attrs as [|x xs IH]; intros init a H.
  - destruct init, a; cbn in H; try contradiction. cbn. auto.
  - destruct init as [|v vs]; [destruct a; cbn in H; contradiction|].
    destruct a as [|w ws]; [cbn in H; contradiction|]. cbn in H. destruct H as [Hc Hr].
    cbn [states]. specialize (IH vs ws Hr). destruct (existsb (Nat.eqb x) const).
    + rewrite (Hc eq_refl). now apply in_map.
    + apply in_flat_map. exists w. split; [apply opt_vals_complete|now apply in_map].
Qed.

Lemma proto_eqb_eq x y : proto_eqb x y = true -> x = y.
Proof.
  unfold proto_eqb. intros H. apply andb_prop in H as [H12 H3]. apply andb_prop in H12 as [H1 H2].
  apply eqb_prop in H1. apply xtree_eqb_eq in H2. apply xtree_eqb_eq in H3.
  destruct x, y. cbn in *. now subst.
Qed.

(** [reuse_indep]: in whatever state the previous uses left the attributes, the next use runs the first-use protocol. *)
Theorem reuse_indep_sound o : reuse_indep o = true -> forall a, ostate o a -> proto_at o a = obj_proto o.
Proof.
  unfold reuse_indep, ostate. intros H a Ha. apply andb_prop in H as [_ H].
  rewrite forallb_forall in H. apply proto_eqb_eq, H, states_complete, Ha.
Qed.

(** The state [__init__] leaves is one of the states (the statement above is not vacuous). *)
Lemma consistent_init const : forall attrs init, length init = length attrs -> consistent attrs init const init.
Proof.
  induction attrs as [|x xs IH]; intros [|v vs] H; cbn in *; try discriminate; auto.
Qed.
Lemma init_is_a_state o : reuse_indep o = true -> ostate o (o_init o).
Proof.
  unfold reuse_indep, ostate. intros H. apply andb_prop in H as [H _]. apply Nat.eqb_eq in H.
  now apply consistent_init.
Qed.

(** ** One use *)
Lemma proto_ok_safe x : proto_ok x = true -> proto_safe x = true.
Proof.
  intros H. destruct (pok_family x H) as [Hf Hc]. unfold proto_safe. rewrite Hf. cbn. now apply cfg_ok_safe.
Qed.

Lemma proto_alone_file_untouched x d0 s : proto_safe x = true -> forall faults k, k <> dest s ->
  sdt (alonet x s faults d0) (File k) = d0 (File k).
Proof.
  intros H faults k Hk. destruct (psafe_family x H) as [Hf Hs].
  destruct (alonet_refines x Hf d0 s faults) as (Hd & _). rewrite Hd.
  apply (alone_untouched (derive_cfg x) d0 s Hs faults (File k)).
  - intros E. injection E as E. contradiction.
  - intros i E. discriminate.
Qed.

(** What the property demands of one use that starts in directory [d] and has reached [st]. *)
Definition use_good (s : scen) (d : dir) (st : syst) : Prop :=
  sdt st (File (dest s)) = (if committedt (q1 st) then Some (new s) else d (File (dest s))) /\
  (faulted false (trt st) -> committedt (q1 st) = false /\ sdt st (File (dest s)) = d (File (dest s))) /\
  (forall r, raise_at s = Some r -> r <= length (body s) -> sdt st (File (dest s)) = d (File (dest s))) /\
  (finishedt (q1 st) = true -> (forall i, ~ In (false, (EUnlink i, RFault)) (trt st)) ->
   forall i, sdt st (Tmp i) = d (Tmp i)) /\
  (forall k, k <> dest s -> sdt st (File k) = d (File k)).

Lemma one_use_good x s d faults : proto_ok x = true -> use_good s d (alonet x s faults d).
Proof.
  intros H. pose proof (proto_ok_safe x H) as Hs. unfold use_good. repeat split.
  - exact (proto_alone_crash_atomic x d s Hs faults).
  - apply (proto_alone_fault_keeps_old x d s Hs faults). assumption.
  - apply (proto_alone_fault_keeps_old x d s Hs faults). assumption.
  - intros r Hr Hle. exact (proj1 (proto_alone_body_exception_cleans x d s H r faults Hr Hle)).
  - exact (proto_alone_no_temp_left x d s H faults).
  - intros k Hk. exact (proto_alone_file_untouched x d s Hs faults k Hk).
Qed.

(** ** Histories *)
Fixpoint hist_good (o : wobj) (h : list huse) (d : dir) : Prop :=
  match h with
  | [] => True
  | (s, fl, a) :: r =>
      let st := alonet (proto_at o a) s fl d in
      use_good s d st /\ (finishedt (q1 st) = true -> hist_good o r (sdt st))
  end.
Definition hstates_ok (o : wobj) (h : list huse) : Prop := Forall (fun u : huse => ostate o (snd u)) h.

Theorem reuse_history_good o : reuse_indep o = true -> proto_ok (obj_proto o) = true ->
  forall h, hstates_ok o h -> forall d, hist_good o h d.
Proof.
  intros Hi Hok h Hh. induction Hh as [|[[s fl] a] r Ha _ IH]; intros d; cbn [hist_good]; [exact I|].
  cbn [snd] in Ha. rewrite (reuse_indep_sound o Hi a Ha). split.
  - now apply one_use_good.
  - intros _. apply IH.
Qed.

(** Every use ran to its end and no cleanup unlink was itself refused. *)
Fixpoint hclean (o : wobj) (h : list huse) (d : dir) : Prop :=
  match h with
  | [] => True
  | (s, fl, a) :: r =>
      let st := alonet (proto_at o a) s fl d in
      finishedt (q1 st) = true /\ (forall i, ~ In (false, (EUnlink i, RFault)) (trt st)) /\ hclean o r (sdt st)
  end.

(** Temp files do not accumulate: after any history of successful, abandoned and failing uses the temp names are
    exactly as before the first use, and files that are no destination of the history are untouched. *)
Theorem reuse_no_temp_accumulates o : reuse_indep o = true -> proto_ok (obj_proto o) = true ->
  forall h, hstates_ok o h -> forall d, hclean o h d ->
  (forall i, hfinal o h d (Tmp i) = d (Tmp i)) /\
  (forall k, (forall u, In u h -> dest (fst (fst u)) <> k) -> hfinal o h d (File k) = d (File k)).
Proof.
  intros Hi Hok h Hh. induction Hh as [|[[s fl] a] r Ha _ IH]; intros d Hc; cbn [hfinal]; [split; reflexivity|].
  cbn [hclean] in Hc. destruct Hc as (Hf & Hu & Hc). rewrite Hf. cbn [snd] in Ha.
  destruct (IH _ Hc) as [IHt IHf].
  pose proof (one_use_good (proto_at o a) s d fl) as G. rewrite (reuse_indep_sound o Hi a Ha) in *.
  destruct (G Hok) as (_ & _ & _ & Gt & Gf). split.
  - intros i. rewrite IHt. now apply Gt.
  - intros k Hk. rewrite IHf.
    + apply Gf. intros E. apply (Hk (s, fl, a)); [now left|]. now rewrite E.
    + intros u Hu'. apply Hk. now right.
Qed.

(** ** A history of [BSP.save] calls
    Every call builds a fresh writer object; its rebuild phase may raise before the writer is entered (then nothing at
    all happens and the next call finds the directory as it was).  [pre] = the rebuild phase succeeded. *)
Definition suse := (bool * scen * list bool)%type.
Fixpoint shist_good (x : xproto) (h : list suse) (d : dir) : Prop :=
  match h with
  | [] => True
  | (pre, s, fl) :: r =>
      let st := save_alone x pre s fl d in
      if pre then use_good s d st /\ (finishedt (q1 st) = true -> shist_good x r (sdt st))
      else (forall n, sdt st n = d n) /\ trt st = [] /\ shist_good x r d
  end.
Fixpoint shfinal (x : xproto) (h : list suse) (d : dir) : dir :=
  match h with
  | [] => d
  | (pre, s, fl) :: r =>
      let st := save_alone x pre s fl d in
      if pre then (if finishedt (q1 st) then shfinal x r (sdt st) else sdt st) else shfinal x r d
  end.

Theorem save_history_good x : proto_ok x = true -> forall h d, shist_good x h d.
Proof.
  intros H. induction h as [|[[pre s] fl] r IH]; intros d; cbn [shist_good]; [exact I|].
  destruct pre.
  - split; [exact (one_use_good x s d fl H)|intros _; apply IH].
  - destruct (save_pre_failure_touches_nothing x d s fl) as (A & B & _). repeat split; auto.
Qed.

(** After any history of saves in which every started writer ran to its end and no cleanup unlink was refused: no
    temp file more than before, and every file that is no destination of the history is untouched. *)
Fixpoint shclean (x : xproto) (h : list suse) (d : dir) : Prop :=
  match h with
  | [] => True
  | (pre, s, fl) :: r =>
      let st := save_alone x pre s fl d in
      if pre then finishedt (q1 st) = true /\ (forall i, ~ In (false, (EUnlink i, RFault)) (trt st)) /\ shclean x r (sdt st)
      else shclean x r d
  end.
Theorem save_history_no_temp_accumulates x : proto_ok x = true -> forall h d, shclean x h d ->
  (forall i, shfinal x h d (Tmp i) = d (Tmp i)) /\
  (forall k, (forall u, In u h -> dest (snd (fst u)) <> k) -> shfinal x h d (File k) = d (File k)).
Proof.
  intros H. induction h as [|[[pre s] fl] r IH]; intros d Hc; cbn [shfinal]; [split; reflexivity|].
  cbn [shclean] in Hc. destruct pre.
  - cbn [save_alone] in *. destruct Hc as (Hf & Hu & Hc). rewrite Hf. destruct (IH _ Hc) as [IHt IHf].
    destruct (one_use_good x s d fl H) as (_ & _ & _ & Gt & Gf). split.
    + intros i. rewrite IHt. now apply Gt.
    + intros k Hk. rewrite IHf.
      * apply Gf. intros E. apply (Hk (true, s, fl)); [now left|]. now rewrite E.
      * intros u Hu'. apply Hk. now right.
  - destruct (IH _ Hc) as [IHt IHf]. split; [exact IHt|].
    intros k Hk. apply IHf. intros u Hu'. apply Hk. now right.
Qed.

(** ** Examples and refutations *)
Lemma obj_fixed_reusable :
  reuse_indep obj_fixed = true /\ proto_ok (obj_proto obj_fixed) = true /\
  exit_always_leaves obj_fixed 0 VNone = true /\ init_unentered obj_fixed = true /\ enter_binds obj_fixed = true.
Proof. vm_compute. auto. Qed.

Lemma obj_flag_reset_reusable :
  reuse_indep obj_flag_reset_on_entry = true /\ proto_ok (obj_proto obj_flag_reset_on_entry) = true /\
  reuse_indep obj_flag_reset_in_exit = true /\ proto_ok (obj_proto obj_flag_reset_in_exit) = true.
Proof. vm_compute. auto. Qed.

(** The "committed" flag in an attribute that only [__init__] initialises: the first use is good, but after one
    successful use the flag is True (the leaf of the all-ok path), and the next use, abandoned by an exception of the
    body after one write, leaves tmp_1 with the partial data behind although nothing failed in the cleanup. *)
Definition st_after_success : astate := [Some VNone; Some VTName; Some VDest; Some VTrue].
Lemma flag_never_reset_refuted :
  let o := obj_flag_never_reset in
  proto_ok (obj_proto o) = true /\ reuse_indep o = false /\
  ok_leaf (leaf_tree o (o_init o) false
             (fun e => is_val VNone (e 0) && is_val VTName (e 1) && is_val VDest (e 2) && is_val VTrue (e 6))) = true /\
  ostate o st_after_success /\
  let h := [(sc_a, repeat false 7, o_init o); (sc_raise, repeat false 6, st_after_success)] in
  hclean o h d_old /\
  hfinal o h d_old (Tmp 1) = Some [1] /\ d_old (Tmp 1) = None /\ hfinal o h d_old (File 0) = Some [1; 2; 3].
Proof. vm_compute. repeat split; auto; intros; intuition discriminate. Qed.

(** A history of saves: a successful one, one whose rebuild phase raises, one abandoned by its body. *)
Lemma save_history_example :
  let x := obj_proto obj_fixed in
  let h := [(true, sc_a, repeat false 7); (false, sc_a, []); (true, sc_raise, repeat false 6)] in
  shclean x h d_old /\ shfinal x h d_old (File 0) = Some [1; 2; 3] /\ shfinal x h d_old (Tmp 1) = d_old (Tmp 1).
Proof. vm_compute. repeat split; auto; intros; intuition discriminate. Qed.
