(** C17 — [kinds_ok] (generated, evaluated per run) + [follows] (the residual contract, per statement kind) give
    [respects] of SM/C17Whole.v; a machine that follows its table exists (the example of SM/C17WholeProofs.v). *)
From Coq Require Import List Bool String Arith PArith NArith Reals Permutation.
From SV Require Import SM.Store SM.StoreProofs SM.StoreCopy SM.C17Frame SM.C17Global SM.C17Compose SM.C17Whole
                       SM.C17WholeProofs SM.C17PropertyProofs SM.C17Kinds Rot.C17Base Rot.C17GeomProofs.
Import ListNotations.
Local Open Scope nat_scope.

Lemma disciplined_mono : forall all c1 c2, (forall x, In x c1 -> In x c2) ->
  forall h R h' R', disciplined all c1 h R h' R' -> disciplined all c2 h R h' R'.
Proof.
  intros all c1 c2 I h R h' R' D. induction D.
  - apply dis_done.
  - eapply dis_work; eassumption.
  - eapply dis_copy; try eassumption. apply I. assumption.
Qed.

Lemma kind_of_in : forall tbl i k, kind_of tbl i = Some k -> In (i, k) tbl.
Proof.
  induction tbl as [|[j k'] r IH]; intros i k E; [discriminate|]. cbn [kind_of] in E.
  destruct (Nat.eqb j i) eqn:J.
  - apply Nat.eqb_eq in J. injection E as <-. subst j. left; reflexivity.
  - right. apply IH. exact E.
Qed.

Section Proofs.
  Variable all : list (string * census).
  Variable copied : list string.
  Variables X G : Type.
  Variable a : loc.
  Variable tbl : kind_table.
  Variable body : skel.
  Hypothesis ok : kinds_ok tbl copied body = true.
  Variable m : sem (pstate X) G.
  Hypothesis fo : follows all X G a tbl m.

  Lemma entry_ok : forall i k, kind_of tbl i = Some k -> kind_ok copied k = true.
  Proof.
    intros i k E. apply kind_of_in in E. unfold kinds_ok in ok. apply andb_prop in ok. destruct ok as (A & _).
    rewrite forallb_forall in A. exact (A (i, k) E).
  Qed.

  Lemma heap_dis : forall i s s1, heap_by_kind all X (kind_of tbl i) s s1 -> dis all copied X s s1.
  Proof.
    intros i s s1 H. unfold dis. destruct (kind_of tbl i) as [k|] eqn:E.
    - pose proof (entry_ok i k E) as K. destruct k; cbn [heap_by_kind] in H; cbn [kind_ok] in K; try discriminate.
      + destruct H as (ms & St). eapply dis_work; [exact St | apply dis_done].
      + destruct H as (ms & St). eapply dis_work; [exact St | apply dis_done].
      + eapply disciplined_mono; [|exact H]. intros x [<-|[]].
        apply existsb_exists in K. destruct K as (y & Iy & Ey). apply String.eqb_eq in Ey. subst y. exact Iy.
    - cbn [heap_by_kind] in H. destruct H as (ms & St). eapply dis_work; [exact St | apply dis_done].
  Qed.

  Lemma val_alike : forall i (B : Type) (f : pstate X -> B), val_by_kind X a (kind_of tbl i) f ->
    forall s s', alike X a s s' -> f s = f s'.
  Proof.
    intros i B f H s s' A. destruct (kind_of tbl i) as [k|] eqn:E.
    - pose proof (entry_ok i k E) as K. destruct k; cbn [val_by_kind] in H; cbn [kind_ok] in K; try discriminate.
      + apply H. exact (proj1 A).
      + apply H. exact A.
      + apply H. exact A.
    - apply H. exact (proj1 A).
  Qed.

  Theorem kinds_respects : respects all copied X G a m.
  Proof.
    constructor.
    - intros i s W. exact (heap_dis i _ _ (f_eff_heap _ _ _ _ _ _ fo i s W)).
    - intros i s g W. exact (heap_dis i _ _ (f_teff_heap _ _ _ _ _ _ fo i s g W)).
    - intros i s W. exact (heap_dis i _ _ (f_next_heap _ _ _ _ _ _ fo i s W)).
    - intros i s s' A. pose proof (val_alike i _ _ (f_eff_val _ _ _ _ _ _ fo i) s s' A) as E. injection E as E1 E2. split; assumption.
    - intros i s s' g A. pose proof (val_alike i _ _ (f_teff_val _ _ _ _ _ _ fo i g) s s' A) as E. injection E as E1 E2. split; assumption.
    - intros i s s' A. exact (val_alike i _ _ (f_next_val _ _ _ _ _ _ fo i) s s' A).
    - intros i s s' A. exact (val_alike i _ _ (f_cond_val _ _ _ _ _ _ fo i) s s' A).
    - intros i s s' g A. exact (val_alike i _ _ (f_gcond_val _ _ _ _ _ _ fo i g) s s' A).
    - intros i s s' g A. exact (val_alike i _ _ (f_gupd_val _ _ _ _ _ _ fo i g) s s' A).
    - intros i s s' A. exact (val_alike i _ _ (f_count_val _ _ _ _ _ _ fo i) s s' A).
  Qed.
End Proofs.

(** An [KdOther] entry, a copy of a class that is not in the list, or a site without an entry make [kinds_ok] false. *)
Example kinds_ok_refuted_other : kinds_ok [(1, KdLocal); (2, KdOther)] ["Solid"%string] (KSeq (KEff 1) (KEff 2)) = false.
Proof. reflexivity. Qed.
Example kinds_ok_refuted_class : kinds_ok [(1, KdCopy "Output")] ["Solid"%string] (KEff 1) = false.
Proof. reflexivity. Qed.
Example kinds_ok_refuted_missing : kinds_ok [(1, KdLocal)] ["Solid"%string] (KSeq (KEff 1) (KIf (TOther 2) KNil KNil)) = false.
Proof. reflexivity. Qed.

(** Non-vacuity: the copying machine of SM/C17WholeProofs.v follows the table "site 0 is local, site 1 copies a Solid". *)
Definition ex_tbl : kind_table := [(0, KdLocal); (1, KdCopy "Solid")].

(* the example semantics gives every index the copying statement; a table-following variant: only site 1 copies *)
Definition ex_sem2 : sem (pstate ex_X) bool := {|
  eff := fun i s => if Nat.eqb i 1 then (ex_copy s, false) else (s, false);
  teff := fun _ s _ => (s, false);
  cond := fun _ _ => true;
  gcond := fun _ _ g => g;
  gupd := fun _ _ _ => true;
  count := fun _ _ => 1%nat;
  next := fun _ s => s |}.

Lemma ex_copy_val : forall s s', alike ex_X ex_a s s' -> p_x _ (ex_copy s) = p_x _ (ex_copy s').
Proof.
  intros s s' (E & _). unfold ex_copy. rewrite E.
  destruct (p_heap _ s _) as [?|], (p_heap _ s' _) as [?|];
    repeat match goal with |- context [match ?h ex_a with _ => _ end] => destruct (h ex_a) as [[? [|? ?]]|] end;
    reflexivity.
Qed.

Lemma ex_follows : follows ex_all ex_X bool ex_a ex_tbl ex_sem2.
Proof.
  assert (N : forall s : pstate ex_X, exists ms, steps (p_heap _ s, p_roots _ s) ms (p_heap _ s, p_roots _ s))
    by (intros; exists []; constructor).
  constructor; cbn [eff teff next cond gcond gupd count ex_sem2 fst snd].
  - intros i s W. destruct i as [|[|i]]; cbn [ex_tbl kind_of Nat.eqb heap_by_kind fst snd]; try apply N.
    pose proof (ex_copy_dis s W) as D. exact D.
  - intros i s g W. destruct i as [|[|i]]; cbn [ex_tbl kind_of Nat.eqb heap_by_kind fst snd]; try apply N. apply dis_done.
  - intros i s W. destruct i as [|[|i]]; cbn [ex_tbl kind_of Nat.eqb heap_by_kind fst snd]; try apply N. apply dis_done.
  - intros i. destruct i as [|[|i]]; cbn [ex_tbl kind_of Nat.eqb val_by_kind fst snd]; intros s s' E; try (rewrite E; reflexivity).
    rewrite (ex_copy_val s s' E). reflexivity.
  - intros i g. destruct i as [|[|i]]; cbn [ex_tbl kind_of Nat.eqb val_by_kind fst snd]; intros s s' E; try (rewrite E; reflexivity).
    destruct E as (E & _). rewrite E. reflexivity.
  - intros i. destruct i as [|[|i]]; cbn [ex_tbl kind_of Nat.eqb val_by_kind]; intros s s' E; try exact E. exact (proj1 E).
  - intros i. destruct i as [|[|i]]; cbn [ex_tbl kind_of Nat.eqb val_by_kind]; intros; reflexivity.
  - intros i g. destruct i as [|[|i]]; cbn [ex_tbl kind_of Nat.eqb val_by_kind]; intros; reflexivity.
  - intros i g. destruct i as [|[|i]]; cbn [ex_tbl kind_of Nat.eqb val_by_kind]; intros; reflexivity.
  - intros i. destruct i as [|[|i]]; cbn [ex_tbl kind_of Nat.eqb val_by_kind]; intros; reflexivity.
Qed.

Example kinds_hypotheses_satisfiable :
  kinds_ok ex_tbl ex_copied ex_body = true /\ follows ex_all ex_X bool ex_a ex_tbl ex_sem2 /\
  copied_classes_fresh ex_all ex_copied = true /\ fn_ok ex_body = true /\
  (let t2 := final_T ex_X bool ex_sem2 positive nat ex_arith ex_body ex_enter ex_content
               [((V 10 0 0, mid), 2%positive); ((V 0 20 0, mid), 3%positive)] ex_t0 false in
   snd t2 = [3%positive; 2%positive] /\ fst t2 1%positive = Some (Node true [])).
Proof.
  split; [reflexivity|]. split; [exact ex_follows|]. split; [reflexivity|]. split; [reflexivity|]. split; reflexivity.
Qed.

(** The property with the per-statement table in place of [respects]: SM/C17PropertyProofs.v + [kinds_respects]. *)
Section PropertyByKinds.
  Variable all : list (string * census).
  Variable copied : list string.
  Variable fns : list (list N * skel).
  Hypothesis fresh : copied_classes_fresh all copied = true.
  Hypothesis gates : forallb (fun f => fn_ok (snd f)) fns = true.
  Variable name : list N.
  Variable body : skel.
  Hypothesis present : In (name, body) fns.
  Variable tbl : kind_table.
  Hypothesis ok : kinds_ok tbl copied body = true.
  Variables X G A D : Type.
  Variable a : loc.
  Variable m : sem (pstate X) G.
  Hypothesis fo : follows all X G a tbl m.
  Variable enter : A -> X.
  Variable content : X -> list (item D).

  Notation collapse := (collapse X G m A D g_arith body enter content).

  Theorem kinds_each_collapse_as_if_first : forall cs t g g0, wf_T a t ->
    c_history T G placement A (added D) collapse cs t g =
    map (as_if_first T G placement A (added D) collapse ident_placement (transform D g_arith) t g0) cs.
  Proof.
    exact (property_each_collapse_as_if_first all copied fns fresh gates name body present X G A D a m
             (kinds_respects all copied X G a tbl body ok m fo) enter content).
  Qed.

  Theorem kinds_order_independent : forall cs cs' t g, wf_T a t -> Permutation cs cs' ->
    Permutation (c_history T G placement A (added D) collapse cs t g) (c_history T G placement A (added D) collapse cs' t g).
  Proof.
    exact (property_order_independent all copied fns fresh gates name body present X G A D a m
             (kinds_respects all copied X G a tbl body ok m fo) enter content).
  Qed.

  Theorem kinds_template_intact : forall cs t g, wf_T a t ->
    let t' := final_T X G m A D g_arith body enter content cs t g in
    wf_T a t' /\ forall n, unfold n (fst t') (VRef a) = unfold n (fst t) (VRef a).
  Proof.
    exact (property_template_intact all copied fresh body X G A D a m
             (kinds_respects all copied X G a tbl body ok m fo) enter content).
  Qed.
End PropertyByKinds.
