(** C16 — proofs about SM/FgdCopyShare.v: a copy expression that re-creates every mutable layer of a field's shape builds a
    value none of whose objects is an object of the original; in-place changes through the copy are then invisible there. *)
From Coq Require Import List NArith Bool Lia.
From SV Require Import SM.FgdCopyShare.
Import ListNotations.
Open Scope N_scope.

Section ValInd.
Variable P : val -> Prop.
Hypothesis HI : forall n, P (VImm n).
Hypothesis HM : forall a ks, Forall P ks -> P (VMut a ks).
Fixpoint val_ind' (v : val) : P v :=
  match v with
  | VImm n => HI n
  | VMut a ks =>
      HM a ks ((fix go (ks : list val) : Forall P ks :=
                  match ks with [] => Forall_nil P | k :: r => Forall_cons k (val_ind' k) (go r) end) ks)
  end.
End ValInd.

(** the local fixpoints of the model, named *)
Fixpoint typed_fields (fs : list ftype) (ks : list val) {struct ks} : bool :=
  match fs, ks with
  | [], [] => true
  | f :: fs', k :: ks' => has_type f k && typed_fields fs' ks'
  | _, _ => false
  end.
Definition zip_copy (base : N) : list cexpr -> list val -> list val :=
  fix zip (es : list cexpr) (ks : list val) {struct ks} : list val :=
    match ks with
    | [] => []
    | k :: ks' => match es with
                  | [] => k :: zip [] ks'
                  | e1 :: es' => do_copy base e1 k :: zip es' ks'
                  end
    end.
Lemma zip_copy_cons base e1 es k ks : zip_copy base (e1 :: es) (k :: ks) = do_copy base e1 k :: zip_copy base es ks.
Proof. reflexivity. Qed.
Fixpoint iso_fields (es : list cexpr) (ts : list ftype) {struct es} : bool :=
  match es, ts with
  | [], [] => true
  | e1 :: es', t1 :: ts' => isolates e1 t1 && iso_fields es' ts'
  | _, _ => false
  end.
Lemma has_type_obj a fs ks : has_type (TObj fs) (VMut a ks) = typed_fields fs ks.
Proof. reflexivity. Qed.
Lemma do_copy_obj base es a ks : do_copy base (CObj es) (VMut a ks) = VMut (base + a) (zip_copy base es ks).
Proof. reflexivity. Qed.
Lemma isolates_obj es ts : isolates (CObj es) (TObj ts) = iso_fields es ts.
Proof. reflexivity. Qed.

Definition fresh (base : N) (l : list N) : Prop := Forall (fun a => base <= a) l.

Lemma deep_fresh base v : fresh base (addrs (do_copy base CDeep v)).
Proof.
  induction v as [n|a ks IH] using val_ind'; [constructor|].
  cbn [do_copy addrs]. constructor; [lia|].
  induction IH as [|k r Hk _ IHr]; [constructor|]. cbn [map flat_map]. apply Forall_app. split; assumption.
Qed.
Lemma imm_no_addrs v : has_type TImm v = true -> addrs v = [].
Proof. destruct v; cbn; [reflexivity|discriminate]. Qed.
Lemma all_imm_no_addrs ks : forallb (has_type TImm) ks = true -> flat_map addrs ks = [].
Proof.
  induction ks as [|k r IH]; [reflexivity|]. cbn [forallb flat_map]. intros H. apply andb_true_iff in H as [H1 H2].
  rewrite (imm_no_addrs k H1), (IH H2). reflexivity.
Qed.
Lemma is_imm_eq t : is_imm t = true -> t = TImm.
Proof. destruct t; cbn; congruence. Qed.
Lemma imm_fields_no_addrs ks : forall ts, forallb is_imm ts = true -> typed_fields ts ks = true -> flat_map addrs ks = [].
Proof.
  induction ks as [|k r IH]; intros ts Hi Ht; [reflexivity|].
  destruct ts as [|t ts]; cbn [typed_fields] in Ht; [discriminate|].
  cbn [forallb] in Hi. apply andb_true_iff in Hi as [Hi1 Hi2]. apply andb_true_iff in Ht as [Ht1 Ht2].
  apply is_imm_eq in Hi1. subst t. cbn [flat_map]. rewrite (imm_no_addrs k Ht1), (IH ts Hi2 Ht2). reflexivity.
Qed.

(** * a copy that re-creates every mutable layer is made of new objects only *)
Theorem copy_is_fresh base v : forall e t, has_type t v = true -> isolates e t = true -> fresh base (addrs (do_copy base e v)).
Proof.
  induction v as [n|a ks IH] using val_ind'; intros e t Ht Hi; [constructor|].
  destruct t as [|t'|ts|]; [cbn in Ht; discriminate| | |].
  - (* a container *)
    destruct e as [| | |e'|es]; cbn [isolates] in Hi; try discriminate.
    + apply is_imm_eq in Hi. subst t'. cbn [has_type] in Ht. cbn [do_copy addrs]. rewrite (all_imm_no_addrs ks Ht).
      constructor; [lia|constructor].
    + apply deep_fresh.
    + cbn [has_type] in Ht. cbn [do_copy addrs]. constructor; [lia|].
      induction IH as [|k r Hk _ IHr]; [constructor|]. cbn [forallb] in Ht. apply andb_true_iff in Ht as [Ht1 Ht2].
      cbn [map flat_map]. apply Forall_app. split; [apply (Hk e' t'); assumption|apply IHr; exact Ht2].
  - (* an object *)
    destruct e as [| | |e'|es]; try (cbn [isolates] in Hi; discriminate).
    + cbn [isolates] in Hi. rewrite has_type_obj in Ht. cbn [do_copy addrs]. rewrite (imm_fields_no_addrs ks ts Hi Ht).
      constructor; [lia|constructor].
    + apply deep_fresh.
    + rewrite isolates_obj in Hi. rewrite has_type_obj in Ht. rewrite do_copy_obj. cbn [addrs]. constructor; [lia|].
      revert es ts Hi Ht. induction IH as [|k r Hk _ IHr]; intros es ts Hi Ht; [constructor|].
      destruct ts as [|t1 ts]; [cbn [typed_fields] in Ht; discriminate|].
      destruct es as [|e1 es]; [cbn [iso_fields] in Hi; discriminate|].
      cbn [iso_fields] in Hi. cbn [typed_fields] in Ht.
      apply andb_true_iff in Hi as [Hi1 Hi2]. apply andb_true_iff in Ht as [Ht1 Ht2].
      rewrite zip_copy_cons. cbn [flat_map]. apply Forall_app. split; [apply (Hk e1 t1); assumption|apply (IHr es ts); assumption].
  - (* anything: only deepcopy *)
    destruct e; cbn [isolates] in Hi; try discriminate. apply deep_fresh.
Qed.

(** * an in-place change of an object that is not reachable leaves the value as it is *)
Lemma update_absent a new v : ~ In a (addrs v) -> update a new v = v.
Proof.
  induction v as [n|b ks IH] using val_ind'; intros Hn; [reflexivity|].
  cbn [update]. cbn [addrs] in Hn. destruct (N.eqb_spec a b) as [E|E]; [exfalso; apply Hn; left; symmetry; exact E|].
  f_equal. assert (Hk : ~ In a (flat_map addrs ks)) by (intros Hi; apply Hn; right; exact Hi). clear Hn.
  induction IH as [|k r Hk1 _ IHr]; [reflexivity|]. cbn [map]. cbn [flat_map] in Hk.
  rewrite Hk1 by (intros Hi; apply Hk; apply in_or_app; left; exact Hi).
  rewrite IHr by (intros Hi; apply Hk; apply in_or_app; right; exact Hi). reflexivity.
Qed.

(** * the statement: changes through an isolating copy are invisible in the original *)
Theorem copy_isolated base e t v : has_type t v = true -> isolates e t = true ->
  Forall (fun a => a < base) (addrs v) ->
  forall a new, In a (addrs (do_copy base e v)) -> update a new v = v.
Proof.
  intros Ht Hi Hold a new Ha. apply update_absent. intros Hin.
  pose proof (copy_is_fresh base v e t Ht Hi) as Hf. unfold fresh in Hf.
  rewrite Forall_forall in Hf, Hold. specialize (Hf a Ha). specialize (Hold a Hin). lia.
Qed.

(** every attribute of a whole-object copy plan that passes [plan_isolates] *)
Theorem plan_isolated (p : plan) : plan_isolates p = true ->
  forall t e, In (t, e) p -> forall base v, has_type t v = true -> Forall (fun a => a < base) (addrs v) ->
  forall a new, In a (addrs (do_copy base e v)) -> update a new v = v.
Proof.
  unfold plan_isolates. intros Hp t e Hin base v Ht Hold a new Ha. rewrite forallb_forall in Hp.
  specialize (Hp (t, e) Hin). cbn [fst snd] in Hp. exact (copy_isolated base e t v Ht Hp Hold a new Ha).
Qed.
