From Coq Require Import List String Bool Arith Lia.
From SV Require Import SM.FrozenOps.
Import ListNotations.
Open Scope string_scope.

Section Proofs.
  Variable V : Type.
  Variable table : list mut_event.
  Variable carve : mut_event -> bool.
  Notation reg := (reg V).
  Notation step := (step V table).
  Notation run := (run V table).
  Notation may_write := (may_write V table).
  Notation cls_of := (cls_of V).

  (** the op does not trigger a carved-out (known-bad) event *)
  Definition not_carved (st : list reg) (o : op) : Prop :=
    forall e, In e table -> carve e = true -> applies (cls_of st (recv o)) (meth o) e = false.

  Lemma nth_error_combine_seq (st : list reg) k i :
    nth_error (combine (seq k (List.length st)) st) i = option_map (fun r => (k + i, r)) (nth_error st i).
  Proof.
    revert k i; induction st as [|r st IH]; intros k [|i]; simpl; auto.
    - f_equal. f_equal. lia.
    - rewrite IH. destruct (nth_error st i); simpl; auto. f_equal. f_equal. lia.
  Qed.

  Lemma step_nth st o nv res i c v : nth_error st i = Some (c, v) ->
    nth_error (step st (o, nv, res)) i = Some (if may_write st o i then (c, nv i) else (c, v)).
  Proof.
    intros H. unfold FrozenOps.step.
    rewrite nth_error_app1.
    - rewrite nth_error_map, nth_error_combine_seq. unfold FrozenOps.reg in *. rewrite H. simpl. reflexivity.
    - rewrite map_length, combine_length, seq_length, Nat.min_id. apply nth_error_Some. unfold FrozenOps.reg in *. rewrite H. discriminate.
  Qed.

  (** frame: a register that the call may not write keeps class and value *)
  Lemma step_frame st x i r : nth_error st i = Some r -> may_write st (fst (fst x)) i = false ->
    nth_error (step st x) i = Some r.
  Proof.
    destruct x as [[o nv] res], r as [c v]. cbn [fst]. intros H M. rewrite (step_nth _ _ _ _ _ _ _ H), M. reflexivity.
  Qed.

  Lemma step_cls st x i : i < List.length st -> cls_of (step st x) i = cls_of st i.
  Proof.
    intros Hi. destruct x as [[o nv] res]. unfold FrozenOps.cls_of at 2.
    destruct (nth_error st i) as [[c v]|] eqn:E.
    - unfold FrozenOps.cls_of. rewrite (step_nth _ o nv res _ _ _ E). destruct (may_write st o i); reflexivity.
    - apply nth_error_None in E. lia.
  Qed.

  Lemma step_length st x : List.length st <= List.length (step st x).
  Proof.
    destruct x as [[o nv] res]. unfold FrozenOps.step.
    rewrite app_length, map_length, combine_length, seq_length, Nat.min_id. lia.
  Qed.

  Lemma frozen_class_reachable c : frozen_class c = true ->
    frozen_reachable c = true /\ frozen_reachable (base_of c) = true.
  Proof.
    unfold frozen_class. intros H. apply orb_prop in H. destruct H as [H|H]; [apply orb_prop in H; destruct H as [H|H]|];
      apply String.eqb_eq in H; subst; split; reflexivity.
  Qed.

  Hypothesis OK : table_ok table carve = true.

  (** a public call writes no register other than its receiver *)
  Lemma only_receiver_written st o i : public o = true -> not_carved st o -> i <> recv o -> may_write st o i = false.
  Proof.
    intros Hp Hc Hi. unfold FrozenOps.may_write. apply not_true_is_false. intros H.
    apply existsb_exists in H. destruct H as [e [He H]]. apply andb_prop in H. destruct H as [Ha Hcond].
    unfold table_ok in OK. rewrite forallb_forall in OK. specialize (OK e He).
    specialize (Hc e He).
    destruct e as [[[c m] og] w]. unfold event_ok in OK. simpl in Hcond.
    assert (Hm : m = meth o).
    { unfold applies in Ha. apply andb_prop in Ha. destruct Ha as [_ Ha]. apply String.eqb_eq in Ha. exact Ha. }
    apply orb_prop in OK. destruct OK as [OK1|OK1].
    - apply orb_prop in OK1. destruct OK1 as [Hh|Hcv].
      + unfold public in Hp. rewrite <- Hm in Hp. rewrite Hh in Hp. discriminate.
      + rewrite (Hc Hcv) in Ha. discriminate.
    - assert (Hne : Nat.eqb i (recv o) = false) by (apply Nat.eqb_neq; exact Hi).
      destruct og; try discriminate; rewrite Hne in Hcond; discriminate.
  Qed.

  (** a public call never writes a frozen register, not even its receiver *)
  Lemma frozen_not_written st o i : public o = true -> not_carved st o ->
    frozen_class (cls_of st i) = true -> may_write st o i = false.
  Proof.
    intros Hp Hc Hf. destruct (Nat.eq_dec i (recv o)) as [Heq|Hne]; [|apply only_receiver_written; auto].
    subst i. unfold FrozenOps.may_write. apply not_true_is_false. intros H.
    apply existsb_exists in H. destruct H as [e [He H]]. apply andb_prop in H. destruct H as [Ha Hcond].
    unfold table_ok in OK. rewrite forallb_forall in OK. specialize (OK e He).
    specialize (Hc e He).
    destruct e as [[[c m] og] w]. unfold event_ok in OK. simpl in Hcond.
    pose proof Ha as Ha'. unfold applies in Ha'. apply andb_prop in Ha'. destruct Ha' as [Hcls Hm].
    apply String.eqb_eq in Hm.
    destruct (frozen_class_reachable _ Hf) as [R1 R2].
    assert (Hr : frozen_reachable c = true).
    { apply orb_prop in Hcls. destruct Hcls as [E|E]; apply String.eqb_eq in E; subst c; assumption. }
    apply orb_prop in OK. destruct OK as [OK1|OK1].
    - apply orb_prop in OK1. destruct OK1 as [Hh|Hcv].
      + unfold public in Hp. rewrite <- Hm in Hp. rewrite Hh in Hp. discriminate.
      + rewrite (Hc Hcv) in Ha. discriminate.
    - rewrite Hr in OK1. destruct og; discriminate.
  Qed.

  (** histories of public, not carved-out calls *)
  Fixpoint good_history (h : list (op * (nat -> V) * list reg)) (st : list reg) : Prop :=
    match h with
    | [] => True
    | x :: h' => public (fst (fst x)) = true /\ not_carved st (fst (fst x)) /\ good_history h' (step st x)
    end.

  (** THE FRAME THEOREM (frozen part): whatever public operations are executed, with whatever registers as
      receivers and arguments, a register of a frozen class keeps its observable value. *)
  Theorem frozen_registers_stable h : forall st i r, good_history h st ->
    nth_error st i = Some r -> frozen_class (fst r) = true -> nth_error (run h st) i = Some r.
  Proof.
    induction h as [|x h IH]; intros st i r G Hn Hf; simpl; auto.
    destruct G as (Hp & Hc & G).
    apply IH; auto. apply step_frame; auto. apply frozen_not_written; auto.
    unfold FrozenOps.cls_of. rewrite Hn. destruct r; exact Hf.
  Qed.

  (** (independence part): a register that is never the RECEIVER of a call keeps its value, even when it is
      passed as an argument: in particular the source of copy()/freeze()/thaw()/pickle (whose result is a
      new register) is unaffected by anything done to the result, and vice versa. *)
  Theorem non_receiver_stable h : forall st i r, good_history h st ->
    nth_error st i = Some r -> Forall (fun x => recv (fst (fst x)) <> i) h -> nth_error (run h st) i = Some r.
  Proof.
    induction h as [|x h IH]; intros st i r G Hn Hr; simpl; auto.
    destruct G as (Hp & Hc & G). inversion Hr; subst.
    apply IH; auto. apply step_frame; auto. apply only_receiver_written; auto.
  Qed.
End Proofs.

(** The hypothesis is necessary: with the event of defect #5 in the table and no carve-out, a frozen
    register changes. *)
Definition bad_table : list mut_event := [("MatrixBase", "__matmul__", CopyOfSelf, "call ._mat_mul()")].
Theorem frozen_stable_refuted :
  table_ok bad_table no_carve = false /\
  run nat bad_table [({| meth := "__matmul__"; recv := 0; args := [0] |}, fun _ => 1, [])] [("FrozenMatrix", 0)]
    = [("FrozenMatrix", 1)].
Proof. split; reflexivity. Qed.

Example table_ok_satisfiable :
  table_ok [("Vec", "__imatmul__", Self, "arg of ._vec_rot()"); ("MatrixBase", "_mat_mul", Self, "store ._aa")] no_carve = true.
Proof. reflexivity. Qed.
