(** Accepted walk descriptions list exactly the matching entries of the default walk. *)
From Coq Require Import List NArith Bool.
From SV Require Import Fmt.VpkDir SM.Vpk SM.VpkProofs SM.VpkNested SM.VpkNestedMap SM.VpkListing.
Import ListNotations.
Open Scope N_scope.

Lemma filter_flat_map {A B} (p : B -> bool) (f : A -> list B) l :
  filter p (flat_map f l) = flat_map (fun x => filter p (f x)) l.
Proof.
  induction l as [|x l IH]; [reflexivity|]. cbn. rewrite <- IH. clear IH.
  induction (f x) as [|y r IH]; [reflexivity|]. cbn. destruct (p y); cbn; now rewrite IH.
Qed.

Lemma filter_map_const {A B} (p : B -> bool) (g : A -> B) (c : bool) l :
  (forall a, p (g a) = c) -> filter p (map g l) = if c then map g l else [].
Proof.
  intros H. induction l as [|a l IH]; [now destruct c|]. cbn. rewrite H, IH. now destruct c.
Qed.

Lemma flat_map_ext_in {A B} (f g : A -> list B) l : (forall x, In x l -> f x = g x) -> flat_map f l = flat_map g l.
Proof.
  induction l as [|x l IH]; [reflexivity|]. intros H. cbn. rewrite (H x (or_introl eq_refl)), IH; [reflexivity|].
  intros y Hy. apply H. now right.
Qed.

Lemma flat_map_nil_in {A B} (f : A -> list B) l : (forall x, In x l -> f x = []) -> flat_map f l = [].
Proof. induction l as [|x l IH]; [reflexivity|]. intros H. cbn. rewrite (H x (or_introl eq_refl)), IH; [reflexivity|]. intros y Hy. apply H. now right. Qed.

(** the one dict stored under the key, for a dict without duplicate keys, is "all entries with that key" *)
Lemma only_is_filter {V B} (F : bytes * V -> list B) ext (t : list (bytes * V)) : NoDup (map fst t) ->
  flat_map F (match bget ext t with Some ds => [(ext, ds)] | None => [] end)
  = flat_map (fun e => if bytes_eqb ext (fst e) then F e else []) t.
Proof.
  induction t as [|[k v] r IH]; [reflexivity|]. intros Hnd. inversion Hnd as [|? ? Hnotin Hnd']. subst.
  cbn [bget flat_map fst]. destruct (bytes_eqb ext k) eqn:E.
  - apply bytes_eqb_eq in E. subst k. cbn [flat_map]. f_equal. symmetry. apply flat_map_nil_in.
    intros [k' v'] Hin. cbn [fst]. destruct (bytes_eqb ext k') eqn:E'; [|reflexivity].
    apply bytes_eqb_eq in E'. subst k'. exfalso. apply Hnotin. apply (in_map fst) in Hin. exact Hin.
  - cbn [app]. apply IH. exact Hnd'.
Qed.

Theorem list_walk_is_filter eg fg w : walk_ok eg fg w = true -> forall ext folder t, NoDup (map fst t) ->
  list_walk w ext folder t = filter (listed eg fg ext folder) (flat_tree t).
Proof.
  intros Hw ext folder t Hnd. unfold walk_ok in Hw. apply andb_true_iff in Hw. destruct Hw as [Hw Hev].
  apply andb_true_iff in Hw. destruct Hw as [He Hd].
  unfold list_walk, flat_tree. rewrite Hev. rewrite filter_flat_map.
  assert (Hinner : forall e : bytes * list (bytes * list (bytes * info)),
    filter (listed eg fg ext folder) (flat_map (fun d => map (fun f => ((fst e, fst d, fst f), snd f)) (snd d)) (snd e))
    = if (if eg then bytes_eqb ext (fst e) else true)
      then flat_map (fun d => if dir_taken w folder (fst d) && true then map (fun f => ((fst e, fst d, fst f), snd f)) (snd d) else []) (snd e)
      else []).
  { intros e. rewrite filter_flat_map.
    destruct (if eg then bytes_eqb ext (fst e) else true) eqn:Ex.
    - apply flat_map_ext_in. intros d _.
      rewrite (filter_map_const _ _ (dir_taken w folder (fst d) && true)); [reflexivity|].
      intros f. cbn [listed]. rewrite Ex. cbn [andb]. rewrite andb_true_r. unfold dir_taken.
      destruct (lw_dir w), fg; try discriminate; reflexivity.
    - apply flat_map_nil_in. intros d _. rewrite (filter_map_const _ _ false); [reflexivity|].
      intros f. cbn [listed]. rewrite Ex. reflexivity. }
  unfold ext_dicts. destruct (lw_ext w), eg; try discriminate.
  - apply flat_map_ext_in. intros e _. rewrite Hinner. reflexivity.
  - etransitivity; [exact (only_is_filter _ ext t Hnd)|]. apply flat_map_ext_in. intros e _. rewrite Hinner. reflexivity.
Qed.

Theorem walks_computed :
  walks_ok walks_pinned = true /\ walks_ok walks_inverted_filter = false
  /\ walks_ok (map (fun x : bool * bool * lwalk => let '(eg, fg, w) := x in (eg, fg, mkWalk EAll (lw_dir w) true)) walks_pinned) = false.
Proof. vm_compute. repeat split; reflexivity. Qed.

(** every entry of [walks_ok] tables is such a filter *)
Corollary walks_ok_lists_matching ws : walks_ok ws = true -> forall eg fg w, In (eg, fg, w) ws -> forall ext folder t, NoDup (map fst t) ->
  list_walk w ext folder t = filter (listed eg fg ext folder) (flat_tree t).
Proof.
  intros H eg fg w Hin. unfold walks_ok in H. apply andb_true_iff in H. destruct H as [H _].
  rewrite forallb_forall in H. specialize (H _ Hin). cbn in H. apply list_walk_is_filter. exact H.
Qed.

Lemma filter_all {A} (p : A -> bool) l : (forall x, p x = true) -> filter p l = l.
Proof. intros H. induction l as [|x l IH]; [reflexivity|]. cbn. now rewrite H, IH. Qed.

(** extract_all writes exactly one file per entry of the default walk: named by the entry's listed name, holding what read() returns *)
Theorem extract_all_writes_every_file {A B} w (names : key -> A) (rd : info -> B) : walk_ok false false w = true -> forall t, NoDup (map fst t) ->
  extract_files w names rd t = map (fun e => (names (fst e), rd (snd e))) (flat_tree t).
Proof.
  intros Hw t Hnd. unfold extract_files. rewrite (list_walk_is_filter false false w Hw [] [] t Hnd).
  rewrite filter_all; [reflexivity|]. intros [[[x d] n] i]. reflexivity.
Qed.
