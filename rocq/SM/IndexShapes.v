(** Source-shaped models for property C07: the decisive sites of vmf.py whose *shape* is read off the source by
    translate/c07_index_shapes.py (Gen/IndexShapes_gen.v) on every run.

    1. [Entity.__setitem__]: which spelling of the key is used to fetch the previous value and to store the new
       one, and whether the previous value is fetched before the store ([setitem_shape], [set_item_sh]).
    2. [VMF.search]: the statements of the two branches as a little program ([sprog], [sp_run], [search_sh]) over
       the real [defaultdict] semantics: [self.by_target[name]] inserts an empty set when the key is absent,
       [name in self.by_target] sees keys whose set is empty.
    3. [CopySet.__iter__]: a generator program ([iprog]) interpreted over a set that the loop body mutates
       between two [next] calls; iterating the live set raises [RuntimeError] when its size changed.

    Executable definitions only; proofs are in IndexShapeProofs.v. *)
From stdpp Require Import gmap sets list.
From Coq Require Import NArith.
From SV Require Import SM.IndexModel.

(** * 1. Entity.__setitem__ *)
(** the spelling of a key expression: the loop variable (spelling stored in [_keys]), the parameter [key] as the
    caller wrote it, or [key.casefold()] *)
Inductive keyspell := KStored | KCaller | KFoldedKey.
(** [orig_val = self._keys.get(<spelling>)] executed before / after the store, or no read at all ([None]) *)
Inductive origread := RNone | RBefore (k : keyspell) | RAfter (k : keyspell).
Record setitem_shape := SetShape {
  ss_match_lfold : bool;        (* loop test compares [k.casefold()] (true) or [k] (false) ...              *)
  ss_match_rfold : bool;        (* ... with [key.casefold()] (true) or [key] (false)                        *)
  ss_hit_read : origread;       (* a stored key matched: where [orig_val] comes from                         *)
  ss_hit_store : keyspell;      (* ... and under which spelling the new value is stored                      *)
  ss_miss_read : origread;      (* no stored key matched (the [for ... else] branch)                         *)
  ss_miss_store : keyspell;
}.

(** exact [dict.get] / [dict.__setitem__] on an insertion-ordered key list *)
Fixpoint dget (k : str) (l : kvs) : option str :=
  match l with
  | [] => None
  | (k0, v) :: r => if decide (k0 = k) then Some v else dget k r
  end.
Fixpoint dset (k v : str) (l : kvs) : kvs :=
  match l with
  | [] => [(k, v)]
  | (k0, v0) :: r => if decide (k0 = k) then (k0, v) :: r else (k0, v0) :: dset k v r
  end.
(** the first stored key that passes the loop's test *)
Fixpoint first_match (test : str → bool) (l : kvs) : option str :=
  match l with
  | [] => None
  | (k0, _) :: r => if test k0 then Some k0 else first_match test r
  end.

Section shapes.
  Variable fold : str → str.

  Definition spelled (s : keyspell) (stored caller : str) : str :=
    match s with KStored => stored | KCaller => caller | KFoldedKey => fold caller end.
  Definition read_orig (r : origread) (stored caller : str) (l l' : kvs) : option str :=
    match r with
    | RNone => None
    | RBefore s => dget (spelled s stored caller) l
    | RAfter s => dget (spelled s stored caller) l'
    end.

  (** the lookup loop of __setitem__: (orig_val, new key list) *)
  Definition setitem_prefix (sh : setitem_shape) (key v : str) (l : kvs) : option str * kvs :=
    let test k := bool_decide ((if ss_match_lfold sh then fold k else k) = (if ss_match_rfold sh then fold key else key)) in
    match first_match test l with
    | Some k0 => let l' := dset (spelled (ss_hit_store sh) k0 key) v l in
                 (read_orig (ss_hit_read sh) k0 key l l', l')
    | None => (* the loop variable is not meaningful here; the translator never emits KStored for this branch *)
              let l' := dset (spelled (ss_miss_store sh) key key) v l in
              (read_orig (ss_miss_read sh) key key l l', l')
    end.

  (** the index maintenance of __setitem__ for a given previous value and new key list
      (the same text as [set_item] of IndexModel.v) *)
  Definition set_item_with (orig : str) (l' : kvs) (e : nat) (key v : str) (st : mstate) : mstate * nat :=
    let st1 := with_keys e l' st in
    if decide (fold key = cn) then
      let st2 := upd_class (ix_remove (fold orig) e) st1 in
      if decide (e ∈ ents st) then (upd_class (ix_add (fold v) e) st2, 0)
      else if decide (e = spawn st) then
        if decide (fold v = ws) then (upd_class (ix_add ws e) st2, 0)
        else
          let st3 := with_keys e (kv_set fold cn ws l') st2 in
          (upd_class (ix_add ws e) (upd_class (ix_remove (fold v) e) st3), 2)
      else (st2, 0)
    else if decide (fold key = tn) then
      let st2 := upd_target (ix_remove (or_none (fold orig)) e) st1 in
      if in_map st e then (upd_target (ix_add (or_none (fold v)) e) st2, 0) else (st2, 0)
    else (st1, 0).

  Definition set_item_sh (sh : setitem_shape) (e : nat) (key v : str) (st : mstate) : mstate * nat :=
    let '(o, l') := setitem_prefix sh key v (keys_of st e) in
    set_item_with (default [] o) l' e key v st.

  Definition origread_eqb (a b : origread) : bool :=
    match a, b with
    | RNone, RNone => true
    | RBefore x, RBefore y | RAfter x, RAfter y =>
        match x, y with KStored, KStored | KCaller, KCaller | KFoldedKey, KFoldedKey => true | _, _ => false end
    | _, _ => false
    end.
  Definition keyspell_eqb (x y : keyspell) : bool :=
    match x, y with KStored, KStored | KCaller, KCaller | KFoldedKey, KFoldedKey => true | _, _ => false end.

  (** the named obligations on the generated shape *)
  Definition ss_match_ok (sh : setitem_shape) : bool := ss_match_lfold sh && ss_match_rfold sh.
  Definition ss_hit_read_ok (sh : setitem_shape) : bool := origread_eqb (ss_hit_read sh) (RBefore KStored).
  Definition ss_hit_store_ok (sh : setitem_shape) : bool := keyspell_eqb (ss_hit_store sh) KStored.
  Definition ss_miss_read_ok (sh : setitem_shape) : bool :=
    origread_eqb (ss_miss_read sh) RNone || origread_eqb (ss_miss_read sh) (RBefore KCaller).
  Definition ss_miss_store_ok (sh : setitem_shape) : bool := keyspell_eqb (ss_miss_store sh) KCaller.
  Definition setitem_shape_ok (sh : setitem_shape) : bool :=
    ss_match_ok sh && ss_hit_read_ok sh && ss_hit_store_ok sh && ss_miss_read_ok sh && ss_miss_store_ok sh.

  (** * 2. VMF.search *)
  Inductive scond := CInTarget | CInClass           (* [name in self.by_target] / [name in self.by_class] *)
                   | CNeTarget | CNeClass.          (* round 5: [bool(self.by_target.get(name))] / [...by_class...]:
                                                       the key is present AND its set is non-empty *)
  Inductive mtest := TEq | TPrefix.                 (* [== name] / [.startswith(name)] *)
  Inductive sprog :=
  | PSkip
  | PSeq (a b : sprog)
  | PIf (c : scond) (a b : sprog)
  | PYieldTarget                                    (* yield from self.by_target[name]   (defaultdict read) *)
  | PYieldClass                                     (* yield from self.by_class[name]    (defaultdict read) *)
  | PScanTarget (t : mtest) (folded : bool)         (* for k, ents in list(self.by_target.items()):
                                                         if k is not None and k[.casefold()] <t> name: yield from ents *)
  | PYieldGetTarget                                 (* round 5: yield from self.by_target.get(name, ()) — a plain lookup, *)
  | PYieldGetClass.                                 (*          nothing is inserted for an absent key *)

  Definition named (p : str → bool) (folded : bool) (st : mstate) : gset nat :=
    ⋃ (map snd (List.filter (λ kv : option str * gset nat,
                               match kv.1 with Some k => p (if folded then fold k else k) | None => false end)
                            (map_to_list (by_target st)))).

  Definition has_target (nm : str) (st : mstate) : bool := bool_decide (is_Some (by_target st !! Some nm)).
  Definition has_class (nm : str) (st : mstate) : bool := bool_decide (is_Some (by_class st !! nm)).
  (** truthiness of [self.by_target.get(name)]: there is a set and it has a member *)
  Definition ne_target (nm : str) (st : mstate) : bool := bool_decide (ix_get (by_target st) (Some nm) ≠ ∅).
  Definition ne_class (nm : str) (st : mstate) : bool := bool_decide (ix_get (by_class st) nm ≠ ∅).

  Fixpoint sp_run (p : sprog) (nm : str) (st : mstate) : gset nat * mstate :=
    match p with
    | PSkip => (∅, st)
    | PSeq a b => let '(r1, st1) := sp_run a nm st in
                  let '(r2, st2) := sp_run b nm st1 in (r1 ∪ r2, st2)
    | PIf c a b => if (match c with CInTarget => has_target nm st | CInClass => has_class nm st
                                  | CNeTarget => ne_target nm st | CNeClass => ne_class nm st end)
                   then sp_run a nm st else sp_run b nm st
    | PYieldTarget => (ix_get (by_target st) (Some nm), upd_target (probe (Some nm)) st)
    | PYieldClass => (ix_get (by_class st) nm, upd_class (probe nm) st)
    | PScanTarget t f =>
        (named (match t with TEq => λ k, bool_decide (k = nm) | TPrefix => is_prefix nm end) f st, st)
    | PYieldGetTarget => (ix_get (by_target st) (Some nm), st)
    | PYieldGetClass => (ix_get (by_class st) nm, st)
    end.

  Record search_shape := SearchShape {
    sh_empty_returns : bool;     (* [if not name: return] *)
    sh_folds : bool;             (* [name = name.casefold()] *)
    sh_star_strips : bool;       (* [name = name[:-1]] in the star branch *)
    sh_star : sprog;
    sh_exact : sprog;
  }.

  Definition search_sh (sh : search_shape) (name : str) (st : mstate) : gset nat * mstate :=
    if sh_empty_returns sh && bool_decide (name = []) then (∅, st) else
    let nm := if sh_folds sh then fold name else name in
    if ends_star nm then sp_run (sh_star sh) (if sh_star_strips sh then removelast nm else nm) st
    else sp_run (sh_exact sh) nm st.

  (** symbolic run over the four facts a program can test (is the key present in by_target / by_class — these change
      when a defaultdict read inserts an empty set — and is its set non-empty — these never change during a search):
      which of the three parts — by_target[name] (or the equality scan), by_class[name], the prefix scan —
      were yielded, and the presence facts afterwards *)
  Definition sym := (bool * bool * bool * bool * bool)%type.
  Fixpoint sp_sym (net nec : bool) (p : sprog) (bt bc : bool) : sym :=
    match p with
    | PSkip => (false, false, false, bt, bc)
    | PSeq a b => let '(t1, c1, p1, bt1, bc1) := sp_sym net nec a bt bc in
                  let '(t2, c2, p2, bt2, bc2) := sp_sym net nec b bt1 bc1 in
                  (t1 || t2, c1 || c2, p1 || p2, bt2, bc2)
    | PIf CInTarget a b => if bt then sp_sym net nec a bt bc else sp_sym net nec b bt bc
    | PIf CInClass a b => if bc then sp_sym net nec a bt bc else sp_sym net nec b bt bc
    | PIf CNeTarget a b => if net then sp_sym net nec a bt bc else sp_sym net nec b bt bc
    | PIf CNeClass a b => if nec then sp_sym net nec a bt bc else sp_sym net nec b bt bc
    | PYieldTarget => (true, false, false, true, bc)
    | PYieldClass => (false, true, false, bt, true)
    | PScanTarget TEq _ => (true, false, false, bt, bc)
    | PScanTarget TPrefix _ => (false, false, true, bt, bc)
    | PYieldGetTarget => (true, false, false, bt, bc)
    | PYieldGetClass => (false, true, false, bt, bc)
    end.
  (** the consistent combinations (key in by_target, key in by_class, its name set non-empty, its class set non-empty):
      a non-empty set is present *)
  Definition flag_cases : list (bool * bool * bool * bool) :=
    [(false, false, false, false); (false, true, false, false); (false, true, false, true);
     (true, false, false, false); (true, true, false, false); (true, true, false, true);
     (true, false, true, false); (true, true, true, false); (true, true, true, true)].
  (** exact branch: whenever a set has members it is yielded, and the prefix scan never is *)
  Definition exact_ok (p : sprog) : bool :=
    forallb (λ f : bool * bool * bool * bool,
               let '(bt, bc, net, nec) := f in
               let '(t, c, pp, _, _) := sp_sym net nec p bt bc in negb pp && implb net t && implb nec c) flag_cases.
  (** star branch: the prefix scan is always yielded, the class set never is *)
  Definition star_ok (p : sprog) : bool :=
    forallb (λ f : bool * bool * bool * bool,
               let '(bt, bc, net, nec) := f in
               let '(t, c, pp, _, _) := sp_sym net nec p bt bc in pp && negb c) flag_cases.
  Definition search_shape_ok (sh : search_shape) : bool :=
    sh_empty_returns sh && sh_folds sh && sh_star_strips sh && star_ok (sh_star sh) && exact_ok (sh_exact sh).

  (** the shape of today's source, and the [elif] shape of seeded fault c07_2 *)
  Definition search_shape_today : search_shape :=
    SearchShape true true true (PScanTarget TPrefix true)
      (PSeq (PScanTarget TEq true) (PIf CInClass PYieldClass PSkip)).
  Definition search_shape_elif : search_shape :=
    SearchShape true true true (PScanTarget TPrefix true)
      (PIf CInTarget PYieldTarget (PIf CInClass PYieldClass PSkip)).
  (** the shape of seeded fault c07_5 (round 5): [ents = self.by_target.get(name) or self.by_class.get(name)] followed by
      [if ents: yield from ents] — the `or` picks the name set when it has a member, else the class set *)
  Definition search_shape_or : search_shape :=
    SearchShape true true true (PScanTarget TPrefix true)
      (PIf CNeTarget (PIf CNeTarget PYieldGetTarget PSkip) (PIf CNeClass PYieldGetClass PSkip)).
  (** ... and two direct lookups one after the other: a correct rewriting *)
  Definition search_shape_two_gets : search_shape :=
    SearchShape true true true (PScanTarget TPrefix true)
      (PSeq (PIf CNeTarget PYieldGetTarget PSkip) (PIf CNeClass PYieldGetClass PSkip)).
End shapes.

(** * 3. CopySet.__iter__ *)
(** A generator body: bind a snapshot of the set, yield from an expression.  Expressions evaluate to a *fresh*
    frozen collection ([frozenset(self)], [self - cur], [cur]) or to the live set ([self]). *)
Inductive iexpr :=
| ESnap                      (* frozenset(self) / set(self) / list(self): a copy taken when evaluated *)
| ECur                       (* the variable bound by [ISnap] *)
| ELive                      (* self: the live set *)
| EDiffLiveCur.              (* self - cur_items: a fresh set *)
Inductive istmt :=
| ISnapshot                  (* cur_items = frozenset(self) *)
| IYieldFrom (e : iexpr).
Definition iprog := list istmt.

Section copyset.
  (** [S]: whatever the loop body can change (the whole world); [get s]: the CopySet being iterated;
      [body x s]: the consumer's loop body run for the yielded element [x] (it may add to / remove from the set);
      [order]: the iteration order of a frozen collection (any order). *)
  Context {S : Type}.
  Variable get : S → gset nat.
  Variable body : nat → S → S.
  Variable order : gset nat → list nat.

  (** outcome of a run: the elements yielded so far, the state, and whether RuntimeError was raised *)
  Record iout := IOut { io_yield : list nat; io_state : S; io_raised : bool }.

  (** iterating a frozen list: the body runs after every yield *)
  Definition yield_frozen (l : list nat) (s : S) : S := foldl (λ s x, body x s) s l.

  (** iterating the live set: CPython's set iterator raises [RuntimeError: Set changed size during iteration]
      at the next [next()] when the size differs from the size at the start.  (Which elements a same-size
      mutation makes it skip or repeat is unspecified; the model walks the elements present at the start.) *)
  Fixpoint yield_live (n0 : nat) (l : list nat) (ys : list nat) (s : S) : iout :=
    match l with
    | [] => IOut ys s (negb (size (get s) =? n0))
    | x :: r => if negb (size (get s) =? n0) then IOut ys s true
                else yield_live n0 r (ys ++ [x]) (body x s)
    end.

  Fixpoint irun (p : iprog) (cur : gset nat) (ys : list nat) (s : S) : iout :=
    match p with
    | [] => IOut ys s false
    | ISnapshot :: r => irun r (get s) ys s
    | IYieldFrom e :: r =>
        match e with
        | ELive => let o := yield_live (size (get s)) (order (get s)) ys s in
                   if io_raised o then o else irun r cur (io_yield o) (io_state o)
        | ESnap => let l := order (get s) in irun r cur (ys ++ l) (yield_frozen l s)
        | ECur => let l := order cur in irun r cur (ys ++ l) (yield_frozen l s)
        | EDiffLiveCur => let l := order (get s ∖ cur) in irun r cur (ys ++ l) (yield_frozen l s)
        end
    end.

  Definition iexpr_frozen (e : iexpr) : bool := match e with ELive => false | _ => true end.
  (** no [yield from self] *)
  Definition iprog_never_live (p : iprog) : bool :=
    forallb (λ s, match s with ISnapshot => true | IYieldFrom e => iexpr_frozen e end) p.
End copyset.

(** today's CopySet.__iter__ and the plain-set iteration it replaces *)
Definition copyset_iter_today : iprog := [ISnapshot; IYieldFrom ECur; IYieldFrom EDiffLiveCur].
Definition plain_set_iter : iprog := [IYieldFrom ELive].

Definition iprog_is_today (p : iprog) : bool :=
  match p with
  | [ISnapshot; IYieldFrom ECur; IYieldFrom EDiffLiveCur] => true
  | _ => false
  end.
