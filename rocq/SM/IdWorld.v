(** Several maps, one ID kind: the lifecycle of ID-bearing objects of vmf.py across maps.

    Generalises SM/IdLife.v: every map has its own [IDMan]; an object remembers the map whose manager
    handed out its ID ([wowner] = the object's [.map]/[.vmf] attribute, which is where its destructor
    releases the ID) and the map it is listed in ([whome]).  Events: construction with an arbitrary desired
    ID, [copy()] within or across maps, removal from the map, re-adding, destruction, and the two bulk
    producers [VMF.parse] (one constructor call per parsed object, desired IDs as written in the document,
    colliding / missing / non-positive ones included) and [instancing.collapse_one] (every object of the
    instance map is copied into the destination map).

    Parameters read from the source by translate/c08_sites.py:
    - [release_on_remove]: removing an object from its map releases the ID (in addition to the destructor);
    - [copy_to_dest]: [copy(vmf_file=m)] allocates the ID of the copy (and of every nested copy) from [m]'s
      manager; when [false] the copy is listed in [m] but takes its ID from the source map's manager.
    Executable definitions only; proofs are in SM/IdWorldProofs.v. *)
From stdpp Require Import gmap sets.
From Coq Require Import ZArith.
From SV Require Import SM.IdMan.
Open Scope Z_scope.

Record wobj := { wid : Z; walive : bool; winmap : bool; wowner : nat; whome : nat }.
Record wworld := { wmans : gmap nat idman; wobjs : list wobj }.
Definition ww0 : wworld := {| wmans := ∅; wobjs := [] |}.
Definition man_of (w : wworld) (m : nat) : idman := default init (wmans w !! m).

Inductive wev :=
| WCreate (m : nat) (d : Z)            (* constructor with desired ID [d] in map [m], then added to [m] *)
| WCopy (k : nat) (m : nat) (d : Z)    (* [objs[k].copy(des_id=d, vmf_file=m)], then added to [m] *)
| WRemove (k : nat)                    (* remove_ent / remove_brush / .remove() *)
| WReAdd (k : nat)                     (* add_ent / add_brush of a removed, still existing object *)
| WDestroy (k : nat)                   (* __del__ runs (once) *)
| WParse (m : nat) (ds : list Z)       (* VMF.parse into map [m]: desired IDs in document order *)
| WCollapse (ks : list nat) (m : nat). (* collapse_one: objects [ks] of an instance map copied into [m] *)

Section world.
  Variable release_on_remove : bool.
  Variable copy_to_dest : bool.

  (** One constructor call: ID from the manager of [am], object listed in [hm]. *)
  Definition walloc (am hm : nat) (d : Z) (w : wworld) : wworld :=
    match get_id d (man_of w am) with
    | Some (i, s') =>
        {| wmans := <[am := s']> (wmans w);
           wobjs := wobjs w ++ [ {| wid := i; walive := true; winmap := true; wowner := am; whome := hm |} ] |}
    | None => w
    end.

  Definition wcopy (k m : nat) (d : Z) (w : wworld) : wworld :=
    match wobjs w !! k with
    | Some o => if walive o then walloc (if copy_to_dest then m else wowner o) m d w else w
    | None => w
    end.

  Definition wset (o : wobj) (a i : bool) : wobj :=
    {| wid := wid o; walive := a; winmap := i; wowner := wowner o; whome := whome o |}.

  Definition wstep1 (w : wworld) (e : wev) : wworld :=
    match e with
    | WCreate m d => walloc m m d w
    | WCopy k m d => wcopy k m d w
    | WRemove k =>
        match wobjs w !! k with
        | Some o =>
            if walive o && winmap o then
              {| wmans := if release_on_remove
                          then <[wowner o := discard (wid o) (man_of w (wowner o))]> (wmans w) else wmans w;
                 wobjs := <[k := wset o true false]> (wobjs w) |}
            else w
        | None => w
        end
    | WReAdd k =>
        match wobjs w !! k with
        | Some o => if walive o && negb (winmap o)
                    then {| wmans := wmans w; wobjs := <[k := wset o true true]> (wobjs w) |} else w
        | None => w
        end
    | WDestroy k =>
        match wobjs w !! k with
        | Some o => if walive o
                    then {| wmans := <[wowner o := discard (wid o) (man_of w (wowner o))]> (wmans w);
                            wobjs := <[k := wset o false false]> (wobjs w) |}
                    else w
        | None => w
        end
    | WParse m ds => fold_left (λ w d, walloc m m d w) ds w
    | WCollapse ks m => fold_left (λ w k, wcopy k m (-1) w) ks w
    end.

  Definition wrun_from (w : wworld) (es : list wev) : wworld := fold_left wstep1 es w.
  Definition wrun (es : list wev) : wworld := wrun_from ww0 es.
End world.

(** IDs of the existing objects listed in / belonging to map [m]. *)
Definition live_ids_in (m : nat) (w : wworld) : list Z :=
  wid <$> filter (λ o, walive o = true ∧ whome o = m) (wobjs w).
(** ... and of those actually in the map's lists (what export writes). *)
Definition map_ids_in (m : nat) (w : wworld) : list Z :=
  wid <$> filter (λ o, walive o = true ∧ winmap o = true ∧ whome o = m) (wobjs w).
