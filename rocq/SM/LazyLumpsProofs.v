(** Proofs about SM/LazyLumps.v: looking at views and saving is lossless for every access sequence,
    provided the dependency graph is order-consistent. *)
From Coq Require Import List Arith Bool Lia.
From SV Require Import SM.LazyLumps.
Import ListNotations.

Lemma mem_In : forall x l, mem x l = true <-> In x l.
Proof.
  intros x l. unfold mem. rewrite existsb_exists. split.
  - intros [y [Hy He]]. apply Nat.eqb_eq in He. subst. exact Hy.
  - intros H. exists x. split; [exact H | apply Nat.eqb_refl].
Qed.

Lemma mem_false : forall x l, mem x l = false <-> ~ In x l.
Proof.
  intros x l. split.
  - intros H Hin. apply mem_In in Hin. congruence.
  - intros H. destruct (mem x l) eqn:E; [apply mem_In in E; contradiction | reflexivity].
Qed.

Lemma nodupb_NoDup : forall l, nodupb l = true -> NoDup l.
Proof.
  induction l as [|x r IH]; cbn [nodupb]; intros H; constructor.
  - apply andb_prop in H. destruct H as [H _]. apply negb_true_iff in H. now apply mem_false in H.
  - apply andb_prop in H. destruct H as [_ H]. auto.
Qed.

Lemma map_eq_pointwise : forall {A B} (f h : A -> B) l, map f l = map h l -> forall x, In x l -> f x = h x.
Proof.
  induction l as [|a r IH]; cbn [map]; intros H x Hin; [destruct Hin|].
  injection H as H1 H2. destruct Hin as [->|Hin]; auto.
Qed.

(** Header versions: if every store puts into a header the number the file holds there (the writer stores what the reader
    recorded), saving leaves every header version as it was; a store of any other number changes that header. *)
Lemma save_versions_recorded_identity : forall (V : Type) (stores : list (nat * V)) (hver : nat -> V),
  (forall p, In p stores -> snd p = hver (fst p)) -> forall l, save_versions stores hver l = hver l.
Proof.
  intros V stores hver. unfold save_versions.
  assert (G : forall (h : nat -> V), (forall l, h l = hver l) -> (forall p, In p stores -> snd p = hver (fst p)) ->
              forall l, fold_left (fun h p => upd h (fst p) (snd p)) stores h l = hver l).
  { induction stores as [|p r IH]; intros h Hh Hs l; cbn [fold_left]; [apply Hh|].
    apply IH; [|intros q Hq; apply Hs; now right].
    intros l'. unfold upd. destruct (Nat.eqb l' (fst p)) eqn:E; [|apply Hh].
    apply Nat.eqb_eq in E. subst l'. apply Hs. now left. }
  intros Hs l. apply G; [reflexivity | exact Hs].
Qed.

Lemma save_versions_other_number_refuted :
  save_versions [(65, 7)] (fun l => if Nat.eqb l 65 then 10 else 0) 65 = 7 /\
  save_versions [(65, 10)] (fun l => if Nat.eqb l 65 then 10 else 0) 65 = 10.
Proof. vm_compute. split; reflexivity. Qed.

Section Proofs.
  Variables D P : Type.
  Variable empty : D.
  Variable rd : nat -> list D -> option P.
  Variable wr : nat -> P -> list D.
  Variable g : graph.
  Variable sh : shape.

  Notation nviews := (nviews g).
  Notation decl := (decl g).
  Notation own := (own g).
  Notation state := (state D P).
  Notation own_data := (own_data D P g).
  Notation look_all := (look_all D P).
  Notation getf := (getf D P empty rd g sh).
  Notation get := (get D P empty rd g sh).
  Notation run := (run D P empty rd g sh).
  Notation save_step := (save_step D P empty rd wr g sh).
  Notation save_todo := (save_todo D P g sh).
  Notation save := (save D P empty rd wr g sh).
  Notation save_step_a := (save_step_a D P empty rd wr g sh).
  Notation save_a := (save_a D P empty rd wr g sh).
  Notation denote := (denote D P rd g).
  Notation fresh := (fresh D P).
  Notation owned := (owned g).
  Notation clear_lumps := (clear_lumps D P empty).
  Notation set_cache := (set_cache D P).
  Notation pre_clear := (pre_clear D P empty g sh).
  Notation parse_input := (parse_input D P g).

  (** Saving when nothing is cached changes nothing (no condition on the graph or the shape needed). *)
  Lemma save_steps_fresh : forall l (s : state), fresh s -> fold_left save_step l (true, s) = (true, s).
  Proof.
    induction l as [|v r IH]; intros s Hf; cbn [fold_left]; [reflexivity|].
    unfold save_step at 2. cbn [fst snd]. rewrite (Hf v). apply IH, Hf.
  Qed.

  Lemma save_fresh_id : forall s : state, fresh s -> save s = (true, s).
  Proof. intros s Hf. unfold save, LazyLumps.save. now apply save_steps_fresh. Qed.

  (** BSP.save with an except clause around the writer call ([save_a], round 5) differs from the plain loop only in the
      state it leaves behind when a writer raises. *)
  Lemma save_step_a_flag : forall b acc k, fst (save_step_a b acc k) = fst (save_step acc k).
  Proof.
    intros b [f s] k. unfold LazyLumps.save_step_a, LazyLumps.save_step. cbn [fst snd].
    destruct f; [|reflexivity]. destruct (cache s k); [|reflexivity].
    destruct (look_all get (v_wdeps (decl k)) (set_cache k None s)) as [b2 s2]. cbn [fst snd]. destruct b2; reflexivity.
  Qed.

  Lemma save_step_a_true : forall b acc k, fst (save_step acc k) = true -> save_step_a b acc k = save_step acc k.
  Proof.
    intros b [f s] k. unfold LazyLumps.save_step_a, LazyLumps.save_step. cbn [fst snd].
    destruct f; [|reflexivity]. destruct (cache s k); [|reflexivity].
    destruct (look_all get (v_wdeps (decl k)) (set_cache k None s)) as [b2 s2]. cbn [fst snd]. destruct b2; [reflexivity | discriminate].
  Qed.

  Lemma save_step_a_false_eq : forall acc k, save_step_a false acc k = save_step acc k.
  Proof.
    intros [f s] k. unfold LazyLumps.save_step_a, LazyLumps.save_step. cbn [fst snd].
    destruct f; [|reflexivity]. destruct (cache s k); [|reflexivity].
    destruct (look_all get (v_wdeps (decl k)) (set_cache k None s)) as [b2 s2]. cbn [fst snd]. destruct b2; reflexivity.
  Qed.

  Lemma save_step_a_stopped : forall b acc k, fst acc = false -> save_step_a b acc k = acc.
  Proof. intros b [f s] k H. cbn [fst] in H. subst f. reflexivity. Qed.

  Lemma save_step_stopped : forall acc k, fst acc = false -> save_step acc k = acc.
  Proof. intros [f s] k H. cbn [fst] in H. subst f. reflexivity. Qed.

  Lemma save_steps_a_rel : forall b l acc acc', fst acc = fst acc' -> (fst acc' = true -> acc = acc') ->
    let r := fold_left (save_step_a b) l acc in let r' := fold_left save_step l acc' in
    fst r = fst r' /\ (fst r' = true -> r = r').
  Proof.
    intros b. induction l as [|a l IH]; intros acc acc' Hf He; cbn [fold_left]; [split; assumption|].
    apply IH.
    - destruct (fst acc') eqn:E.
      + rewrite (He eq_refl). apply save_step_a_flag.
      + rewrite (save_step_a_stopped b acc a Hf), (save_step_stopped acc' a E). congruence.
    - intros Ht. destruct (fst acc') eqn:E.
      + rewrite (He eq_refl). now apply save_step_a_true.
      + rewrite (save_step_stopped acc' a E) in Ht. congruence.
  Qed.

  (** Whether the save completes does not depend on the except clause, and a save that completes is the plain save. *)
  Lemma save_a_like_save : forall b s, fst (save_a b s) = fst (save s) /\ (fst (save s) = true -> save_a b s = save s).
  Proof.
    intros b s. unfold LazyLumps.save_a, LazyLumps.save.
    exact (save_steps_a_rel b (save_todo s) (true, s) (true, s) eq_refl (fun _ => eq_refl)).
  Qed.

  Lemma save_a_false_is_save : forall s, save_a false s = save s.
  Proof.
    intros s. unfold LazyLumps.save_a, LazyLumps.save. generalize (true, s). induction (save_todo s) as [|a l IH]; intros acc; cbn [fold_left]; [reflexivity|].
    rewrite save_step_a_false_eq. apply IH.
  Qed.

  Lemma save_a_summary : forall b s, fst (save_a b s) = fst (save s) /\ (fst (save s) = true -> save_a b s = save s) /\
    save_a false s = save s.
  Proof. intros b s. destruct (save_a_like_save b s) as [A B]. split; [exact A | split; [exact B | apply save_a_false_is_save]]. Qed.

  Lemma own_overflow : forall v, nviews <= v -> own v = [].
  Proof. intros v H. unfold LazyLumps.own, LazyLumps.decl. rewrite nth_overflow; [reflexivity | exact H]. Qed.

  Lemma parse_input_eq : forall (s s1 : state) v, own_data s1 v = own_data s v -> parse_input s s1 v = own_data s v.
  Proof.
    intros s s1 v H. unfold LazyLumps.parse_input, LazyLumps.own_data in *. destruct (own v) as [|m ex]; [reflexivity|].
    cbn [map] in *. injection H as _ H. now rewrite H.
  Qed.

  (** A failed look of a view whose reader looks at no other view leaves the object exactly as it was: nothing
      cached, nothing cleared (needs only the statement order of __get__, not the graph conditions). *)
  Lemma failed_get_leaf_identity : sh_early_main sh = false -> sh_early_extra sh = false ->
    forall f v (s : state), v_rdeps (decl v) = [] -> fst (getf f v s) = false -> snd (getf f v s) = s.
  Proof.
    intros E1 E2 f v s Hd. destruct f as [|f]; cbn [getf LazyLumps.getf]; [reflexivity|].
    destruct (v <? nviews); [|reflexivity]. destruct (cache s v); [reflexivity|].
    rewrite Hd. cbn [LazyLumps.look_all fst snd]. unfold LazyLumps.pre_clear. rewrite E1, E2. cbn [orb].
    destruct (rd v (parse_input s s v)); cbn [fst snd]; [discriminate | reflexivity].
  Qed.

  Section Consistent.
    Hypothesis OC : order_consistent g = true.
    Hypothesis SH : shape_ok sh = true.

    Lemma sh_flags : sh_early_main sh = false /\ sh_early_extra sh = false /\ sh_snapshot sh = false.
    Proof.
      pose proof SH as H. unfold shape_ok in H. apply andb_prop in H. destruct H as [H H3].
      apply andb_prop in H. destruct H as [H1 H2]. apply negb_true_iff in H1, H2, H3. auto.
    Qed.

    Lemma pre_clear_id : forall v (s : state), pre_clear v s = s.
    Proof. intros v s. destruct sh_flags as (E1 & E2 & _). unfold LazyLumps.pre_clear. now rewrite E1, E2. Qed.

    Lemma save_todo_std : forall s : state, save_todo s = seq 0 nviews.
    Proof. intros s. destruct sh_flags as (_ & _ & E3). unfold LazyLumps.save_todo. now rewrite E3. Qed.

    Lemma oc_at : forall i, i < nviews ->
      deps_later g i = true /\ owns_stored g i = true /\ own_nodup g i = true /\ own_disjoint g i = true.
    Proof.
      intros i Hi. pose proof OC as H. unfold order_consistent in H. rewrite forallb_forall in H.
      specialize (H i). rewrite in_seq in H. specialize (H ltac:(lia)).
      apply andb_prop in H. destruct H as [H H4]. apply andb_prop in H. destruct H as [H H3].
      apply andb_prop in H. destruct H as [H1 H2]. repeat split; assumption.
    Qed.

    Lemma deps_gt : forall i d, i < nviews -> In d (v_rdeps (decl i) ++ v_wdeps (decl i)) -> i < d /\ d < nviews.
    Proof.
      intros i d Hi Hd. destruct (oc_at i Hi) as [H _]. unfold deps_later in H.
      rewrite forallb_forall in H. specialize (H d Hd). apply andb_prop in H. destruct H as [H1 H2].
      apply Nat.ltb_lt in H1. apply Nat.ltb_lt in H2. auto.
    Qed.

    Lemma own_disj : forall i j l, i < nviews -> j < nviews -> i <> j -> In l (own i) -> ~ In l (own j).
    Proof.
      intros i j l Hi Hj Hne Hl. destruct (oc_at i Hi) as (_ & _ & _ & H). unfold own_disjoint in H.
      rewrite forallb_forall in H. specialize (H j). rewrite in_seq in H. specialize (H ltac:(lia)).
      apply orb_prop in H. destruct H as [H|H]; [apply Nat.eqb_eq in H; contradiction|].
      unfold disjointb in H. rewrite forallb_forall in H. specialize (H l Hl).
      apply negb_true_iff in H. now apply mem_false in H.
    Qed.

    Lemma own_data_clear_other : forall (s : state) v w, v < nviews -> w <> v ->
      own_data (clear_lumps (own v) s) w = own_data s w.
    Proof.
      intros s v w Hv Hne. unfold LazyLumps.own_data. apply map_ext_in. intros l Hl. cbn [raw clear_lumps LazyLumps.clear_lumps].
      destruct (mem l (own v)) eqn:E; [|reflexivity]. exfalso. apply mem_In in E.
      destruct (Nat.lt_ge_cases w nviews) as [Hw|Hw].
      - exact (own_disj v w l Hv Hw (fun e => Hne (eq_sym e)) E Hl).
      - rewrite (own_overflow w Hw) in Hl. destruct Hl.
    Qed.

    Section Run.
      Variable s0 : state.
      Variable R : nat -> Prop.     (* any set of views closed under the dependencies *)
      Hypothesis Rclosed : forall v d, v < nviews -> R v -> In d (v_rdeps (decl v) ++ v_wdeps (decl v)) -> R d.

      (** What the reader of [v] makes of the file's data ([None]: it raises). *)
      Definition pv (v : nat) : option P := rd v (own_data s0 v).

      (** A look at [v] succeeds: its reader and the readers of everything it looks at accept the file's data. *)
      Inductive good : nat -> Prop :=
        good_i : forall v, pv v <> None -> (forall d, In d (v_rdeps (decl v)) -> good d) -> good v.

      (** Views below [lo] have been saved, views from [hi] on are either untouched or cached. *)
      Definition Inv (lo hi : nat) (s : state) : Prop :=
        (forall v, nviews <= v -> cache s v = None) /\
        (forall v, v < lo -> cache s v = None /\
            (own_data s v = own_data s0 v \/ (R v /\ exists p, pv v = Some p /\ own_data s v = wr v p))) /\
        (forall v, hi <= v -> v < nviews ->
            (cache s v = None /\ own_data s v = own_data s0 v) \/ (R v /\ good v /\ cache s v = pv v)) /\
        (forall l, ~ owned l -> raw s l = raw s0 l).

      Definition get_post (lo hi v : nat) (s : state) (r : bool * state) : Prop :=
        Inv lo hi (snd r) /\
        (v < nviews -> fst r = true -> cache (snd r) v = pv v /\ good v) /\
        (v < nviews -> fst r = false -> exists e, v <= e /\ e < nviews /\ pv e = None) /\
        (v < nviews -> good v -> fst r = true) /\
        (forall w, w < v \/ (w = v /\ fst r = false) -> cache (snd r) w = cache s w /\ own_data (snd r) w = own_data s w).

      Lemma good_pv : forall v, good v -> pv v <> None.
      Proof. intros v H. now inversion H. Qed.

      Lemma look_all_spec : forall (look : nat -> state -> bool * state) lo hi v ds,
        (forall d s, In d ds -> Inv lo hi s -> get_post lo hi d s (look d s)) ->
        (forall d, In d ds -> v < d /\ d < nviews) ->
        forall s, Inv lo hi s ->
        let r := look_all look ds s in
        Inv lo hi (snd r) /\
        (forall w, w <= v -> cache (snd r) w = cache s w /\ own_data (snd r) w = own_data s w) /\
        (fst r = true -> forall d, In d ds -> good d) /\
        (fst r = false -> exists e, v < e /\ e < nviews /\ pv e = None) /\
        ((forall d, In d ds -> good d) -> fst r = true).
      Proof.
        intros look lo hi v ds. induction ds as [|d r0 IH]; intros Hlook Hds s HI; cbn [LazyLumps.look_all].
        - cbn [fst snd]. split; [exact HI|]. split; [intros; split; reflexivity|].
          split; [intros _ d []|]. split; [discriminate | reflexivity].
        - destruct (Hds d (or_introl eq_refl)) as [Hvd Hdn].
          destruct (Hlook d s (or_introl eq_refl) HI) as (HI1 & Hok & Hfail & Hgood & Hfr).
          destruct (look d s) as [b s1] eqn:E. cbn [fst snd] in *. destruct b.
          + destruct (IH (fun d' s' Hd' => Hlook d' s' (or_intror Hd')) (fun d' Hd' => Hds d' (or_intror Hd')) s1 HI1)
              as (HI2 & Hfr2 & Hok2 & Hfail2 & Hgood2).
            split; [exact HI2|]. split; [|split; [|split]].
            * intros w Hw. destruct (Hfr2 w Hw) as [A B]. assert (Hwd : w < d) by lia. destruct (Hfr w (or_introl Hwd)) as [A' B']. split; congruence.
            * intros Ht d' [<-|Hd']; [exact (proj2 (Hok Hdn eq_refl)) | exact (Hok2 Ht d' Hd')].
            * exact Hfail2.
            * intros Hg. apply Hgood2. intros d' Hd'. apply Hg. now right.
          + cbn [fst snd]. split; [exact HI1|]. split; [|split; [|split]].
            * intros w Hw. apply Hfr. left. lia.
            * discriminate.
            * intros _. destruct (Hfail Hdn eq_refl) as (e & He1 & He2 & He3). exists e. split; [lia | split; [exact He2 | exact He3]].
            * intros Hg. apply (Hgood Hdn). apply Hg. now left.
      Qed.

      Lemma get_spec : forall f lo hi v s, lo <= hi -> Inv lo hi s -> hi <= v -> R v -> nviews <= f + v ->
        get_post lo hi v s (getf f v s).
      Proof.
        induction f as [|f IH]; intros lo hi v s Hlh HI Hhi HR Hfuel.
        - cbn [getf LazyLumps.getf fst snd]. unfold get_post. cbn [fst snd].
          split; [exact HI|]. split; [intros; lia|]. split; [intros; lia|]. split; [intros; lia|]. intros; split; reflexivity.
        - cbn [getf LazyLumps.getf]. destruct (v <? nviews) eqn:Ev.
          2:{ apply Nat.ltb_ge in Ev. unfold get_post. cbn [fst snd]. split; [exact HI|]. split; [intros; lia|]. split; [intros; lia|]. split; [intros; lia|]. intros; split; reflexivity. }
          apply Nat.ltb_lt in Ev.
          pose proof HI as HIc. destruct HI as (Ha & Hb & Hc & Hd).
          destruct (cache s v) as [p|] eqn:Ec.
          + (* already cached *)
            unfold get_post. cbn [fst snd]. split; [exact HIc|].
            destruct (Hc v Hhi Ev) as [[Hn _]|(_ & Hg & Hs)]; [congruence|].
            split; [intros _ _; split; [congruence | exact Hg]|]. split; [discriminate|]. split; [reflexivity|].
            intros; split; reflexivity.
          + (* parse *)
            assert (Hown0 : own_data s v = own_data s0 v).
            { destruct (Hc v Hhi Ev) as [[_ Ho]|(_ & Hg & Hs)]; [exact Ho|]. apply good_pv in Hg. congruence. }
            rewrite pre_clear_id.
            assert (Hds : forall d, In d (v_rdeps (decl v)) -> v < d /\ d < nviews).
            { intros d Hd'. apply (deps_gt v d Ev). apply in_or_app; auto. }
            assert (Hlook : forall d s', In d (v_rdeps (decl v)) -> Inv lo hi s' -> get_post lo hi d s' (getf f d s')).
            { intros d s' Hd' HI'. assert (Hin : In d (v_rdeps (decl v) ++ v_wdeps (decl v))) by (apply in_or_app; auto).
              destruct (deps_gt v d Ev Hin). apply IH; [exact Hlh | exact HI' | lia | exact (Rclosed v d Ev HR Hin) | lia]. }
            pose proof (look_all_spec (getf f) lo hi v (v_rdeps (decl v)) Hlook Hds s HIc) as Hfold. cbv zeta in Hfold.
            destruct (look_all (getf f) (v_rdeps (decl v)) s) as [b s1] eqn:El. cbn [fst snd] in *.
            destruct Hfold as ((Ha1 & Hb1 & Hc1 & Hd1) & Hfr & Hok & Hfail & Hgood).
            destruct (Hfr v (le_n v)) as [Hcv Hov].
            destruct b.
            * assert (Hp : rd v (parse_input s s1 v) = pv v).
              { rewrite (parse_input_eq s s1 v Hov). unfold pv. now rewrite Hown0. }
              rewrite Hp. destruct (pv v) as [p|] eqn:Epv.
              -- (* the reader succeeds *)
                 unfold get_post. cbn [fst snd]. split; [|split; [|split; [|split]]].
                 ++ split; [|split; [|split]].
                    ** intros v' Hv'. cbn [cache clear_lumps LazyLumps.clear_lumps set_cache LazyLumps.set_cache]. unfold upd.
                       destruct (Nat.eqb v' v) eqn:E; [apply Nat.eqb_eq in E; lia | auto].
                    ** intros v' Hv'. destruct (Hb1 v' Hv') as [A B]. assert (Hne : v' <> v) by lia. split.
                       --- cbn [cache clear_lumps LazyLumps.clear_lumps set_cache LazyLumps.set_cache]. unfold upd.
                           destruct (Nat.eqb v' v) eqn:E; [apply Nat.eqb_eq in E; lia | exact A].
                       --- rewrite (own_data_clear_other _ v v' Ev Hne). exact B.
                    ** intros v' Hv' Hv'n. destruct (Nat.eq_dec v' v) as [->|Hne].
                       --- right. split; [exact HR|]. split.
                           +++ constructor; [congruence | exact (Hok eq_refl)].
                           +++ cbn [cache clear_lumps LazyLumps.clear_lumps set_cache LazyLumps.set_cache]. unfold upd.
                               rewrite Nat.eqb_refl. now rewrite Epv.
                       --- rewrite (own_data_clear_other _ v v' Ev Hne).
                           cbn [cache clear_lumps LazyLumps.clear_lumps set_cache LazyLumps.set_cache]. unfold upd.
                           apply Nat.eqb_neq in Hne. rewrite Hne. exact (Hc1 v' Hv' Hv'n).
                    ** intros l Hl. cbn [raw clear_lumps LazyLumps.clear_lumps set_cache LazyLumps.set_cache].
                       destruct (mem l (own v)) eqn:E.
                       --- exfalso. apply Hl. exists v. split; [exact Ev | now apply mem_In].
                       --- apply Hd1, Hl.
                 ++ intros _ _. split.
                    ** cbn [cache clear_lumps LazyLumps.clear_lumps set_cache LazyLumps.set_cache]. unfold upd. now rewrite Nat.eqb_refl.
                    ** constructor; [congruence | exact (Hok eq_refl)].
                 ++ discriminate.
                 ++ reflexivity.
                 ++ intros w [Hw|[_ Hw]]; [|discriminate]. destruct (Hfr w ltac:(lia)) as [A B]. split.
                    ** cbn [cache clear_lumps LazyLumps.clear_lumps set_cache LazyLumps.set_cache]. unfold upd.
                       destruct (Nat.eqb w v) eqn:E; [apply Nat.eqb_eq in E; lia | exact A].
                    ** rewrite (own_data_clear_other _ v w Ev ltac:(lia)). exact B.
              -- (* the reader raises: nothing cached, nothing cleared *)
                 unfold get_post. cbn [fst snd]. split; [exact (conj Ha1 (conj Hb1 (conj Hc1 Hd1)))|].
                 split; [discriminate|]. split; [intros _ _; exists v; split; [lia | split; [exact Ev | exact Epv]]|].
                 split; [intros _ Hg; apply good_pv in Hg; congruence|].
                 intros w Hw. apply Hfr. lia.
            * (* a dependency's reader raised *)
              unfold get_post. cbn [fst snd]. split; [exact (conj Ha1 (conj Hb1 (conj Hc1 Hd1)))|].
              split; [discriminate|]. split; [|split].
              -- intros _ _. destruct (Hfail eq_refl) as (e & He1 & He2 & He3). exists e. split; [lia | split; [exact He2 | exact He3]].
              -- intros _ Hg. apply Hgood. now inversion Hg.
              -- intros w Hw. apply Hfr. lia.
      Qed.

      Lemma inv_fresh : fresh s0 -> Inv 0 0 s0.
      Proof. intros Hf. split; [|split; [|split]]; intros; auto; lia. Qed.

      Lemma run_inv : forall accs s, (forall v, In v accs -> R v) -> Inv 0 0 s -> Inv 0 0 (run accs s).
      Proof.
        induction accs as [|v r IH]; intros s HR HI; cbn [run LazyLumps.run fold_left]; [exact HI|].
        apply IH; [intros; apply HR; now right|].
        destruct (get_spec nviews 0 0 v s (le_n 0) HI ltac:(lia) (HR v (or_introl eq_refl)) ltac:(lia)) as [H _]. exact H.
      Qed.

      Lemma inv_denote : forall s v, Inv 0 0 s -> v < nviews -> denote s v = pv v.
      Proof.
        intros s v (_ & _ & Hc & _) Hv. unfold LazyLumps.denote.
        destruct (Hc v ltac:(lia) Hv) as [[Hn Ho]|(_ & Hg & Hs)].
        - rewrite Hn. unfold pv. now rewrite Ho.
        - apply good_pv in Hg. rewrite Hs. destruct (pv v); [reflexivity | contradiction].
      Qed.

      Hypothesis wr_len : forall v p, v < nviews -> pv v = Some p -> length (wr v p) = length (own v).

      Lemma store_sel_other : forall ws ls ds r l, ~ In l ls -> store_sel D ws ls ds r l = r l.
      Proof.
        induction ls as [|a ls IH]; intros ds r l Hl; destruct ds as [|d ds]; cbn [store_sel]; try reflexivity.
        rewrite IH by (intros H; apply Hl; now right).
        destruct (mem a ws); [|reflexivity]. unfold upd.
        destruct (Nat.eqb l a) eqn:E; [apply Nat.eqb_eq in E; subst; exfalso; apply Hl; now left | reflexivity].
      Qed.

      Lemma store_sel_own : forall ws ls ds r, NoDup ls -> length ds = length ls ->
        (forall l, In l ls -> mem l ws = true) -> map (store_sel D ws ls ds r) ls = ds.
      Proof.
        induction ls as [|a ls IH]; intros ds r Hnd Hlen Hws; destruct ds as [|d ds]; cbn [length] in Hlen; try discriminate; [reflexivity|].
        cbn [store_sel map]. inversion Hnd as [|? ? Hna Hnd']; subst.
        rewrite (Hws a (or_introl eq_refl)). f_equal.
        - rewrite store_sel_other by exact Hna. unfold upd. now rewrite Nat.eqb_refl.
        - apply IH; [exact Hnd' | lia | intros; apply Hws; now right].
      Qed.

      (** Every view a writer looks at can be parsed whenever the writer's own view could. *)
      Definition WG : Prop := forall v d, v < nviews -> good v -> In d (v_wdeps (decl v)) -> good d.

      Lemma save_step_inv : forall k acc, k < nviews -> (fst acc = true -> Inv k k (snd acc)) ->
        let r := save_step acc k in
        (fst r = true -> Inv (S k) (S k) (snd r)) /\ (fst acc = true -> WG -> fst r = true).
      Proof.
        intros k [b s] Hk HI. cbn [fst snd] in HI. unfold save_step, LazyLumps.save_step. cbn [fst snd].
        destruct b; [|cbn [fst snd]; split; intros; discriminate].
        destruct (HI eq_refl) as (Ha & Hb & Hc & Hd).
        destruct (cache s k) as [p|] eqn:Ec.
        2:{ (* not looked at *)
          cbn [fst snd]. split; [intros _|reflexivity].
          split; [exact Ha|]. split; [|split; [|exact Hd]].
          - intros v Hv. destruct (Nat.eq_dec v k) as [->|Hne]; [|apply Hb; lia].
            split; [exact Ec|]. left. destruct (Hc k (le_n k) Hk) as [[_ Ho]|(_ & Hg & Hs)]; [exact Ho|].
            apply good_pv in Hg. congruence.
          - intros v Hv Hvn. apply Hc; lia. }
        assert (HRk : R k /\ good k /\ pv k = Some p).
        { destruct (Hc k (le_n k) Hk) as [[Hn _]|(HR & Hg & Hs)]; [congruence|]. split; [exact HR | split; [exact Hg | congruence]]. }
        destruct HRk as (HRk & Hgk & Hpk).
        set (s1 := set_cache k None s).
        assert (HI1 : Inv k (S k) s1).
        { split; [|split; [|split; [|exact Hd]]].
          - intros v Hv. unfold s1, LazyLumps.set_cache, upd. cbn [cache].
            destruct (Nat.eqb v k) eqn:E; [reflexivity | auto].
          - intros v Hv. destruct (Hb v Hv) as [A B]. split; [|exact B].
            unfold s1, LazyLumps.set_cache, upd. cbn [cache]. destruct (Nat.eqb v k); [reflexivity | exact A].
          - intros v Hv Hvn. unfold s1, LazyLumps.set_cache, upd. cbn [cache].
            destruct (Nat.eqb v k) eqn:E; [apply Nat.eqb_eq in E; lia|]. apply (Hc v ltac:(lia) Hvn). }
        assert (Hwd : forall d, In d (v_wdeps (decl k)) -> k < d /\ d < nviews).
        { intros d Hd'. apply (deps_gt k d Hk). apply in_or_app; auto. }
        assert (Hlook : forall d s', In d (v_wdeps (decl k)) -> Inv k (S k) s' -> get_post k (S k) d s' (get d s')).
        { intros d s' Hd' HI'. assert (Hin : In d (v_rdeps (decl k) ++ v_wdeps (decl k))) by (apply in_or_app; auto).
          destruct (deps_gt k d Hk Hin). unfold LazyLumps.get.
          apply get_spec; [lia | exact HI' | lia | exact (Rclosed k d Hk HRk Hin) | lia]. }
        pose proof (look_all_spec get k (S k) k (v_wdeps (decl k)) Hlook Hwd s1 HI1) as Hfold. cbv zeta in Hfold.
        destruct (look_all get (v_wdeps (decl k)) s1) as [b2 s2] eqn:El. cbn [fst snd] in *.
        destruct Hfold as ((Ha2 & Hb2 & Hc2 & Hd2) & Hfr2 & _ & _ & Hgood2).
        destruct b2; cbn [fst snd].
        2:{ split; [discriminate|]. intros _ Hwg. apply Hgood2. intros d Hd'. exact (Hwg k d Hk Hgk Hd'). }
        split; [intros _|reflexivity].
        assert (Hself : mem k (v_wdeps (decl k)) = false).
        { apply mem_false. intros Hin. destruct (Hwd k Hin). lia. }
        rewrite Hself.
        destruct (oc_at k Hk) as (_ & Hst & Hnd & _).
        apply nodupb_NoDup in Hnd. unfold owns_stored in Hst. rewrite forallb_forall in Hst.
        assert (Hother : forall w, w <> k -> own_data (mkS (store_sel D (v_wstore (decl k)) (own k) (wr k p) (raw s2)) (cache s2)) w = own_data s2 w).
        { intros w Hne. unfold LazyLumps.own_data. cbn [raw]. apply map_ext_in. intros l Hl. apply store_sel_other.
          intros Hlk. destruct (Nat.lt_ge_cases w nviews) as [Hw|Hw].
          - exact (own_disj k w l Hk Hw (fun e => Hne (eq_sym e)) Hlk Hl).
          - rewrite (own_overflow w Hw) in Hl. destruct Hl. }
        split; [exact Ha2|]. split; [|split].
        - intros v Hv. destruct (Nat.eq_dec v k) as [->|Hne].
          + split.
            * cbn [cache]. destruct (Hfr2 k (le_n k)) as [A _]. rewrite A. unfold s1, LazyLumps.set_cache, upd. cbn [cache]. now rewrite Nat.eqb_refl.
            * right. split; [exact HRk|]. exists p. split; [exact Hpk|]. unfold LazyLumps.own_data at 1. cbn [raw].
              apply store_sel_own; [exact Hnd | exact (wr_len k p Hk Hpk) | exact Hst].
          + destruct (Hb2 v ltac:(lia)) as [A B]. split; [exact A|]. rewrite (Hother v Hne). exact B.
        - intros v Hv Hvn. rewrite (Hother v ltac:(lia)). cbn [cache]. apply Hc2; lia.
        - intros l Hl. cbn [raw]. rewrite store_sel_other; [apply Hd2, Hl|].
          intros Hin. apply Hl. exists k. split; assumption.
      Qed.

      Lemma save_steps_inv : forall m k acc, k + m = nviews -> (fst acc = true -> Inv k k (snd acc)) ->
        let r := fold_left save_step (seq k m) acc in
        (fst r = true -> Inv nviews nviews (snd r)) /\ (fst acc = true -> WG -> fst r = true).
      Proof.
        induction m as [|m IH]; intros k acc Hkm HI; cbn [seq fold_left].
        - replace nviews with k by lia. split; [exact HI | auto].
        - destruct (save_step_inv k acc ltac:(lia) HI) as [H1 H2]. cbv zeta in H1, H2.
          destruct (IH (S k) (save_step acc k) ltac:(lia) H1) as [H3 H4]. cbv zeta in H3, H4.
          split; [exact H3|]. intros Ht Hwg. apply H4; [apply H2; assumption | exact Hwg].
      Qed.

      Lemma save_inv : forall s, Inv 0 0 s ->
        (fst (save s) = true -> Inv nviews nviews (snd (save s))) /\ (WG -> fst (save s) = true).
      Proof.
        intros s HI. unfold LazyLumps.save. rewrite save_todo_std.
        destruct (save_steps_inv nviews 0 (true, s) ltac:(lia) (fun _ => HI)) as [H1 H2]. cbv zeta in H1, H2.
        split; [exact H1 | intros Hwg; now apply H2].
      Qed.

      (** An aborted save with the except clause ([restore = true]): the step that raises leaves the invariant of its own
          position intact (the popped view is cached again, the views looked at meanwhile are cached, nothing else moved). *)
      Lemma save_step_a_inv : forall k acc, k < nviews -> fst acc = true -> Inv k k (snd acc) ->
        let r := save_step_a true acc k in
        (fst r = true -> Inv (S k) (S k) (snd r)) /\ (fst r = false -> Inv k k (snd r)).
      Proof.
        intros k [b s] Hk Hb HI. cbn [fst snd] in Hb, HI. subst b. cbv zeta. split.
        - intros Ht. rewrite save_step_a_flag in Ht. rewrite (save_step_a_true true (true, s) k Ht).
          exact (proj1 (save_step_inv k (true, s) Hk (fun _ => HI)) Ht).
        - unfold LazyLumps.save_step_a. cbn [fst snd].
          destruct HI as (Ha & Hb & Hc & Hd).
          destruct (cache s k) as [p|] eqn:Ec; [|cbn [fst]; discriminate].
          assert (HRk : R k /\ good k /\ pv k = Some p).
          { destruct (Hc k (le_n k) Hk) as [[Hn _]|(HR & Hg & Hs)]; [congruence|]. split; [exact HR | split; [exact Hg | congruence]]. }
          destruct HRk as (HRk & Hgk & Hpk).
          set (s1 := set_cache k None s).
          assert (HI1 : Inv k (S k) s1).
          { split; [|split; [|split; [|exact Hd]]].
            - intros v Hv. unfold s1, LazyLumps.set_cache, upd. cbn [cache].
              destruct (Nat.eqb v k) eqn:E; [reflexivity | auto].
            - intros v Hv. destruct (Hb v Hv) as [A B]. split; [|exact B].
              unfold s1, LazyLumps.set_cache, upd. cbn [cache]. destruct (Nat.eqb v k); [reflexivity | exact A].
            - intros v Hv Hvn. unfold s1, LazyLumps.set_cache, upd. cbn [cache].
              destruct (Nat.eqb v k) eqn:E; [apply Nat.eqb_eq in E; lia|]. apply (Hc v ltac:(lia) Hvn). }
          assert (Hwd : forall d, In d (v_wdeps (decl k)) -> k < d /\ d < nviews).
          { intros d Hd'. apply (deps_gt k d Hk). apply in_or_app; auto. }
          assert (Hlook : forall d s', In d (v_wdeps (decl k)) -> Inv k (S k) s' -> get_post k (S k) d s' (get d s')).
          { intros d s' Hd' HI'. assert (Hin : In d (v_rdeps (decl k) ++ v_wdeps (decl k))) by (apply in_or_app; auto).
            destruct (deps_gt k d Hk Hin). unfold LazyLumps.get.
            apply get_spec; [lia | exact HI' | lia | exact (Rclosed k d Hk HRk Hin) | lia]. }
          pose proof (look_all_spec get k (S k) k (v_wdeps (decl k)) Hlook Hwd s1 HI1) as Hfold. cbv zeta in Hfold.
          destruct (look_all get (v_wdeps (decl k)) s1) as [b2 s2] eqn:El. cbn [fst snd] in *.
          destruct Hfold as ((Ha2 & Hb2 & Hc2 & Hd2) & Hfr2 & _).
          destruct b2; cbn [fst snd]; [discriminate|]. intros _.
          split; [|split; [|split]].
          + intros v Hv. unfold LazyLumps.set_cache, upd. cbn [cache].
            destruct (Nat.eqb v k) eqn:E; [apply Nat.eqb_eq in E; lia | auto].
          + intros v Hv. destruct (Hb2 v Hv) as [A B]. split; [|exact B].
            unfold LazyLumps.set_cache, upd. cbn [cache]. destruct (Nat.eqb v k) eqn:E; [apply Nat.eqb_eq in E; lia | exact A].
          + intros v Hv Hvn. destruct (Nat.eq_dec v k) as [->|Hne].
            * right. split; [exact HRk|]. split; [exact Hgk|].
              unfold LazyLumps.set_cache, upd. cbn [cache]. rewrite Nat.eqb_refl. now rewrite Hpk.
            * unfold LazyLumps.set_cache, upd. cbn [cache]. destruct (Nat.eqb v k) eqn:E; [apply Nat.eqb_eq in E; contradiction|].
              exact (Hc2 v ltac:(lia) Hvn).
          + exact Hd2.
      Qed.

      Lemma save_steps_a_inv : forall m k acc, k + m = nviews -> (fst acc = true -> Inv k k (snd acc)) ->
        (fst acc = false -> exists j, j <= nviews /\ Inv j j (snd acc)) ->
        let r := fold_left (save_step_a true) (seq k m) acc in
        exists j, j <= nviews /\ Inv j j (snd r) /\ (fst r = true -> j = nviews).
      Proof.
        induction m as [|m IH]; intros k acc Hkm Ht Hf; cbn [seq fold_left].
        - destruct (fst acc) eqn:E.
          + exists k. split; [lia|]. split; [now apply Ht | intros _; lia].
          + destruct (Hf eq_refl) as (j & Hj & HI). exists j. split; [exact Hj|]. split; [exact HI | discriminate].
        - apply IH; [lia| |].
          + intros Hs. destruct (fst acc) eqn:E.
            * exact (proj1 (save_step_a_inv k acc ltac:(lia) E (Ht eq_refl)) Hs).
            * rewrite (save_step_a_stopped true acc k E) in Hs. congruence.
          + intros Hs. destruct (fst acc) eqn:E.
            * exists k. split; [lia|]. exact (proj2 (save_step_a_inv k acc ltac:(lia) E (Ht eq_refl)) Hs).
            * rewrite (save_step_a_stopped true acc k E). exact (Hf eq_refl).
      Qed.

      Lemma save_a_inv : forall s, Inv 0 0 s ->
        exists j, j <= nviews /\ Inv j j (snd (save_a true s)) /\ (fst (save_a true s) = true -> j = nviews).
      Proof.
        intros s HI. unfold LazyLumps.save_a. rewrite save_todo_std.
        exact (save_steps_a_inv nviews 0 (true, s) ltac:(lia) (fun _ => HI) ltac:(discriminate)).
      Qed.

      (** What the object denotes in a state where the views below [j] have been saved and the others are untouched or cached. *)
      Lemma inv_mid_denote : forall j s, Inv j j s ->
        (forall v p, v < nviews -> pv v = Some p -> rd v (wr v p) = Some p) ->
        forall v, v < nviews -> denote s v = pv v.
      Proof.
        intros j s (_ & Hb & Hc & _) Hcodec v Hv. unfold LazyLumps.denote.
        destruct (Nat.lt_ge_cases v j) as [Hlt|Hge].
        - destruct (Hb v Hlt) as [Hn [Ho|(_ & p & Hp & Ho)]]; rewrite Hn, Ho; [reflexivity|].
          rewrite Hp. now apply Hcodec.
        - destruct (Hc v Hge Hv) as [[Hn Ho]|(_ & Hg & Hs)].
          + rewrite Hn. unfold pv. now rewrite Ho.
          + apply good_pv in Hg. rewrite Hs. destruct (pv v); [reflexivity | contradiction].
      Qed.
    End Run.

    (** ------------------------------------------------------------------ exported statements *)

    (** The writer inverts the reader on whatever the reader makes of the file's lumps (property C11). *)
    Definition codec_ok (s0 : state) : Prop :=
      forall v p, v < nviews -> rd v (own_data s0 v) = Some p -> rd v (wr v p) = Some p.
    Definition same_content (s s0 : state) : Prop :=
      (forall v, v < nviews -> rd v (own_data s v) = rd v (own_data s0 v)) /\
      (forall l, ~ owned l -> raw s l = raw s0 l).
    (** The writer returns one datum per owned lump (on the values parsed from this file). *)
    Definition wr_len_ok (s0 : state) : Prop :=
      forall v p, v < nviews -> rd v (own_data s0 v) = Some p -> length (wr v p) = length (own v).
    (** Whenever a view can be looked at, so can every view its writer looks at (otherwise save raises). *)
    Definition writers_can_look (s0 : state) : Prop := WG s0.

    Lemma writers_can_look_from_graph : wdeps_within_rdeps g = true -> forall s0, writers_can_look s0.
    Proof.
      intros H s0 v d Hv Hg Hd. unfold wdeps_within_rdeps in H. rewrite forallb_forall in H.
      specialize (H v). rewrite in_seq in H. specialize (H ltac:(lia)). rewrite forallb_forall in H.
      specialize (H d Hd). apply mem_In in H. inversion Hg as [? _ Hall]. exact (Hall d H).
    Qed.

    Lemma closed_all : forall v d, v < nviews -> True -> In d (v_rdeps (decl v) ++ v_wdeps (decl v)) -> True.
    Proof. auto. Qed.

    Lemma inv_run_all : forall s0 accs, fresh s0 -> Inv s0 (fun _ => True) 0 0 (run accs s0).
    Proof.
      intros s0 accs Hf. apply (run_inv s0 (fun _ => True) closed_all); [intros; exact I | now apply inv_fresh].
    Qed.

    (** A look either succeeds and leaves the view cached, or fails, and then only because the reader of the
        view or of a view later in the rebuild order rejects the data of the file: the fuel of [getf] is never
        the reason. *)
    Theorem get_total : forall s0 accs v, fresh s0 -> v < nviews ->
      let r := get v (run accs s0) in
      (fst r = true -> exists p, cache (snd r) v = Some p /\ rd v (own_data s0 v) = Some p) /\
      (fst r = false -> exists e, v <= e /\ e < nviews /\ rd e (own_data s0 e) = None) /\
      ((forall e, v <= e -> e < nviews -> rd e (own_data s0 e) <> None) -> fst r = true).
    Proof.
      intros s0 accs v Hf Hv r. unfold LazyLumps.get in r.
      destruct (get_spec s0 (fun _ => True) closed_all nviews 0 0 v (run accs s0) (le_n 0) (inv_run_all s0 accs Hf)
                  ltac:(lia) I ltac:(lia)) as (_ & Hok & Hfail & Hgood & _).
      fold r in Hok, Hfail, Hgood. split; [|split].
      - intros Ht. destruct (Hok Hv Ht) as [Hc Hg]. apply good_pv in Hg. unfold pv in *.
        destruct (rd v (own_data s0 v)) as [p|]; [exists p; auto | contradiction].
      - intros Hff. exact (Hfail Hv Hff).
      - intros Hall. destruct (fst r) eqn:E; [reflexivity|]. destruct (Hfail Hv eq_refl) as (e & H1 & H2 & H3).
        exfalso. exact (Hall e H1 H2 H3).
    Qed.

    (** A look that raises changes nothing the property can observe: the view is still not cached, none of its
        lumps was touched, every view still denotes what it denoted, lumps without a view are untouched. *)
    Theorem failed_get_is_identity : forall s0 accs v, fresh s0 -> v < nviews ->
      let s := run accs s0 in let r := get v s in fst r = false ->
      cache (snd r) v = None /\ (forall l, In l (own v) -> raw (snd r) l = raw s l) /\
      (forall w, w < nviews -> denote (snd r) w = denote s w) /\
      (forall l, ~ owned l -> raw (snd r) l = raw s l).
    Proof.
      intros s0 accs v Hf Hv s r Hff. unfold LazyLumps.get in r.
      assert (HIs : Inv s0 (fun _ => True) 0 0 s) by now apply inv_run_all.
      destruct (get_spec s0 (fun _ => True) closed_all nviews 0 0 v s (le_n 0) HIs ltac:(lia) I ltac:(lia))
        as (HI & Hok & _ & Hgood & Hfr).
      fold r in HI, Hok, Hgood, Hfr.
      destruct (Hfr v (or_intror (conj eq_refl Hff))) as [Hc Ho].
      split; [|split; [|split]].
      - rewrite Hc. destruct HIs as (_ & _ & HcI & _).
        destruct (HcI v ltac:(lia) Hv) as [[Hn _]|(_ & Hg & _)]; [exact Hn|].
        rewrite (Hgood Hv Hg) in Hff. discriminate.
      - intros l Hl. exact (map_eq_pointwise _ _ _ Ho l Hl).
      - intros w Hw. rewrite (inv_denote s0 _ _ w HI Hw). now rewrite (inv_denote s0 _ _ w HIs Hw).
      - intros l Hl. destruct HI as (_ & _ & _ & Hd). destruct HIs as (_ & _ & _ & Hd'). now rewrite Hd, Hd'.
    Qed.

    Theorem view_look_preserves : forall s0 accs, fresh s0 ->
      let s := run accs s0 in
      (forall v, v < nviews -> denote s v = denote s0 v) /\ (forall l, ~ owned l -> raw s l = raw s0 l).
    Proof.
      intros s0 accs Hf s.
      assert (HI : Inv s0 (fun _ => True) 0 0 s) by now apply inv_run_all.
      split.
      - intros v Hv. rewrite (inv_denote s0 _ s v HI Hv). unfold LazyLumps.denote. now rewrite (Hf v).
      - destruct HI as (_ & _ & _ & Hd). exact Hd.
    Qed.

    Lemma save_inv_all : forall s0 accs, fresh s0 -> wr_len_ok s0 ->
      let r := save (run accs s0) in
      (fst r = true -> Inv s0 (fun _ => True) nviews nviews (snd r)) /\ (writers_can_look s0 -> fst r = true).
    Proof.
      intros s0 accs Hf Hlen. apply (save_inv s0 (fun _ => True) closed_all Hlen). now apply inv_run_all.
    Qed.

    (** Main statement, over access sequences that may contain looks that raise. *)
    Theorem save_lossless : forall s0 accs, fresh s0 -> wr_len_ok s0 -> codec_ok s0 ->
      let r := save (run accs s0) in
      (fst r = true -> fresh (snd r) /\ same_content (snd r) s0) /\ (writers_can_look s0 -> fst r = true).
    Proof.
      intros s0 accs Hf Hlen Hcodec r.
      destruct (save_inv_all s0 accs Hf Hlen) as [H1 H2]. fold r in H1, H2. split; [|exact H2].
      intros Ht. destruct (H1 Ht) as (Ha & Hb & _ & Hd). split; [|split].
      - intros v. destruct (Nat.lt_ge_cases v nviews) as [Hv|Hv]; [apply Hb, Hv | apply Ha, Hv].
      - intros v Hv. destruct (Hb v Hv) as [_ [Ho|(_ & p & Hp & Ho)]]; rewrite Ho; [reflexivity|].
        unfold pv in Hp. rewrite Hp. apply Hcodec; assumption.
      - exact Hd.
    Qed.

    (** Byte identity for every lump whose view is outside a dependency-closed set containing the accesses. *)
    Theorem save_untouched_exact : forall s0 accs (R : nat -> Prop), fresh s0 -> wr_len_ok s0 ->
      (forall v d, v < nviews -> R v -> In d (v_rdeps (decl v) ++ v_wdeps (decl v)) -> R d) ->
      (forall v, In v accs -> R v) ->
      let r := save (run accs s0) in fst r = true ->
      forall v l, v < nviews -> ~ R v -> In l (own v) -> raw (snd r) l = raw s0 l.
    Proof.
      intros s0 accs R Hf Hlen Hcl Hacc r Ht v l Hv HnR Hl.
      assert (HI : Inv s0 R nviews nviews (snd r)).
      { apply (save_inv s0 R Hcl Hlen); [|exact Ht]. apply (run_inv s0 R Hcl); [exact Hacc | now apply inv_fresh]. }
      destruct HI as (_ & Hb & _ & _). destruct (Hb v Hv) as [_ [Ho|[HR _]]]; [|contradiction].
      exact (map_eq_pointwise _ _ _ Ho l Hl).
    Qed.

    (** Look/save cycles; a cycle whose save raised leaves the rest of the history unexamined (flag false). *)
    Definition run_cycles (cs : list (list nat)) (s : state) : bool * state :=
      fold_left (fun (acc : bool * state) accs => if fst acc then save (run accs (snd acc)) else acc) cs (true, s).

    Lemma fresh_same_hyps : forall s s0, same_content s s0 -> wr_len_ok s0 -> codec_ok s0 -> wr_len_ok s /\ codec_ok s.
    Proof.
      intros s s0 (Hp & _) Hlen Hcodec. split.
      - intros v p Hv Hr. rewrite (Hp v Hv) in Hr. exact (Hlen v p Hv Hr).
      - intros v p Hv Hr. rewrite (Hp v Hv) in Hr. exact (Hcodec v p Hv Hr).
    Qed.

    (** Repeated read / look / save cycles. *)
    Theorem cycles_lossless : forall cs s0, fresh s0 -> wr_len_ok s0 -> codec_ok s0 ->
      let r := run_cycles cs s0 in fst r = true -> fresh (snd r) /\ same_content (snd r) s0.
    Proof.
      intros cs s0 Hf Hlen Hcodec. cbv zeta. unfold run_cycles.
      assert (G : forall acc, (fst acc = true -> fresh (snd acc) /\ same_content (snd acc) s0) ->
                  let r := fold_left (fun (acc : bool * state) accs => if fst acc then save (run accs (snd acc)) else acc) cs acc in
                  fst r = true -> fresh (snd r) /\ same_content (snd r) s0).
      { induction cs as [|accs r IH]; intros acc Hs; cbn [fold_left]; [exact Hs|].
        apply IH. destruct acc as [b s]. cbn [fst snd] in *. destruct b; [|exact Hs].
        destruct (Hs eq_refl) as (Hfs & Hsc). destruct (fresh_same_hyps s s0 Hsc Hlen Hcodec) as [Hls Hcs].
        intros Ht. destruct (save_lossless s accs Hfs Hls Hcs) as [H _]. destruct (H Ht) as (Hf' & Hp' & Hu').
        destruct Hsc as (Hp & Hu). split; [exact Hf'|]. split.
        - intros v Hv. rewrite (Hp' v Hv). apply Hp, Hv.
        - intros l Hl. rewrite (Hu' l Hl). apply Hu, Hl. }
      apply G. cbn [fst snd]. intros _. split; [exact Hf|]. split; auto.
    Qed.

    (** Saving again changes nothing: after a save nothing is cached, so the next save is the identity. *)
    Theorem save_idempotent : forall s0 accs, fresh s0 -> wr_len_ok s0 ->
      let r := save (run accs s0) in fst r = true -> save (snd r) = (true, snd r).
    Proof.
      intros s0 accs Hf Hlen r Ht. apply save_fresh_id.
      destruct (save_inv_all s0 accs Hf Hlen) as [H1 _]. fold r in H1.
      destruct (H1 Ht) as (Ha & Hb & _ & _).
      intros v. destruct (Nat.lt_ge_cases v nviews) as [Hv|Hv]; [apply Hb, Hv | apply Ha, Hv].
    Qed.

    (** A save that raises half-way (a writer looks at a view that cannot be parsed), with the except clause that puts the
        popped view back: whether or not it completes, the object afterwards denotes for every view what the file held, and
        lumps without a view are untouched.  (The caller can carry on: nothing the property can observe was lost.) *)
    Theorem aborted_save_keeps_content : forall s0 accs, fresh s0 -> wr_len_ok s0 -> codec_ok s0 ->
      let r := save_a true (run accs s0) in
      (forall v, v < nviews -> denote (snd r) v = rd v (own_data s0 v)) /\ (forall l, ~ owned l -> raw (snd r) l = raw s0 l).
    Proof.
      intros s0 accs Hf Hlen Hcodec r.
      destruct (save_a_inv s0 (fun _ => True) closed_all Hlen (run accs s0) (inv_run_all s0 accs Hf)) as (j & Hj & HI & _).
      fold r in HI. split.
      - intros v Hv. exact (inv_mid_denote s0 (fun _ => True) j (snd r) HI (fun v p Hv' Hp => Hcodec v p Hv' Hp) v Hv).
      - destruct HI as (_ & _ & _ & Hd). exact Hd.
    Qed.

    (** ... and the caller can carry on: after a save that may have raised half-way (with the except clause), ANY further
        looks and a save that completes are lossless with respect to the original file.  The state after the aborted save
        is an ordinary "looked-at" state of another file [ref_after]: the lumps of the views still cached are those of the
        original, every other lump is what the object holds now (rewritten by the writers that already ran). *)
    Definition cached_owner (s : state) (l : nat) : bool :=
      existsb (fun v => is_cached D P s v && mem l (own v)) (seq 0 nviews).
    Definition ref_after (s0 s : state) : state :=
      mkS (fun l => if cached_owner s l then raw s0 l else raw s l) (fun _ => None).

    Lemma cached_owner_own : forall (s : state) v l, v < nviews -> In l (own v) -> cached_owner s l = is_cached D P s v.
    Proof.
      intros s v l Hv Hl. unfold cached_owner. destruct (is_cached D P s v) eqn:E.
      - apply existsb_exists. exists v. split; [apply in_seq; lia|]. rewrite E. cbn [andb]. now apply mem_In.
      - destruct (existsb _ _) eqn:Ex; [|reflexivity]. apply existsb_exists in Ex. destruct Ex as (w & Hw & Hb).
        apply in_seq in Hw. apply andb_prop in Hb. destruct Hb as [Hc Hm]. apply mem_In in Hm.
        destruct (Nat.eq_dec w v) as [->|Hne]; [congruence|].
        exfalso. exact (own_disj w v l ltac:(lia) Hv Hne Hm Hl).
    Qed.

    Lemma ref_after_own_data : forall (s0 s : state) v, v < nviews ->
      own_data (ref_after s0 s) v = if is_cached D P s v then own_data s0 v else own_data s v.
    Proof.
      intros s0 s v Hv. unfold LazyLumps.own_data at 1. cbn [raw ref_after].
      destruct (is_cached D P s v) eqn:E; unfold LazyLumps.own_data; apply map_ext_in; intros l Hl;
        rewrite (cached_owner_own s v l Hv Hl), E; reflexivity.
    Qed.

    Lemma ref_after_unowned : forall (s0 s : state) l, ~ owned l -> raw (ref_after s0 s) l = raw s l.
    Proof.
      intros s0 s l Hl. cbn [raw ref_after]. destruct (cached_owner s l) eqn:E; [|reflexivity].
      exfalso. apply Hl. unfold cached_owner in E. apply existsb_exists in E. destruct E as (w & Hw & Hb).
      apply in_seq in Hw. apply andb_prop in Hb. destruct Hb as [_ Hm]. apply mem_In in Hm. exists w. split; [lia | exact Hm].
    Qed.

    Lemma ref_after_pv : forall (s0 s : state) j, codec_ok s0 -> Inv s0 (fun _ => True) j j s ->
      forall v, v < nviews -> pv (ref_after s0 s) v = pv s0 v.
    Proof.
      intros s0 s j Hcodec (_ & Hb & Hc & _) v Hv. unfold pv. rewrite (ref_after_own_data s0 s v Hv).
      unfold LazyLumps.is_cached.
      destruct (Nat.lt_ge_cases v j) as [Hlt|Hge].
      - destruct (Hb v Hlt) as [Hn [Ho|(_ & p & Hp & Ho)]]; rewrite Hn, Ho; [reflexivity|].
        unfold pv in Hp. rewrite Hp. now apply Hcodec.
      - destruct (Hc v Hge Hv) as [[Hn Ho]|(_ & Hg & Hs)].
        + rewrite Hn, Ho. reflexivity.
        + apply good_pv in Hg. destruct (cache s v); [reflexivity | exfalso; apply Hg; now rewrite <- Hs].
    Qed.

    Lemma ref_after_good : forall (s0 s : state) j, codec_ok s0 -> Inv s0 (fun _ => True) j j s ->
      forall v, v < nviews -> good s0 v -> good (ref_after s0 s) v.
    Proof.
      intros s0 s j Hcodec HI v Hv Hg. revert Hv. induction Hg as [v Hp Hd IH]. intros Hv. constructor.
      - rewrite (ref_after_pv s0 s j Hcodec HI v Hv). exact Hp.
      - intros d Hin. apply IH; [exact Hin|]. apply (deps_gt v d Hv). apply in_or_app. now left.
    Qed.

    Lemma ref_after_inv : forall (s0 s : state) j, codec_ok s0 -> Inv s0 (fun _ => True) j j s ->
      Inv (ref_after s0 s) (fun _ => True) 0 0 s.
    Proof.
      intros s0 s j Hcodec HI. pose proof HI as (Ha & Hb & Hc & Hd). split; [exact Ha|]. split; [intros v Hv; lia|]. split.
      - intros v _ Hv. rewrite (ref_after_own_data s0 s v Hv), (ref_after_pv s0 s j Hcodec HI v Hv). unfold LazyLumps.is_cached.
        destruct (Nat.lt_ge_cases v j) as [Hlt|Hge].
        + destruct (Hb v Hlt) as [Hn _]. rewrite Hn. left. split; reflexivity.
        + destruct (Hc v Hge Hv) as [[Hn Ho]|(_ & Hg & Hs)].
          * rewrite Hn. left. split; reflexivity.
          * right. split; [exact I|]. split; [exact (ref_after_good s0 s j Hcodec HI v Hv Hg) | exact Hs].
      - intros l Hl. now rewrite ref_after_unowned.
    Qed.

    Theorem retry_after_aborted_save_lossless : forall s0 accs accs2, fresh s0 -> wr_len_ok s0 -> codec_ok s0 ->
      let r := save_a true (run accs s0) in
      let r2 := save_a true (run accs2 (snd r)) in
      fst r2 = true -> fresh (snd r2) /\ same_content (snd r2) s0.
    Proof.
      intros s0 accs accs2 Hf Hlen Hcodec r r2 Ht.
      destruct (save_a_inv s0 (fun _ => True) closed_all Hlen (run accs s0) (inv_run_all s0 accs Hf)) as (j & Hj & HI & _).
      fold r in HI. set (s1 := ref_after s0 (snd r)).
      assert (Hsame : same_content s1 s0).
      { split.
        - intros v Hv. exact (ref_after_pv s0 (snd r) j Hcodec HI v Hv).
        - intros l Hl. unfold s1. rewrite ref_after_unowned by exact Hl. destruct HI as (_ & _ & _ & Hd). exact (Hd l Hl). }
      destruct (fresh_same_hyps s1 s0 Hsame Hlen Hcodec) as [Hlen1 Hcodec1].
      assert (HI1 : Inv s1 (fun _ => True) 0 0 (run accs2 (snd r))).
      { apply (run_inv s1 (fun _ => True) closed_all); [intros; exact I | exact (ref_after_inv s0 (snd r) j Hcodec HI)]. }
      destruct (save_a_like_save true (run accs2 (snd r))) as [Hfl Heq]. fold r2 in Hfl, Heq.
      rewrite Hfl in Ht. rewrite (Heq Ht).
      destruct (save_inv s1 (fun _ => True) closed_all Hlen1 (run accs2 (snd r)) HI1) as [H1 _].
      destruct (H1 Ht) as (Ha & Hb & _ & Hd).
      assert (Hfr : fresh (snd (save (run accs2 (snd r))))).
      { intros v. destruct (Nat.lt_ge_cases v nviews) as [Hv|Hv]; [apply Hb, Hv | apply Ha, Hv]. }
      split; [exact Hfr|]. destruct Hsame as [Hp Hu]. split.
      - intros v Hv. rewrite <- (Hp v Hv). destruct (Hb v Hv) as [_ [Ho|(_ & p & Hpp & Ho)]]; rewrite Ho; [reflexivity|].
        unfold pv in Hpp. rewrite Hpp. apply Hcodec1; assumption.
      - intros l Hl. rewrite (Hd l Hl). exact (Hu l Hl).
    Qed.
  End Consistent.
End Proofs.

(** ---------------------------------------------------------------------- small closed instances *)
(** Data are numbers (0 = b''), parsed values are the list of data; the writer is the identity, the reader is
    the identity except that it raises on a lump that starts with the datum 99 ("malformed"). *)
Definition ex_rd (v : nat) (ds : list nat) : option (list nat) :=
  match ds with 99 :: _ => None | _ => Some ds end.
Definition ex_wr (v : nat) (p : list nat) : list nat := p.
Definition ex_s0 : state nat (list nat) := mkS (fun l => S l) (fun _ => None).
(** The same file with lump 2 malformed. *)
Definition ex_bad : state nat (list nat) := mkS (fun l => if Nat.eqb l 2 then 99 else S l) (fun _ => None).
Notation ex_get g sh := (get nat (list nat) 0 ex_rd g sh).
Notation ex_run g sh := (run nat (list nat) 0 ex_rd g sh).
Notation ex_save g sh := (save nat (list nat) 0 ex_rd ex_wr g sh).

(** The hypotheses of the theorems are satisfiable: a consistent graph with reader and writer dependencies. *)
Definition g_ok : graph :=
  [ mkV [0] [1; 2] [2] [0]; mkV [1; 5] [2] [] [1; 5]; mkV [2; 3] [] [] [2; 3; 9] ].
Example g_ok_consistent : order_consistent g_ok = true.
Proof. vm_compute. reflexivity. Qed.
Example ex_hyps : fresh nat (list nat) ex_s0 /\ wr_len_ok nat (list nat) ex_rd ex_wr g_ok ex_s0 /\
  codec_ok nat (list nat) ex_rd ex_wr g_ok ex_s0 /\ writers_can_look nat (list nat) ex_rd g_ok ex_s0.
Proof.
  split; [intros v; reflexivity|].
  assert (Hgood : forall v, v < 3 -> good nat (list nat) ex_rd g_ok ex_s0 v).
  { assert (G2 : good nat (list nat) ex_rd g_ok ex_s0 2) by (constructor; [discriminate | intros d []]).
    assert (G1 : good nat (list nat) ex_rd g_ok ex_s0 1).
    { constructor; [discriminate|]. intros d [<-|[]]. exact G2. }
    intros v Hv. destruct v as [|[|[|v]]]; [|exact G1 | exact G2 | lia].
    constructor; [discriminate|]. intros d [<-|[<-|[]]]; assumption. }
  split; [|split].
  - intros v p Hv Hr. destruct v as [|[|[|v]]]; cbn in Hv; try lia; vm_compute in Hr; injection Hr as <-; reflexivity.
  - intros v p Hv Hr. destruct v as [|[|[|v]]]; cbn in Hv; try lia; vm_compute in Hr; injection Hr as <-; reflexivity.
  - intros v d Hv _ Hd. destruct v as [|[|[|v]]]; cbn in Hv; try lia; cbn in Hd.
    + destruct Hd as [<-|[]]. apply Hgood. lia.
    + destruct Hd.
    + destruct Hd.
Qed.
Example g_ok_run : let r := ex_save g_ok std_shape (ex_run g_ok std_shape [0] ex_s0) in
  fst r = true /\ map (raw (snd r)) [0; 1; 2; 3; 4; 5] = [1; 2; 3; 4; 5; 6] /\ map (cache (snd r)) [0; 1; 2] = [None; None; None].
Proof. vm_compute. repeat split; reflexivity. Qed.
(** ... and they do not exclude looks that raise: on [ex_bad] looking at view 0 looks at view 1 (cached, lumps 1 and 5
    cleared), then at view 2 whose reader raises; view 0 is not cached, lumps 0, 2, 3 are untouched, and save
    writes everything back. *)
Definition g_part : graph := [ mkV [0] [1; 2] [] [0]; mkV [1; 5] [] [] [1; 5]; mkV [2; 3] [] [] [2; 3] ].
Example g_part_failing_look :
  let q := ex_get g_part std_shape 0 ex_bad in let r := ex_save g_part std_shape (snd q) in
  order_consistent g_part = true /\
  fst q = false /\ map (cache (snd q)) [0; 1; 2] = [None; Some [2; 6]; None] /\
  map (raw (snd q)) [0; 1; 2; 3; 5] = [1; 0; 99; 4; 0] /\
  fst r = true /\ map (raw (snd r)) [0; 1; 2; 3; 5] = [1; 2; 99; 4; 6] /\ map (cache (snd r)) [0; 1; 2] = [None; None; None].
Proof. vm_compute. repeat split; reflexivity. Qed.

(** Known defect #16 as a graph: a writer that looks at its own view (after it was popped). Looking at the
    view and saving empties the lump and leaves a stale cache entry. *)
Definition g_self : graph := [ mkV [0] [] [0] [0] ].
Example self_dependent_writer_refuted :
  let r := ex_save g_self std_shape (ex_run g_self std_shape [0] ex_s0) in
  order_consistent g_self = false /\ raw ex_s0 0 = 1 /\ fst r = true /\ raw (snd r) 0 = 0 /\ cache (snd r) 0 = Some [0].
Proof. vm_compute. repeat split; reflexivity. Qed.

(** A writer that looks at a view placed EARLIER in the rebuild order: that view is parsed after its turn,
    its lump stays cleared and the cache is not empty after save. *)
Definition g_order : graph := [ mkV [0] [] [] [0]; mkV [1] [] [0] [1] ].
Example rebuild_order_refuted :
  let r := ex_save g_order std_shape (ex_run g_order std_shape [1] ex_s0) in
  order_consistent g_order = false /\ raw ex_s0 0 = 1 /\ fst r = true /\ raw (snd r) 0 = 0 /\ cache (snd r) 0 = Some [1].
Proof. vm_compute. repeat split; reflexivity. Qed.

(** A lump that is cleared by the view but not stored by its writer is lost. *)
Definition g_unstored : graph := [ mkV [0; 1] [] [] [0] ].
Example cleared_lump_not_rewritten_refuted :
  let r := ex_save g_unstored std_shape (ex_run g_unstored std_shape [0] ex_s0) in
  order_consistent g_unstored = false /\ raw ex_s0 1 = 2 /\ fst r = true /\ raw (snd r) 1 = 0.
Proof. vm_compute. repeat split; reflexivity. Qed.

(** Two views sharing a lump: the second parse sees the cleared lump. *)
Definition g_shared : graph := [ mkV [0; 7] [] [] [0; 7]; mkV [1; 7] [] [] [1; 7] ].
Example shared_lump_refuted :
  let r := ex_save g_shared std_shape (ex_run g_shared std_shape [0; 1] ex_s0) in
  order_consistent g_shared = false /\ raw ex_s0 7 = 8 /\ fst r = true /\ raw (snd r) 7 = 0.
Proof. vm_compute. repeat split; reflexivity. Qed.

(** Each flag of [shape] is harmful on a perfectly consistent graph. *)
(** __get__ empties the main lump before the reader has run: a look that raises loses the lump (nothing is
    cached, so save has nothing to write back). *)
Definition g_one : graph := [ mkV [2; 3] [] [] [2; 3] ].
Example clear_before_parse_refuted :
  let sh := mkShape true false false in
  let q := ex_get g_one sh 0 ex_bad in let r := ex_save g_one sh (snd q) in
  order_consistent g_one = true /\ shape_ok sh = false /\ raw ex_bad 2 = 99 /\
  fst q = false /\ cache (snd q) 0 = None /\ fst r = true /\ raw (snd r) 2 = 0 /\ raw (snd r) 3 = 4.
Proof. vm_compute. repeat split; reflexivity. Qed.
(** The same for the extra lumps (here the reader sees the emptied extra lump, accepts it, and the lump's
    content is lost although nothing raised: the parsed value is [99 is absent; 0]). *)
Example clear_extra_before_parse_refuted :
  let sh := mkShape false true false in
  let r := ex_save g_one sh (ex_run g_one sh [0] ex_s0) in
  order_consistent g_one = true /\ shape_ok sh = false /\ raw ex_s0 3 = 4 /\ fst r = true /\ raw (snd r) 3 = 0.
Proof. vm_compute. repeat split; reflexivity. Qed.
(** save walks a snapshot of the views that were cached when it started: a view first parsed by a writer during
    the walk is never written, its lump stays empty and it stays in the cache. *)
Definition g_wdep : graph := [ mkV [0] [] [1] [0]; mkV [1] [] [] [1] ].
Example snapshot_save_refuted :
  let sh := mkShape false false true in
  let r := ex_save g_wdep sh (ex_run g_wdep sh [0] ex_s0) in
  order_consistent g_wdep = true /\ shape_ok sh = false /\ raw ex_s0 1 = 2 /\
  fst r = true /\ raw (snd r) 1 = 0 /\ cache (snd r) 1 = Some [2] /\
  raw (snd (ex_save g_wdep std_shape (ex_run g_wdep std_shape [0] ex_s0))) 1 = 2.
Proof. vm_compute. repeat split; reflexivity. Qed.

(** BSP.save without the except clause (round 5: the pinned tree before the fix): the writer of view 0 looks at view 1, whose
    lumps are malformed ([ex_bad]); the reader of view 0 does not.  Looking at view 0 succeeds (lump 0 is cleared, the value
    cached); save pops view 0, its writer raises, the popped value is gone; the caller carries on and saves again: that save
    completes and lump 0 is written empty.  With the except clause the view is cached again, the second save raises like
    the first and the object still denotes the file's content. *)
Definition g_wabort : graph := [ mkV [0] [] [1] [0]; mkV [2; 3] [] [] [2; 3] ].
Notation ex_save_a g sh b := (save_a nat (list nat) 0 ex_rd ex_wr g sh b).
Example aborted_save_drops_view_refuted :
  let s := ex_run g_wabort std_shape [0] ex_bad in
  let r := ex_save_a g_wabort std_shape false s in let r2 := ex_save_a g_wabort std_shape false (snd r) in
  let q := ex_save_a g_wabort std_shape true s in let q2 := ex_save_a g_wabort std_shape true (snd q) in
  order_consistent g_wabort = true /\ raw ex_bad 0 = 1 /\ cache s 0 = Some [1] /\
  fst r = false /\ cache (snd r) 0 = None /\ raw (snd r) 0 = 0 /\ fst r2 = true /\ raw (snd r2) 0 = 0 /\
  fst q = false /\ cache (snd q) 0 = Some [1] /\ fst q2 = false /\ cache (snd q2) 0 = Some [1].
Proof. vm_compute. repeat split; reflexivity. Qed.
