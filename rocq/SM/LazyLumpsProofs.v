(** Proofs about SM/LazyLumps.v: looking at views and saving is lossless for every access sequence,
    provided the dependency graph is order-consistent. *)
From Coq Require Import List Arith Bool Lia.
From SV Require Import SM.LazyLumps.
Import ListNotations.

Lemma mem_In : forall x l, mem x l = true <-> In x l.
Proof.
  intros x l. unfold mem. rewrite existsb_exists. split.
  - intros [y [Hy He]]. apply Nat.eqb_eq in He. subst. exact Hy.
  - intros H. exists x. split; [exact H | apply Nat.eqb_refl].
Qed.

Lemma mem_false : forall x l, mem x l = false <-> ~ In x l.
Proof.
  intros x l. split.
  - intros H Hin. apply mem_In in Hin. congruence.
  - intros H. destruct (mem x l) eqn:E; [apply mem_In in E; contradiction | reflexivity].
Qed.

Lemma nodupb_NoDup : forall l, nodupb l = true -> NoDup l.
Proof.
  induction l as [|x r IH]; cbn [nodupb]; intros H; constructor.
  - apply andb_prop in H. destruct H as [H _]. apply negb_true_iff in H. now apply mem_false in H.
  - apply andb_prop in H. destruct H as [_ H]. auto.
Qed.

Lemma map_eq_pointwise : forall {A B} (f h : A -> B) l, map f l = map h l -> forall x, In x l -> f x = h x.
Proof.
  induction l as [|a r IH]; cbn [map]; intros H x Hin; [destruct Hin|].
  injection H as H1 H2. destruct Hin as [->|Hin]; auto.
Qed.

Section Proofs.
  Variables D P : Type.
  Variable empty : D.
  Variable rd : nat -> list D -> P.
  Variable wr : nat -> P -> list D.
  Variable g : graph.

  Notation nviews := (nviews g).
  Notation decl := (decl g).
  Notation own := (own g).
  Notation state := (state D P).
  Notation own_data := (own_data D P g).
  Notation getf := (getf D P empty rd g).
  Notation get := (get D P empty rd g).
  Notation run := (run D P empty rd g).
  Notation save_step := (save_step D P empty rd wr g).
  Notation save := (save D P empty rd wr g).
  Notation denote := (denote D P rd g).
  Notation fresh := (fresh D P).
  Notation owned := (owned g).
  Notation clear_lumps := (clear_lumps D P empty).
  Notation set_cache := (set_cache D P).

  (** Saving when nothing is cached changes nothing (no condition on the graph needed). *)
  Lemma save_steps_fresh : forall l (s : state), fresh s -> fold_left save_step l s = s.
  Proof.
    induction l as [|v r IH]; intros s Hf; cbn [fold_left]; [reflexivity|].
    unfold save_step at 2. rewrite (Hf v). apply IH, Hf.
  Qed.

  Lemma save_fresh_id : forall s : state, fresh s -> save s = s.
  Proof. intros s Hf. unfold save, LazyLumps.save. now apply save_steps_fresh. Qed.

  Lemma own_overflow : forall v, nviews <= v -> own v = [].
  Proof. intros v H. unfold LazyLumps.own, LazyLumps.decl. rewrite nth_overflow; [reflexivity | exact H]. Qed.

  Section Consistent.
    Hypothesis OC : order_consistent g = true.

    Lemma oc_at : forall i, i < nviews ->
      deps_later g i = true /\ owns_stored g i = true /\ own_nodup g i = true /\ own_disjoint g i = true.
    Proof.
      intros i Hi. pose proof OC as H. unfold order_consistent in H. rewrite forallb_forall in H.
      specialize (H i). rewrite in_seq in H. specialize (H ltac:(lia)).
      apply andb_prop in H. destruct H as [H H4]. apply andb_prop in H. destruct H as [H H3].
      apply andb_prop in H. destruct H as [H1 H2]. repeat split; assumption.
    Qed.

    Lemma deps_gt : forall i d, i < nviews -> In d (v_rdeps (decl i) ++ v_wdeps (decl i)) -> i < d /\ d < nviews.
    Proof.
      intros i d Hi Hd. destruct (oc_at i Hi) as [H _]. unfold deps_later in H.
      rewrite forallb_forall in H. specialize (H d Hd). apply andb_prop in H. destruct H as [H1 H2].
      apply Nat.ltb_lt in H1. apply Nat.ltb_lt in H2. auto.
    Qed.

    Lemma own_disj : forall i j l, i < nviews -> j < nviews -> i <> j -> In l (own i) -> ~ In l (own j).
    Proof.
      intros i j l Hi Hj Hne Hl. destruct (oc_at i Hi) as (_ & _ & _ & H). unfold own_disjoint in H.
      rewrite forallb_forall in H. specialize (H j). rewrite in_seq in H. specialize (H ltac:(lia)).
      apply orb_prop in H. destruct H as [H|H]; [apply Nat.eqb_eq in H; contradiction|].
      unfold disjointb in H. rewrite forallb_forall in H. specialize (H l Hl).
      apply negb_true_iff in H. now apply mem_false in H.
    Qed.

    Lemma own_data_clear_other : forall (s : state) v w, v < nviews -> w <> v ->
      own_data (clear_lumps (own v) s) w = own_data s w.
    Proof.
      intros s v w Hv Hne. unfold LazyLumps.own_data. apply map_ext_in. intros l Hl. cbn [raw clear_lumps LazyLumps.clear_lumps].
      destruct (mem l (own v)) eqn:E; [|reflexivity]. exfalso. apply mem_In in E.
      destruct (Nat.lt_ge_cases w nviews) as [Hw|Hw].
      - exact (own_disj v w l Hv Hw (fun e => Hne (eq_sym e)) E Hl).
      - rewrite (own_overflow w Hw) in Hl. destruct Hl.
    Qed.

    Section Run.
      Variable s0 : state.
      Variable R : nat -> Prop.     (* any set of views closed under the dependencies *)
      Hypothesis Rclosed : forall v d, v < nviews -> R v -> In d (v_rdeps (decl v) ++ v_wdeps (decl v)) -> R d.

      Definition pv (v : nat) : P := rd v (own_data s0 v).

      (** Views below [lo] have been saved, views from [hi] on are either untouched or cached. *)
      Definition Inv (lo hi : nat) (s : state) : Prop :=
        (forall v, nviews <= v -> cache s v = None) /\
        (forall v, v < lo -> cache s v = None /\
            (own_data s v = own_data s0 v \/ (R v /\ own_data s v = wr v (pv v)))) /\
        (forall v, hi <= v -> v < nviews ->
            (cache s v = None /\ own_data s v = own_data s0 v) \/ (R v /\ cache s v = Some (pv v))) /\
        (forall l, ~ owned l -> raw s l = raw s0 l).

      Definition get_post (lo hi v : nat) (s s' : state) : Prop :=
        Inv lo hi s' /\ (v < nviews -> cache s' v = Some (pv v)) /\
        (forall w, w < v -> cache s' w = cache s w /\ own_data s' w = own_data s w).

      Lemma fold_get_spec : forall f lo hi v,
        (forall d s, Inv lo hi s -> hi <= d -> R d -> nviews <= f + d -> get_post lo hi d s (getf f d s)) ->
        hi <= v ->
        forall ds s, (forall d, In d ds -> v < d /\ R d /\ nviews <= f + d) -> Inv lo hi s ->
        let s1 := fold_left (fun s d => getf f d s) ds s in
        Inv lo hi s1 /\ (forall w, w <= v -> cache s1 w = cache s w /\ own_data s1 w = own_data s w).
      Proof.
        intros f lo hi v IH Hhi ds. induction ds as [|d r IHr]; intros s Hds HI; cbn [fold_left].
        - split; [exact HI | intros; split; reflexivity].
        - destruct (Hds d (or_introl eq_refl)) as (Hvd & HRd & Hfuel).
          destruct (IH d s HI ltac:(lia) HRd Hfuel) as (HI1 & _ & Hfr1).
          destruct (IHr (getf f d s) (fun d' Hd' => Hds d' (or_intror Hd')) HI1) as (HI2 & Hfr2).
          split; [exact HI2|]. intros w Hw. destruct (Hfr2 w Hw) as [A B]. destruct (Hfr1 w ltac:(lia)) as [A' B'].
          split; congruence.
      Qed.

      Lemma get_spec : forall f lo hi v s, lo <= hi -> Inv lo hi s -> hi <= v -> R v -> nviews <= f + v ->
        get_post lo hi v s (getf f v s).
      Proof.
        induction f as [|f IH]; intros lo hi v s Hlh HI Hhi HR Hfuel.
        - cbn [getf LazyLumps.getf]. split; [exact HI|]. split; [intros; lia | intros; split; reflexivity].
        - cbn [getf LazyLumps.getf]. destruct (v <? nviews) eqn:Ev.
          2:{ apply Nat.ltb_ge in Ev. split; [exact HI|]. split; [intros; lia | intros; split; reflexivity]. }
          apply Nat.ltb_lt in Ev.
          pose proof HI as HIc. destruct HI as (Ha & Hb & Hc & Hd).
          destruct (cache s v) as [p|] eqn:Ec.
          + (* already cached *)
            split; [exact HIc|]. split; [|intros; split; reflexivity].
            intros _. destruct (Hc v Hhi Ev) as [[Hn _]|[_ Hs]]; congruence.
          + (* parse *)
            assert (Hown0 : own_data s v = own_data s0 v).
            { destruct (Hc v Hhi Ev) as [[_ Ho]|[_ Hs]]; [exact Ho | congruence]. }
            pose proof (fold_get_spec f lo hi v (fun d s' HI' Hd' HR' Hf' => IH lo hi d s' Hlh HI' Hd' HR' Hf') Hhi
                          (v_rdeps (decl v)) s) as Hfold.
            assert (Hds : forall d, In d (v_rdeps (decl v)) -> v < d /\ R d /\ nviews <= f + d).
            { intros d Hd'. assert (Hin : In d (v_rdeps (decl v) ++ v_wdeps (decl v))) by (apply in_or_app; auto).
              destruct (deps_gt v d Ev Hin). split; [lia|]. split; [exact (Rclosed v d Ev HR Hin) | lia]. }
            specialize (Hfold Hds HIc). cbv zeta in Hfold.
            set (s1 := fold_left (fun s d => getf f d s) (v_rdeps (decl v)) s) in *.
            destruct Hfold as ((Ha1 & Hb1 & Hc1 & Hd1) & Hfr).
            destruct (Hfr v (le_n v)) as [Hcv Hov].
            assert (Hp : rd v (own_data s1 v) = pv v) by (unfold pv; congruence).
            rewrite Hp.
            split; [|split].
            * (* invariant *)
              split; [|split; [|split]].
              -- intros v' Hv'. cbn [cache clear_lumps LazyLumps.clear_lumps set_cache LazyLumps.set_cache]. unfold upd.
                 destruct (Nat.eqb v' v) eqn:E; [apply Nat.eqb_eq in E; lia | auto].
              -- intros v' Hv'. destruct (Hb1 v' Hv') as [A B]. assert (Hne : v' <> v) by lia. split.
                 ++ cbn [cache clear_lumps LazyLumps.clear_lumps set_cache LazyLumps.set_cache]. unfold upd.
                    destruct (Nat.eqb v' v) eqn:E; [apply Nat.eqb_eq in E; lia | exact A].
                 ++ rewrite (own_data_clear_other _ v v' Ev Hne). exact B.
              -- intros v' Hv' Hv'n. destruct (Nat.eq_dec v' v) as [->|Hne].
                 ++ right. split; [exact HR|].
                    cbn [cache clear_lumps LazyLumps.clear_lumps set_cache LazyLumps.set_cache]. unfold upd. now rewrite Nat.eqb_refl.
                 ++ rewrite (own_data_clear_other _ v v' Ev Hne).
                    cbn [cache clear_lumps LazyLumps.clear_lumps set_cache LazyLumps.set_cache]. unfold upd.
                    apply Nat.eqb_neq in Hne. rewrite Hne. exact (Hc1 v' Hv' Hv'n).
              -- intros l Hl. cbn [raw clear_lumps LazyLumps.clear_lumps set_cache LazyLumps.set_cache].
                 destruct (mem l (own v)) eqn:E.
                 ++ exfalso. apply Hl. exists v. split; [exact Ev | now apply mem_In].
                 ++ apply Hd1, Hl.
            * intros _. cbn [cache clear_lumps LazyLumps.clear_lumps set_cache LazyLumps.set_cache]. unfold upd. now rewrite Nat.eqb_refl.
            * intros w Hw. destruct (Hfr w ltac:(lia)) as [A B]. split.
              -- cbn [cache clear_lumps LazyLumps.clear_lumps set_cache LazyLumps.set_cache]. unfold upd.
                 destruct (Nat.eqb w v) eqn:E; [apply Nat.eqb_eq in E; lia | exact A].
              -- rewrite (own_data_clear_other _ v w Ev ltac:(lia)). exact B.
      Qed.

      Lemma inv_fresh : fresh s0 -> Inv 0 0 s0.
      Proof. intros Hf. split; [|split; [|split]]; intros; auto; lia. Qed.

      Lemma run_inv : forall accs s, (forall v, In v accs -> R v) -> Inv 0 0 s -> Inv 0 0 (run accs s).
      Proof.
        induction accs as [|v r IH]; intros s HR HI; cbn [run LazyLumps.run fold_left]; [exact HI|].
        apply IH; [intros; apply HR; now right|].
        destruct (get_spec nviews 0 0 v s (le_n 0) HI ltac:(lia) (HR v (or_introl eq_refl)) ltac:(lia)) as [H _]. exact H.
      Qed.

      (** The fuel of [get] is never exhausted: after looking at a view it is in the cache. *)
      Lemma get_cached : forall v s, Inv 0 0 s -> R v -> v < nviews -> cache (get v s) v = Some (pv v).
      Proof.
        intros v s HI HR Hv.
        destruct (get_spec nviews 0 0 v s (le_n 0) HI ltac:(lia) HR ltac:(lia)) as (_ & H & _). auto.
      Qed.

      Lemma inv_denote : forall s v, Inv 0 0 s -> v < nviews -> denote s v = pv v.
      Proof.
        intros s v (_ & _ & Hc & _) Hv. unfold LazyLumps.denote.
        destruct (Hc v ltac:(lia) Hv) as [[Hn Ho]|[_ Hs]].
        - rewrite Hn. unfold pv. now rewrite Ho.
        - now rewrite Hs.
      Qed.

      Hypothesis wr_len : forall v, v < nviews -> length (wr v (pv v)) = length (own v).

      Lemma store_sel_other : forall ws ls ds r l, ~ In l ls -> store_sel D ws ls ds r l = r l.
      Proof.
        induction ls as [|a ls IH]; intros ds r l Hl; destruct ds as [|d ds]; cbn [store_sel]; try reflexivity.
        rewrite IH by (intros H; apply Hl; now right).
        destruct (mem a ws); [|reflexivity]. unfold upd.
        destruct (Nat.eqb l a) eqn:E; [apply Nat.eqb_eq in E; subst; exfalso; apply Hl; now left | reflexivity].
      Qed.

      Lemma store_sel_own : forall ws ls ds r, NoDup ls -> length ds = length ls ->
        (forall l, In l ls -> mem l ws = true) -> map (store_sel D ws ls ds r) ls = ds.
      Proof.
        induction ls as [|a ls IH]; intros ds r Hnd Hlen Hws; destruct ds as [|d ds]; cbn [length] in Hlen; try discriminate; [reflexivity|].
        cbn [store_sel map]. inversion Hnd as [|? ? Hna Hnd']; subst.
        rewrite (Hws a (or_introl eq_refl)). f_equal.
        - rewrite store_sel_other by exact Hna. unfold upd. now rewrite Nat.eqb_refl.
        - apply IH; [exact Hnd' | lia | intros; apply Hws; now right].
      Qed.

      Lemma save_step_inv : forall k s, k < nviews -> Inv k k s -> Inv (S k) (S k) (save_step s k).
      Proof.
        intros k s Hk (Ha & Hb & Hc & Hd). unfold save_step, LazyLumps.save_step.
        destruct (cache s k) as [p|] eqn:Ec.
        2:{ (* not looked at *)
          split; [exact Ha|]. split; [|split; [|exact Hd]].
          - intros v Hv. destruct (Nat.eq_dec v k) as [->|Hne]; [|apply Hb; lia].
            split; [exact Ec|]. left. destruct (Hc k (le_n k) Hk) as [[_ Ho]|[_ Hs]]; [exact Ho | congruence].
          - intros v Hv Hvn. apply Hc; lia. }
        assert (HRk : R k /\ p = pv k).
        { destruct (Hc k (le_n k) Hk) as [[Hn _]|[HR Hs]]; [congruence|]. split; [exact HR | congruence]. }
        destruct HRk as [HRk ->].
        set (s1 := set_cache k None s).
        assert (HI1 : Inv k (S k) s1).
        { split; [|split; [|split; [|exact Hd]]].
          - intros v Hv. unfold s1, LazyLumps.set_cache, upd. cbn [cache].
            destruct (Nat.eqb v k) eqn:E; [reflexivity | auto].
          - intros v Hv. destruct (Hb v Hv) as [A B]. split; [|exact B].
            unfold s1, LazyLumps.set_cache, upd. cbn [cache]. destruct (Nat.eqb v k); [reflexivity | exact A].
          - intros v Hv Hvn. unfold s1, LazyLumps.set_cache, upd. cbn [cache].
            destruct (Nat.eqb v k) eqn:E; [apply Nat.eqb_eq in E; lia|]. apply (Hc v ltac:(lia) Hvn). }
        assert (Hfold' : forall ds s, (forall d, In d ds -> k < d /\ R d) -> Inv k (S k) s ->
                  let s2 := fold_left (fun s d => get d s) ds s in
                  Inv k (S k) s2 /\ (forall w, w <= k -> cache s2 w = cache s w /\ own_data s2 w = own_data s w)).
        { intros ds. induction ds as [|d r IHr]; intros s' Hds HI'; cbn [fold_left].
          - split; [exact HI' | intros; split; reflexivity].
          - destruct (Hds d (or_introl eq_refl)) as (Hvd & HRd).
            destruct (get_spec nviews k (S k) d s' (le_S _ _ (le_n k)) HI' ltac:(lia) HRd ltac:(lia)) as (HIa & _ & Hfra).
            destruct (IHr (get d s') (fun d' Hd' => Hds d' (or_intror Hd')) HIa) as (HIb & Hfrb).
            split; [exact HIb|]. intros w Hw. destruct (Hfrb w Hw) as [A B]. destruct (Hfra w ltac:(lia)) as [A' B'].
            unfold LazyLumps.get in *. split; congruence. }
        assert (Hwd : forall d, In d (v_wdeps (decl k)) -> k < d /\ R d).
        { intros d Hd'. assert (Hin : In d (v_rdeps (decl k) ++ v_wdeps (decl k))) by (apply in_or_app; auto).
          destruct (deps_gt k d Hk Hin). split; [lia | exact (Rclosed k d Hk HRk Hin)]. }
        destruct (Hfold' (v_wdeps (decl k)) s1 Hwd HI1) as ((Ha2 & Hb2 & Hc2 & Hd2) & Hfr2). cbv zeta in *.
        set (s2 := fold_left (fun s d => get d s) (v_wdeps (decl k)) s1) in *.
        assert (Hself : mem k (v_wdeps (decl k)) = false).
        { apply mem_false. intros Hin. destruct (Hwd k Hin). lia. }
        rewrite Hself.
        destruct (oc_at k Hk) as (_ & Hst & Hnd & _).
        apply nodupb_NoDup in Hnd. unfold owns_stored in Hst. rewrite forallb_forall in Hst.
        assert (Hother : forall w, w <> k -> own_data (mkS (store_sel D (v_wstore (decl k)) (own k) (wr k (pv k)) (raw s2)) (cache s2)) w = own_data s2 w).
        { intros w Hne. unfold LazyLumps.own_data. cbn [raw]. apply map_ext_in. intros l Hl. apply store_sel_other.
          intros Hlk. destruct (Nat.lt_ge_cases w nviews) as [Hw|Hw].
          - exact (own_disj k w l Hk Hw (fun e => Hne (eq_sym e)) Hlk Hl).
          - rewrite (own_overflow w Hw) in Hl. destruct Hl. }
        split; [exact Ha2|]. split; [|split].
        - intros v Hv. destruct (Nat.eq_dec v k) as [->|Hne].
          + split.
            * cbn [cache]. destruct (Hfr2 k (le_n k)) as [A _]. rewrite A. unfold s1, LazyLumps.set_cache, upd. cbn [cache]. now rewrite Nat.eqb_refl.
            * right. split; [exact HRk|]. unfold LazyLumps.own_data at 1. cbn [raw].
              apply store_sel_own; [exact Hnd | exact (wr_len k Hk) | exact Hst].
          + destruct (Hb2 v ltac:(lia)) as [A B]. split; [exact A|]. rewrite (Hother v Hne). exact B.
        - intros v Hv Hvn. rewrite (Hother v ltac:(lia)). cbn [cache]. apply Hc2; lia.
        - intros l Hl. cbn [raw]. rewrite store_sel_other; [apply Hd2, Hl|].
          intros Hin. apply Hl. exists k. split; assumption.
      Qed.

      Lemma save_steps_inv : forall m k s, k + m = nviews -> Inv k k s ->
        Inv nviews nviews (fold_left save_step (seq k m) s).
      Proof.
        induction m as [|m IH]; intros k s Hkm HI; cbn [seq fold_left].
        - replace nviews with k by lia. exact HI.
        - apply IH; [lia|]. apply save_step_inv; [lia | exact HI].
      Qed.

      Lemma save_inv : forall s, Inv 0 0 s -> Inv nviews nviews (save s).
      Proof. intros s HI. unfold LazyLumps.save. apply save_steps_inv; [lia | exact HI]. Qed.
    End Run.

    (** ------------------------------------------------------------------ exported statements *)

    Definition codec_ok (s0 : state) : Prop :=
      forall v, v < nviews -> rd v (wr v (rd v (own_data s0 v))) = rd v (own_data s0 v).
    Definition same_content (s s0 : state) : Prop :=
      (forall v, v < nviews -> rd v (own_data s v) = rd v (own_data s0 v)) /\
      (forall l, ~ owned l -> raw s l = raw s0 l).

    Lemma closed_all : forall v d, v < nviews -> True -> In d (v_rdeps (decl v) ++ v_wdeps (decl v)) -> True.
    Proof. auto. Qed.

    Lemma inv_run_all : forall s0 accs, fresh s0 -> Inv s0 (fun _ => True) 0 0 (run accs s0).
    Proof.
      intros s0 accs Hf. apply (run_inv s0 (fun _ => True) closed_all); [intros; exact I | now apply inv_fresh].
    Qed.

    Theorem get_total : forall s0 accs v, fresh s0 -> v < nviews ->
      exists p, cache (get v (run accs s0)) v = Some p.
    Proof.
      intros s0 accs v Hf Hv. exists (pv s0 v).
      apply (get_cached s0 (fun _ => True) closed_all); [now apply inv_run_all | exact I | exact Hv].
    Qed.

    Theorem view_look_preserves : forall s0 accs, fresh s0 ->
      let s := run accs s0 in
      (forall v, v < nviews -> denote s v = denote s0 v) /\ (forall l, ~ owned l -> raw s l = raw s0 l).
    Proof.
      intros s0 accs Hf s.
      assert (HI : Inv s0 (fun _ => True) 0 0 s) by now apply inv_run_all.
      split.
      - intros v Hv. rewrite (inv_denote s0 _ s v HI Hv). unfold LazyLumps.denote. now rewrite (Hf v).
      - destruct HI as (_ & _ & _ & Hd). exact Hd.
    Qed.

    (** The writer returns one datum per owned lump (on the values parsed from this file). *)
    Definition wr_len_ok (s0 : state) : Prop :=
      forall v, v < nviews -> length (wr v (rd v (own_data s0 v))) = length (own v).

    Theorem save_lossless : forall s0 accs, fresh s0 -> wr_len_ok s0 -> codec_ok s0 ->
      let s' := save (run accs s0) in fresh s' /\ same_content s' s0.
    Proof.
      intros s0 accs Hf Hlen Hcodec s'.
      assert (HI : Inv s0 (fun _ => True) nviews nviews s').
      { apply (save_inv s0 (fun _ => True) closed_all Hlen). now apply inv_run_all. }
      destruct HI as (Ha & Hb & _ & Hd). split; [|split].
      - intros v. destruct (Nat.lt_ge_cases v nviews) as [Hv|Hv]; [apply Hb, Hv | apply Ha, Hv].
      - intros v Hv. destruct (Hb v Hv) as [_ [Ho|[_ Ho]]]; rewrite Ho; [reflexivity|]. apply Hcodec, Hv.
      - exact Hd.
    Qed.

    (** Byte identity for every lump whose view is outside a dependency-closed set containing the accesses. *)
    Theorem save_untouched_exact : forall s0 accs (R : nat -> Prop), fresh s0 -> wr_len_ok s0 ->
      (forall v d, v < nviews -> R v -> In d (v_rdeps (decl v) ++ v_wdeps (decl v)) -> R d) ->
      (forall v, In v accs -> R v) ->
      let s' := save (run accs s0) in
      forall v l, v < nviews -> ~ R v -> In l (own v) -> raw s' l = raw s0 l.
    Proof.
      intros s0 accs R Hf Hlen Hcl Hacc s' v l Hv HnR Hl.
      assert (HI : Inv s0 R nviews nviews s').
      { apply (save_inv s0 R Hcl Hlen). apply (run_inv s0 R Hcl); [exact Hacc | now apply inv_fresh]. }
      destruct HI as (_ & Hb & _ & _). destruct (Hb v Hv) as [_ [Ho|[HR _]]]; [|contradiction].
      exact (map_eq_pointwise _ _ _ Ho l Hl).
    Qed.

    Definition run_cycles (cs : list (list nat)) (s : state) : state :=
      fold_left (fun s accs => save (run accs s)) cs s.

    (** Repeated read / look / save cycles. *)
    Theorem cycles_lossless : forall cs s0, fresh s0 -> wr_len_ok s0 -> codec_ok s0 ->
      let s' := run_cycles cs s0 in fresh s' /\ same_content s' s0.
    Proof.
      intros cs s0 Hf Hlen Hcodec. cbv zeta.
      assert (G : forall s, fresh s /\ same_content s s0 -> fresh (run_cycles cs s) /\ same_content (run_cycles cs s) s0).
      { induction cs as [|accs r IH]; intros s Hs; cbn [run_cycles fold_left]; [exact Hs|].
        apply IH. destruct Hs as (Hfs & Hp & Hu).
        assert (Hcs : codec_ok s).
        { intros v Hv. rewrite (Hp v Hv). apply Hcodec, Hv. }
        assert (Hls : wr_len_ok s).
        { intros v Hv. rewrite (Hp v Hv). apply Hlen, Hv. }
        destruct (save_lossless s accs Hfs Hls Hcs) as (Hf' & Hp' & Hu').
        split; [exact Hf'|]. split.
        - intros v Hv. rewrite (Hp' v Hv). apply Hp, Hv.
        - intros l Hl. rewrite (Hu' l Hl). apply Hu, Hl. }
      apply G. split; [exact Hf|]. split; auto.
    Qed.

    (** Saving again changes nothing: after a save nothing is cached, so the next save is the identity. *)
    Theorem save_idempotent : forall s0 accs, fresh s0 -> wr_len_ok s0 ->
      let s' := save (run accs s0) in save s' = s'.
    Proof.
      intros s0 accs Hf Hlen s'. apply save_fresh_id.
      assert (HI : Inv s0 (fun _ => True) nviews nviews s').
      { apply (save_inv s0 (fun _ => True) closed_all Hlen). now apply inv_run_all. }
      destruct HI as (Ha & Hb & _ & _).
      intros v. destruct (Nat.lt_ge_cases v nviews) as [Hv|Hv]; [apply Hb, Hv | apply Ha, Hv].
    Qed.
  End Consistent.
End Proofs.

(** ---------------------------------------------------------------------- small closed instances *)
(** Data are numbers (0 = b''), parsed values are the list of data; reader and writer are the identity. *)
Definition ex_rd (v : nat) (ds : list nat) : list nat := ds.
Definition ex_wr (v : nat) (p : list nat) : list nat := p.
Definition ex_s0 : state nat (list nat) := mkS (fun l => S l) (fun _ => None).
Notation ex_run g := (run nat (list nat) 0 ex_rd g).
Notation ex_save g := (save nat (list nat) 0 ex_rd ex_wr g).

(** The hypotheses of the theorems are satisfiable: a consistent graph with reader and writer dependencies. *)
Definition g_ok : graph :=
  [ mkV [0] [1; 2] [2] [0]; mkV [1; 5] [2] [] [1; 5]; mkV [2; 3] [] [] [2; 3; 9] ].
Example g_ok_consistent : order_consistent g_ok = true.
Proof. vm_compute. reflexivity. Qed.
Example ex_hyps : fresh nat (list nat) ex_s0 /\ wr_len_ok nat (list nat) ex_rd ex_wr g_ok ex_s0 /\ codec_ok nat (list nat) ex_rd ex_wr g_ok ex_s0.
Proof.
  split; [intros v; reflexivity|]. split; intros v Hv; unfold ex_wr, ex_rd, own_data; [apply map_length | reflexivity].
Qed.
Example g_ok_run : let s' := ex_save g_ok (ex_run g_ok [0] ex_s0) in
  map (raw s') [0; 1; 2; 3; 4; 5] = [1; 2; 3; 4; 5; 6] /\ map (cache s') [0; 1; 2] = [None; None; None].
Proof. vm_compute. split; reflexivity. Qed.

(** Known defect #16 as a graph: a writer that looks at its own view (after it was popped). Looking at the
    view and saving empties the lump and leaves a stale cache entry. *)
Definition g_self : graph := [ mkV [0] [] [0] [0] ].
Example self_dependent_writer_refuted :
  let s' := ex_save g_self (ex_run g_self [0] ex_s0) in
  order_consistent g_self = false /\ raw ex_s0 0 = 1 /\ raw s' 0 = 0 /\ cache s' 0 = Some [0].
Proof. vm_compute. repeat split; reflexivity. Qed.

(** A writer that looks at a view placed EARLIER in the rebuild order: that view is parsed after its turn,
    its lump stays cleared and the cache is not empty after save. *)
Definition g_order : graph := [ mkV [0] [] [] [0]; mkV [1] [] [0] [1] ].
Example rebuild_order_refuted :
  let s' := ex_save g_order (ex_run g_order [1] ex_s0) in
  order_consistent g_order = false /\ raw ex_s0 0 = 1 /\ raw s' 0 = 0 /\ cache s' 0 = Some [1].
Proof. vm_compute. repeat split; reflexivity. Qed.

(** A lump that is cleared by the view but not stored by its writer is lost. *)
Definition g_unstored : graph := [ mkV [0; 1] [] [] [0] ].
Example cleared_lump_not_rewritten_refuted :
  let s' := ex_save g_unstored (ex_run g_unstored [0] ex_s0) in
  order_consistent g_unstored = false /\ raw ex_s0 1 = 2 /\ raw s' 1 = 0.
Proof. vm_compute. repeat split; reflexivity. Qed.

(** Two views sharing a lump: the second parse sees the cleared lump. *)
Definition g_shared : graph := [ mkV [0; 7] [] [] [0; 7]; mkV [1; 7] [] [] [1; 7] ].
Example shared_lump_refuted :
  let s' := ex_save g_shared (ex_run g_shared [0; 1] ex_s0) in
  order_consistent g_shared = false /\ raw ex_s0 7 = 8 /\ raw s' 7 = 0.
Proof. vm_compute. repeat split; reflexivity. Qed.
