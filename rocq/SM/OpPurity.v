(** C09 round 2 — operator purity census for Vec / Angle / Matrix (srctools/math.py).
    [Gen/C09OpCensus_gen.v] lists, for every operator method as inherited by each concrete class, the ORIGINS of the
    objects it may write and of the objects it may return (translate/c09_ops.py: interprocedural summaries to a
    fixpoint, exec()-templates expanded, `type(self) is X` branches resolved per concrete class).
    The booleans below are the instance obligations; [trun] gives the origins their heap meaning.
    Proofs in OpPurityProofs.v. *)
From Coq Require Import List PArith ZArith Bool String.
From SV Require Import SM.Store.
Import ListNotations.

(** Where an object written / returned by a method comes from. *)
Inductive origin :=
| OFresh      (* built by the method itself (constructor call, type(self)(...), result of another pure operator) *)
| OScalar     (* a float / bool / str / tuple of floats *)
| ONotImpl    (* NotImplemented *)
| OSelf       (* the receiver *)
| OParam      (* one of the other operands *)
| OUnknown.   (* could not be classified: may alias an operand *)

Inductive opkind := OpPure (* documented as producing a new value *) | OpInplace (* __iadd__, __imatmul__, ... *).

Record oprow := mkop {
  op_name : string;           (* "Class.method" as seen from the concrete class *)
  op_kind : opkind;
  op_mutable : bool;          (* is the concrete class mutable (Vec, Angle, Matrix)? *)
  op_writes : list origin;    (* origins of every object the method may store into *)
  op_returns : list origin    (* origins of every value it may return *)
}.

Definition is_operand (o : origin) : bool :=
  match o with OSelf | OParam | OUnknown => true | _ => false end.

Definition row_writes_ok (r : oprow) : bool :=
  match op_kind r with
  | OpPure => forallb (fun o => negb (is_operand o)) (op_writes r)
  | OpInplace => forallb (fun o => match o with OSelf => true | _ => negb (is_operand o) end) (op_writes r)
  end.

Definition row_returns_ok (r : oprow) : bool :=
  match op_kind r with
  | OpPure => if op_mutable r then forallb (fun o => negb (is_operand o)) (op_returns r) else true
  | OpInplace => forallb (fun o => match o with OSelf | ONotImpl => true | _ => false end) (op_returns r)
  end.

(** Instance obligations. *)
Definition ops_store_nothing_to_operands (rows : list oprow) : bool :=
  forallb row_writes_ok (filter (fun r => match op_kind r with OpPure => true | _ => false end) rows).
Definition ops_return_fresh (rows : list oprow) : bool :=
  forallb row_returns_ok (filter (fun r => match op_kind r with OpPure => true | _ => false end) rows).
Definition inplace_ops_write_only_self (rows : list oprow) : bool :=
  forallb (fun r => row_writes_ok r && row_returns_ok r)
          (filter (fun r => match op_kind r with OpInplace => true | _ => false end) rows).

Definition offending_ops (rows : list oprow) : list string :=
  map op_name (filter (fun r => negb (row_writes_ok r && row_returns_ok r)) rows).

(** Heap meaning.  A method runs with receiver [slf] and parameters [ps]; [F] = the objects it has built itself.
    Each store is tagged with the origin of its target; the values stored are atoms (floats read from anywhere)
    or references to objects the method built. *)
Definition roots_of (slf : loc) (ps F : list loc) (o : origin) : list loc :=
  match o with
  | OFresh => F | OSelf => [slf] | OParam => ps | OUnknown => slf :: ps | OScalar | ONotImpl => []
  end.

Inductive tstep (slf : loc) (ps : list loc) : heap * list loc -> mutation * origin -> heap * list loc -> Prop :=
| ts_alloc h F l nd :
    h l = None -> (forall v, In v (nfields nd) -> val_held h F v) ->
    tstep slf ps (h, F) (MAlloc l nd, OFresh) (upd h l nd, l :: F)
| ts_store h F l vs nd o :
    reachR h (roots_of slf ps F o) l -> h l = Some nd -> nmut nd = true ->
    (forall v, In v vs -> val_held h F v) ->
    tstep slf ps (h, F) (MStore l vs, o) (upd h l (Node true vs), F).

Inductive trun (slf : loc) (ps : list loc) : heap * list loc -> list (mutation * origin) -> heap * list loc -> Prop :=
| tr_nil s : trun slf ps s [] s
| tr_cons s m s1 ms s2 : tstep slf ps s m s1 -> trun slf ps s1 ms s2 -> trun slf ps s (m :: ms) s2.

(** The operands a set of extra roots [X] accounts for. *)
Definition tag_within (slf : loc) (ps X : list loc) (o : origin) : Prop :=
  incl (roots_of slf ps [] o) X.
