(** Property C07 as one statement over the code as written (round 4).

    [programs] collects every object the translators read off vmf.py; [programs_ok] is the conjunction of all named
    obligations.  [fn_w P f] is the function [f] of the source as written (calls to other index-maintaining
    functions resolved to the model operation, which the callee's own theorem shows it to be), [fn_model f] the
    operation of the hand model SM/IndexModel.v.  [step_w] interprets the operations of a history with the programs.

    The census of translate/c07_index_sites.py — every function of the package that writes an index, an entity list,
    a VMF.spawn or an Entity._keys dict — enters as a list of names with the hypothesis [census_covered]: every name
    is one of the functions below.  Proofs at the end of this file. *)
From stdpp Require Import gmap sets list.
From Coq Require Import NArith String.
From SV Require Import SM.IndexModel SM.IndexProofs SM.IndexSearchProofs SM.IndexShapes SM.IndexShapeProofs
  SM.IndexUniqueProofs SM.IndexMaint SM.IndexMaintProofs SM.IndexRemove SM.IndexRemoveProofs SM.IndexDel SM.IndexDelProofs
  SM.IndexListOps SM.IndexListOpsProofs SM.IndexClear SM.IndexClearProofs SM.IndexGlue SM.IndexGlueProofs.

Record programs := PG {
  pg_setitem : setitem_shape; pg_setitem_maint : mprog;
  pg_del_maint : mprog; pg_del_loop : del_loop;
  pg_clear : list cstep;
  pg_add_ent : vprog; pg_remove_ent : vprog; pg_add_ents : aeprog;
  pg_remove_copyset : rc_shape;
  pg_search : search_shape;
  pg_vmf_init : list gstmt; pg_parse_spawn : list gstmt; pg_parse_entity : list gstmt; pg_create_ent : list gstmt;
  pg_einit : einit_shape; pg_entity_parse_through_init : bool; pg_copy : copy_shape;
  pg_pop : pop_shape; pg_make_unique : mu_shape;
  pg_mixins_inherited : bool; pg_getitem_never_raises : bool;
}.

Definition programs_ok (P : programs) : bool :=
  setitem_shape_ok (pg_setitem P) && maint_ok (pg_setitem_maint P)
  && del_maint_ok (pg_del_maint P) && del_loop_ok (pg_del_loop P)
  && clear_ok (pg_clear P)
  && add_ok (pg_add_ent P) && remove_ok (pg_remove_ent P) && ae_ok (pg_add_ents P)
  && rc_ok (pg_remove_copyset P)
  && search_shape_ok (pg_search P)
  && vmf_init_ok (pg_vmf_init P) && parse_spawn_ok (pg_parse_spawn P) && parse_ent_ok (pg_parse_entity P)
  && create_ent_ok (pg_create_ent P)
  && einit_ok (pg_einit P) && pg_entity_parse_through_init P && copy_ok (pg_copy P)
  && pop_ok (pg_pop P) && mu_ok (pg_make_unique P)
  && pg_mixins_inherited P && pg_getitem_never_raises P.

Definition programs_today : programs :=
  PG setitem_shape_today maint_today del_maint_today del_loop_today clear_today add_ent_today remove_ent_today
     add_ents_today rc_today search_shape_today vmf_init_today parse_spawn_today glue_ent_today create_ent_today
     einit_today true copy_today pop_today mu_today true true.

(** the functions of vmf.py that write an index, an entity list, VMF.spawn or a key dict (and pop / make_unique,
    which only call such functions) *)
Inductive fname := FSetItem | FDelItem | FClear | FEInit | FAddEnt | FRemoveEnt | FAddEnts | FCreateEnt | FVInit | FParse
                 | FPop | FMakeUnique.
Open Scope string_scope.
Definition fname_of (s : string) : option fname :=
  if String.eqb s "Entity.__setitem__" then Some FSetItem else
  if String.eqb s "Entity.__delitem__" then Some FDelItem else
  if String.eqb s "Entity.clear" then Some FClear else
  if String.eqb s "Entity.__init__" then Some FEInit else
  if String.eqb s "VMF.add_ent" then Some FAddEnt else
  if String.eqb s "VMF.remove_ent" then Some FRemoveEnt else
  if String.eqb s "VMF.add_ents" then Some FAddEnts else
  if String.eqb s "VMF.create_ent" then Some FCreateEnt else
  if String.eqb s "VMF.__init__" then Some FVInit else
  if String.eqb s "VMF.parse" then Some FParse else
  if String.eqb s "Entity.pop" then Some FPop else
  if String.eqb s "Entity.make_unique" then Some FMakeUnique else None.
Close Scope string_scope.
Close Scope string_scope.
Definition census_today : list string :=
  ["Entity.__delitem__"; "Entity.__init__"; "Entity.__setitem__"; "Entity.clear"; "VMF.__init__"; "VMF.add_ent";
   "VMF.add_ents"; "VMF.remove_ent"; "VMF.parse"; "VMF.create_ent"]%string.
Definition census_with_an_unmodelled_writer : list string := ("VMF.rename_all"%string) :: census_today.
Definition census_covered (names : list string) : bool := forallb (λ s, bool_decide (is_Some (fname_of s))) names.

(** arguments of a call (every function uses the fields it needs) *)
Record fargs := FA {
  fa_e : nat; fa_k : str; fa_v : str; fa_es : list nat; fa_oneshot : bool; fa_kvs : kvs; fa_ents : list kvs; fa_depth : nat;
}.

Section property.
  Variable fold : str → str.

  Definition set_item_w (P : programs) (d : nat) : nat → str → str → mstate → mstate * nat :=
    set_item_pg fold (pg_setitem P) (pg_setitem_maint P) (S (S d)).
  Definition del_item_w (P : programs) : nat → str → mstate → mstate * nat :=
    del_item_pg fold (pg_del_maint P) (pg_del_loop P).
  Definition init_w (P : programs) : mstate := g_run fold (pg_vmf_init P) env0 blank.

  Definition fn_w (P : programs) (f : fname) (a : fargs) (st : mstate) : mstate * nat :=
    match f with
    | FSetItem => set_item_w P (fa_depth a) (fa_e a) (fa_k a) (fa_v a) st
    | FDelItem => del_item_w P (fa_e a) (fa_k a) st
    | FClear => clear_pg fold (pg_clear P) (fa_e a) st
    | FEInit => (new_ent_sh fold (pg_einit P) (fa_kvs a) st, 0)
    | FAddEnt => (v_run fold (pg_add_ent P) (fa_e a) st, 0)
    | FRemoveEnt => (v_run fold (pg_remove_ent P) (fa_e a) st, 0)
    | FAddEnts => (ae_run fold (pg_add_ents P) (fa_es a) (fa_oneshot a) st, 0)
    | FCreateEnt => (g_run fold (pg_create_ent P) (GE (fa_kvs a) (fa_v a)) st, 0)
    | FVInit => (init_w P, 0)
    | FParse => (parse_pg fold (pg_vmf_init P) (pg_parse_spawn P) (pg_parse_entity P) (fa_kvs a) (fa_ents a), 0)
    | FPop => pop_item_sh fold (pg_pop P) (fa_e a) (fa_k a) st
    | FMakeUnique => make_unique_sh fold (pg_make_unique P) (fa_e a) (fa_v a) st
    end.
  Definition fn_model (f : fname) (a : fargs) (st : mstate) : mstate * nat :=
    match f with
    | FSetItem => set_item fold (fa_e a) (fa_k a) (fa_v a) st
    | FDelItem => del_item fold (fa_e a) (fa_k a) st
    | FClear => clear fold (fa_e a) st
    | FEInit => (new_ent fold (fa_kvs a) st, 0)
    | FAddEnt => (add_ent fold (fa_e a) st, 0)
    | FRemoveEnt => (remove_ent fold (fa_e a) st, 0)
    | FAddEnts => (add_ents fold (fa_es a) st, 0)
    | FCreateEnt => (create_ent fold (fa_v a) (fa_kvs a) st, 0)
    | FVInit => (init, 0)
    | FParse => (parse_init fold (fa_kvs a) (fa_ents a), 0)
    | FPop => pop_item fold (fa_e a) (fa_k a) st
    | FMakeUnique => make_unique fold (fa_e a) (fa_v a) st
    end.
  (** the modelled domain: add_ent of an entity object of this map that is not the worldspawn; create_ent's keyword
      arguments cannot contain 'classname' itself (Python rejects the call) *)
  Definition fn_dom (f : fname) (a : fargs) (st : mstate) : Prop :=
    match f with
    | FAddEnt => fa_e a ≠ spawn st ∧ fa_e a < nobj st
    | FCreateEnt => dget cn (fa_kvs a) = None
    | _ => True
    end.

  (** the operations of a history, as written *)
  Fixpoint del_items_w (P : programs) (e : nat) (ks : list str) (st : mstate) : mstate * nat :=
    match ks with
    | [] => (st, 0)
    | k :: r => let '(st', er) := del_item_w P e k st in match er with 0 => del_items_w P e r st' | _ => (st', er) end
    end.
  Fixpoint update_w (P : programs) (e : nat) (l : kvs) (st : mstate) : mstate * nat :=
    match l with
    | [] => (st, 0)
    | (k, v) :: r => let '(st', er) := set_item_w P 0 e k v st in match er with 0 => update_w P e r st' | _ => (st', er) end
    end.
  Definition step_w (P : programs) (o : op) (st : mstate) : mstate * nat :=
    match o with
    | NewEnt l => (new_ent_sh fold (pg_einit P) l st, 0)
    | CreateEnt c l => (g_run fold (pg_create_ent P) (GE l c) st, 0)
    | AddEnt e => (v_run fold (pg_add_ent P) e st, 0)
    | AddEnts es => (ae_run fold (pg_add_ents P) es true st, 0)
    | RemoveEnt e => (v_run fold (pg_remove_ent P) e st, 0)
    | SetItem e k v => set_item_w P 0 e k v st
    | DelItem e k => del_item_w P e k st
    | DelItems e ks => del_items_w P e ks st
    | Pop e k => pop_item_sh fold (pg_pop P) e k st
    | PopItem e => match keys_of st e with [] => (st, 1) | (k, _) :: _ => del_item_w P e k st end   (* MutableMapping.popitem *)
    | SetDefault e k v => (st, 0)                                                                   (* MutableMapping.setdefault *)
    | Update e l => update_w P e l st                                                               (* MutableMapping.update *)
    | Clear e => clear_pg fold (pg_clear P) e st
    | MakeUnique e p => make_unique_sh fold (pg_make_unique P) e p st
    | Export ver =>                                        (* VMF.export: two stores and one delete on the worldspawn *)
        let '(st1, _) := set_item_w P 0 (spawn st) mapver ver st in
        let '(st2, _) := set_item_w P 0 (spawn st) cn ws st1 in
        del_item_w P (spawn st) mapver st2
    | ProbeClass k => (upd_class (probe k) st, 0)
    | ProbeTarget k => (upd_target (probe k) st, 0)
    end.
  Definition op_dom (o : op) (st : mstate) : Prop :=
    match o with
    | AddEnt e => e ≠ spawn st ∧ e < nobj st
    | CreateEnt c l => dget cn l = None
    | _ => True
    end.
  Fixpoint run_w (P : programs) (ops : list op) (st : mstate) : mstate :=
    match ops with [] => st | o :: r => run_w P r (step_w P o st).1 end.
  Fixpoint ops_dom (ops : list op) (st : mstate) : Prop :=
    match ops with [] => True | o :: r => op_dom o st ∧ ops_dom r (step fold o st).1 end.

  (** ** Proofs *)
  Hypothesis fold_nil : fold [] = [].
  Hypothesis fold_cn : fold cn = cn.
  Hypothesis fold_tn : fold tn = tn.
  Hypothesis fold_ws : fold ws = ws.
  Hypothesis fold_idem : ∀ s, fold (fold s) = fold s.
  Hypothesis fold_app_dec : ∀ b i, fold (b ++ dec i) = fold b ++ dec i.
  Hypothesis fold_nodeid : fold nodeid ≠ cn ∧ fold nodeid ≠ tn.

  Section with_programs.
    Variable P : programs.
    Hypothesis HP : programs_ok P = true.

    Local Ltac ok_of H := revert H; unfold programs_ok; rewrite !andb_true_iff; intros H; decompose [and] H; clear H.

    Lemma set_item_w_ok d e k v st : set_item_w P d e k v st = set_item fold e k v st.
    Proof. pose proof HP as H. ok_of H. unfold set_item_w. by apply set_item_pg_ok. Qed.
    Lemma del_item_w_ok e k st : del_item_w P e k st = del_item fold e k st.
    Proof. pose proof HP as H. ok_of H. unfold del_item_w. by apply del_item_pg_ok. Qed.
    Lemma del_items_w_ok e ks st : del_items_w P e ks st = del_items fold e ks st.
    Proof.
      revert st. induction ks as [|k r IH]; intros st; [done|]. simpl. rewrite del_item_w_ok.
      destruct (del_item fold e k st) as [st' er]. destruct er; [apply IH|done].
    Qed.
    Lemma update_w_ok e l st : update_w P e l st = update fold e l st.
    Proof.
      revert st. induction l as [|[k v] r IH]; intros st; [done|]. simpl. rewrite set_item_w_ok.
      destruct (set_item fold e k v st) as [st' er]. destruct er; [apply IH|done].
    Qed.
    Lemma init_w_ok : init_w P = init.
    Proof. pose proof HP as H. ok_of H. unfold init_w. by apply vmf_init_pg_ok. Qed.

    Theorem fn_w_ok f a st : fn_dom f a st → fn_w P f a st = fn_model f a st.
    Proof.
      intros Hd. pose proof HP as H. ok_of H. destruct f; cbn [fn_w fn_model].
      - apply set_item_w_ok.
      - apply del_item_w_ok.
      - by apply clear_pg_ok.
      - by rewrite new_ent_sh_ok.
      - destruct Hd. by rewrite add_ent_pg_ok.
      - by rewrite remove_ent_pg_ok.
      - by rewrite ae_run_ok.
      - by rewrite create_ent_pg_ok.
      - by rewrite init_w_ok.
      - by rewrite parse_pg_ok.
      - by apply pop_item_sh_ok.
      - by apply make_unique_sh_ok.
    Qed.

    Theorem fn_model_inv f a st : Inv fold st → Inv fold (fn_model f a st).1.
    Proof.
      intros HI. destruct f; cbn [fn_model fst].
      - by apply set_item_inv.
      - by apply del_item_inv.
      - by apply clear_inv.
      - by apply new_ent_inv.
      - by apply add_ent_inv.
      - by apply remove_ent_inv.
      - by apply add_ents_inv.
      - by apply create_ent_inv.
      - by apply init_inv.
      - by apply parse_init_inv.
      - by apply pop_item_inv.
      - by apply make_unique_inv.
    Qed.

    Theorem step_w_ok o st : op_dom o st → step_w P o st = step fold o st.
    Proof.
      intros Hd. pose proof HP as H. ok_of H. destruct o; cbn [step_w step].
      - by rewrite new_ent_sh_ok.
      - by rewrite create_ent_pg_ok.
      - destruct Hd. by rewrite add_ent_pg_ok.
      - by rewrite ae_run_ok.
      - by rewrite remove_ent_pg_ok.
      - apply set_item_w_ok.
      - apply del_item_w_ok.
      - apply del_items_w_ok.
      - by apply pop_item_sh_ok.
      - unfold pop_first. destruct (keys_of st e) as [|[k v] r]; [done|]. apply del_item_w_ok.
      - done.
      - apply update_w_ok.
      - by apply clear_pg_ok.
      - by apply make_unique_sh_ok.
      - unfold export. rewrite set_item_w_ok. destruct (set_item fold (spawn st) mapver ver st) as [st1 e1].
        rewrite set_item_w_ok. destruct (set_item fold (spawn st) cn ws st1) as [st2 e2]. apply del_item_w_ok.
      - done.
      - done.
    Qed.

    Theorem run_w_ok ops st : ops_dom ops st → run_w P ops st = run fold ops st.
    Proof.
      revert st. induction ops as [|o r IH]; intros st; [done|]. intros [Hd Hr]. cbn [run_w].
      rewrite (step_w_ok _ _ Hd). unfold run. simpl. apply IH. exact Hr.
    Qed.

    Theorem property_functions (census : list string) : census_covered census = true →
      ∀ s, s ∈ census → ∃ f, fname_of s = Some f ∧
        ∀ a st, fn_dom f a st → fn_w P f a st = fn_model f a st ∧ (Inv fold st → Inv fold (fn_w P f a st).1).
    Proof.
      unfold census_covered. rewrite forallb_forall. intros Hc s Hs.
      apply elem_of_list_In in Hs. apply Hc in Hs. apply bool_decide_eq_true in Hs as [f Hf].
      exists f. split; [done|]. intros a st Hd. rewrite (fn_w_ok _ _ _ Hd). split; [done|]. apply fn_model_inv.
    Qed.

    Theorem property_histories ops : ops_dom ops (init_w P) →
      let st := run_w P ops (init_w P) in
      Inv fold st ∧
      (∀ k e, e ∈ ix_get (by_class st) k ↔ present st e ∧ cls_of fold st e = k) ∧
      (∀ k e, e ∈ ix_get (by_target st) k ↔ present st e ∧ tgt_of fold st e = k) ∧
      (∀ name e, e ∈ (search_sh fold (pg_search P) name st).1 ↔ search_spec fold name st e) ∧
      cls_of fold st (spawn st) = ws ∧ spawn st ∈ ix_get (by_class st) ws.
    Proof.
      intros Hd st. pose proof HP as H. ok_of H.
      assert (HI : Inv fold st).
      { unfold st. rewrite (run_w_ok _ _ Hd), init_w_ok. apply run_inv; try done. by apply init_inv. }
      split; [done|]. split; [intros; by apply inv_by_class|]. split; [intros; by apply inv_by_target|].
      split; [|by apply inv_worldspawn].
      intros name e. by apply search_sh_sound_complete.
    Qed.
  End with_programs.
End property.

Lemma programs_today_ok : programs_ok programs_today = true.
Proof. reflexivity. Qed.
