(** C09, round 4 — proofs about SM/StoreTypedLabels.v (kernel-derived census labels of exported nodes). *)
From Coq Require Import List String Bool PArith ZArith Arith FMapPositive.
From SV Require Import SM.Store SM.StoreCert SM.StoreCopy SM.StoreCopySrc SM.StoreCopyExport SM.StoreTypedLabels.
Import ListNotations.

Lemma str_list_eqb_eq : forall a b, str_list_eqb a b = true -> a = b.
Proof.
  induction a as [|x a IH]; destruct b as [|y b]; simpl; try discriminate; auto.
  intro H. apply andb_true_iff in H. destruct H as [H1 H2].
  apply String.eqb_eq in H1. subst. f_equal. auto.
Qed.

Lemma msig_eqb_mask : forall c c0 reads, msig_eqb (msig c) (msig c0) = true -> obs_mask c reads = obs_mask c0 reads.
Proof.
  induction c as [|row c IH]; destruct c0 as [|row0 c0]; simpl; try discriminate; auto.
  intros reads H.
  apply andb_true_iff in H. destruct H as [H H3]. apply andb_true_iff in H. destruct H as [H1 H2].
  apply String.eqb_eq in H1. apply Bool.eqb_prop in H2.
  unfold obs_mask in *. simpl. f_equal; [|apply IH; exact H3].
  unfold observed. rewrite H1, H2. reflexivity.
Qed.

Lemma tlookup_in : forall {A} k (l : list (string * A)) v, tlookup k l = Some v -> In (k, v) l.
Proof.
  intros A k l v H. unfold tlookup in H.
  destruct (find (fun q => String.eqb (fst q) k) l) as [[k' v']|] eqn:E; [|discriminate].
  simpl in H. injection H as ->. apply find_some in E. destruct E as [E1 E2].
  simpl in E2. apply String.eqb_eq in E2. subst. exact E1.
Qed.

(** Every label of a class gives the same export mask as the first label of that class. *)
Theorem labels_agree_same_mask : forall allc col lab cls c,
  labels_agree allc col = true -> tlookup lab col = Some cls -> tlookup lab allc = Some c ->
  exists l0 c0, label_of_type col cls = Some l0 /\ tlookup l0 allc = Some c0 /\
                forall reads, obs_mask c reads = obs_mask c0 reads.
Proof.
  intros allc col lab cls c HA HL HC.
  unfold labels_agree in HA. rewrite forallb_forall in HA.
  specialize (HA (lab, cls) (tlookup_in _ _ _ HL)). simpl in HA.
  destruct (label_of_type col cls) as [l0|]; [|discriminate].
  rewrite HC in HA.
  destruct (tlookup l0 allc) as [c0|] eqn:E0; [|discriminate].
  exists l0, c0. repeat split; auto. intro reads. apply msig_eqb_mask. exact HA.
Qed.

(** What an accepted list of typed nodes means: for every node the kernel found a label of that type name, the census of
    that label, and the attribute names the harness read are the census's field names in census order; the node has
    exactly that many fields. *)
Theorem typed_nodes_ok_spec : forall allc col l' tns,
  typed_nodes_ok allc col l' tns = true ->
  forall loc cls nms, In (loc, cls, nms) tns ->
  exists lab c nd, label_of_type col cls = Some lab /\ tlookup lab allc = Some c /\
                   PositiveMap.find loc (mk_heap l') = Some nd /\
                   nms = names c /\ List.length (nfields nd) = List.length c.
Proof.
  intros allc col l' tns H loc cls nms HI.
  unfold typed_nodes_ok in H. rewrite forallb_forall in H. specialize (H _ HI).
  unfold typed_node_ok in H. simpl in H.
  destruct (label_of_type col cls) as [lab|] eqn:E1; [|discriminate].
  destruct (tlookup lab allc) as [c|] eqn:E2; [|discriminate].
  destruct (PositiveMap.find loc (mk_heap l')) as [nd|] eqn:E3; [|discriminate].
  apply andb_true_iff in H. destruct H as [H1 H2].
  exists lab, c, nd.
  split; [reflexivity|]. split; [exact E2|]. split; [reflexivity|].
  split; [apply str_list_eqb_eq; exact H1 | apply Nat.eqb_eq; exact H2].
Qed.

(** The label found for a type name really is a label of that class. *)
Lemma label_of_type_class : forall col cls lab, label_of_type col cls = Some lab -> In (lab, cls) col.
Proof.
  induction col as [|[l c] r IH]; simpl; intros cls lab H; [discriminate|].
  destruct (String.eqb c cls) eqn:E.
  - injection H as <-. apply String.eqb_eq in E. subst. left. reflexivity.
  - right. apply IH. exact H.
Qed.

(** Not vacuous / sensitive: a two-label table. *)
Definition tl_census_a : census := [("id"%string, KId, HNewId); ("pos"%string, KMut, HDeep)].
Definition tl_census_b : census := [("id"%string, KId, HNewId); ("pos"%string, KMut, HShare)].
Definition tl_census_bad : census := [("pos"%string, KMut, HDeep); ("id"%string, KId, HNewId)].
Definition tl_all : list (string * census) := [("T_copy"%string, tl_census_a); ("T_deepcopy"%string, tl_census_b)].
Definition tl_col : list (string * string) := [("T_copy"%string, "T"%string); ("T_deepcopy"%string, "T"%string)].
Definition tl_heap : list (loc * node) := [(1%positive, Node true [VAtom 7%Z; VRef 2%positive]); (2%positive, Node true [VAtom 1%Z])].

Lemma typed_labels_example :
  labels_agree tl_all tl_col = true /\
  typed_nodes_ok tl_all tl_col tl_heap [(1%positive, "T"%string, ["id"%string; "pos"%string])] = true /\
  (* names in another order, an unknown type name, a node with another number of fields: all rejected *)
  typed_nodes_ok tl_all tl_col tl_heap [(1%positive, "T"%string, ["pos"%string; "id"%string])] = false /\
  typed_nodes_ok tl_all tl_col tl_heap [(1%positive, "U"%string, ["id"%string; "pos"%string])] = false /\
  typed_nodes_ok tl_all tl_col tl_heap [(2%positive, "T"%string, ["id"%string; "pos"%string])] = false /\
  (* two labels of one class that disagree on the field order are rejected *)
  labels_agree [("T_copy"%string, tl_census_a); ("T_deepcopy"%string, tl_census_bad)] tl_col = false.
Proof. vm_compute. repeat split; reflexivity. Qed.
