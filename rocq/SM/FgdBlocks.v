(** C16 — how serialise() of the binary FGD database groups the entities into blocks (_engine_db.build_blocks).

    Entities are numbers; [size] is ent_to_size.  The overlapping pairs are processed in the order given (the caller
    sorts them by overlap); a pair whose entities are both unplaced opens a new block, a pair with one placed entity adds
    the other one to that block when it fits, a pair with both placed merges the two blocks when the sum fits.  The
    overflow block that exists from the start stays empty during that loop (no entity is ever found in it), so it is
    modelled separately: [ovf] distributes the entities that no pair placed.

    [bcfg] is read off the source by translate/c16_fgd.py: the three comparison operators, and where empty blocks are
    dropped from all_blocks — before the leftovers are distributed (the defect repaired by bdb271a: the first overflow
    block is then no longer in the list when it is filled) and/or after.

    Blocks are kept in the order of all_blocks; the final `sort(key=len)` only permutes them. *)
From Coq Require Import List NArith Arith Bool.
Import ListNotations.
Open Scope N_scope.

Record bcfg := {
  merge_fits : N -> N -> bool;        (* `a.bytesize + b.bytesize <= MAX_BLOCK_SIZE`, as (sum, max) *)
  add_fits : N -> N -> bool;          (* `block.bytesize + size[ent] < MAX_BLOCK_SIZE` *)
  ovf_full : N -> N -> bool;          (* `overflow_block.bytesize >= MAX_BLOCK_SIZE` *)
  drop_empty_before_leftovers : bool; (* the empty overflow block is removed from all_blocks before it is filled *)
  drop_empty_after_leftovers : bool   (* `all_blocks = [b for b in all_blocks if b.ents]` after the leftovers *)
}.

Definition blocks := list (list N).
Definition memN (e : N) (l : list N) : bool := existsb (N.eqb e) l.

(** the block that holds [e]: the blocks before it, the block, the blocks after it (ent_to_block.get(e)) *)
Fixpoint split_at (e : N) (bl : blocks) : option (blocks * list N * blocks) :=
  match bl with
  | [] => None
  | l :: r => if memN e l then Some ([], l, r)
              else match split_at e r with Some (pre, b, post) => Some (l :: pre, b, post) | None => None end
  end.

Section Build.
Variable cfg : bcfg.
Variable size : N -> N.
Variable maxsz : N.
Definition bytes (l : list N) : N := fold_right (fun e a => size e + a) 0 l.

(** `small, large` by number of entities; all_blocks.remove(small); every entity of small added to large *)
Definition merged (a b : list N) : list N := if (length b <? length a)%nat then a ++ b else b ++ a.
Definition merge_keeps_first (a b : list N) : bool := (length b <? length a)%nat.

Definition step (bl : blocks) (p : N * N) : blocks :=
  let '(e1, e2) := p in
  match split_at e1 bl with
  | Some (pre, b1, post) =>
      if memN e2 b1 then bl
      else match split_at e2 pre, split_at e2 post with
           | Some (p0, b2, p1), _ =>           (* b2 comes before b1 *)
               if merge_fits cfg (bytes b1 + bytes b2) maxsz
               then (if merge_keeps_first b1 b2 then p0 ++ p1 ++ merged b1 b2 :: post else p0 ++ merged b1 b2 :: p1 ++ post)
               else bl
           | None, Some (p0, b2, p1) =>        (* b2 comes after b1 *)
               if merge_fits cfg (bytes b1 + bytes b2) maxsz
               then (if merge_keeps_first b1 b2 then pre ++ merged b1 b2 :: p0 ++ p1 else pre ++ p0 ++ merged b1 b2 :: p1)
               else bl
           | None, None => if add_fits cfg (bytes b1 + size e2) maxsz then pre ++ (b1 ++ [e2]) :: post else bl
           end
  | None =>
      match split_at e2 bl with
      | Some (pre, b2, post) => if add_fits cfg (bytes b2 + size e1) maxsz then pre ++ (b2 ++ [e1]) :: post else bl
      | None => bl ++ [[e1; e2]]
      end
  end.
Definition pair_loop (pairs : list (N * N)) : blocks := fold_left step pairs [].

(** `for ent in list(todo)`: [cur] is overflow_block, [listed] says whether it is (still) in all_blocks *)
Fixpoint ovf (listed : bool) (left : list N) (others : blocks) (cur : list N) : blocks :=
  match left with
  | [] => others ++ (if listed then [cur] else [])
  | e :: r =>
      let cur' := cur ++ [e] in
      if ovf_full cfg (bytes cur') maxsz
      then ovf true r (others ++ (if listed then [cur'] else [])) []
      else ovf listed r others cur'
  end.

Definition leftovers (all : list N) (bl : blocks) : list N := filter (fun e => negb (memN e (concat bl))) all.
Definition nonempty (l : list N) : bool := match l with [] => false | _ => true end.

(** build_blocks with the leftovers taken in the order [order] (the iteration order of a Python set) *)
Definition build_with (pairs : list (N * N)) (order : list N) : blocks :=
  let bl := pair_loop pairs in
  let out := ovf (negb (drop_empty_before_leftovers cfg)) order bl [] in
  if drop_empty_after_leftovers cfg then filter nonempty out else out.
Definition build (all : list N) (pairs : list (N * N)) : blocks := build_with pairs (leftovers all (pair_loop pairs)).
End Build.

Definition bcfg_ok (c : bcfg) : bool := negb (drop_empty_before_leftovers c).
Definition pairs_ok (all : list N) (pairs : list (N * N)) : bool :=
  forallb (fun p => negb (fst p =? snd p) && memN (fst p) all && memN (snd p) all) pairs.
Fixpoint nodupN (l : list N) : bool := match l with [] => true | x :: r => negb (memN x r) && nodupN r end.
