(** C19 — the directory backend (RawFileSystem): exact names, either slash, any spelling of the path. *)
From Coq Require Import List NArith Bool.
From SV Require Import SM.FsChain SM.FsChainProofs.
Import ListNotations.
Open Scope N_scope.

Lemma raw_ops_sem ops s : raw_ops_ok ops = true -> apply_ops ops s = slash s.
Proof.
  unfold raw_ops_ok. intros H. apply andb_true_iff in H as [H Hf]. apply andb_true_iff in H as [H Hs].
  rewrite (apply_sf ops H). unfold sem_sf. rewrite Hs. apply negb_true_iff in Hf. rewrite Hf. reflexivity.
Qed.

Lemma raw_lookup_ops_nil fs q : raw_lookup_ops [] fs q = raw_lookup fs q.
Proof. reflexivity. Qed.

(** A query that, with its slashes converted and redundant parts removed, is the exact stored name finds that file -
    and so do the folding backends (no two stored names differ only in case). *)
Theorem raw_lookup_slash_agree ops fs e q :
  raw_ops_ok ops = true -> clean_fs fs = true -> NoDup (map (fun e => nkey (fst e)) fs) -> In e fs ->
  normpath (slash q) = fst e ->
  raw_lookup_ops ops fs q = Some e /\ spec_lookup fs (normpath (slash q)) = Some e.
Proof.
  intros Ho Hc Hnd He Hq. destruct (raw_lookup_agree fs e Hc Hnd He) as [Hr Hs].
  split; [|rewrite Hq; exact Hs].
  unfold raw_lookup_ops. rewrite (raw_ops_sem ops q Ho), Hq.
  unfold raw_lookup in Hr. rewrite (clean_name_normpath _ (clean_fs_In _ _ Hc He)) in Hr. exact Hr.
Qed.

(** The directory backend agrees with every folding backend of today's form on such queries. *)
Theorem raw_agrees_with_folded b ops fs e q :
  backend_keys_norm b = true -> raw_ops_ok ops = true -> clean_fs fs = true ->
  NoDup (map (fun e => nkey (fst e)) fs) -> In e fs -> normpath (slash q) = fst e ->
  raw_lookup_ops ops fs q = Some e /\ lookup b fs q = Some e /\ exists_ b fs q = true /\ open_ b fs q = Some e.
Proof.
  intros Hb Ho Hc Hnd He Hq. destruct (raw_lookup_slash_agree ops fs e q Ho Hc Hnd He Hq) as [Hr Hs].
  destruct (lookup_agree_all b b fs q Hb Hb Hc) as [_ [_ [_ [Hol [Hl Hex]]]]].
  rewrite Hol, Hex, Hl, Hs. repeat split; assumption.
Qed.

Theorem raw_walk_exact ops fs folder e :
  In e (raw_walk ops fs folder) <-> In e fs /\ path_prefix (raw_folder ops folder) (fst e).
Proof.
  unfold raw_walk. rewrite filter_In. change (apply_op OAddSlash (raw_folder ops folder)) with (add_slash (raw_folder ops folder)).
  rewrite add_slash_prefix. reflexivity.
Qed.

Theorem raw_walk_root ops fs : raw_ops_ok ops = true -> raw_walk ops fs [] = fs.
Proof.
  intros Ho. unfold raw_walk, raw_folder. rewrite (raw_ops_sem ops [] Ho). apply filter_all. reflexivity.
Qed.

(** Every listed name looks up to that file. *)
Theorem raw_walk_lookup_closed ops ops' fs folder e :
  raw_ops_ok ops = true -> clean_fs fs = true -> NoDup (map (fun e => nkey (fst e)) fs) ->
  In e (raw_walk ops' fs folder) -> raw_lookup_ops ops fs (fst e) = Some e.
Proof.
  intros Ho Hc Hnd Hin. apply raw_walk_exact in Hin as [He _].
  pose proof (clean_fs_In _ _ Hc He) as Hcl.
  apply (raw_lookup_slash_agree ops fs e (fst e) Ho Hc Hnd He).
  rewrite (clean_name_slash _ Hcl). apply clean_name_normpath. exact Hcl.
Qed.

Example raw_examples :
  let fs := [([115; 47; 120], [1]); ([116], [2])] in      (* "s/x", "t" *)
  raw_ops_ok [OSlash] = true
  /\ raw_lookup_ops [OSlash] fs [115; 92; 120] = Some ([115; 47; 120], [1])                       (* "s\\x" *)
  /\ raw_lookup_ops [] fs [115; 92; 120] = None
  /\ raw_lookup_ops [OSlash] fs [46; 92; 115; 47; 47; 120] = Some ([115; 47; 120], [1])           (* ".\\s//x" *)
  /\ raw_walk [OSlash] fs [46; 47; 115; 92] = [([115; 47; 120], [1])]                             (* "./s\\" *)
  /\ raw_walk [OSlash] fs [46] = fs.
Proof. repeat split; reflexivity. Qed.
