(** C17 — EntityFixup.substitute (vmf.py) as a scanner over code-point strings.

    Python:
<<
      sections = list(map(re.escape, sorted(self._fixup.keys(), key=len, reverse=True)))
      sections.append('[a-z_][a-z0-9_]*')
      self._matcher = re.compile(rf'(!)?\$({"|".join(sections)})', re.IGNORECASE)
      def replacer(match):
          has_inv, varname = match.groups()
          try: res = fixup[varname.casefold()].value
          except KeyError:
              if default is None: raise KeyError(...)
              res = default
          if has_inv is not None:
              if allow_invert:
                  try: res = '0' if srctools.BOOL_LOOKUP[res.casefold()] else '1'
                  except KeyError: pass
              else: res = '!' + res
          return res
      return self._matcher.sub(replacer, text)
>>
    [re.sub] scans left to right; at each position the pattern is tried, a match is replaced and the scan continues
    after it (the replacement is not re-scanned); alternatives are tried in order, so the first defined name (in the
    sorted key list) that is a prefix of what follows the '$' wins, then the identifier fallback.
    What the regular expression looks like is read from the source into a [subst_cfg] (Gen/C17Formulas_gen.v):
    the theorems are about every configuration that passes [subst_cfg_ok].
    Case-insensitivity is modelled on ASCII letters only (re.IGNORECASE / str.casefold on other scripts is outside). *)
From Coq Require Import NArith List Bool Arith.
From SV Require Import SM.C17Name.
Import ListNotations.
Open Scope N_scope.

Definition DOLLAR : N := 36.

Record subst_cfg := {
  sc_longest_first : bool;    (* keys sorted by len, reverse=True *)
  sc_ident_fallback : bool;   (* the '[a-z_][a-z0-9_]*' alternative is appended *)
  sc_ignore_case : bool;      (* re.IGNORECASE *)
  sc_bang_group : bool;       (* the pattern starts with (!)? *)
  sc_bang_readd : bool;       (* res = '!' + res when a '!' was matched and allow_invert is off *)
  sc_lookup_folded : bool;    (* fixup[varname.casefold()] *)
  sc_bools : list (str * bool) (* srctools.BOOL_LOOKUP *)
}.

Definition lower (c : N) : N := if (65 <=? c) && (c <=? 90) then c + 32 else c.
Definition ceq (ci : bool) (x y : N) : bool := if ci then N.eqb (lower x) (lower y) else N.eqb x y.

(** A literal alternative [k] against the text [s]: (matched text, rest). *)
Fixpoint match_pre (ci : bool) (k s : str) : option (str * str) :=
  match k with
  | [] => Some ([], s)
  | x :: k' =>
      match s with
      | [] => None
      | y :: s' =>
          if ceq ci x y then
            match match_pre ci k' s' with Some (m, r) => Some (y :: m, r) | None => None end
          else None
      end
  end.

Definition is_lower_alpha (c : N) : bool := (97 <=? c) && (c <=? 122).
Definition ident_start (ci : bool) (c : N) : bool := is_lower_alpha (if ci then lower c else c) || (c =? 95).
Definition ident_char (ci : bool) (c : N) : bool := ident_start ci c || ((48 <=? c) && (c <=? 57)).

Fixpoint span (f : N -> bool) (s : str) : str * str :=
  match s with
  | [] => ([], [])
  | c :: r => if f c then let (a, b) := span f r in (c :: a, b) else ([], s)
  end.

(** The fallback alternative [a-z_][a-z0-9_]* (greedy). *)
Definition match_ident (ci : bool) (s : str) : option (str * str) :=
  match s with
  | c :: r => if ident_start ci c then let (a, b) := span (ident_char ci) r in Some (c :: a, b) else None
  | [] => None
  end.

(** sorted(keys, key=len, reverse=True): stable, longest first. *)
Fixpoint insert_key (k : str) (l : list str) : list str :=
  match l with
  | [] => [k]
  | x :: r => if (length x <=? length k)%nat then k :: l else x :: insert_key k r
  end.
Definition sort_keys (ks : list str) : list str := fold_right insert_key [] ks.

Fixpoint first_match (ci : bool) (ks : list str) (s : str) : option (str * str) :=
  match ks with
  | [] => None
  | k :: r => match match_pre ci k s with Some x => Some x | None => first_match ci r s end
  end.

Definition table := list (str * str).    (* casefolded variable name -> value, in dict order *)

Definition alternatives (cfg : subst_cfg) (tbl : table) : list str :=
  if sc_longest_first cfg then sort_keys (map fst tbl) else map fst tbl.

(** What follows a '$': the variable reference (matched text, rest), if any. *)
Definition name_at (cfg : subst_cfg) (tbl : table) (s : str) : option (str * str) :=
  match first_match (sc_ignore_case cfg) (alternatives cfg tbl) s with
  | Some x => Some x
  | None => if sc_ident_fallback cfg then match_ident (sc_ignore_case cfg) s else None
  end.

Fixpoint assoc {B} (k : str) (l : list (str * B)) : option B :=
  match l with
  | [] => None
  | (k', v) :: r => if str_eqb k k' then Some v else assoc k r
  end.

(** fixup[varname.casefold()].value, else the default; [None] = KeyError. *)
Definition value_of (cfg : subst_cfg) (tbl : table) (d : option str) (m : str) : option str :=
  match assoc (if sc_lookup_folded cfg then map lower m else m) tbl with
  | Some v => Some v
  | None => d
  end.

Definition invert (cfg : subst_cfg) (v : str) : str :=
  match assoc (map lower v) (sc_bools cfg) with
  | Some true => [48]
  | Some false => [49]
  | None => v
  end.

Definition apply_bang (cfg : subst_cfg) (inv : bool) (v : str) : str :=
  if inv then invert cfg v else if sc_bang_readd cfg then BANG :: v else v.

Inductive step_res := NoMatch | KeyErr | Repl (out rest : str).

Definition var_at (cfg : subst_cfg) (tbl : table) (d : option str) (f : str -> str) (s : str) : step_res :=
  match name_at cfg tbl s with
  | Some (m, rest) => match value_of cfg tbl d m with Some v => Repl (f v) rest | None => KeyErr end
  | None => NoMatch
  end.

(** The pattern tried at the head of [t]. *)
Definition step (cfg : subst_cfg) (inv : bool) (tbl : table) (d : option str) (t : str) : step_res :=
  match t with
  | [] => NoMatch
  | c :: r =>
      if c =? DOLLAR then var_at cfg tbl d (fun v => v) r
      else if sc_bang_group cfg && (c =? BANG) then
        match r with
        | c' :: r' => if c' =? DOLLAR then var_at cfg tbl d (apply_bang cfg inv) r' else NoMatch
        | [] => NoMatch
        end
      else NoMatch
  end.

(** re.sub: [fuel] bounds the number of positions visited (length of the text suffices). *)
Fixpoint scan (cfg : subst_cfg) (inv : bool) (tbl : table) (d : option str) (fuel : nat) (t : str) : option str :=
  match fuel with
  | O => Some t
  | S f =>
      match t with
      | [] => Some []
      | c :: r =>
          match step cfg inv tbl d t with
          | KeyErr => None
          | Repl out rest => option_map (app out) (scan cfg inv tbl d f rest)
          | NoMatch => option_map (cons c) (scan cfg inv tbl d f r)
          end
      end
  end.

(** EntityFixup.substitute(text, default, allow_invert=inv); [None] = KeyError. *)
Definition substitute (cfg : subst_cfg) (inv : bool) (tbl : table) (d : option str) (t : str) : option str :=
  scan cfg inv tbl d (length t) t.

(** Is every '$' of the text the start of a variable reference?  (Same walk as [scan].) *)
Fixpoint all_refs (cfg : subst_cfg) (inv : bool) (tbl : table) (d : option str) (fuel : nat) (t : str) : bool :=
  match fuel with
  | O => true
  | S f =>
      match t with
      | [] => true
      | c :: r =>
          match step cfg inv tbl d t with
          | KeyErr => true
          | Repl _ rest => all_refs cfg inv tbl d f rest
          | NoMatch => negb (c =? DOLLAR) && all_refs cfg inv tbl d f r
          end
      end
  end.
Definition closed_text (cfg : subst_cfg) (inv : bool) (tbl : table) (d : option str) (t : str) : bool :=
  all_refs cfg inv tbl d (length t) t.

Definition dollar_free (s : str) : bool := forallb (fun c => negb (c =? DOLLAR)) s.
Definition values_dollar_free (tbl : table) (d : option str) : bool :=
  forallb (fun kv => dollar_free (snd kv)) tbl && match d with Some s => dollar_free s | None => true end.

(** What the configuration read from the source has to say (one named boolean each, checked by vm_compute). *)
Definition bools_ref : list (str * bool) :=
  [([48], false); ([110;111], false); ([102;97;108;115;101], false); ([110], false); ([102], false);
   ([49], true); ([121;101;115], true); ([116;114;117;101], true); ([121], true); ([116], true)].
Fixpoint bools_eqb (a b : list (str * bool)) : bool :=
  match a, b with
  | [], [] => true
  | (s, x) :: a', (t, y) :: b' => str_eqb s t && Bool.eqb x y && bools_eqb a' b'
  | _, _ => false
  end.
Definition subst_bools_ok (cfg : subst_cfg) : bool := bools_eqb (sc_bools cfg) bools_ref.
Definition subst_cfg_ok (cfg : subst_cfg) : bool :=
  sc_longest_first cfg && sc_ident_fallback cfg && sc_ignore_case cfg && sc_bang_group cfg && sc_bang_readd cfg &&
  sc_lookup_folded cfg && subst_bools_ok cfg.

Definition ref_subst_cfg : subst_cfg :=
  {| sc_longest_first := true; sc_ident_fallback := true; sc_ignore_case := true; sc_bang_group := true;
     sc_bang_readd := true; sc_lookup_folded := true; sc_bools := bools_ref |}.
