(** C17 — proofs about the model of EntityFixup.substitute (SM/C17Subst.v). *)
From Coq Require Import NArith List Bool Arith Lia Sorted.
From SV Require Import SM.C17Name SM.C17Subst.
Import ListNotations.
Open Scope N_scope.

(** *** What a match consumes. *)
Lemma match_pre_split : forall ci k s m r, match_pre ci k s = Some (m, r) -> s = m ++ r /\ length m = length k.
Proof.
  induction k as [|x k IH]; intros s m r H; cbn [match_pre] in H.
  - injection H as <- <-. split; reflexivity.
  - destruct s as [|y s]; [discriminate|]. destruct (ceq ci x y); [|discriminate].
    destruct (match_pre ci k s) as [[m' r']|] eqn:E; [|discriminate]. injection H as <- <-.
    destruct (IH _ _ _ E) as [-> L]. split; cbn [app length]; [reflexivity | now rewrite L].
Qed.

Lemma span_split : forall f s a b, span f s = (a, b) -> s = a ++ b.
Proof.
  induction s as [|c s IH]; intros a b H; cbn [span] in H.
  - injection H as <- <-. reflexivity.
  - destruct (f c).
    + destruct (span f s) as [a' b'] eqn:E. injection H as <- <-. cbn [app]. f_equal. now apply IH.
    + injection H as <- <-. reflexivity.
Qed.

Lemma match_ident_split : forall ci s m r, match_ident ci s = Some (m, r) -> s = m ++ r.
Proof.
  intros ci [|c s] m r H; cbn [match_ident] in H; [discriminate|].
  destruct (ident_start ci c); [|discriminate]. destruct (span (ident_char ci) s) as [a b] eqn:E.
  injection H as <- <-. cbn [app]. f_equal. now apply (span_split _ _ _ _ E).
Qed.

Lemma first_match_split : forall ci ks s m r, first_match ci ks s = Some (m, r) -> s = m ++ r.
Proof.
  induction ks as [|k ks IH]; intros s m r H; cbn [first_match] in H; [discriminate|].
  destruct (match_pre ci k s) as [[m' r']|] eqn:E.
  - injection H as <- <-. now apply (match_pre_split _ _ _ _ _ E).
  - now apply IH.
Qed.

Lemma name_at_split : forall cfg tbl s m r, name_at cfg tbl s = Some (m, r) -> s = m ++ r.
Proof.
  unfold name_at. intros cfg tbl s m r H.
  destruct (first_match (sc_ignore_case cfg) (alternatives cfg tbl) s) as [[m' r']|] eqn:E.
  - injection H as <- <-. now apply (first_match_split _ _ _ _ _ E).
  - destruct (sc_ident_fallback cfg); [|discriminate]. now apply (match_ident_split _ _ _ _ H).
Qed.

Lemma var_at_len : forall cfg tbl d f s out rest, var_at cfg tbl d f s = Repl out rest -> (length rest <= length s)%nat.
Proof.
  unfold var_at. intros cfg tbl d f s out rest H.
  destruct (name_at cfg tbl s) as [[m r]|] eqn:E; [|discriminate].
  destruct (value_of cfg tbl d m); [|discriminate]. injection H as _ <-.
  rewrite (name_at_split _ _ _ _ _ E), app_length. lia.
Qed.

Lemma step_len : forall cfg inv tbl d t out rest, step cfg inv tbl d t = Repl out rest -> (length rest < length t)%nat.
Proof.
  intros cfg inv tbl d [|c r] out rest H; unfold step in H; [discriminate|].
  destruct (c =? DOLLAR).
  - apply var_at_len in H. cbn [length]. lia.
  - destruct (sc_bang_group cfg && (c =? BANG)); [|discriminate].
    destruct r as [|c' r']; [discriminate|]. destruct (c' =? DOLLAR); [|discriminate].
    apply var_at_len in H. cbn [length]. lia.
Qed.

(** *** The fuel is irrelevant once it covers the text. *)
Lemma scan_fuel2 : forall cfg inv tbl d f1 f2 t, (length t <= f1)%nat -> (length t <= f2)%nat ->
  scan cfg inv tbl d f1 t = scan cfg inv tbl d f2 t.
Proof.
  induction f1 as [|f1 IH]; intros f2 t H1 H2.
  - destruct t; [|cbn [length] in H1; lia]. destruct f2; reflexivity.
  - destruct t as [|c r]; [destruct f2; reflexivity|].
    destruct f2 as [|f2]; [cbn [length] in H2; lia|]. cbn [scan].
    destruct (step cfg inv tbl d (c :: r)) as [| |out rest] eqn:E; [|reflexivity|].
    + cbn [length] in H1, H2. rewrite (IH f2 r); [reflexivity|lia|lia].
    + apply step_len in E. cbn [length] in E, H1, H2. rewrite (IH f2 rest); [reflexivity|lia|lia].
Qed.

Lemma scan_fuel : forall cfg inv tbl d f t, (length t <= f)%nat ->
  scan cfg inv tbl d f t = substitute cfg inv tbl d t.
Proof. intros. unfold substitute. apply scan_fuel2; [assumption|apply Nat.le_refl]. Qed.

(** *** A text without '$' is returned unchanged (this is also the early-out of the Python code). *)
Lemma dollar_free_cons : forall c s, dollar_free (c :: s) = negb (c =? DOLLAR) && dollar_free s.
Proof. reflexivity. Qed.

Lemma step_no_dollar : forall cfg inv tbl d t, dollar_free t = true -> step cfg inv tbl d t = NoMatch.
Proof.
  intros cfg inv tbl d [|c r] H; [reflexivity|]. unfold step.
  rewrite dollar_free_cons in H. apply andb_true_iff in H as [H1 H2]. apply negb_true_iff in H1. rewrite H1.
  destruct (sc_bang_group cfg && (c =? BANG)); [|reflexivity].
  destruct r as [|c' r']; [reflexivity|]. rewrite dollar_free_cons in H2. apply andb_true_iff in H2 as [H2 _].
  apply negb_true_iff in H2. now rewrite H2.
Qed.

Lemma scan_no_dollar : forall cfg inv tbl d f t, dollar_free t = true -> scan cfg inv tbl d f t = Some t.
Proof.
  induction f as [|f IH]; intros t H; [reflexivity|]. destruct t as [|c r]; [reflexivity|]. cbn [scan].
  rewrite (step_no_dollar _ _ _ _ _ H). rewrite dollar_free_cons in H. apply andb_true_iff in H as [_ H].
  now rewrite (IH r H).
Qed.

Theorem substitute_no_dollar : forall cfg inv tbl d t, dollar_free t = true -> substitute cfg inv tbl d t = Some t.
Proof. intros. apply scan_no_dollar. assumption. Qed.

(** *** No '$' is left when every '$' is a variable reference and the values contain none. *)
Lemma dollar_free_app : forall a b, dollar_free (a ++ b) = dollar_free a && dollar_free b.
Proof. intros. apply forallb_app. Qed.

Lemma assoc_in : forall (k : str) (l : table) v, assoc k l = Some v -> exists k', In (k', v) l.
Proof.
  induction l as [|[k' v'] l IH]; intros v H; cbn [assoc] in H; [discriminate|].
  destruct (str_eqb k k').
  - injection H as <-. exists k'. now left.
  - destruct (IH _ H) as [k'' I]. exists k''. now right.
Qed.

Lemma value_of_dollar_free : forall cfg tbl d m v, values_dollar_free tbl d = true ->
  value_of cfg tbl d m = Some v -> dollar_free v = true.
Proof.
  unfold values_dollar_free, value_of. intros cfg tbl d m v H E. apply andb_true_iff in H as [H1 H2].
  destruct (assoc _ tbl) as [v'|] eqn:A.
  - injection E as <-. destruct (assoc_in _ _ _ A) as [k' I].
    rewrite forallb_forall in H1. exact (H1 _ I).
  - subst d. exact H2.
Qed.

Lemma invert_dollar_free : forall cfg v, dollar_free v = true -> dollar_free (invert cfg v) = true.
Proof. unfold invert. intros cfg v H. destruct (assoc _ (sc_bools cfg)) as [[|]|]; [reflexivity|reflexivity|assumption]. Qed.

Lemma apply_bang_dollar_free : forall cfg inv v, dollar_free v = true -> dollar_free (apply_bang cfg inv v) = true.
Proof.
  unfold apply_bang. intros cfg inv v H. destruct inv; [now apply invert_dollar_free|].
  destruct (sc_bang_readd cfg); [|assumption]. rewrite dollar_free_cons, H. reflexivity.
Qed.

Lemma var_at_dollar_free : forall cfg tbl d f s out rest, values_dollar_free tbl d = true ->
  (forall v, dollar_free v = true -> dollar_free (f v) = true) ->
  var_at cfg tbl d f s = Repl out rest -> dollar_free out = true.
Proof.
  unfold var_at. intros cfg tbl d f s out rest H Hf E.
  destruct (name_at cfg tbl s) as [[m r]|]; [|discriminate].
  destruct (value_of cfg tbl d m) as [v|] eqn:V; [|discriminate]. injection E as <- _.
  apply Hf. exact (value_of_dollar_free _ _ _ _ _ H V).
Qed.

Lemma step_dollar_free : forall cfg inv tbl d t out rest, values_dollar_free tbl d = true ->
  step cfg inv tbl d t = Repl out rest -> dollar_free out = true.
Proof.
  intros cfg inv tbl d [|c r] out rest H E; unfold step in E; [discriminate|].
  destruct (c =? DOLLAR).
  - apply (var_at_dollar_free _ _ _ _ _ _ _ H) in E; [assumption|auto].
  - destruct (sc_bang_group cfg && (c =? BANG)); [|discriminate].
    destruct r as [|c' r']; [discriminate|]. destruct (c' =? DOLLAR); [|discriminate].
    apply (var_at_dollar_free _ _ _ _ _ _ _ H) in E; [assumption|]. intros; now apply apply_bang_dollar_free.
Qed.

Lemma scan_dollar_free : forall cfg inv tbl d, values_dollar_free tbl d = true ->
  forall f t out, all_refs cfg inv tbl d f t = true -> (length t <= f)%nat ->
  scan cfg inv tbl d f t = Some out -> dollar_free out = true.
Proof.
  intros cfg inv tbl d HV. induction f as [|f IH]; intros t out HA HL HS.
  - destruct t; [|cbn [length] in HL; lia]. injection HS as <-. reflexivity.
  - destruct t as [|c r]; [injection HS as <-; reflexivity|]. cbn [scan all_refs] in HS, HA.
    destruct (step cfg inv tbl d (c :: r)) as [| |o rest] eqn:E; [|discriminate|].
    + apply andb_true_iff in HA as [HA1 HA2].
      destruct (scan cfg inv tbl d f r) as [o'|] eqn:S; [|discriminate]. injection HS as <-.
      rewrite dollar_free_cons, HA1. cbn [andb]. cbn [length] in HL. apply (IH r o' HA2); [lia|assumption].
    + destruct (scan cfg inv tbl d f rest) as [o'|] eqn:S; [|discriminate]. injection HS as <-.
      rewrite dollar_free_app, (step_dollar_free _ _ _ _ _ _ _ HV E). cbn [andb].
      apply step_len in E. cbn [length] in HL, E. apply (IH rest o' HA); [lia|assumption].
Qed.

Theorem substitute_leaves_no_dollar : forall cfg inv tbl d t out,
  values_dollar_free tbl d = true -> closed_text cfg inv tbl d t = true ->
  substitute cfg inv tbl d t = Some out -> dollar_free out = true.
Proof. intros cfg inv tbl d t out HV HC HS. exact (scan_dollar_free _ _ _ _ HV _ _ _ HC (Nat.le_refl _) HS). Qed.

Theorem substitute_idempotent_on_closed : forall cfg inv tbl d t out,
  values_dollar_free tbl d = true -> closed_text cfg inv tbl d t = true ->
  substitute cfg inv tbl d t = Some out -> substitute cfg inv tbl d out = Some out.
Proof. intros. apply substitute_no_dollar. eapply substitute_leaves_no_dollar; eassumption. Qed.

(** Without the closedness premise idempotence is false: "$$a" with a = "x" gives "$x", and then "". *)
Theorem substitute_idempotent_refuted :
  let tbl := [([97], [120])] in
  substitute ref_subst_cfg false tbl (Some []) [36; 36; 97] = Some [36; 120] /\
  substitute ref_subst_cfg false tbl (Some []) [36; 120] = Some [] /\
  values_dollar_free tbl (Some []) = true.
Proof. vm_compute. repeat split; reflexivity. Qed.

(** *** The longest defined name wins. *)
Definition longer_first (a b : str) : Prop := (length b <= length a)%nat.

Lemma insert_key_in : forall k l x, In x (insert_key k l) <-> x = k \/ In x l.
Proof.
  induction l as [|y l IH]; intros x; cbn [insert_key].
  - cbn. intuition.
  - destruct (length y <=? length k)%nat.
    + cbn [In]. intuition.
    + cbn [In]. rewrite IH. intuition.
Qed.

Lemma sort_keys_in : forall ks x, In x (sort_keys ks) <-> In x ks.
Proof.
  induction ks as [|k ks IH]; intros x; [reflexivity|]. unfold sort_keys. cbn [fold_right].
  rewrite insert_key_in. fold (sort_keys ks). rewrite IH. cbn [In]. intuition.
Qed.

Lemma insert_key_sorted : forall k l, StronglySorted longer_first l -> StronglySorted longer_first (insert_key k l).
Proof.
  induction l as [|y l IH]; intros H; cbn [insert_key].
  - constructor; constructor.
  - destruct (length y <=? length k)%nat eqn:E.
    + apply Nat.leb_le in E. constructor; [assumption|].
      apply StronglySorted_inv in H as [_ H]. constructor; [exact E|].
      rewrite Forall_forall in *. intros z Hz. unfold longer_first in *. specialize (H z Hz). lia.
    + apply Nat.leb_gt in E. apply StronglySorted_inv in H as [H1 H2]. constructor; [now apply IH|].
      rewrite Forall_forall in *. intros z Hz. apply insert_key_in in Hz as [-> | Hz].
      * unfold longer_first. lia.
      * now apply H2.
Qed.

Lemma sort_keys_sorted : forall ks, StronglySorted longer_first (sort_keys ks).
Proof.
  induction ks as [|k ks IH]; [constructor|]. unfold sort_keys. cbn [fold_right]. now apply insert_key_sorted.
Qed.

Lemma first_match_none : forall ci ks s, first_match ci ks s = None -> forall k, In k ks -> match_pre ci k s = None.
Proof.
  induction ks as [|k0 ks IH]; intros s H k I; [destruct I|]. cbn [first_match] in H.
  destruct (match_pre ci k0 s) eqn:E; [discriminate|]. destruct I as [<- | I]; [assumption|now apply IH].
Qed.

Lemma first_match_longest : forall ci ks s m r, StronglySorted longer_first ks ->
  first_match ci ks s = Some (m, r) ->
  (exists k0, In k0 ks /\ match_pre ci k0 s = Some (m, r)) /\
  forall k, In k ks -> match_pre ci k s <> None -> (length k <= length m)%nat.
Proof.
  induction ks as [|k0 ks IH]; intros s m r HS H; cbn [first_match] in H; [discriminate|].
  apply StronglySorted_inv in HS as [HS1 HS2].
  destruct (match_pre ci k0 s) as [[m' r']|] eqn:E.
  - injection H as <- <-. split; [exists k0; split; [now left|assumption]|].
    destruct (match_pre_split _ _ _ _ _ E) as [_ L]. intros k [<- | I] _; [lia|].
    rewrite Forall_forall in HS2. specialize (HS2 _ I). unfold longer_first in HS2. lia.
  - destruct (IH _ _ _ HS1 H) as [(k1 & I1 & M1) L]. split; [exists k1; split; [now right|assumption]|].
    intros k [<- | I] N; [congruence|]. now apply L.
Qed.

Theorem name_at_longest : forall cfg tbl s m r, sc_longest_first cfg = true ->
  name_at cfg tbl s = Some (m, r) ->
  forall k, In k (map fst tbl) -> match_pre (sc_ignore_case cfg) k s <> None -> (length k <= length m)%nat.
Proof.
  unfold name_at, alternatives. intros cfg tbl s m r HL H k I N. rewrite HL in H.
  destruct (first_match (sc_ignore_case cfg) (sort_keys (map fst tbl)) s) as [[m' r']|] eqn:E.
  - injection H as <- <-. destruct (first_match_longest _ _ _ _ _ (sort_keys_sorted _) E) as [_ L].
    apply L; [now apply sort_keys_in|assumption].
  - exfalso. apply N. apply (first_match_none _ _ _ E). now apply sort_keys_in.
Qed.

(** A defined name that follows the '$' is always taken as a reference to a defined name (never the fallback). *)
Theorem name_at_defined : forall cfg tbl s k, In k (map fst tbl) -> match_pre (sc_ignore_case cfg) k s <> None ->
  exists k0 m r, In k0 (map fst tbl) /\ match_pre (sc_ignore_case cfg) k0 s = Some (m, r) /\ name_at cfg tbl s = Some (m, r).
Proof.
  unfold name_at, alternatives. intros cfg tbl s k I N.
  assert (I' : In k (if sc_longest_first cfg then sort_keys (map fst tbl) else map fst tbl))
    by (destruct (sc_longest_first cfg); [now apply sort_keys_in|assumption]).
  destruct (first_match (sc_ignore_case cfg) _ s) as [[m r]|] eqn:E.
  - assert (X : exists k0, In k0 (if sc_longest_first cfg then sort_keys (map fst tbl) else map fst tbl) /\
                 match_pre (sc_ignore_case cfg) k0 s = Some (m, r)).
    { clear I I' N. revert E. generalize (if sc_longest_first cfg then sort_keys (map fst tbl) else map fst tbl).
      induction l as [|k0 l IH]; cbn [first_match]; [discriminate|].
      destruct (match_pre (sc_ignore_case cfg) k0 s) as [x|] eqn:M.
      - intros [= ->]. exists k0. split; [now left|assumption].
      - intros H. destruct (IH H) as (k1 & I1 & M1). exists k1. split; [now right|assumption]. }
    destruct X as (k0 & I0 & M0). exists k0, m, r. split; [|split; [assumption|reflexivity]].
    destruct (sc_longest_first cfg); [now apply sort_keys_in|assumption].
  - exfalso. apply N. exact (first_match_none _ _ _ E _ I').
Qed.

(** *** Without allow_invert the optional '!' of the pattern is transparent: the pattern could as well not have it. *)
Definition without_bang (cfg : subst_cfg) : subst_cfg :=
  {| sc_longest_first := sc_longest_first cfg; sc_ident_fallback := sc_ident_fallback cfg;
     sc_ignore_case := sc_ignore_case cfg; sc_bang_group := false; sc_bang_readd := sc_bang_readd cfg;
     sc_lookup_folded := sc_lookup_folded cfg; sc_bools := sc_bools cfg |}.

Lemma var_at_without_bang : forall cfg tbl d f s, var_at (without_bang cfg) tbl d f s = var_at cfg tbl d f s.
Proof. reflexivity. Qed.

Lemma scan_bang_transparent : forall cfg tbl d, sc_bang_readd cfg = true ->
  forall f t, (length t <= f)%nat -> scan cfg false tbl d f t = scan (without_bang cfg) false tbl d f t.
Proof.
  intros cfg tbl d HR. induction f as [|f IH]; intros t HL; [reflexivity|].
  destruct t as [|c r]; [reflexivity|]. cbn [scan length] in *. unfold step.
  cbn [sc_bang_group without_bang andb]. rewrite var_at_without_bang.
  destruct (c =? DOLLAR) eqn:EC.
  - destruct (var_at cfg tbl d (fun v => v) r) as [| |out rest] eqn:E; [|reflexivity|].
    + rewrite (IH r); [reflexivity|lia].
    + apply var_at_len in E. rewrite (IH rest); [reflexivity|lia].
  - destruct (sc_bang_group cfg && (c =? BANG)) eqn:EB; [|rewrite (IH r); [reflexivity|lia]].
    apply andb_true_iff in EB as [_ EB]. apply N.eqb_eq in EB. subst c.
    destruct r as [|c' r']; [rewrite (IH []); [reflexivity|cbn [length]; lia]|].
    destruct (c' =? DOLLAR) eqn:EC'; [|rewrite (IH (c' :: r')); [reflexivity|lia]].
    (* "!$...": with the group the '!' is part of the match and re-added; without it, it is a literal *)
    cbn [length] in HL. destruct f as [|f']; [lia|].
    rewrite <- (IH (c' :: r')) by (cbn [length]; lia).
    assert (U : scan cfg false tbl d (S f') (c' :: r') =
                match var_at cfg tbl d (fun v => v) r' with
                | NoMatch => option_map (cons c') (scan cfg false tbl d f' r')
                | KeyErr => None
                | Repl out rest => option_map (app out) (scan cfg false tbl d f' rest)
                end).
    { cbn [scan]. unfold step. rewrite EC'. reflexivity. }
    unfold var_at in *. destruct (name_at cfg tbl r') as [[m rest]|] eqn:EN; [|reflexivity].
    assert (LR : (length rest <= length r')%nat) by (rewrite (name_at_split _ _ _ _ _ EN), app_length; lia).
    destruct (value_of cfg tbl d m) as [v|]; rewrite U; [|reflexivity].
    unfold apply_bang. rewrite HR.
    rewrite (scan_fuel2 cfg false tbl d (S f') f' rest) by lia.
    destruct (scan cfg false tbl d f' rest); reflexivity.
Qed.

Theorem substitute_bang_transparent : forall cfg tbl d t, sc_bang_readd cfg = true ->
  substitute cfg false tbl d t = substitute (without_bang cfg) false tbl d t.
Proof. intros. apply scan_bang_transparent; [assumption|apply Nat.le_refl]. Qed.

(** *** Non-vacuity / worked examples on the reference configuration. *)
Example ref_subst_cfg_ok : subst_cfg_ok ref_subst_cfg = true.
Proof. reflexivity. Qed.

(* {"ab": "L", "a": "S"}: "$abc $A !$a $zz $" -> "Lc S !S  $"   (longest name, case, re-added '!', default '', bare '$') *)
Example substitute_example :
  substitute ref_subst_cfg false [([97], [83]); ([97;98], [76])] (Some [])
    [36;97;98;99; 32; 36;65; 32; 33;36;97; 32; 36;122;122; 32; 36]
  = Some [76;99; 32; 83; 32; 33;83; 32; 32; 36].
Proof. vm_compute. reflexivity. Qed.

(* allow_invert: "!$a" with a = "1" -> "0"; with a = "text" -> "text"; a missing variable without default raises *)
Example substitute_invert_example :
  substitute ref_subst_cfg true [([97], [49])] None [33;36;97] = Some [48] /\
  substitute ref_subst_cfg true [([97], [116;101;120;116])] None [33;36;97] = Some [116;101;120;116] /\
  substitute ref_subst_cfg true [] None [36;97] = None.
Proof. vm_compute. repeat split; reflexivity. Qed.
