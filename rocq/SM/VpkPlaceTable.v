(** The meaning of the decision tables of SM/VpkPlace.v: [write_info_t] runs FileInfo.write *from a placement table* (the rows
    translate/c13_place.py obtains by executing the method on symbolic values), [read_info_t] / [verify_info_t] run FileInfo.read /
    verify *from a read table*.  VpkPlaceTableProofs.v: for every table accepted by [place_table_ok] / [read_table_ok] these are
    [write_info] / [read_info] / [verify_info] of the state machine on all inputs. *)
From Coq Require Import List NArith Bool.
From SV Require Import Fmt.VpkDir SM.Vpk SM.VpkPlace.
Import ListNotations.
Open Scope N_scope.

Definition onone {A} (o : option A) : bool := match o with None => true | Some _ => false end.
Definition lnil {A} (l : list A) : bool := match l with [] => true | _ => false end.

(** the row that applies: same kind of VPK, same limit class, same "index is None", and whose own cut leaves a rest that is empty or not
    as the row says *)
Definition row_applies (cf : vcfg) (d : bytes) (ix : option N) (r : prow) : bool :=
  Bool.eqb (r_dir r) (v_is_dir cf) && lim_eqb (r_lim r) (class_of cf) && Bool.eqb (r_idx_none r) (onone ix)
  && Bool.eqb (r_tail_empty r) (lnil (skipn (N.to_nat (cut_val cf (r_cut r))) d)).

Definition write_info_t (pt : list prow) (crc : bytes -> N) (cf : vcfg) (st : vstate) (i : info) (d : bytes) (ix : option N)
  : option (vstate * info) :=
  let c := crc d in
  if c =? icrc i then Some (st, i) else
  match find (row_applies cf d ix) pt with
  | None => None
  | Some r =>
      let cut := N.to_nat (cut_val cf (r_cut r)) in
      let pre := firstn cut d in
      let tail := skipn cut d in
      let sidx := if r_stored_none r then None else ix in
      let off := match r_off r with
                 | OZero => Some 0
                 | OFooterLen => Some (len (foot st))
                 | OArchEnd => match ix with Some x => Some (len (arch_get x (archs st))) | None => None end
                 | OOther => None
                 end in
      let st' := match r_dest r with
                 | DNone => Some st
                 | DFooter => Some {| tbl := tbl st; archs := archs st; foot := foot st ++ tail; disk := disk st; md := md st |}
                 | DArch => match ix with
                            | Some x => Some {| tbl := tbl st; archs := arch_app x tail (archs st); foot := foot st; disk := disk st; md := md st |}
                            | None => None
                            end
                 | DOther => None
                 end in
      match st', off with
      | Some s, Some o => Some (s, mkInfo c pre sidx o (len tail))
      | _, _ => None
      end
  end.

Definition rrow_applies (i : info) (r : rrow) : bool :=
  Bool.eqb (rr_alen_zero r) (ilen i =? 0) && Bool.eqb (rr_idx_none r) (onone (iidx i)).
Definition src_bytes (st : vstate) (i : info) (s : rsrc) : option bytes :=
  match s with
  | RNone => Some []
  | RFooter => Some (slice (foot st) (ioff i) (ilen i))
  | RArch => match iidx i with Some x => Some (slice (arch_get x (archs st)) (ioff i) (ilen i)) | None => None end
  | ROther => None
  end.
Definition read_info_t (rt : list rrow) (st : vstate) (i : info) : option bytes :=
  match find (rrow_applies i) rt with
  | Some r => match src_bytes st i (rr_read r) with Some b => Some (ipre i ++ b) | None => None end
  | None => None
  end.
Definition verify_info_t (rt : list rrow) (crc : bytes -> N) (st : vstate) (i : info) : option bool :=
  match find (rrow_applies i) rt with
  | Some r => match src_bytes st i (rr_verify r) with Some b => Some (crc (ipre i ++ b) =? icrc i) | None => None end
  | None => None
  end.
