(** C19 — the names listed by a chain walk are relative to the member's prefix (the RelDropSegs form). *)
From Coq Require Import List NArith Bool Lia.
From SV Require Import SM.FsChain SM.FsChainProofs.
Import ListNotations.
Open Scope N_scope.

Definition gch (c : N) : N := foldc (slashc c).
Lemma nkey_map s : nkey s = map gch s.
Proof. unfold nkey, fold, slash. rewrite map_map. reflexivity. Qed.

Definition cnt (s : str) : nat := length (filter (fun c => c =? SL) s).

Lemma len_split s : length (split_on SL s) = S (cnt s).
Proof.
  induction s as [|x r IH]; [reflexivity|]. unfold cnt in *. cbn [split_on filter].
  destruct (x =? SL); cbn [length]; [rewrite IH; reflexivity|].
  destruct (split_on SL r) as [|h t] eqn:E; [exfalso; exact (split_on_nonempty _ _ E)|].
  cbn [length] in *. exact IH.
Qed.

Lemma cnt_map f s : (forall c, In c s -> (f c =? SL) = (c =? SL)) -> cnt (map f s) = cnt s.
Proof.
  unfold cnt. induction s as [|x r IH]; intros H; [reflexivity|]. cbn [map filter].
  rewrite (H x (or_introl eq_refl)). destruct (x =? SL); cbn [length]; rewrite IH; try reflexivity;
    intros c Hc; apply H; right; exact Hc.
Qed.

Lemma foldc_sl c : (foldc c =? SL) = (c =? SL).
Proof.
  unfold foldc, SL. destruct ((65 <=? c) && (c <=? 90)) eqn:E; [|reflexivity].
  apply andb_true_iff in E as [H1 H2]. apply N.leb_le in H1, H2.
  destruct (N.eqb_spec (c + 32) 47), (N.eqb_spec c 47); try lia; reflexivity.
Qed.

Lemma gch_sl c : (c =? BS) = false -> (gch c =? SL) = (c =? SL).
Proof. intros H. unfold gch, slashc. rewrite H. apply foldc_sl. Qed.

Lemma cnt_fold s : cnt (fold s) = cnt s.
Proof. apply cnt_map. intros c _. apply foldc_sl. Qed.

Lemma split_app_sep a b : split_on SL (a ++ SL :: b) = split_on SL a ++ split_on SL b.
Proof.
  induction a as [|x a IH]; cbn [app split_on].
  - reflexivity.
  - rewrite IH. destruct (x =? SL); [reflexivity|].
    destruct (split_on SL a) as [|h t] eqn:E; [exfalso; exact (split_on_nonempty _ _ E)|]. reflexivity.
Qed.

Lemma skipn_length_app {A} (l1 l2 : list A) : skipn (length l1) (l1 ++ l2) = l2.
Proof. induction l1 as [|x l1 IH]; [reflexivity|exact IH]. Qed.

Lemma clean_nonempty_segs s : clean s = true -> nonempty_segs s = split_on SL s.
Proof.
  unfold clean, nonempty_segs. generalize (split_on SL s). intros l H.
  induction l as [|c l IH]; [reflexivity|]. cbn [forallb filter] in *.
  apply andb_true_iff in H as [Hc Hl]. unfold good_seg in Hc.
  apply andb_true_iff in Hc as [Hc _]. rewrite Hc, (IH Hl). reflexivity.
Qed.

(** If a stored (clean) name lies under the prefix up to case and slash kind, dropping the prefix's segments
    gives a name [rest] with  fold(prefix) / fold(rest) = fold(name):  the listed name is relative to the
    prefix and, joined with the prefix again, denotes the same file. *)
Theorem drop_segs_relative orig p :
  clean_name orig = true -> clean (slash p) = true ->
  is_prefix (nkey p ++ [SL]) (nkey orig) = true ->
  nkey orig = nkey p ++ SL :: nkey (drop_segs orig p).
Proof.
  intros Ho Hp Hpre. apply is_prefix_spec in Hpre as [r Hr]. rewrite <- app_assoc in Hr. cbn [app] in Hr.
  rewrite Hr. f_equal. f_equal.
  pose proof (clean_name_slash _ Ho) as Hso.
  unfold clean_name in Ho. apply andb_true_iff in Ho as [_ Hnb].
  rewrite (nkey_map orig), (nkey_map p) in Hr.
  apply map_eq_app in Hr as [A [B [-> [HA HB]]]].
  apply map_eq_cons in HB as [c [rest [-> [Hc Hrest]]]].
  rewrite forallb_app in Hnb. apply andb_true_iff in Hnb as [HnA HnB]. cbn [forallb] in HnB.
  apply andb_true_iff in HnB as [Hcb _]. apply negb_true_iff in Hcb.
  assert (c = SL) as ->.
  { pose proof (gch_sl c Hcb) as H. rewrite Hc in H. cbn in H. symmetry in H. apply N.eqb_eq in H. exact H. }
  unfold drop_segs. rewrite Hso, (clean_nonempty_segs _ Hp), split_app_sep.
  assert (Hlen : length (split_on SL (slash p)) = length (split_on SL A)).
  { rewrite !len_split. f_equal.
    rewrite <- (cnt_fold (slash p)). change (fold (slash p)) with (nkey p). rewrite nkey_map, <- HA.
    apply cnt_map. intros x Hx. apply gch_sl. rewrite forallb_forall in HnA. apply negb_true_iff. apply HnA. exact Hx. }
  rewrite Hlen, skipn_length_app, join_split, nkey_map. symmetry. exact Hrest.
Qed.

(** Looking the listed name up through the same restricted member asks for a name with the same key. *)
Corollary drop_segs_lookup_key orig p :
  clean_name orig = true -> clean (slash p) = true -> clean p = true ->
  is_prefix (nkey p ++ [SL]) (nkey orig) = true ->
  is_prefix [SL] (drop_segs orig p) = false ->
  nkey (full_name p (drop_segs orig p)) = nkey orig.
Proof.
  intros Ho Hsp Hp Hpre Hq. rewrite (chain_prefix_relative p _ Hp Hq), (drop_segs_relative orig p Ho Hsp Hpre).
  rewrite nkey_app, nkey_slash. f_equal.
  change (SL :: slash (drop_segs orig p)) with (slash (SL :: drop_segs orig p)). rewrite nkey_slash. reflexivity.
Qed.
