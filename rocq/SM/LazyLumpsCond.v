(** Conditional stores of lump writers (round 3; fault class of seeded c10_4).

    A view's writer stores the data of the extra lumps of its view itself ([self.lumps[X].data = ...]).  If such a
    store is executed only under a data-dependent condition ("only rebuild OVERLAY_FADES when some overlay uses it"),
    the lump keeps whatever it holds when the store is skipped — and a lump that the view clears
    ([ParsedLump.to_clear]) holds b'' at that moment, because the look that cached the view emptied it.

    Model: the writer returns [list (option D)], [None] = the store of this owned lump is skipped for this value;
    [save_step_c] keeps the current content of a lump whose store is skipped ([keep]).  Results, for every
    order-consistent graph, every shape, every access sequence (looks that raise included):

    - [save_c_eq_save]: saving with conditional stores is EXACTLY saving with the unconditional writer that stores b''
      wherever the store is skipped ([wr_fill]): a skipped store of a cleared lump is a store of b'';
    - hence ([cond_save_lossless]) saving is lossless iff that filled writer inverts the reader, i.e. iff the reader
      makes of b'' exactly the value for which the store is skipped (the reader's default for an absent lump must be the
      only value that "looks unused");
    - a closed counterexample: default (9, 0), the store skipped for (0, 0).

    The invariant that carries the proof ([Emp]: every lump of a cached view is b'') needs no condition on the graph;
    the graph is needed only so that a writer's looks cannot re-cache its own view and two views share no lump. *)
From Coq Require Import List Arith Bool Lia.
From SV Require Import SM.LazyLumps SM.LazyLumpsProofs.
Import ListNotations.

Section Cond.
  Variables D P : Type.
  Variable empty : D.
  Variable rd : nat -> list D -> option P.
  Variable wrc : nat -> P -> list (option D).     (* None: the store of this lump is skipped for this value *)
  Variable g : graph.
  Variable sh : shape.

  Notation nviews := (nviews g).
  Notation decl := (decl g).
  Notation own := (own g).
  Notation state := (state D P).
  Notation look_all := (look_all D P).
  Notation getf := (getf D P empty rd g sh).
  Notation get := (get D P empty rd g sh).
  Notation run := (run D P empty rd g sh).
  Notation clear_lumps := (clear_lumps D P empty).
  Notation set_cache := (set_cache D P).
  Notation pre_clear := (pre_clear D P empty g sh).

  (** A skipped store leaves the lump as it is. *)
  Fixpoint keep (r : nat -> D) (ls : list nat) (os : list (option D)) : list D :=
    match ls, os with
    | l :: ls', o :: os' => (match o with Some d => d | None => r l end) :: keep r ls' os'
    | _, _ => []
    end.
  (** ... a store of b'' puts b'' there. *)
  Definition fill (os : list (option D)) : list D :=
    map (fun o => match o with Some d => d | None => empty end) os.
  Definition wr_fill (v : nat) (p : P) : list D := fill (wrc v p).

  Notation save_step := (save_step D P empty rd wr_fill g sh).
  Notation save := (save D P empty rd wr_fill g sh).

  (** One iteration of the loop of BSP.save with a writer whose stores may be skipped (cf. [LazyLumps.save_step]). *)
  Definition save_step_c (acc : bool * state) (v : nat) : bool * state :=
    if fst acc then
      let s := snd acc in
      match cache s v with
      | None => acc
      | Some p =>
          let s1 := set_cache v None s in
          let r := look_all get (v_wdeps (decl v)) s1 in
          if fst r then
            let s2 := snd r in
            let p' := if mem v (v_wdeps (decl v)) then match cache s2 v with Some q => q | None => p end else p in
            (true, mkS (store_sel D (v_wstore (decl v)) (own v) (keep (raw s2) (own v) (wrc v p')) (raw s2)) (cache s2))
          else r
      end
    else acc.
  Definition save_c (s : state) : bool * state := fold_left save_step_c (save_todo D P g sh s) (true, s).

  (** Every lump of a cached view is b''. *)
  Definition Emp (s : state) : Prop := forall v l, cache s v <> None -> In l (own v) -> raw s l = empty.

  Lemma keep_fill_store : forall ws r0 ls os, (forall l, In l ls -> r0 l = empty) ->
    forall r, store_sel D ws ls (keep r0 ls os) r = store_sel D ws ls (fill os) r.
  Proof.
    intros ws r0. induction ls as [|l ls IH]; intros os H r; destruct os as [|o os]; cbn [keep fill map store_sel]; try reflexivity.
    fold (fill os). assert (E : match o with Some d => d | None => r0 l end = match o with Some d => d | None => empty end).
    { destruct o; [reflexivity | apply H; now left]. }
    rewrite E. apply IH. intros l' Hl'. apply H. now right.
  Qed.

  Lemma look_all_pres : forall (Q : state -> Prop) (look : nat -> state -> bool * state) ds,
    (forall d s, In d ds -> Q s -> Q (snd (look d s))) -> forall s, Q s -> Q (snd (look_all look ds s)).
  Proof.
    intros Q look. induction ds as [|d r IH]; intros H s Hs; cbn [LazyLumps.look_all]; [exact Hs|].
    pose proof (H d s (or_introl eq_refl) Hs) as H1. destruct (look d s) as [b s1]. cbn [fst snd] in *.
    destruct b; [|exact H1]. apply IH; [|exact H1]. intros d' s' Hd'. apply H. now right.
  Qed.

  (** Looking only ever empties lumps: a lump that is b'' stays b''. *)
  Lemma getf_keeps_empty : forall l f v (s : state), raw s l = empty -> raw (snd (getf f v s)) l = empty.
  Proof.
    intros l. induction f as [|f IH]; intros v s Hs; cbn [getf LazyLumps.getf]; [exact Hs|].
    destruct (v <? nviews); [|exact Hs]. destruct (cache s v); [exact Hs|].
    assert (Hpre : raw (pre_clear v s) l = empty).
    { unfold LazyLumps.pre_clear. destruct (sh_early_main sh || sh_early_extra sh); [|exact Hs].
      cbn [raw LazyLumps.clear_lumps]. destruct (mem l _); [reflexivity | exact Hs]. }
    pose proof (look_all_pres (fun s' => raw s' l = empty) (getf f) (v_rdeps (decl v)) (fun d s' _ => IH d s') _ Hpre) as H1.
    destruct (look_all (getf f) (v_rdeps (decl v)) (pre_clear v s)) as [b s1]. cbn [fst snd] in *.
    destruct b; [|exact H1]. destruct (rd v _); cbn [fst snd]; [|exact H1].
    cbn [raw LazyLumps.clear_lumps LazyLumps.set_cache]. destruct (mem l (own v)); [reflexivity | exact H1].
  Qed.

  Lemma getf_Emp : forall f v (s : state), Emp s -> Emp (snd (getf f v s)).
  Proof.
    induction f as [|f IH]; intros v s Hs; cbn [getf LazyLumps.getf]; [exact Hs|].
    destruct (v <? nviews); [|exact Hs]. destruct (cache s v); [exact Hs|].
    assert (Hpre : Emp (pre_clear v s)).
    { unfold LazyLumps.pre_clear. destruct (sh_early_main sh || sh_early_extra sh); [|exact Hs].
      intros w l Hc Hl. cbn [raw cache LazyLumps.clear_lumps] in *. destruct (mem l _); [reflexivity | exact (Hs w l Hc Hl)]. }
    pose proof (look_all_pres Emp (getf f) (v_rdeps (decl v)) (fun d s' _ => IH d s') _ Hpre) as H1.
    destruct (look_all (getf f) (v_rdeps (decl v)) (pre_clear v s)) as [b s1]. cbn [fst snd] in *.
    destruct b; [|exact H1]. destruct (rd v _); cbn [fst snd]; [|exact H1].
    intros w l Hc Hl. cbn [raw cache LazyLumps.clear_lumps LazyLumps.set_cache] in *.
    destruct (mem l (own v)) eqn:E; [reflexivity|]. apply (H1 w l); [|exact Hl].
    unfold upd in Hc. destruct (Nat.eqb w v) eqn:Ew; [|exact Hc].
    apply Nat.eqb_eq in Ew. subst w. apply mem_In in Hl. congruence.
  Qed.

  Lemma run_Emp : forall accs (s : state), Emp s -> Emp (run accs s).
  Proof.
    induction accs as [|v r IH]; intros s Hs; cbn [LazyLumps.run fold_left]; [exact Hs|].
    apply IH. unfold LazyLumps.get. now apply getf_Emp.
  Qed.

  Lemma fresh_Emp : forall s : state, fresh D P s -> Emp s.
  Proof. intros s Hf v l Hc. rewrite (Hf v) in Hc. contradiction. Qed.

  Section Consistent.
    Hypothesis OC : order_consistent g = true.

    (** Looking at a view never touches the cache entry of a view earlier in the rebuild order. *)
    Lemma getf_cache_below : forall w f v (s : state), w < v -> cache (snd (getf f v s)) w = cache s w.
    Proof.
      intros w. induction f as [|f IH]; intros v s Hw; cbn [getf LazyLumps.getf]; [reflexivity|].
      destruct (v <? nviews) eqn:Ev; [|reflexivity]. apply Nat.ltb_lt in Ev. destruct (cache s v); [reflexivity|].
      assert (Hpre : cache (pre_clear v s) w = cache s w).
      { unfold LazyLumps.pre_clear. destruct (sh_early_main sh || sh_early_extra sh); reflexivity. }
      assert (H1 : cache (snd (look_all (getf f) (v_rdeps (decl v)) (pre_clear v s))) w = cache s w).
      { apply (look_all_pres (fun s' => cache s' w = cache s w) (getf f) (v_rdeps (decl v))); [|exact Hpre].
        intros d s' Hd Hs'. rewrite IH; [exact Hs'|].
        destruct (deps_gt g OC v d Ev (in_or_app _ _ _ (or_introl Hd))). lia. }
      destruct (look_all (getf f) (v_rdeps (decl v)) (pre_clear v s)) as [b s1]. cbn [fst snd] in *.
      destruct b; [|exact H1]. destruct (rd v _); cbn [fst snd]; [|exact H1].
      cbn [cache LazyLumps.clear_lumps LazyLumps.set_cache]. unfold upd.
      destruct (Nat.eqb w v) eqn:E; [apply Nat.eqb_eq in E; lia | exact H1].
    Qed.

    Lemma save_step_c_eq : forall acc k, (fst acc = true -> Emp (snd acc)) ->
      save_step_c acc k = save_step acc k /\ (fst (save_step acc k) = true -> Emp (snd (save_step acc k))).
    Proof.
      intros [b s] k HE. unfold save_step_c, LazyLumps.save_step. cbn [fst snd] in *.
      destruct b; [|split; [reflexivity | discriminate]]. specialize (HE eq_refl).
      destruct (cache s k) as [p|] eqn:Ec; [|split; [reflexivity | intros _; exact HE]].
      set (s1 := set_cache k None s).
      assert (HE1 : Emp s1).
      { intros w l Hc Hl. unfold s1 in *. cbn [raw cache LazyLumps.set_cache] in *. unfold upd in Hc.
        destruct (Nat.eqb w k); [contradiction | exact (HE w l Hc Hl)]. }
      assert (Hown1 : forall l, In l (own k) -> raw s1 l = empty).
      { intros l Hl. unfold s1. cbn [raw LazyLumps.set_cache]. apply (HE k l); [congruence | exact Hl]. }
      assert (HE2 : Emp (snd (look_all get (v_wdeps (decl k)) s1))).
      { apply (look_all_pres Emp get); [|exact HE1]. intros d s' _ Hs'. unfold LazyLumps.get. now apply getf_Emp. }
      assert (Hown2 : forall l, In l (own k) -> raw (snd (look_all get (v_wdeps (decl k)) s1)) l = empty).
      { intros l Hl. apply (look_all_pres (fun s' => raw s' l = empty) get); [|exact (Hown1 l Hl)].
        intros d s' _ Hs'. unfold LazyLumps.get. now apply getf_keeps_empty. }
      assert (Hck : k < nviews -> cache (snd (look_all get (v_wdeps (decl k)) s1)) k = None).
      { intros Hk. transitivity (cache s1 k).
        - apply (look_all_pres (fun s' => cache s' k = cache s1 k) get); [|reflexivity].
          intros d s' Hd Hs'. unfold LazyLumps.get. rewrite getf_cache_below; [exact Hs'|].
          destruct (deps_gt g OC k d Hk (in_or_app _ _ _ (or_intror Hd))). lia.
        - unfold s1. cbn [cache LazyLumps.set_cache]. unfold upd. now rewrite Nat.eqb_refl. }
      destruct (look_all get (v_wdeps (decl k)) s1) as [b2 s2]. cbn [fst snd] in *.
      destruct b2; [|split; [reflexivity | discriminate]].
      split.
      - f_equal. f_equal. unfold wr_fill. apply keep_fill_store. exact Hown2.
      - intros _ w l Hc Hl. cbn [fst snd raw cache] in *.
        destruct (in_dec Nat.eq_dec l (own k)) as [Hlk|Hlk].
        + exfalso.
          assert (Hk : k < nviews).
          { destruct (Nat.lt_ge_cases k nviews) as [H|H]; [exact H|]. rewrite (own_overflow g k H) in Hlk. destruct Hlk. }
          assert (Hwn : w < nviews).
          { destruct (Nat.lt_ge_cases w nviews) as [H|H]; [exact H|]. rewrite (own_overflow g w H) in Hl. destruct Hl. }
          destruct (Nat.eq_dec w k) as [Ewk|Hne]; [subst w; pose proof (Hck Hk) as Hn; congruence|].
          exact (own_disj g OC k w l Hk Hwn (fun e => Hne (eq_sym e)) Hlk Hl).
        + rewrite (store_sel_other D) by exact Hlk. exact (HE2 w l Hc Hl).
    Qed.

    Lemma save_steps_c_eq : forall ks acc, (fst acc = true -> Emp (snd acc)) ->
      fold_left save_step_c ks acc = fold_left save_step ks acc.
    Proof.
      induction ks as [|k ks IH]; intros acc HE; cbn [fold_left]; [reflexivity|].
      destruct (save_step_c_eq acc k HE) as [E HE']. rewrite E. apply IH. exact HE'.
    Qed.

    (** Saving with skipped stores IS saving with the writer that stores b'' instead. *)
    Theorem save_c_eq_save : forall s0 accs, fresh D P s0 -> save_c (run accs s0) = save (run accs s0).
    Proof.
      intros s0 accs Hf. unfold save_c, LazyLumps.save. apply save_steps_c_eq. cbn [fst snd]. intros _.
      apply run_Emp. now apply fresh_Emp.
    Qed.

    (** Hence it is lossless exactly under the hypotheses of the main theorem for that writer: in particular
        [codec_ok] for [wr_fill] says that the reader makes of b'' the very value for which the store was skipped. *)
    Theorem cond_save_lossless : shape_ok sh = true ->
      forall s0 accs, fresh D P s0 -> wr_len_ok D P rd wr_fill g s0 -> codec_ok D P rd wr_fill g s0 ->
      let r := save_c (run accs s0) in
      (fst r = true -> fresh D P (snd r) /\ same_content D P rd g (snd r) s0) /\
      (writers_can_look D P rd g s0 -> fst r = true).
    Proof.
      intros SH s0 accs Hf Hlen Hcodec. cbv zeta. rewrite (save_c_eq_save s0 accs Hf).
      exact (save_lossless D P empty rd wr_fill g sh OC SH s0 accs Hf Hlen Hcodec).
    Qed.
  End Consistent.
End Cond.

(** ---------------------------------------------------------------------- closed instances (seeded c10_4)
    Data are lists of numbers ([] = b''); a view owns a main lump 2 and an auxiliary lump 3.  The reader substitutes
    the default [dflt] for an absent auxiliary lump; the writer rebuilds the auxiliary lump only when some value in it
    is non-zero ("only when an overlay uses the feature"). *)
Definition cx_rd (dflt : list nat) (v : nat) (ds : list (list nat)) : option (list (list nat)) :=
  match ds with
  | [m; a] => Some [m; match a with [] => dflt | _ => a end]
  | _ => Some ds
  end.
Definition cx_wrc (v : nat) (p : list (list nat)) : list (option (list nat)) :=
  match p with
  | [m; a] => [Some m; if forallb (Nat.eqb 0) a then None else Some a]
  | _ => map Some p
  end.
Definition g_aux : graph := [ mkV [2; 3] [] [] [2; 3] ].
Definition cx_file (aux : list nat) : state (list nat) (list (list nat)) :=
  mkS (fun l => if Nat.eqb l 2 then [7] else if Nat.eqb l 3 then aux else []) (fun _ => None).
Notation cx_save dflt s := (save_c (list nat) (list (list nat)) [] (cx_rd dflt) cx_wrc g_aux std_shape s).
Notation cx_run dflt accs s := (run (list nat) (list (list nat)) [] (cx_rd dflt) g_aux std_shape accs s).
Notation cx_fill := (wr_fill (list nat) (list (list nat)) [] cx_wrc).

(** OVERLAY_FADES: the reader's default is (9, 0) (fade_min_sq = -1.0, fade_max_sq = 0.0).  All values (0, 0): the store
    is skipped, the lump stays b'', the file reads back with the default; the graph conditions all hold, what fails is
    [codec_ok] of the filled writer.  With one non-zero value the same history is lossless. *)
Example conditional_store_refuted :
  let s0 := cx_file [0; 0] in
  let r := cx_save [9; 0] (cx_run [9; 0] [0] s0) in
  order_consistent g_aux = true /\
  denote (list nat) (list (list nat)) (cx_rd [9; 0]) g_aux s0 0 = Some [[7]; [0; 0]] /\
  fst r = true /\ raw (snd r) 2 = [7] /\ raw (snd r) 3 = [] /\
  denote (list nat) (list (list nat)) (cx_rd [9; 0]) g_aux (snd r) 0 = Some [[7]; [9; 0]] /\
  cx_rd [9; 0] 0 (cx_fill 0 [[7]; [0; 0]]) <> Some [[7]; [0; 0]] /\
  raw (snd (cx_save [9; 0] (cx_run [9; 0] [0] (cx_file [0; 4])))) 3 = [0; 4].
Proof. vm_compute. repeat split; try reflexivity. discriminate. Qed.

(** OVERLAY_SYSTEM_LEVELS: the reader's default is (0, 0), the only value for which the store is skipped.  The
    hypotheses of [cond_save_lossless] hold on a file where the store IS skipped: the lump comes back as b'' (not the
    bytes of the file) and the view parses to the same content. *)
Example cond_hyps_satisfiable :
  let s0 := cx_file [0; 0] in
  let r := cx_save [0; 0] (cx_run [0; 0] [0] s0) in
  fresh (list nat) (list (list nat)) s0 /\
  wr_len_ok (list nat) (list (list nat)) (cx_rd [0; 0]) cx_fill g_aux s0 /\
  codec_ok (list nat) (list (list nat)) (cx_rd [0; 0]) cx_fill g_aux s0 /\
  cx_wrc 0 [[7]; [0; 0]] = [Some [7]; None] /\ raw (snd r) 3 = [] /\
  denote (list nat) (list (list nat)) (cx_rd [0; 0]) g_aux (snd r) 0 = denote (list nat) (list (list nat)) (cx_rd [0; 0]) g_aux s0 0.
Proof.
  cbv zeta. split; [intros v; reflexivity|]. split; [|split; [|vm_compute; repeat split; reflexivity]].
  - intros v p Hv Hr. destruct v as [|v]; [|cbn in Hv; lia]. vm_compute in Hr. injection Hr as <-. reflexivity.
  - intros v p Hv Hr. destruct v as [|v]; [|cbn in Hv; lia]. vm_compute in Hr. injection Hr as <-. reflexivity.
Qed.
