(** C05 (b) — the == of vectors, angles and matrices on two objects of one family (round 4): per slot either a tolerance
    test  abs(a - b) < tol / <= tol  or an exact comparison; read from __eq__ (and __ne__) by translate/c05_sites.py
    into [eq_shapes] in Gen/AngleSites_gen.v.  Finite floats are rationals: values are in Q.  Definitions only. *)
From Coq Require Import QArith Qabs List String Bool.
From SV Require Import SM.FrozenOps SM.FrozenHash.
Import ListNotations.

Inductive slotcmp :=
  | CTol (strict : bool) (tol : Q)     (* abs(a - b) < tol (strict) or <= tol *)
  | CExact                             (* a == b *)
  | CUnknown.

Definition eq_row : Type := string * list (string * slotcmp).      (* family base class, comparison per slot *)

Definition Qlt_bool (a b : Q) : bool := negb (Qle_bool b a).

Definition cmp_eval (c : slotcmp) (a b : Q) : bool :=
  match c with
  | CTol s t => if s then Qlt_bool (Qabs (a - b)) t else Qle_bool (Qabs (a - b)) t
  | CExact => Qeq_bool a b
  | CUnknown => false
  end.

(** the comparison accepts identical values *)
Definition cmp_refl (c : slotcmp) : bool :=
  match c with
  | CTol s t => if s then Qlt_bool 0 t else Qle_bool 0 t
  | CExact => true
  | CUnknown => false
  end.

Definition eq_eval (l : list (string * slotcmp)) (a b : string -> Q) : bool :=
  forallb (fun sc => cmp_eval (snd sc) (a (fst sc)) (b (fst sc))) l.

Definition eq_row_ok (r : eq_row) : bool :=
  forallb (fun sc => cmp_refl (snd sc)) (snd r)
  && subset (family_slots (fst r)) (map fst (snd r)) && subset (map fst (snd r)) (family_slots (fst r)).

Definition eq_table_ok (rows : list eq_row) : bool :=
  forallb eq_row_ok rows
  && forallb (fun c => existsb (fun r => String.eqb (fst r) c) rows) ["VecBase"; "AngleBase"; "MatrixBase"]%string.

Definition bad_eq_rows (rows : list eq_row) : list string := map fst (filter (fun r => negb (eq_row_ok r)) rows).
