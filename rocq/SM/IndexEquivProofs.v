(** Every operation of SM/IndexModel.v respects [ix_equiv]: two states that differ only in empty sets held by the
    index maps (left behind by defaultdict reads — [vmf.by_class[k]], iteration, [make_unique]'s own lookups, which
    the model does not track) stay indistinguishable, step after step, and raise the same errors.  Together with
    [ix_equiv_inv] / [search_sh_sound_complete] this closes the gap "the model ignores the empty sets of the
    implementation": no operation, lookup or search can depend on them. *)
From stdpp Require Import gmap sets list.
From Coq Require Import NArith Lia.
From SV Require Import SM.IndexModel SM.IndexProofs SM.IndexShapes SM.IndexShapeProofs SM.IndexUniqueProofs.

Section ixe.
  Context {K : Type} `{Countable K}.
  (** same reader's view of one index *)
  Definition ixe (m m' : gmap K (gset nat)) : Prop := ∀ k, ix_get m' k = ix_get m k.

  Lemma ix_get_add k e (m : gmap K (gset nat)) k' :
    ix_get (ix_add k e m) k' = if decide (k' = k) then {[e]} ∪ ix_get m k else ix_get m k'.
  Proof.
    unfold ix_add. unfold ix_get at 1. destruct (decide (k' = k)) as [->|].
    - by rewrite lookup_insert.
    - by rewrite lookup_insert_ne.
  Qed.
  Lemma ix_get_remove k e (m : gmap K (gset nat)) k' :
    ix_get (ix_remove k e m) k' = if decide (k' = k) then ix_get m k ∖ {[e]} else ix_get m k'.
  Proof.
    unfold ix_remove. destruct (m !! k) as [s|] eqn:E.
    - destruct (decide (s ∖ {[e]} = ∅)) as [He|He]; destruct (decide (k' = k)) as [->|Hk]; unfold ix_get.
      + rewrite lookup_delete, E. simpl. by rewrite He.
      + by rewrite lookup_delete_ne.
      + by rewrite lookup_insert, E.
      + by rewrite lookup_insert_ne.
    - destruct (decide (k' = k)) as [->|]; [|done]. unfold ix_get. rewrite E. simpl. set_solver.
  Qed.
  Lemma ixe_refl m : ixe m m. Proof. done. Qed.
  Lemma ixe_add k e m m' : ixe m m' → ixe (ix_add k e m) (ix_add k e m').
  Proof. intros Hm k'. rewrite !ix_get_add. destruct (decide (k' = k)); by rewrite Hm. Qed.
  Lemma ixe_remove k e m m' : ixe m m' → ixe (ix_remove k e m) (ix_remove k e m').
  Proof. intros Hm k'. rewrite !ix_get_remove. destruct (decide (k' = k)); by rewrite Hm. Qed.
  Lemma ixe_probe k m m' : ixe m m' → ixe (probe k m) (probe k m').
  Proof. intros Hm k'. by rewrite !ix_get_probe. Qed.
End ixe.

Lemma ix_equiv_mk o n en sp bc bc' bt bt' : ixe bc bc' → ixe bt bt' →
  ix_equiv (MS o n en sp bc bt) (MS o n en sp bc' bt').
Proof. intros Hc Ht. repeat split; done. Qed.
Lemma ix_equiv_sym st st' : ix_equiv st st' → ix_equiv st' st.
Proof. intros (?&?&?&?&H1&H2). repeat split; try done; intros k; by rewrite ?H1, ?H2. Qed.

Ltac eqv_destruct H st st' :=
  let o := fresh "o" in let n := fresh "n" in let en := fresh "en" in let sp := fresh "sp" in
  let bc := fresh "bc" in let bt := fresh "bt" in
  let o' := fresh "o'" in let n' := fresh "n'" in let en' := fresh "en'" in let sp' := fresh "sp'" in
  let bc' := fresh "bc'" in let bt' := fresh "bt'" in
  let Ho := fresh "Ho" in let Hn := fresh "Hn" in let He := fresh "He" in let Hs := fresh "Hs" in
  let Hc := fresh "Hc" in let Ht := fresh "Ht" in
  destruct st as [o n en sp bc bt]; destruct st' as [o' n' en' sp' bc' bt'];
  destruct H as (Ho & Hn & He & Hs & Hc & Ht); simpl in Ho, Hn, He, Hs, Hc, Ht; subst o' n' en' sp';
  change (ixe bc bc') in Hc; change (ixe bt bt') in Ht.

Section resp.
  Variable fold : str → str.

  (** an operation respects the equivalence: equivalent results, same error code *)
  Definition resp (f : mstate → mstate * nat) : Prop :=
    ∀ st st', ix_equiv st st' → ix_equiv (f st).1 (f st').1 ∧ (f st).2 = (f st').2.
  Definition resp1 (f : mstate → mstate) : Prop := ∀ st st', ix_equiv st st' → ix_equiv (f st) (f st').

  Local Hint Resolve ixe_add ixe_remove ixe_probe ix_equiv_mk : ixe.

  Lemma set_item_resp e key v : resp (set_item fold e key v).
  Proof.
    intros st st' H. eqv_destruct H st st'. unfold set_item, in_map, keys_of, upd_class, upd_target, with_keys. simpl.
    repeat case_decide; simpl; try (split; [|done]); eauto 8 with ixe.
    all: destruct (bool_decide (e = sp) || bool_decide (e ∈ en)); simpl; (split; [|done]); eauto 8 with ixe.
  Qed.

  Lemma del_item_resp e key : resp (del_item fold e key).
  Proof.
    intros st st' H. eqv_destruct H st st'. unfold del_item, in_map, keys_of, upd_class, upd_target, with_keys. simpl.
    repeat case_decide; simpl; try (split; [|done]); eauto 8 with ixe.
    all: destruct (bool_decide (e = sp) || bool_decide (e ∈ en)); simpl; (split; [|done]); eauto 8 with ixe.
  Qed.

  (** sequencing with an error check *)
  Lemma resp_seq (f g : mstate → mstate * nat) : resp f → resp g →
    resp (λ st, let '(st1, er) := f st in match er with 0 => g st1 | _ => (st1, er) end).
  Proof.
    intros Hf Hg st st' H. destruct (Hf st st' H) as [H1 H2].
    destruct (f st) as [s1 e1], (f st') as [s1' e1']. simpl in *. subst e1'. destruct e1; [by apply Hg|done].
  Qed.

  Lemma del_items_resp e ks : resp (del_items fold e ks).
  Proof.
    induction ks as [|k ks IH]; intros st st' H; simpl; [done|].
    destruct (del_item_resp e k st st' H) as [H1 H2].
    destruct (del_item fold e k st) as [s1 e1], (del_item fold e k st') as [s1' e1']. simpl in *. subst e1'.
    destruct e1; [by apply IH|done].
  Qed.

  Lemma update_resp e l : resp (update fold e l).
  Proof.
    induction l as [|[k v] l IH]; intros st st' H; simpl; [done|].
    destruct (set_item_resp e k v st st' H) as [H1 H2].
    destruct (set_item fold e k v st) as [s1 e1], (set_item fold e k v st') as [s1' e1']. simpl in *. subst e1'.
    destruct e1; [by apply IH|done].
  Qed.

  Lemma keys_of_equiv st st' e : ix_equiv st st' → keys_of st' e = keys_of st e.
  Proof. intros (Ho & _). unfold keys_of. by rewrite Ho. Qed.

  Lemma pop_item_resp e key : resp (pop_item fold e key).
  Proof.
    intros st st' H. unfold pop_item. rewrite (keys_of_equiv st st' e H).
    destruct (kv_find _ _ _); [by apply del_item_resp|done].
  Qed.
  Lemma pop_first_resp e : resp (pop_first fold e).
  Proof.
    intros st st' H. unfold pop_first. rewrite (keys_of_equiv st st' e H).
    destruct (keys_of st e) as [|[k v] r]; [done|by apply del_item_resp].
  Qed.

  Lemma with_keys_resp e l : resp1 (with_keys e l).
  Proof. intros st st' H. eqv_destruct H st st'. unfold with_keys. simpl. eauto with ixe. Qed.

  Lemma spawn_equiv st st' : ix_equiv st st' → spawn st' = spawn st.
  Proof. by intros (_&_&_&Hs&_). Qed.
  Lemma nobj_equiv st st' : ix_equiv st st' → nobj st' = nobj st.
  Proof. by intros (_&Hn&_). Qed.

  Lemma clear_resp e : resp (clear fold e).
  Proof.
    intros st st' H. unfold clear. rewrite (spawn_equiv st st' H).
    set (c := if decide (e = spawn st) then ws else inull).
    destruct (set_item_resp e cn c st st' H) as [H1 H2].
    destruct (set_item fold e cn c st) as [s1 e1], (set_item fold e cn c st') as [s1' e1']. simpl in *. subst e1'.
    destruct e1; [|done].
    destruct (del_item_resp e tn s1 s1' H1) as [H3 H4].
    destruct (del_item fold e tn s1) as [s2 e2], (del_item fold e tn s1') as [s2' e2']. simpl in *. subst e2'.
    destruct e2; [|done]. simpl. split; [|done]. by apply with_keys_resp.
  Qed.

  Lemma new_obj_resp : resp1 new_obj.
  Proof. intros st st' H. eqv_destruct H st st'. unfold new_obj. simpl. eauto with ixe. Qed.
  Lemma new_ent_resp l : resp1 (new_ent fold l).
  Proof.
    intros st st' H. unfold new_ent. rewrite (nobj_equiv st st' H).
    apply update_resp. by apply new_obj_resp.
  Qed.
  Lemma add_ent_resp e : resp1 (add_ent fold e).
  Proof.
    intros st st' H. eqv_destruct H st st'. unfold add_ent, keys_of. simpl.
    case_decide; eauto with ixe.
  Qed.
  Lemma add_ents_resp es : resp1 (add_ents fold es).
  Proof.
    unfold add_ents. induction es as [|e es IH]; intros st st' H; simpl; [done|]. apply IH. by apply add_ent_resp.
  Qed.
  Lemma remove_ent_resp e : resp1 (remove_ent fold e).
  Proof.
    intros st st' H. eqv_destruct H st st'. unfold remove_ent, keys_of, upd_class, upd_target, with_ents. simpl.
    case_decide; eauto with ixe.
  Qed.
  Lemma create_ent_resp c l : resp1 (create_ent fold c l).
  Proof.
    intros st st' H. unfold create_ent. rewrite (nobj_equiv st st' H). apply add_ent_resp. by apply new_ent_resp.
  Qed.
  Lemma export_resp ver : resp (export fold ver).
  Proof.
    intros st st' H. unfold export. rewrite (spawn_equiv st st' H).
    destruct (set_item_resp (spawn st) mapver ver st st' H) as [H1 _].
    destruct (set_item fold (spawn st) mapver ver st) as [s1 e1], (set_item fold (spawn st) mapver ver st') as [s1' e1'].
    simpl in *.
    destruct (set_item_resp (spawn st) cn ws s1 s1' H1) as [H3 _].
    destruct (set_item fold (spawn st) cn ws s1) as [s2 e2], (set_item fold (spawn st) cn ws s1') as [s2' e2'].
    simpl in *. by apply del_item_resp.
  Qed.
  Lemma probe_class_resp k : resp1 (upd_class (probe k)).
  Proof. intros st st' H. eqv_destruct H st st'. unfold upd_class. simpl. eauto with ixe. Qed.
  Lemma probe_target_resp k : resp1 (upd_target (probe k)).
  Proof. intros st st' H. eqv_destruct H st st'. unfold upd_target. simpl. eauto with ixe. Qed.

  (** make_unique: the fuel of the model's loop ([size by_target + 1]) differs between equivalent states, the name
      found does not *)
  Section unique.
    Hypothesis fold_app_dec : ∀ b i, fold (b ++ dec i) = fold b ++ dec i.

    Lemma free_name_equiv (f f' : nat) (i : N) (bs : str) (bt bt' : gmap (option str) (gset nat)) (n n' : str) : ixe bt bt' →
      free_name fold f i bs bt = Some n → free_name fold f' i bs bt' = Some n' → n = n'.
    Proof.
      intros Hb (j & _ & -> & He & Hl)%free_name_some (j' & _ & -> & He' & Hl')%free_name_some.
      destruct (lt_eq_lt_dec j j') as [[Hlt| ->]|Hlt]; [|done|].
      - destruct (Hl' j Hlt). by rewrite Hb.
      - destruct (Hl j' Hlt). by rewrite <- Hb.
    Qed.

    Lemma by_target_equiv st st' : ix_equiv st st' → ixe (by_target st) (by_target st').
    Proof. by intros (_&_&_&_&_&Ht). Qed.

    Lemma make_unique_resp e p : resp (make_unique fold e p).
    Proof.
      intros st st' H. unfold make_unique. rewrite (keys_of_equiv st st' e H).
      set (orig := default [] (kv_find fold tn (keys_of st e))).
      rewrite (by_target_equiv st st' H (Some (fold orig))).
      case_decide; [done|].
      assert (H1 : ix_equiv (if decide (orig = []) then (st, 0) else set_item fold e tn [] st).1
                            (if decide (orig = []) then (st', 0) else set_item fold e tn [] st').1).
      { case_decide; [done|]. by apply set_item_resp. }
      destruct (if decide (orig = []) then (st, 0) else set_item fold e tn [] st) as [s1 e1].
      destruct (if decide (orig = []) then (st', 0) else set_item fold e tn [] st') as [s1' e1']. simpl in H1.
      set (base := rstrip_digits (if decide (orig = []) then p else orig)).
      rewrite (by_target_equiv s1 s1' H1 (Some (fold base))).
      case_decide; [by apply set_item_resp|].
      destruct (free_name_total fold fold_app_dec (by_target s1) base 1) as [n1 E1].
      destruct (free_name_total fold fold_app_dec (by_target s1') base 1) as [n1' E1'].
      rewrite E1, E1'. rewrite <- (free_name_equiv _ _ _ _ _ _ _ _ (by_target_equiv s1 s1' H1) E1 E1').
      by apply set_item_resp.
    Qed.

    (** Every operation respects the equivalence. *)
    Theorem step_resp o : resp (step fold o).
    Proof.
      destruct o; intros st st' H; simpl.
      - split; [by apply new_ent_resp|done].
      - split; [by apply create_ent_resp|done].
      - split; [by apply add_ent_resp|done].
      - split; [by apply add_ents_resp|done].
      - split; [by apply remove_ent_resp|done].
      - by apply set_item_resp.
      - by apply del_item_resp.
      - by apply del_items_resp.
      - by apply pop_item_resp.
      - by apply pop_first_resp.
      - done.
      - by apply update_resp.
      - by apply clear_resp.
      - by apply make_unique_resp.
      - by apply export_resp.
      - split; [by apply probe_class_resp|done].
      - split; [by apply probe_target_resp|done].
    Qed.

    (** ... hence whole histories: the model state (no empty sets tracked) and any state that additionally holds
        empty sets (the implementation's defaultdicts) evolve in lock step. *)
    Theorem run_resp ops : ∀ st st', ix_equiv st st' → ix_equiv (run fold ops st) (run fold ops st').
    Proof.
      unfold run. induction ops as [|o ops IH]; intros st st' H; simpl; [done|]. apply IH. by apply step_resp.
    Qed.
  End unique.
End resp.
