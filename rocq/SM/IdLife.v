(** Object-lifetime layer over the allocator: how vmf.py's map objects acquire and release IDs of one kind.

    An object acquires its ID in its constructor ([self.id = man.get_id(desired)]) and the ID is
    released by the release sites found in the source by the translator (translate/c08_sites.py ->
    Gen/IdSites_gen.v).  The model is parameterised by [release_on_remove]: whether *removing the
    object from the map* releases the ID in addition to the destructor ([__del__]).  *)
From stdpp Require Import gmap sets.
From Coq Require Import ZArith.
From SV Require Import SM.IdMan.
Open Scope Z_scope.

(** One object: its ID, whether the Python object still exists, whether it is in the map's list. *)
Record obj := { oid : Z; alive : bool; inmap : bool }.

Record world := { man : idman; objs : list obj }.
Definition w0 : world := {| man := init; objs := [] |}.

Inductive ev :=
| Create (desired : Z)      (* constructor + add to map: fresh, copy(), parse with a desired ID *)
| RemoveFromMap (k : nat)   (* VMF.remove_ent / Entity.remove / Solid.remove on the k-th object *)
| ReAdd (k : nat)           (* add_ent / add_brush of a previously removed, still existing object *)
| Gc (k : nat).             (* the k-th object is destroyed: __del__ runs (once) *)

Definition upd (k : nat) (f : obj → obj) (l : list obj) : list obj :=
  match l !! k with Some o => <[k := f o]> l | None => l end.

Section life.
  Variable release_on_remove : bool.

  Definition lstep (w : world) (e : ev) : world :=
    match e with
    | Create d =>
        match get_id d (man w) with
        | Some (i, m') => {| man := m'; objs := objs w ++ [ {| oid := i; alive := true; inmap := true |} ] |}
        | None => w
        end
    | RemoveFromMap k =>
        match objs w !! k with
        | Some o =>
            if alive o && inmap o then
              {| man := if release_on_remove then discard (oid o) (man w) else man w;
                 objs := <[k := {| oid := oid o; alive := true; inmap := false |}]> (objs w) |}
            else w
        | None => w
        end
    | ReAdd k =>
        match objs w !! k with
        | Some o => if alive o && negb (inmap o)
                    then {| man := man w; objs := <[k := {| oid := oid o; alive := true; inmap := true |}]> (objs w) |}
                    else w
        | None => w
        end
    | Gc k =>
        match objs w !! k with
        | Some o => if alive o && negb (inmap o)   (* objects in the map are referenced by it: not collectable *)
                    then {| man := discard (oid o) (man w);
                            objs := <[k := {| oid := oid o; alive := false; inmap := false |}]> (objs w) |}
                    else w
        | None => w
        end
    end.

  Definition lrun (es : list ev) : world := fold_left lstep es w0.

  (** IDs of the objects that still exist / that are in the map. *)
  Definition live_ids (w : world) : list Z := oid <$> filter (λ o, alive o = true) (objs w).
  Definition map_ids (w : world) : list Z := oid <$> filter (λ o, inmap o = true) (objs w).
End life.

(** Boolean duplicate test used to exhibit refutations by computation. *)
Fixpoint has_dup (l : list Z) : bool :=
  match l with [] => false | x :: r => if decide (x ∈ r) then true else has_dup r end.

(** EntityFixup: replaceNN indexes of one entity. State: list of (folded variable, index). *)
Definition fixups := list (Z * Z).   (* variable names abstracted to integers *)

Fixpoint lowest_unused (fuel : nat) (i : Z) (ids : list Z) : Z :=
  match fuel with
  | O => i
  | S f => if decide (i ∈ ids) then lowest_unused f (i + 1) ids else i
  end.

Definition fx_set (var : Z) (f : fixups) : fixups :=
  if decide (var ∈ f.*1) then f
  else f ++ [(var, lowest_unused (S (length f)) 1 (f.*2))].
Definition fx_del (var : Z) (f : fixups) : fixups := filter (λ p, p.1 ≠ var) f.

(** [EntityFixup.__init__(list)]: values whose index is acceptable and not seen yet are stored under their
    variable (a later value for the same variable replaces the earlier one); the others are re-inserted with
    [fx_set].  [accept] is the acceptance test read from the source ([fix.id not in used_indexes], with or
    without a positivity test); [defer] says whether the rejected values are re-inserted after the whole list
    has been scanned (the code's second loop over [extra_vals]) or immediately, inside the first loop. *)
Section fxinit.
  Variable require_positive : bool.
  Variable defer : bool.
  Definition accept (i : Z) (seen : list Z) : bool :=
    (if require_positive then bool_decide (0 < i) else true) && bool_decide (i ∉ seen).
  Fixpoint fx_init_pass (l : list (Z * Z)) (seen : list Z) (f : fixups) (extra : list Z) : fixups * list Z :=
    match l with
    | [] => (f, extra)
    | (v, i) :: r =>
        if accept i seen then fx_init_pass r (i :: seen) (filter (λ p, p.1 ≠ v) f ++ [(v, i)]) extra
        else if defer then fx_init_pass r seen f (extra ++ [v])
        else fx_init_pass r seen (fx_set v f) extra
    end.
  Definition fx_init (l : list (Z * Z)) : fixups :=
    let '(f, extra) := fx_init_pass l [] [] [] in fold_left (λ f v, fx_set v f) extra f.
End fxinit.
