(** C17 - the automatic instance names of collapse_all (round 6).

    collapse_all collapses the pending func_instance entities pass by pass ([SM/C17Rounds.v]); an instance without a name
    is collapsed under the name `InstanceAuto<k>`, where k comes from ONE variable.  The generated object lists what
    collapse_all does to that variable, in source order ([cevent]); the model numbers the unnamed instances of a run, pass
    by pass, from a counter that is either kept across the passes or set back inside the loop. *)
From Coq Require Import List Arith.
Import ListNotations.

Inductive cevent :=
| CInitBeforeLoop      (* `c = <int constant>` before the loop over the passes *)
| CIncrAtUse           (* `c += <positive int constant>` directly before `inst.name = f'...{c}'`, under `if not inst.name` *)
| CStoreInLoop.        (* any other binding of the variable inside the loop over the passes (assignment, loop target, ...) *)

Definition is_init (e : cevent) : bool := match e with CInitBeforeLoop => true | _ => false end.
Definition is_incr (e : cevent) : bool := match e with CIncrAtUse => true | _ => false end.
Definition is_reset (e : cevent) : bool := match e with CStoreInLoop => true | _ => false end.

(** the counter starts before the loop, grows at every use, and nothing inside the loop binds it again *)
Definition counter_kept (evs : list cevent) : bool :=
  andb (existsb is_init evs) (andb (existsb is_incr evs) (negb (existsb is_reset evs))).
Definition counter_resets (evs : list cevent) : bool := existsb is_reset evs.

(** [passes]: the number of unnamed instances collapsed in each pass.  The numbers given in a pass that starts with the
    counter at [c] are c+1 .. c+n; with [reset] every pass starts from 0 again. *)
Fixpoint auto_names (reset : bool) (c : nat) (passes : list nat) : list nat :=
  match passes with
  | [] => []
  | n :: r => let c0 := if reset then 0 else c in seq (S c0) n ++ auto_names reset (c0 + n) r
  end.
