From stdpp Require Import gmap sets.
From Coq Require Import ZArith Lia.
From SV Require Import SM.IdMan SM.IdManProofs SM.IdManSpec.
Open Scope Z_scope.

Lemma scan_fuel_enough (u : gset Z) p : (size (filter (λ x : Z, (p ≤ x)%Z) u) < S (size u))%nat.
Proof.
  assert (Hsub : filter (λ x, p ≤ x) u ⊆ u) by (intros x; rewrite elem_of_filter; tauto).
  apply subseteq_size in Hsub. lia.
Qed.

(** Under the invariant the scan from the hint and the scan from 1 find the same ID: the least free positive one. *)
Lemma scan_hint_irrelevant s : Inv s →
  scan (S (size (used s))) (pos s) (used s) = least_free (used s).
Proof.
  intros [Hp Hall]. unfold least_free.
  destruct (scan_terminates _ (pos s) (used s) (scan_fuel_enough _ _)) as [i Hi].
  destruct (scan_terminates _ 1 (used s) (scan_fuel_enough _ _)) as [j Hj].
  rewrite Hi, Hj. f_equal.
  destruct (scan_some _ _ _ _ Hi) as (Hle & Hni & Hbet).
  destruct (scan_some _ _ _ _ Hj) as (Hle' & Hnj & Hbet').
  destruct (Z.lt_trichotomy i j) as [Hlt|[->|Hgt]]; [|done|].
  - exfalso. apply Hni, Hbet'. lia.
  - exfalso. apply Hnj. destruct (decide (j < pos s)); [apply Hall; lia|apply Hbet; lia].
Qed.

Lemma least_free_spec u i : least_free u = Some i → 0 < i ∧ i ∉ u ∧ ∀ j, 1 ≤ j < i → j ∈ u.
Proof. intros H. destruct (scan_some _ _ _ _ H) as (? & ? & ?). repeat split; [lia|done|done]. Qed.

Lemma least_free_total u : is_Some (least_free u).
Proof. apply scan_terminates, scan_fuel_enough. Qed.

(** One allocation of the implementation model = one allocation of the set specification. *)
Lemma get_id_refines d s : Inv s →
  (λ '(i, s'), (i, used s')) <$> get_id d s = spec_get d (used s).
Proof.
  intros HI. unfold get_id, spec_get. destruct (decide _); [done|].
  rewrite (scan_hint_irrelevant s HI). destruct (least_free (used s)); done.
Qed.

(** When the desired ID is not honoured the result is the least free positive ID. *)
Lemma get_id_least d s i s' : Inv s → get_id d s = Some (i, s') → ¬ (0 < d ∧ d ∉ used s) →
  ∀ j, 1 ≤ j < i → j ∈ used s.
Proof.
  intros HI H Hn. pose proof (get_id_refines d s HI) as R. rewrite H in R. simpl in R.
  unfold spec_get in R. destruct (decide _); [done|].
  destruct (least_free (used s)) as [k|] eqn:E; [|done]. injection R as -> _.
  by destruct (least_free_spec _ _ E) as (_ & _ & ?).
Qed.

Lemma step_inv s o : Inv s → Inv (step true s o).1.
Proof.
  intros HI. destruct o as [d|e|e| |e|]; simpl; try done.
  - destruct (get_id d s) as [[i s']|] eqn:E; [|done]. simpl.
    by destruct (get_id_fresh _ _ _ _ HI E) as (_ & _ & _ & ?).
  - by apply discard_inv.
  - unfold remove_g. destruct (decide _); simpl; [by apply discard_inv|done].
  - apply init_inv.
Qed.

Lemma step_refines s o : Inv s →
  let '(s', z) := step true s o in spec_step (used s) o = (used s', z).
Proof.
  intros HI. destruct o as [d|e|e| |e|]; simpl; try done.
  - pose proof (get_id_refines d s HI) as R.
    destruct (get_id d s) as [[i s']|]; simpl in R; rewrite <- R; done.
  - unfold remove_g. destruct (decide _); done.
Qed.

(** Refinement: started in any state satisfying the invariant, every operation sequence yields exactly the
    results of the set specification started from the set of used IDs.  The hint never shows. *)
Theorem idman_refines_set ops : ∀ s, Inv s → run_res true s ops = spec_run (used s) ops.
Proof.
  induction ops as [|o r IH]; intros s HI; simpl; [done|].
  pose proof (step_refines s o HI) as R. pose proof (step_inv s o HI) as HI'.
  destruct (step true s o) as [s' z]. rewrite R. simpl in HI'. by rewrite IH.
Qed.

(** Two allocator states with the same set of used IDs are indistinguishable, whatever their hints. *)
Corollary hint_unobservable ops s1 s2 : Inv s1 → Inv s2 → used s1 = used s2 →
  run_res true s1 ops = run_res true s2 ops.
Proof. intros H1 H2 E. rewrite !idman_refines_set by done. by rewrite E. Qed.

Lemma init_from_inv l : Inv (init_from l).
Proof. split; simpl; [lia|]. intros; lia. Qed.

(** [run] is [run_res] followed by the final hint. *)
Lemma run_run_res g ops : ∀ s, ∃ p, run g s ops = run_res g s ops ++ [p].
Proof.
  induction ops as [|o r IH]; intros s; simpl; [by exists (pos s)|].
  destruct (step g s o) as [s' z]. destruct (IH s') as [p ->]. by exists p.
Qed.

(** The hint does matter without the invariant: a state whose hint overshoots a free ID hands out a larger one
    (this is why every release must lower the hint). *)
Example hint_observable_without_invariant :
  run_res true {| used := ∅; pos := 5 |} [Get (-1)] = [5] ∧ spec_run ∅ [Get (-1)] = [1].
Proof. split; vm_compute; reflexivity. Qed.
