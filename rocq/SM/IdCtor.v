(** Round 5: constructors that FAIL half-way, and the destructor of the half-built object.

    The constructor of an ID-bearing class is a list of steps read from the source (translate/c08_ctor.py ->
    Gen/IdSites_gen.v; for attrs classes the steps of the generated [__init__]: one store per field in declaration order,
    converters inside the stores, validators after the stores, then [__attrs_post_init__]):
      [CStoreRaw]  [self.id = <the value the caller asked for>]  -- nothing is registered with the manager yet
      [CMayRaise]  a statement that can raise (a converter, a validator, a call into other code)
      [CRegister]  [self.id = <manager>.get_id(<desired>)]
      [CSetOwned]  a flag is set that the destructor tests before it releases.
    A constructor call either runs to completion or raises at one of its [CMayRaise] steps; the caller may catch the
    exception and carry on.  The half-built object is destroyed some time later (when the traceback goes): the destructor
    releases WHATEVER [self.id] HOLDS -- unless the class has no releasing destructor, or the destructor is guarded by the flag. *)
From stdpp Require Import gmap sets list.
From Coq Require Import ZArith.
From SV Require Import SM.IdMan.
Open Scope Z_scope.

Inductive cstep := CStoreRaw | CMayRaise | CRegister | CSetOwned.

(** The part of a (possibly half-built) object that matters: what [self.id] holds (if the slot is set at all), whether
    that value was handed out by the manager to this object, and the ownership flag. *)
Record half := { hid : option Z; hreg : bool; hown : bool }.
Definition h0 : half := {| hid := None; hreg := false; hown := false |}.

(** [crun steps fail d h m]: run the steps with desired ID [d]; [fail = Some n]: the [n]-th [CMayRaise] step (from 0) raises;
    [None] (or an index beyond the last one): no step raises.  Result: the object, the manager, "ran to completion". *)
Fixpoint crun (l : list cstep) (fail : option nat) (d : Z) (h : half) (m : idman) : half * idman * bool :=
  match l with
  | [] => (h, m, true)
  | CStoreRaw :: r => crun r fail d {| hid := Some d; hreg := false; hown := hown h |} m
  | CMayRaise :: r =>
      match fail with
      | Some O => (h, m, false)
      | Some (S n) => crun r (Some n) d h m
      | None => crun r None d h m
      end
  | CRegister :: r =>
      match get_id (default d (hid h)) m with
      | Some (i, m') => crun r fail d {| hid := Some i; hreg := true; hown := hown h |} m'
      | None => (h, m, false)         (* unreachable: get_id is total *)
      end
  | CSetOwned :: r => crun r fail d {| hid := hid h; hreg := hreg h; hown := true |} m
  end.

Record cobj := { ch : half; cdone : bool; calive : bool }.
Record cworld := { cman : idman; cobjs : list cobj }.
Definition cw0 : cworld := {| cman := init; cobjs := [] |}.

Inductive cev :=
| KNew (d : Z) (fail : option nat)   (* a constructor call with desired ID [d]; raises at the given point or completes *)
| KDel (k : nat)                     (* the [k]-th object (complete or half-built) is destroyed *)
| KAlias (k : nat).                  (* copy.copy() of the [k]-th object when the class leaves that to the default protocol: a second
                                        complete object with the same fields -- same ID, same flag -- that registered nothing *)

Section ctor.
  Variable steps : list cstep.
  Variable del_releases : bool.    (* the class has a destructor that releases [self.id] *)
  Variable del_guarded : bool.     (* ... only when the ownership flag is set *)
  Variable shallow_alias : bool.   (* copy.copy() duplicates the fields instead of going through copy() / the constructor *)

  Definition releasable (h : half) : bool := del_releases && (negb del_guarded || hown h).
  (** The destructor: a slot that was never set makes it raise AttributeError, which CPython prints and ignores. *)
  Definition cdel (h : half) (m : idman) : idman :=
    if releasable h then match hid h with Some i => discard i m | None => m end else m.

  Definition kstep (w : cworld) (e : cev) : cworld :=
    match e with
    | KNew d f =>
        let '(h, m, ok) := crun steps f d h0 (cman w) in
        {| cman := m; cobjs := cobjs w ++ [ {| ch := h; cdone := ok; calive := true |} ] |}
    | KDel k =>
        match cobjs w !! k with
        | Some o => if calive o
                    then {| cman := cdel (ch o) (cman w);
                            cobjs := <[k := {| ch := ch o; cdone := cdone o; calive := false |}]> (cobjs w) |}
                    else w
        | None => w
        end
    | KAlias k =>
        match cobjs w !! k with
        | Some o => if shallow_alias && calive o && cdone o
                    then {| cman := cman w; cobjs := cobjs w ++ [ {| ch := ch o; cdone := true; calive := true |} ] |}
                    else w
        | None => w
        end
    end.
  Definition krun (es : list cev) : cworld := fold_left kstep es cw0.

  (** The decisive shape, as a boolean on the step list: at every point where the constructor can raise, and at its end, the
      destructor would not release an ID that [self.id] holds unregistered; and a completed object holds a registered ID. *)
  Fixpoint cscan (l : list cstep) (pending reg own : bool) : bool :=
    match l with
    | [] => reg
    | CStoreRaw :: r => cscan r true false own
    | CMayRaise :: r => negb (pending && del_releases && (negb del_guarded || own)) && cscan r pending reg own
    | CRegister :: r => cscan r false true own
    | CSetOwned :: r => cscan r pending reg true
    end.
  Definition ctor_ok : bool := cscan steps false false false.
End ctor.

(** IDs of the objects whose constructor completed and that still exist. *)
Definition kid (o : cobj) : option Z := if cdone o && calive o then hid (ch o) else None.
Definition klive (w : cworld) : list Z := omap kid (cobjs w).

(** The states (slot set?, registered?, flag set?) in which a constructor call can be abandoned: one per [CMayRaise] step.  The
    harness observes the half-built object of every failing call (through the traceback) and asks that its state be one of these,
    and that the destructor released its ID exactly when the model's does. *)
Fixpoint fail_states (l : list cstep) (has reg own : bool) : list (bool * bool * bool) :=
  match l with
  | [] => []
  | CStoreRaw :: r => fail_states r true false own
  | CMayRaise :: r => (has, reg, own) :: fail_states r has reg own
  | CRegister :: r => fail_states r true true own
  | CSetOwned :: r => fail_states r has reg true
  end.
Definition half_abs (h : half) : bool * bool * bool := (bool_decide (is_Some (hid h)), hreg h, hown h).
