(** C18 — the whole property in one place (round 4).

    [source]: everything the translators read from /repo/src/srctools on every run (guard of _resolve_path, constructor
    facts, the table of OS calls of RawFileSystem, OS calls found in File / FileSystem / FileSystemChain themselves, the
    chain's calls into members, the entry points RawFileSystem inherits, the censuses over filesys.py and over the whole
    package).  [source_ok] is the conjunction of the named booleans the check discharges as instance obligations.

    [step]: one call made by user code at some point of a history: on which RawFileSystem object it lands (root argument,
    flag), through which route (a list of hops: entry points such as [fs[name]], [name in fs], [fs.read_kv1(x)],
    [File.open_bin()], and FileSystemChain calls with their prefixes — nested chains are several chain hops), which OS call
    of the member it reaches and the strings involved (argument, File handle strings — arbitrary, e.g. a handle any other
    object produced earlier).  A memo table under any entry-dropping policy is threaded through the history.

    Symbolic links: [real] resolves a segment list through a link table component by component (what the kernel and
    os.path.realpath do).  _resolve_path uses os.path.abspath, which never consults the file system: containment is
    LEXICAL.  SM/PathPropertyProofs.v proves that lexical containment is real containment when no directory entry strictly
    below the root on the way is a link, and refutes it with a link inside the root. *)
From Coq Require Import List NArith Bool String.
From SV Require Import SM.PathNorm SM.PathOps SM.PathMemo SM.PathHistory.
Import ListNotations.

Definition triples := list (string * string * string).
Definition nilb {A} (l : list A) : bool := match l with [] => true | _ => false end.

Record source := {
  src_guard : gx;                      (* condition under which _resolve_path raises RootEscapeError *)
  src_root_abs : bool;                 (* __init__ stores os.path.abspath(path) *)
  src_root_reassigned : bool;          (* some method of the class assigns self.path *)
  src_flag_ctor : bool;                (* self.constrain_path is the constructor argument, assigned nowhere else *)
  src_ctor_sig : bool;                 (* RawFileSystem.__init__(self, path, constrain_path=True), nothing else *)
  src_sites : list site;               (* every OS call of RawFileSystem with its path expression *)
  src_other : triples;                 (* OS calls inside File / FileSystem / FileSystemChain themselves *)
  src_chain : list ccall;              (* FileSystemChain -> member calls *)
  src_entries : list ccall;            (* inherited entry points and File methods -> file-system method calls *)
  src_entry_unread : triples;          (* entry points the reader could not read *)
  src_census : list triples            (* wrappers, shared state, foreign patches, foreign subclasses, decorator origins,
                                          cached foreign functions, per-object state: all wanted empty *)
}.

(** An OS call found outside RawFileSystem is a site about whose argument nothing is known: not validated. *)
Definition foreign_site (x : string * string * string) : site :=
  {| st_method := snd (fst x); st_callee := snd x; st_branch := "str"; st_arg := PArg |}.
Definition all_sites (s : source) : list site := src_sites s ++ map foreign_site (src_other s).

(** every hop lands on a method that has an OS call or on another hop *)
Definition lands (s : source) (c : ccall) : bool :=
  existsb (fun x => String.eqb (st_method x) (cc_member c)) (src_sites s)
  || existsb (fun e => String.eqb (cc_method e) (cc_member c)) (src_entries s ++ src_chain s).

Definition guard_ok (s : source) : bool := raise_sound (src_guard s).
Definition calls_ok (s : source) : bool := sites_ok (all_sites s).
Definition ctor_ok (s : source) : bool :=
  src_root_abs s && negb (src_root_reassigned s) && src_flag_ctor s && src_ctor_sig s.
Definition routes_ok (s : source) : bool :=
  forallb (lands s) (src_entries s ++ src_chain s) && nilb (src_entry_unread s).
Definition census_ok (s : source) : bool := forallb nilb (src_census s).
Definition source_ok (s : source) : bool := guard_ok s && calls_ok s && ctor_ok s && routes_ok s && census_ok s.

(** ------------------------------------------------------------------ steps *)
Record hop := { h_call : ccall; h_prefix : str }.
Record step := { sp_root : str; sp_con : bool; sp_route : list hop; sp_site : site; sp_in : inp }.

Definition with_arg (i : inp) (a : str) : inp :=
  {| i_arg := a; i_data := i_data i; i_hpath := i_hpath i; i_prefix := i_prefix i; i_walked := i_walked i |}.
Definition with_prefix (i : inp) (p : str) : inp :=
  {| i_arg := i_arg i; i_data := i_data i; i_hpath := i_hpath i; i_prefix := p; i_walked := i_walked i |}.

(** the argument string after the route ([None]: computing it raised) *)
Fixpoint route_in (g : gx) (cwd root_arg : str) (con : bool) (i : inp) (hops : list hop) : option inp :=
  match hops with
  | [] => Some i
  | h :: r =>
      match peval g con cwd root_arg (with_prefix i (h_prefix h)) (cc_arg (h_call h)) with
      | Some a => route_in g cwd root_arg con (with_arg (with_prefix i (h_prefix h)) a) r
      | None => None
      end
  end.

Definition step_op (g : gx) (cwd : str) (st : step) : option opcall :=
  match route_in g cwd (sp_root st) (sp_con st) (sp_in st) (sp_route st) with
  | Some i => Some {| oc_root := sp_root st; oc_con := sp_con st; oc_site := sp_site st; oc_in := i |}
  | None => None
  end.

(** what each step of a history hands to the OS, the memo table threaded through *)
Fixpoint prop_run (wf : bool) (g : gx) (cwd : str) (evict : cache -> cache) (c : cache) (steps : list step)
  : list (option str) :=
  match steps with
  | [] => []
  | st :: rest =>
      match step_op g cwd st with
      | None => None :: prop_run wf g cwd evict c rest
      | Some op =>
          let '(c', v) := peval_m wf g cwd evict c (oc_root op) (oc_con op) (oc_in op) (st_arg (oc_site op)) in
          v :: prop_run wf g cwd evict c' rest
      end
  end.

(** the same step on its own, without any table *)
Definition step_plain (g : gx) (cwd : str) (st : step) : option str :=
  match step_op g cwd st with Some op => op_plain g cwd op | None => None end.

Definition step_covered (wf : bool) (st : step) : bool := wf || sp_con st.

(** a route whose hops are taken from the source and are linked: each hop calls the next, the last calls the site's method *)
Fixpoint linked (target : string) (hops : list hop) : bool :=
  match hops with
  | [] => true
  | [h] => String.eqb (cc_member (h_call h)) target
  | h :: ((h2 :: _) as r) => String.eqb (cc_member (h_call h)) (cc_method (h_call h2)) && linked target r
  end.

(** What calling entry point [name] (dynamic branch [b]: "str" / "File") hands to the OS, following the generated table of
    entry points down to the access sites: the accesses of the method itself plus those of every method it delegates to.
    Compared with the audit-hook observation by the check (ties Gen/FsCensus_gen.v [entry_points] to the implementation). *)
Fixpoint entry_accesses (fuel : nat) (g : gx) (cwd root_arg : str) (entries : list ccall) (sites : list site)
                        (name b : string) (i : inp) : list (string * str) :=
  match fuel with
  | O => []
  | S k =>
      site_accesses g cwd root_arg i name b sites ++
      flat_map (fun e =>
        if (String.eqb (cc_method e) name && Bool.eqb (reads_handle (cc_arg e)) (String.eqb b "File"))%bool
        then match peval g true cwd root_arg i (cc_arg e) with
             | Some a => entry_accesses k g cwd root_arg entries sites (cc_member e) b (with_arg i a)
             | None => []
             end
        else []) entries
  end.

(** the os.walk contract (the OS is outside the model) *)
Definition walk_contract (os_walk : str -> list (str * list str)) : Prop :=
  forall top d fs, In (d, fs) (os_walk top) ->
    (exists names, forallb entry_nameb names = true /\ d = descend top names) /\ forallb entry_nameb fs = true.

(** ------------------------------------------------------------------ symbolic links *)
(** [lnk p = Some t]: the directory entry whose absolute segment path is [p] is a symbolic link to the absolute
    segment list [t].  [real fuel done todo]: resolve [todo] below the already resolved [done], entry by entry. *)
Fixpoint real (lnk : list str -> option (list str)) (fuel : nat) (done todo : list str) : option (list str) :=
  match fuel with
  | O => None
  | S k =>
      match todo with
      | [] => Some done
      | c :: r =>
          match lnk (done ++ [c]) with
          | Some t => real lnk k [] (t ++ r)
          | None => real lnk k (done ++ [c]) r
          end
      end
  end.

(** no entry strictly below [base] on the way along [rest] is a link *)
Fixpoint link_free (lnk : list str -> option (list str)) (base rest : list str) : Prop :=
  match rest with
  | [] => True
  | c :: r => lnk (base ++ [c]) = None /\ link_free lnk (base ++ [c]) r
  end.

(** ------------------------------------------------------------------ inputs with drive letters / UNC prefixes / NUL *)
(** Nothing in the model treats ':' or NUL or a leading '\\' specially: they are ordinary characters of a name (POSIX).
    [plain_name c]: a segment that contains no separator and is not '', '.', '..' — whatever else it contains. *)
Definition plain_name (c : str) : bool := entry_nameb c.
