(** Proofs about SM/AtomicExit.v: a protocol in the five-flag family is [proto_of_cfg] of its derived flags; the tree
    machine on [proto_of_cfg c] and the flag machine on [c] are bisimilar (same directory, same trace, related program
    counters at every step of every schedule); hence every theorem of AtomicWriterThms.v holds for every generated
    exit program whose trees are in the family. *)
From Coq Require Import List Bool Arith PeanoNat Lia.
From SV Require Import SM.AtomicWriter SM.AtomicWriterProofs SM.AtomicWriterThms SM.AtomicExit.
Import ListNotations.

Lemma xtree_eqb_eq a : forall b, xtree_eqb a b = true -> a = b.
Proof.
  induction a; destruct b; cbn; intros H; try discriminate; auto.
  - apply eqb_prop in H. now subst.
  - apply andb_prop in H as [H1 H2]. f_equal; auto.
  - apply andb_prop in H as [H12 H3]. apply andb_prop in H12 as [H1 H2]. f_equal; auto.
  - apply andb_prop in H as [H12 H3]. apply andb_prop in H12 as [H1 H2]. f_equal; auto.
Qed.

Lemma in_family_eq x : in_family x = true -> x = proto_of_cfg (derive_cfg x).
Proof.
  unfold in_family. intros H. apply andb_prop in H as [H1 H2].
  apply xtree_eqb_eq in H1. apply xtree_eqb_eq in H2.
  destruct x as [e o x']. unfold proto_of_cfg. cbn [x_excl x_ok x_exc] in *. now rewrite <- H1, <- H2.
Qed.

Lemma xtree_eqb_refl a : xtree_eqb a a = true.
Proof. induction a; cbn; rewrite ?IHa1, ?IHa2, ?IHa3; auto. now destruct raised. Qed.

(** Every member of the family is recognised: [derive_cfg] inverts [proto_of_cfg] up to the irrelevant flag
    (c_replace_guard when nothing is ever renamed). *)
Lemma family_complete c : in_family (proto_of_cfg c) = true.
Proof.
  destruct c as [e cg rg ok ex]. unfold in_family.
  destruct cg, rg, ok, ex; cbn; now rewrite ?xtree_eqb_refl.
Qed.

(** ** One-step simulation *)
Inductive R (c : cfg) : pct -> pc -> Prop :=
| R_mkdir : R c TMkdir PMkdir
| R_open i : R c (TOpen i) (POpen i)
| R_body i k : R c (TBody i k) (PBody i k)
| R_tail i j : R c (TTail i j) (PTail i j)
| R_close i exc failed : R c (TExit i (close_tree c exc) failed false false) (PCloseFd i exc failed)
| R_replace i r g : R c (TExit i (replace_tree c r) false g false) (PReplace i)
| R_unlink i r g : R c (TExit i (unlink_tree r) false g false) (PUnlink i)
| R_done r l b : R c (TDone r l b) (PDone r l).
#[local] Hint Constructors R : core.

Lemma R_after_fail c i guard g :
  R c (settle i (after_fail guard) false g false) (if guard then PUnlink i else PDone FNot (if g then None else Some i)).
Proof. destruct guard; cbn; auto. Qed.

Lemma R_act c i a r :
  R c (settle i (act_tree c a r) false false false) (act_pc a i).
Proof. destruct a; cbn; auto. Qed.

Lemma R_after_tail c s i j : R c (aftert_tail (proto_of_cfg c) s i j) (after_tail s i j).
Proof.
  unfold aftert_tail, after_tail. destruct (j <? length (tail s)); [constructor|].
  exact (R_close c i false false).
Qed.

Lemma R_after_body c s i k : R c (aftert_body (proto_of_cfg c) s i k) (after_body s i k).
Proof.
  unfold aftert_body, after_body. destruct (raises_here s k); [exact (R_close c i true false)|].
  destruct (k <? length (body s)); auto using R_after_tail.
Qed.

Lemma wstept_sim c s pt p d f : R c pt p ->
  forall pt' d' e p' d'' e',
  wstept (proto_of_cfg c) s pt d f = (pt', d', e) -> wstep c s p d f = (p', d'', e') ->
  d' = d'' /\ e = e' /\ R c pt' p'.
Proof.
  intros HR pt' d' e p' d'' e' Ht Hw. destruct HR; cbn [wstept wstep] in Ht, Hw.
  - destruct f; inversion Ht; inversion Hw; subst; auto.
  - destruct f; [inversion Ht; inversion Hw; subst; auto|].
    cbn [proto_of_cfg x_excl] in Ht.
    destruct (c_excl c && is_some (d (Tmp i))); inversion Ht; inversion Hw; subst; auto using R_after_body.
  - destruct f; inversion Ht; inversion Hw; subst; cbn; auto using R_after_body.
  - destruct f; inversion Ht; inversion Hw; subst; cbn; auto using R_after_tail.
  - unfold close_tree in Ht. destruct (f || failed) eqn:Hff.
    + inversion Ht; inversion Hw; subst. repeat split; auto.
      pose proof (R_after_fail c i (c_close_guard c) false) as HH. exact HH.
    + apply orb_false_elim in Hff as [-> ->].
      inversion Ht; inversion Hw; subst. repeat split; auto. apply R_act.
  - unfold replace_tree in Ht. destruct f.
    + inversion Ht; inversion Hw; subst. repeat split; auto.
      pose proof (R_after_fail c i (c_replace_guard c) false) as HH. exact HH.
    + destruct (d (Tmp i)).
      * inversion Ht; inversion Hw; subst. cbn. auto.
      * inversion Ht; inversion Hw; subst. repeat split; auto.
        pose proof (R_after_fail c i (c_replace_guard c) true) as HH. exact HH.
  - unfold unlink_tree in Ht. destruct f.
    + inversion Ht; inversion Hw; subst. cbn. auto.
    + destruct (d (Tmp i)); inversion Ht; inversion Hw; subst; cbn; auto.
  - inversion Ht; inversion Hw; subst; auto.
Qed.

(** ** Whole runs *)
Definition Rsys (c : cfg) (a : syst) (b : sys) : Prop :=
  sdt a = sd b /\ trt a = tr b /\ R c (q1 a) (p1 b) /\ R c (q2 a) (p2 b).

Lemma step2t_sim c s1 s2 a b wf : Rsys c a b -> Rsys c (step2t (proto_of_cfg c) s1 s2 a wf) (step2 c s1 s2 b wf).
Proof.
  intros (Hd & Ht & H1 & H2). destruct wf as [who f]. unfold step2t, step2. rewrite <- Hd.
  destruct who.
  - destruct (wstept (proto_of_cfg c) s2 (q2 a) (sdt a) f) as [[pt' d'] e] eqn:E1.
    destruct (wstep c s2 (p2 b) (sdt a) f) as [[p' d''] e'] eqn:E2.
    destruct (wstept_sim c s2 _ _ _ f H2 _ _ _ _ _ _ E1 E2) as (-> & -> & HR).
    unfold Rsys; cbn. rewrite Ht. auto.
  - destruct (wstept (proto_of_cfg c) s1 (q1 a) (sdt a) f) as [[pt' d'] e] eqn:E1.
    destruct (wstep c s1 (p1 b) (sdt a) f) as [[p' d''] e'] eqn:E2.
    destruct (wstept_sim c s1 _ _ _ f H1 _ _ _ _ _ _ E1 E2) as (-> & -> & HR).
    unfold Rsys; cbn. rewrite Ht. auto.
Qed.

Lemma run2t_sim c s1 s2 sched : forall a b, Rsys c a b ->
  Rsys c (run2t (proto_of_cfg c) s1 s2 sched a) (run2 c s1 s2 sched b).
Proof.
  induction sched as [|wf sched IH]; intros a b H; cbn; auto.
  apply IH. now apply step2t_sim.
Qed.

Lemma Rsys_start c d0 : Rsys c (startt d0) (start d0).
Proof. unfold Rsys; cbn; auto. Qed.
Lemma Rsys_start1 c d0 : Rsys c (start1t d0) (start1 d0).
Proof. unfold Rsys; cbn; auto. Qed.

Lemma R_committed c pt p : R c pt p -> committedt pt = committed p.
Proof. destruct 1; reflexivity. Qed.
Lemma R_finished c pt p : R c pt p -> finishedt pt = finished p.
Proof. destruct 1; reflexivity. Qed.
Lemma R_assoc c pt p : R c pt p -> assoct pt = assoc p.
Proof. destruct 1; reflexivity. Qed.
Lemma R_about_to_replace c pt p i : R c pt p -> about_to_replace pt i -> p = PReplace i.
Proof.
  intros HR (ok & fl & ne & fd & g & r & ->). inversion HR; subst; auto.
Qed.

(** The refinement theorem: for a protocol in the family, every run of the tree machine is a run of the flag machine
    with the derived flags — same directory, same trace, related program counters. *)
Theorem run2t_refines x : in_family x = true -> forall d0 s1 s2 sched,
  Rsys (derive_cfg x) (run2t x s1 s2 sched (startt d0)) (run2 (derive_cfg x) s1 s2 sched (start d0)).
Proof.
  intros H d0 s1 s2 sched. pose proof (in_family_eq x H) as E.
  rewrite E at 2. apply run2t_sim, Rsys_start.
Qed.

Theorem alonet_refines x : in_family x = true -> forall d0 s faults,
  Rsys (derive_cfg x) (alonet x s faults d0) (alone (derive_cfg x) s faults d0).
Proof.
  intros H d0 s faults. pose proof (in_family_eq x H) as E. unfold alonet, alone.
  rewrite E at 2. apply run2t_sim, Rsys_start1.
Qed.

(** ** The property for every generated protocol *)
Section Transfer.
Variable x : xproto.
Variables (d0 : dir) (s1 s2 : scen).
Hypothesis Hdest : dest s1 <> dest s2.

Lemma psafe_family : proto_safe x = true -> in_family x = true /\ cfg_safe (derive_cfg x) = true.
Proof. unfold proto_safe. intros H. now apply andb_prop in H. Qed.
Lemma pok_family : proto_ok x = true -> in_family x = true /\ cfg_ok (derive_cfg x) = true.
Proof. unfold proto_ok. intros H. now apply andb_prop in H. Qed.

Theorem proto_crash_atomic : proto_safe x = true -> forall sched,
  let st := run2t x s1 s2 sched (startt d0) in
  sdt st (File (dest s1)) = (if committedt (q1 st) then Some (new s1) else d0 (File (dest s1))) /\
  sdt st (File (dest s2)) = (if committedt (q2 st) then Some (new s2) else d0 (File (dest s2))).
Proof.
  intros H sched st. destruct (psafe_family H) as [Hf Hs].
  destruct (run2t_refines x Hf d0 s1 s2 sched) as (Hd & _ & H1 & H2). fold st in Hd, H1, H2.
  rewrite Hd, (R_committed _ _ _ H1), (R_committed _ _ _ H2).
  exact (crash_atomic (derive_cfg x) d0 s1 s2 Hdest Hs sched).
Qed.

Theorem proto_fault_keeps_old : proto_safe x = true -> forall sched,
  let st := run2t x s1 s2 sched (startt d0) in
  faulted false (trt st) -> committedt (q1 st) = false /\ sdt st (File (dest s1)) = d0 (File (dest s1)).
Proof.
  intros H sched st. destruct (psafe_family H) as [Hf Hs].
  destruct (run2t_refines x Hf d0 s1 s2 sched) as (Hd & Ht & H1 & H2). fold st in Hd, Ht, H1, H2.
  rewrite Hd, Ht, (R_committed _ _ _ H1).
  exact (fault_keeps_old (derive_cfg x) d0 s1 s2 Hdest Hs sched).
Qed.

Theorem proto_body_exception_keeps_old : proto_safe x = true -> forall r sched,
  raise_at s1 = Some r -> r <= length (body s1) ->
  let st := run2t x s1 s2 sched (startt d0) in
  committedt (q1 st) = false /\ sdt st (File (dest s1)) = d0 (File (dest s1)).
Proof.
  intros H r sched Hr Hle st. destruct (psafe_family H) as [Hf Hs].
  destruct (run2t_refines x Hf d0 s1 s2 sched) as (Hd & Ht & H1 & H2). fold st in Hd, Ht, H1, H2.
  rewrite Hd, (R_committed _ _ _ H1).
  exact (body_exception_keeps_old (derive_cfg x) d0 s1 s2 Hdest Hs r sched Hr Hle).
Qed.

Theorem proto_no_temp_after_handled_failure : proto_ok x = true -> forall sched,
  let st := run2t x s1 s2 sched (startt d0) in
  finishedt (q1 st) = true -> (forall i, ~ In (false, (EUnlink i, RFault)) (trt st)) ->
  assoct (q1 st) = None /\ forall i, assoct (q2 st) <> Some i -> sdt st (Tmp i) = d0 (Tmp i).
Proof.
  intros H sched st. destruct (pok_family H) as [Hf Hs].
  destruct (run2t_refines x Hf d0 s1 s2 sched) as (Hd & Ht & H1 & H2). fold st in Hd, Ht, H1, H2.
  rewrite Hd, Ht, (R_finished _ _ _ H1), (R_assoc _ _ _ H1), (R_assoc _ _ _ H2).
  exact (no_temp_after_handled_failure (derive_cfg x) d0 s1 s2 Hdest Hs sched).
Qed.

Theorem proto_two_writers_isolated : proto_safe x = true -> forall sched,
  let st := run2t x s1 s2 sched (startt d0) in
  (forall i, assoct (q1 st) = Some i -> assoct (q2 st) = Some i -> False) /\
  (forall i, assoct (q1 st) = Some i \/ assoct (q2 st) = Some i -> d0 (Tmp i) = None /\ sdt st (Tmp i) <> None) /\
  (forall i, about_to_replace (q1 st) i -> sdt st (Tmp i) = Some (new s1)) /\
  (forall i, about_to_replace (q2 st) i -> sdt st (Tmp i) = Some (new s2)) /\
  (forall n, n <> File (dest s1) -> n <> File (dest s2) -> d0 n <> None -> sdt st n = d0 n).
Proof.
  intros H sched st. destruct (psafe_family H) as [Hf Hs].
  destruct (run2t_refines x Hf d0 s1 s2 sched) as (Hd & Ht & H1 & H2). fold st in Hd, Ht, H1, H2.
  destruct (two_writers_isolated (derive_cfg x) d0 s1 s2 Hdest Hs sched) as (A & B & C & D & E).
  rewrite Hd, (R_assoc _ _ _ H1), (R_assoc _ _ _ H2). repeat split; auto.
  - apply (B i); auto.
  - apply (B i); auto.
  - intros i Hi. apply C. eapply R_about_to_replace; eauto.
  - intros i Hi. apply D. eapply R_about_to_replace; eauto.
Qed.
End Transfer.

Section TransferAlone.
Variable x : xproto.
Variables (d0 : dir) (s : scen).

Theorem proto_alone_crash_atomic : proto_safe x = true -> forall faults,
  let st := alonet x s faults d0 in
  sdt st (File (dest s)) = (if committedt (q1 st) then Some (new s) else d0 (File (dest s))).
Proof.
  intros H faults st. destruct (psafe_family x H) as [Hf Hs].
  destruct (alonet_refines x Hf d0 s faults) as (Hd & _ & H1 & _). fold st in Hd, H1.
  rewrite Hd, (R_committed _ _ _ H1). exact (alone_crash_atomic (derive_cfg x) d0 s Hs faults).
Qed.

Theorem proto_alone_fault_keeps_old : proto_safe x = true -> forall faults,
  let st := alonet x s faults d0 in
  faulted false (trt st) -> committedt (q1 st) = false /\ sdt st (File (dest s)) = d0 (File (dest s)).
Proof.
  intros H faults st. destruct (psafe_family x H) as [Hf Hs].
  destruct (alonet_refines x Hf d0 s faults) as (Hd & Ht & H1 & _). fold st in Hd, Ht, H1.
  rewrite Hd, Ht, (R_committed _ _ _ H1). exact (alone_fault_keeps_old (derive_cfg x) d0 s Hs faults).
Qed.

Theorem proto_alone_body_exception_cleans : proto_ok x = true -> forall r faults,
  raise_at s = Some r -> r <= length (body s) ->
  let st := alonet x s faults d0 in
  sdt st (File (dest s)) = d0 (File (dest s)) /\
  (finishedt (q1 st) = true -> (forall i, ~ In (false, (EUnlink i, RFault)) (trt st)) -> forall n, sdt st n = d0 n).
Proof.
  intros H r faults Hr Hle st. destruct (pok_family x H) as [Hf Hs].
  destruct (alonet_refines x Hf d0 s faults) as (Hd & Ht & H1 & _). fold st in Hd, Ht, H1.
  rewrite Hd, Ht, (R_finished _ _ _ H1).
  exact (alone_body_exception_cleans (derive_cfg x) d0 s Hs r faults Hr Hle).
Qed.

Theorem proto_alone_no_temp_left : proto_ok x = true -> forall faults,
  let st := alonet x s faults d0 in
  finishedt (q1 st) = true -> (forall i, ~ In (false, (EUnlink i, RFault)) (trt st)) ->
  forall i, sdt st (Tmp i) = d0 (Tmp i).
Proof.
  intros H faults st. destruct (pok_family x H) as [Hf Hs].
  destruct (alonet_refines x Hf d0 s faults) as (Hd & Ht & H1 & _). fold st in Hd, Ht, H1.
  rewrite Hd, Ht, (R_finished _ _ _ H1). exact (alone_no_temp_left (derive_cfg x) d0 s Hs faults).
Qed.

(** BSP.save: if the rebuild phase raises, nothing at all happens in the directory; otherwise the writer's
    guarantees apply. *)
Theorem save_pre_failure_touches_nothing : forall faults,
  let st := save_alone x false s faults d0 in
  (forall n, sdt st n = d0 n) /\ trt st = [] /\ committedt (q1 st) = false.
Proof. intros faults; cbn; auto. Qed.

Theorem save_atomic : proto_safe x = true -> forall pre_ok faults,
  let st := save_alone x pre_ok s faults d0 in
  sdt st (File (dest s)) = (if committedt (q1 st) then Some (new s) else d0 (File (dest s))).
Proof.
  intros H [] faults; [exact (proto_alone_crash_atomic H faults)|reflexivity].
Qed.
End TransferAlone.

(** ** The obligations on trees are implied by membership in the good part of the family (so the named obligations
    are refinements of [proto_ok], not extra demands), and the example programs. *)
Lemma proto_ok_preds x : proto_ok x = true -> forallb (fun b => b) (proto_preds x) = true.
Proof.
  intros H. destruct (pok_family x H) as [Hf Hs]. rewrite (in_family_eq x Hf).
  destruct (derive_cfg x) as [e cg rg ok ex]. unfold cfg_ok, cfg_safe, cfg_clean in Hs. cbn in Hs.
  destruct e, cg, rg, ok, ex; try discriminate; reflexivity.
Qed.

Lemma prog_fixed_ok : proto_ok (proto_of_prog true prog_fixed) = true.
Proof. vm_compute. reflexivity. Qed.
Lemma prog_fixed_cfg : derive_cfg (proto_of_prog true prog_fixed) = cfg_fixed.
Proof. vm_compute. reflexivity. Qed.
Lemma prog_pinned_cfg :
  in_family (proto_of_prog true prog_pinned) = true /\ derive_cfg (proto_of_prog true prog_pinned) = cfg_pinned.
Proof. vm_compute. auto. Qed.

(** Commit decided in a [finally] on [exc_type is None] alone: outside the family, and the tree machine exhibits the
    defect — the flush inside close fails, the truncated temp file is renamed over the destination. *)
Lemma commit_in_finally_refuted :
  let x := proto_of_prog true prog_commit_in_finally in
  in_family x = false /\ no_replace (close_fl (x_ok x)) = false /\
  let st := alonet x sc_a [false; false; false; false; true; false; false] d_old in
  q1 st = TDone FCommitted None true /\ sdt st (File 0) = Some [1; 2] /\ new sc_a = [1; 2; 3] /\ faulted false (trt st).
Proof.
  vm_compute. repeat split; auto. exists (EWrite 1 3). auto 10.
Qed.

Lemma replace_before_close_refuted :
  let x := proto_of_prog true prog_replace_before_close in
  in_family x = false /\ closes_first (x_ok x) = false.
Proof. vm_compute. auto. Qed.

Lemma swallow_refuted :
  let x := proto_of_prog true prog_swallow in
  in_family x = false /\ propagates (x_exc x) true = false.
Proof. vm_compute. auto. Qed.
