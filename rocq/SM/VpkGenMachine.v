(** The state machine assembled from the objects read from the source: [gstep] is [step] of SM/Vpk.v with FileInfo.write run from the
    placement table ([write_info_t]), write_dirfile run as the translated writer program ([wexec]) and reopening run as the translated
    reader program ([rexec]).  VpkGenMachineProofs.v: whenever this machine gives an answer, the hand-written machine gives the same one,
    so the whole-history theorem holds for the generated machine as well.  ([None] also when a version-2 file is reopened: the
    hand-written machine only knows version-1 files, which are the only ones write_dirfile produces.) *)
From Coq Require Import List NArith Bool.
From SV Require Import Fmt.VpkDir Fmt.VpkDirV2 SM.Vpk SM.VpkPlace SM.VpkPlaceTable Fmt.VpkDirProg Fmt.VpkDirRead.
Import ListNotations.
Open Scope N_scope.

Section gm.
  Variable pt : list prow.
  Variable wp : wprog.
  Variable rp : rprog.
  Variable crc : bytes -> N.
  Variable cf : vcfg.

  Definition gdo_write (st : vstate) (k : key) (i : info) (d : bytes) (ix : option N) : option vstate :=
    match write_info_t pt crc cf st i d ix with
    | Some (st', i') => Some (with_tbl st' (aset k i' (tbl st')))
    | None => None
    end.

  Definition gstep (st : vstate) (o : op) : option (vstate * N) :=
    match o with
    | OAdd k d ix =>
        if negb (writable (md st)) then Some (st, rReadOnly)
        else if idx_rejected cf ix then Some (st, rBadIndex)
        else if name_rejected cf k then Some (st, rBadName)
        else match alookup k (tbl st) with
             | Some _ => Some (st, rExists)
             | None => match gdo_write st k (empty_info crc) d ix with Some s => Some (s, rOk) | None => None end
             end
    | OWrite k d ix =>
        match alookup k (tbl st) with
        | None => Some (st, rMissing)
        | Some i =>
            if negb (writable (md st)) then Some (st, rReadOnly)
            else if idx_rejected cf ix then Some (st, rBadIndex)
            else match gdo_write st k i d ix with Some s => Some (s, rOk) | None => None end
        end
    | OSave =>
        if negb (writable (md st)) then Some (st, rReadOnly)
        else match wexec (v_dc cf) (foot st) wp (tree_of (tbl st)) with
             | None => None
             | Some b => Some ({| tbl := tbl st; archs := archs st; foot := foot st; disk := b; md := md st |}, rOk)
             end
    | OReopen MW => step crc cf st o
    | OReopen m =>
        match rexec (v_dc cf) rp (disk st) with
        | None => Some (st, rBadDir)
        | Some (v, es, f) =>
            if v =? 1 then Some ({| tbl := load_table es; archs := archs st; foot := f; disk := disk st; md := m |}, rOk) else None
        end
    | _ => step crc cf st o
    end.

  Fixpoint grun (st : vstate) (ops : list op) : option (vstate * list N) :=
    match ops with
    | [] => Some (st, [])
    | o :: r => match gstep st o with
                | None => None
                | Some (st', c) => match grun st' r with None => None | Some (st'', cs) => Some (st'', c :: cs) end
                end
    end.
End gm.
