(** C05 (b) — the VALUE of a copy: which slot of the source reaches which slot of the result of copy / __copy__ /
    __deepcopy__ / __reduce__ (pickle) / freeze / thaw, and through which conversion.  The table [copy_shapes]
    (Gen/AngleSites_gen.v) is computed by translate/c05_sites.py by running each of these methods symbolically on a
    source object whose slots hold floats (constructor calls, X.__new__ + slot stores, property setters, the matrix
    cell setter and the module-level unpickling helpers are followed).  Definitions only. *)
From Coq Require Import List String Bool.
From SV Require Import SM.FrozenOps SM.FrozenCopy.
Import ListNotations.
Open Scope string_scope.

(** how the value of the source slot is converted on its way *)
Inductive xfer :=
  | TId          (* stored as it is *)
  | TFloat       (* through float() / _coerce_float(): the identity on a float *)
  | TNorm360.    (* through  % 360 % 360  (the Angle constructor and property setters) *)

Definition transfer := list (string * string * xfer).          (* result slot, source slot, conversion *)

Inductive copy_shape :=
  | CSelf                     (* returns the receiver *)
  | CSlots (t : transfer)     (* returns a new object whose slots were stored as listed *)
  | CUnknown.                 (* not understood *)

Definition copy_entry := (string * string * string * copy_shape)%type.    (* class of the source, method, class of the result, shape *)

Definition vec_slots := ["_x"; "_y"; "_z"].
Definition ang_slots := ["_pitch"; "_yaw"; "_roll"].
Definition mat_slots := ["_aa"; "_ab"; "_ac"; "_ba"; "_bb"; "_bc"; "_ca"; "_cb"; "_cc"].
Definition angle_family (c : string) : bool := (c =? "Angle") || (c =? "FrozenAngle").
Definition slots_of (c : string) : list string :=
  if (c =? "Vec") || (c =? "FrozenVec") then vec_slots
  else if angle_family c then ang_slots
  else if (c =? "Matrix") || (c =? "FrozenMatrix") then mat_slots else [].

(** the class a copy-like method must return *)
Definition frozen_twin (c : string) : string :=
  if c =? "Vec" then "FrozenVec" else if c =? "Angle" then "FrozenAngle" else if c =? "Matrix" then "FrozenMatrix" else c.
Definition mutable_twin (c : string) : string :=
  if c =? "FrozenVec" then "Vec" else if c =? "FrozenAngle" then "Angle" else if c =? "FrozenMatrix" then "Matrix" else c.
Definition result_class (c m : string) : string :=
  if m =? "freeze" then frozen_twin c else if m =? "thaw" then mutable_twin c else c.

Definition list_eqb (a b : list string) : bool :=
  (Nat.eqb (List.length a) (List.length b)) && forallb (fun p : string * string => fst p =? snd p) (combine a b).

(** every slot of the result class is stored exactly once, in the canonical order, from the slot of the same name;
    the double modulo only occurs for angles *)
Definition transfer_ok (rc : string) (t : transfer) : bool :=
  list_eqb (map (fun e : string * string * xfer => fst (fst e)) t) (slots_of rc) &&
  forallb (fun e : string * string * xfer =>
             (fst (fst e) =? snd (fst e)) && match snd e with TNorm360 => angle_family rc | _ => true end) t.

Definition shape_entry_ok (e : copy_entry) : bool :=
  let '(c, m, rc, sh) := e in
  negb (Nat.eqb (List.length (slots_of c)) 0) && (rc =? result_class c m) &&
  match sh with
  | CSelf => true
  | CSlots t => transfer_ok rc t
  | CUnknown => false
  end.
Definition copy_shapes_ok (l : list copy_entry) : bool := forallb shape_entry_ok l.
Definition bad_shapes (l : list copy_entry) : list (string * string) :=
  map (fun e : copy_entry => (fst (fst (fst e)), snd (fst (fst e)))) (filter (fun e => negb (shape_entry_ok e)) l).

(** the shape table covers every copy-like entry of the result-kind table, and agrees with it: a method that returns
    the receiver is [RSelf], one that returns a new object is [RFresh] *)
Definition shape_of (l : list copy_entry) (c m : string) : option copy_shape :=
  match find (fun e : copy_entry => (fst (fst (fst e)) =? c) && (snd (fst (fst e)) =? m)) l with
  | Some e => Some (snd e)
  | None => None
  end.
Definition shapes_agree (results : list result_entry) (l : list copy_entry) : bool :=
  forallb (fun r : result_entry =>
             let '(c, m, k) := r in
             if copylike m then
               match shape_of l c m, k with
               | Some CSelf, RSelf => true
               | Some (CSlots _), RFresh => true
               | _, _ => false
               end
             else true) results.

(** methods whose result the mutation census treats as new because of their name must be [RFresh] in every class *)
Definition fresh_names_ok (l : list (string * rkind)) : bool :=
  forallb (fun e : string * rkind => match snd e with RFresh => true | _ => false end) l.

(** the object a transfer builds from the slots of the source *)
Section Value.
  Variable V : Type.
  Variable norm : V -> V.           (* v % 360 % 360 *)
  Variable dflt : V.
  Definition conv (x : xfer) (v : V) : V := match x with TNorm360 => norm v | _ => v end.
  Definition built (t : transfer) (src : string -> V) (s : string) : V :=
    match find (fun e : string * string * xfer => fst (fst e) =? s) t with
    | Some e => conv (snd e) (src (snd (fst e)))
    | None => dflt
    end.
End Value.
