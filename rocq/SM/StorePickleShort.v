(** C09, round 5 — the SHORT form of a pickling pair.  [Output.__getstate__] leaves the optional fields out of the state
    when a test over them fails, and [__setstate__] then restores constants.  Read off the source, per optional field:
    the disjuncts of the "take the long form" test that read the field ([stest]), the constant restored ([sdefault]) and
    the declared type of the field ([stype]).  [short_ok]: for every value of the field's type on which all of the field's
    own disjuncts fail, the restored constant EXPORTS like the value.  StorePickleShortProofs.v: then every original that
    takes the short form gets a copy that exports the same optional fields; a truthiness test of a float does not have
    this property (-0.0 is falsy and exports "-0": the defect repaired in round 4).

    Values are abstracted to the classes the tests and the export can distinguish:
      Optional[str]  None | "" | a non-empty string      (export: None and "" both write nothing)
      str            "" | a non-empty string
      float          +0.0 | -0.0 | any other float (nan included: truthy, not formatted "0")
      int            every integer *)
From Coq Require Import List String Bool ZArith.
Import ListNotations.

Inductive stype := TyOptStr | TyStr | TyFloat | TyInt.

Inductive sval :=
| VNone
| VStrEmpty
| VStrFull
| VFloatZero
| VFloatNegZero
| VFloatOther
| VInt (z : Z).

(** the constants a short form restores *)
Inductive sdefault := DNone | DEmptyStr | DFloatZero | DFloatNegZero | DIntC (z : Z).

(** one disjunct of the long-form test, as a test of ONE field *)
Inductive stest :=
| TTruthy            (* `self.f` *)
| TNotNone           (* `self.f is not None` *)
| TNeqInt (z : Z)    (* `self.f != <int constant>` *)
| TNeqZeroNum        (* `self.f != 0` / `self.f != 0.0` : numeric comparison, -0.0 == 0 *)
| TFmtNotZero.       (* `f'{self.f:g}' != '0'` : the exported text differs from "0" *)

Definition has_type (t : stype) (v : sval) : bool :=
  match t, v with
  | TyOptStr, (VNone | VStrEmpty | VStrFull) => true
  | TyStr, (VStrEmpty | VStrFull) => true
  | TyFloat, (VFloatZero | VFloatNegZero | VFloatOther) => true
  | TyInt, VInt _ => true
  | _, _ => false
  end.

(** Python truth value of the abstract value *)
Definition truthy (v : sval) : bool :=
  match v with
  | VNone | VStrEmpty | VFloatZero | VFloatNegZero => false
  | VStrFull | VFloatOther => true
  | VInt z => negb (Z.eqb z 0)
  end.

Definition test_holds (t : stest) (v : sval) : bool :=
  match t with
  | TTruthy => truthy v
  | TNotNone => match v with VNone => false | _ => true end
  | TNeqInt c => match v with VInt z => negb (Z.eqb z c) | _ => true end
  | TNeqZeroNum => match v with
                   | VFloatZero | VFloatNegZero => false
                   | VInt z => negb (Z.eqb z 0)
                   | _ => true
                   end
  | TFmtNotZero => match v with
                   | VFloatZero => false
                   | VInt z => negb (Z.eqb z 0)
                   | _ => true
                   end
  end.

Definition default_val (d : sdefault) : sval :=
  match d with
  | DNone => VNone
  | DEmptyStr => VStrEmpty
  | DFloatZero => VFloatZero
  | DFloatNegZero => VFloatNegZero
  | DIntC z => VInt z
  end.

(** Do two values of a field of this type EXPORT alike?  (Optional[str]: None and "" write the same; a non-empty string
    stands for all of them, so it is equivalent to nothing but itself — and never restored from a constant.) *)
Definition export_equiv (t : stype) (a b : sval) : bool :=
  match t with
  | TyOptStr => match a, b with
                | (VNone | VStrEmpty), (VNone | VStrEmpty) => true
                | _, _ => false
                end
  | TyStr => match a, b with VStrEmpty, VStrEmpty => true | _, _ => false end
  | TyFloat => match a, b with
               | VFloatZero, VFloatZero => true
               | VFloatNegZero, VFloatNegZero => true
               | _, _ => false
               end
  | TyInt => match a, b with VInt x, VInt y => Z.eqb x y | _, _ => false end
  end.

(** the finitely many classes of a type; for int: the constants the row mentions and a value that is none of them *)
Definition other_int (cs : list Z) : Z := Z.succ (fold_right Z.max 0%Z (map Z.abs cs)).

Definition consts_of (ts : list stest) (d : sdefault) : list Z :=
  (match d with DIntC z => [z] | _ => [] end) ++
  flat_map (fun t => match t with TNeqInt z => [z] | _ => [] end) ts ++ [0%Z].

Definition classes_of (t : stype) (ts : list stest) (d : sdefault) : list sval :=
  match t with
  | TyOptStr => [VNone; VStrEmpty; VStrFull]
  | TyStr => [VStrEmpty; VStrFull]
  | TyFloat => [VFloatZero; VFloatNegZero; VFloatOther]
  | TyInt => let cs := consts_of ts d in map VInt (other_int cs :: cs)
  end.

(** a row: field, its type, its own disjuncts of the long-form test, the constant the short form restores *)
Definition srow := (string * stype * list stest * sdefault)%type.

Definition all_fail (ts : list stest) (v : sval) : bool := forallb (fun t => negb (test_holds t v)) ts.

Definition row_ok (r : srow) : bool :=
  match r with
  | (_, ty, ts, d) =>
    has_type ty (default_val d) &&
    forallb (fun v => implb (all_fail ts v) (export_equiv ty v (default_val d))) (classes_of ty ts d)
  end.

Definition short_ok (rows : list srow) : bool := forallb row_ok rows.

(** every optional field of the state (the tail of [get]) has a row *)
Definition short_rows_cover (tail : list string) (rows : list srow) : bool :=
  forallb (fun f => existsb (fun r => String.eqb f (fst (fst (fst r)))) rows) tail.
