(** C19, round 3 - proofs about SM/FsChainWhole.v. *)
From Coq Require Import List NArith Bool.
From SV Require Import SM.FsChain SM.FsChainProofs SM.FsChainWitness SM.FsChainCompose SM.FsChainComplete SM.FsChainForms SM.FsChainFormsProofs SM.FsChainWhole.
Import ListNotations.
Open Scope N_scope.

Lemma k_lookup_spec m q : kmember_ok m ->
  lookup (k_b m) (k_fs m) (full_name (k_p m) q) = spec_lookup (k_fs m) (normpath (slash (pjoin (k_p m) q))).
Proof.
  intros [Hk [Hc _]]. destruct (lookup_agree_all (k_b m) (k_b m) (k_fs m) (full_name (k_p m) q) Hk Hk Hc) as [_ [_ [_ [_ [E _]]]]].
  rewrite E. unfold full_name. rewrite slash_idem. reflexivity.
Qed.

Lemma k_read_whole m e : kmember_ok m -> k_read m e = snd e.
Proof.
  intros [_ [_ Hs]]. unfold k_read. destruct (k_store m) as [[[c limit] in_dir]|]; [|reflexivity].
  apply ceval_whole_all_placements. exact Hs.
Qed.

Lemma chain_get_spec ms q : Forall kmember_ok ms -> chain_get (map k_member ms) q = chain_spec (map k_spec ms) q.
Proof.
  induction 1 as [|m r Hm _ IH]; [reflexivity|].
  cbn [map chain_get chain_spec k_spec]. cbn [k_member member_of m_lookup m_prefix].
  rewrite (k_lookup_spec m q Hm). destruct (spec_lookup _ _); [reflexivity|exact IH].
Qed.

Lemma chain_read_spec ms q : Forall kmember_ok ms -> chain_read ms q = option_map snd (chain_spec (map k_spec ms) q).
Proof.
  induction 1 as [|m r Hm _ IH]; [reflexivity|].
  cbn [map chain_read chain_spec k_spec]. rewrite (k_lookup_spec m q Hm).
  destruct (spec_lookup _ _) as [e|]; [|exact IH]. cbn [option_map]. rewrite (k_read_whole m e Hm). reflexivity.
Qed.

Lemma k_xmember_ok m : kmember_ok m -> xmember_ok (k_xmember m).
Proof. intros [Hk [Hc _]]. apply xmember_of_ok; assumption. Qed.

Lemma map_x_base ms : map x_base (map k_xmember ms) = map k_member ms.
Proof. rewrite map_map. apply map_ext. reflexivity. Qed.

(** Every public lookup form of a chain against the one specification: the File of [chain[q]] / [_get_file(q)], the
    answer of [q in chain] / [_file_exists(q)] in every sound shape, and the bytes read from [open_bin(q)] /
    [open_str(q)] - for every query string, every ordering of members of whatever kind, restricted members that miss
    before members that hit. *)
Theorem chain_every_form_spec em ms q :
  exists_mode_ok em = true -> Forall kmember_ok ms ->
  chain_get (map k_member ms) q = chain_spec (map k_spec ms) q
  /\ chain_open (map k_member ms) q = chain_spec (map k_spec ms) q
  /\ chain_exists em (map k_xmember ms) q = is_some (chain_spec (map k_spec ms) q)
  /\ chain_read ms q = option_map snd (chain_spec (map k_spec ms) q).
Proof.
  intros Hem Hms. split; [apply chain_get_spec; exact Hms|]. split; [apply chain_get_spec; exact Hms|].
  split; [|apply chain_read_spec; exact Hms].
  rewrite (chain_exists_agrees em (map k_xmember ms) q Hem).
  - rewrite map_x_base, (chain_get_spec ms q Hms). reflexivity.
  - apply Forall_forall. intros x Hx. apply in_map_iff in Hx as [m [<- Hm]].
    apply k_xmember_ok. exact (proj1 (Forall_forall _ _) Hms m Hm).
Qed.

(** Hence the backend kinds cannot be told apart through a chain: two chains whose members hold the same files
    under the same subfolders, in the same order, answer every lookup form alike - whatever kind each member is and
    wherever a VPK member keeps the bytes. *)
Theorem chain_backend_kind_unobservable em1 em2 ms1 ms2 q :
  exists_mode_ok em1 = true -> exists_mode_ok em2 = true ->
  Forall kmember_ok ms1 -> Forall kmember_ok ms2 -> map k_spec ms1 = map k_spec ms2 ->
  chain_get (map k_member ms1) q = chain_get (map k_member ms2) q
  /\ chain_exists em1 (map k_xmember ms1) q = chain_exists em2 (map k_xmember ms2) q
  /\ chain_read ms1 q = chain_read ms2 q.
Proof.
  intros H1 H2 Hm1 Hm2 E.
  destruct (chain_every_form_spec em1 ms1 q H1 Hm1) as [A1 [_ [B1 C1]]].
  destruct (chain_every_form_spec em2 ms2 q H2 Hm2) as [A2 [_ [B2 C2]]].
  rewrite A1, A2, B1, B2, C1, C2, E. repeat split; reflexivity.
Qed.

(** The first member that has the name wins, and a member that misses - restricted or not - changes nothing. *)
Lemma chain_spec_first fs p r q e :
  spec_lookup fs (normpath (slash (pjoin p q))) = Some e -> chain_spec ((fs, p) :: r) q = Some e.
Proof. intros H. cbn [chain_spec]. rewrite H. reflexivity. Qed.
Lemma chain_spec_skip fs p r q :
  spec_lookup fs (normpath (slash (pjoin p q))) = None -> chain_spec ((fs, p) :: r) q = chain_spec r q.
Proof. intros H. cbn [chain_spec]. rewrite H. reflexivity. Qed.

Lemma kmembers_sound ms : Forall kmember_walk_ok ms -> Forall sound_member (map k_member ms) /\ Forall kmember_ok ms.
Proof.
  intros H. split.
  - apply Forall_forall. intros x Hx. apply in_map_iff in Hx as [m [<- Hm]].
    destruct (proj1 (Forall_forall _ _) H m Hm) as [[Hk [Hc _]] [Hw Hp]].
    exists (k_b m), (k_fs m), (k_p m). split; [reflexivity|]. split; [exact Hw|]. split; [|split; assumption].
    unfold backend_keys_norm in Hk. do 3 (apply andb_true_iff in Hk as [Hk _]). exact Hk.
  - eapply Forall_impl; [|exact H]. intros m [Hm _]. exact Hm.
Qed.

(** Every entry the de-duplicated walk lists is the specification's answer for the listed name - it can be looked up,
    in every form, and reading it yields the listed file's bytes (the first member that has the name) ... *)
Theorem chain_walk_every_entry_spec em dops ms folder x :
  exists_mode_ok em = true -> dedup_ops_ok dops = true -> Forall kmember_walk_ok ms -> okp folder ->
  In x (chain_walk RelDropSegs dops (map k_member ms) folder) ->
  chain_spec (map k_spec ms) (fst x) = Some (snd x)
  /\ chain_get (map k_member ms) (fst x) = Some (snd x)
  /\ chain_exists em (map k_xmember ms) (fst x) = true
  /\ chain_read ms (fst x) = Some (snd (snd x)).
Proof.
  intros Hem Hd Hms Hfo Hin. destruct (kmembers_sound ms Hms) as [Hs Hk].
  pose proof (chain_walk_lookup_closed dops (map k_member ms) folder x Hd Hs Hfo Hin) as Hget.
  destruct (chain_every_form_spec em ms (fst x) Hem Hk) as [A [_ [B C]]].
  rewrite A in Hget. rewrite B, C, Hget. repeat split; try reflexivity. rewrite <- Hget. exact A.
Qed.

(** ... and whatever the specification serves under a clean name inside the folder is listed, up to letter case, with
    that very file.  With the empty folder ([iter(chain)]) that is every clean name the chain serves. *)
Theorem chain_walk_lists_spec dops ms folder q f :
  dedup_ops_ok dops = true -> Forall kmember_walk_ok ms -> okp folder ->
  clean_name q = true -> path_prefix (nkey folder) (nkey q) ->
  chain_spec (map k_spec ms) q = Some f ->
  exists x, In x (chain_walk RelDropSegs dops (map k_member ms) folder) /\ nkey (fst x) = nkey q /\ snd x = f.
Proof.
  intros Hd Hms Hfo Hq Hin Hspec. destruct (kmembers_sound ms Hms) as [Hs Hk].
  apply (chain_walk_complete dops (map k_member ms) folder q f Hd Hs Hfo Hq Hin).
  rewrite (chain_get_spec ms q Hk). exact Hspec.
Qed.
Corollary chain_iter_lists_spec dops ms q f :
  dedup_ops_ok dops = true -> Forall kmember_walk_ok ms -> clean_name q = true ->
  chain_spec (map k_spec ms) q = Some f ->
  exists x, In x (chain_walk RelDropSegs dops (map k_member ms) []) /\ nkey (fst x) = nkey q /\ snd x = f.
Proof.
  intros Hd Hms Hq Hspec. apply (chain_walk_lists_spec dops ms [] q f Hd Hms); try assumption; left; reflexivity.
Qed.

(** A VPK member that reads only the preload when the file lives in the directory file (seeded c19_4) is observable
    through the chain: same files, same subfolders, different bytes.  "s"-restricted zip member that misses first. *)
Theorem chain_read_preload_shortcut_refuted :
  map k_spec [kw_zip; kw_mem] = map k_spec [kw_zip; kw_vpk (CIfDir CPreload CRead)]
  /\ chain_read [kw_zip; kw_mem] [120] = Some [1; 2; 3]
  /\ chain_read [kw_zip; kw_vpk (CIfDir CPreload CRead)] [120] = Some [1; 2]
  /\ chain_read [kw_zip; kw_vpk CRead] [120] = Some [1; 2; 3]
  /\ Forall kmember_ok [kw_zip; kw_mem] /\ Forall kmember_ok [kw_zip; kw_vpk CRead].
Proof.
  split; [reflexivity|]. split; [vm_compute; reflexivity|]. split; [vm_compute; reflexivity|].
  split; [vm_compute; reflexivity|].
  split; repeat apply Forall_cons; try apply Forall_nil; (split; [vm_compute; reflexivity|split; [vm_compute; reflexivity|cbn; auto]]).
Qed.
