(** Case folding by table (round 4): [str.casefold] works code point by code point; on ASCII it is lower-casing, and
    the check supplies, for the non-ASCII code points that occur in a correspondence batch, the table
    [code point ↦ chr(c).casefold()] computed by CPython.  [table_fold tab] is the folding function the model is
    instantiated with in the correspondence; for every table whose keys are non-ASCII it satisfies the hypotheses
    of the theorems of Props/C07.v about [fold] (idempotence: when the table is closed under itself, a boolean the
    check evaluates per batch). *)
From stdpp Require Import list.
From Coq Require Import NArith Lia.
From SV Require Import SM.IndexModel SM.IndexShapes SM.IndexMaint.

Fixpoint tab_find (c : N) (tab : list (N * list N)) : option (list N) :=
  match tab with
  | [] => None
  | (c0, l) :: r => if N.eqb c0 c then Some l else tab_find c r
  end.
Definition fold_cp (tab : list (N * list N)) (c : N) : list N :=
  match tab_find c tab with Some l => l | None => [ascii_lower c] end.
Definition table_fold (tab : list (N * list N)) (s : str) : str := flat_map (fold_cp tab) s.

(** every key of the table is a non-ASCII code point *)
Definition tab_non_ascii (tab : list (N * list N)) : bool := forallb (λ p : N * list N, N.leb 128 p.1) tab.
(** the images are their own folding *)
Definition tab_closed (tab : list (N * list N)) : bool :=
  forallb (λ p : N * list N, bool_decide (table_fold tab p.2 = p.2)) tab.

Lemma tab_find_ascii tab c : tab_non_ascii tab = true → (c < 128)%N → tab_find c tab = None.
Proof.
  intros Ht Hc. induction tab as [|[c0 l] r IH]; [done|]. simpl in *. apply andb_true_iff in Ht as [H0 Hr].
  apply N.leb_le in H0. destruct (N.eqb_spec c0 c); [lia|]. by apply IH.
Qed.
Lemma tab_find_in tab c l : tab_find c tab = Some l → (c, l) ∈ tab.
Proof.
  induction tab as [|[c0 l0] r IH]; [done|]. simpl. destruct (N.eqb_spec c0 c); [|intros; right; by apply IH].
  intros [= ->]. subst. left.
Qed.

Lemma table_fold_ascii tab s : tab_non_ascii tab = true → Forall (λ c, (c < 128)%N) s → table_fold tab s = ascii_fold s.
Proof.
  intros Ht Hs. induction Hs as [|c r Hc Hr IH]; [done|]. unfold table_fold in *. simpl. rewrite IH.
  unfold fold_cp. by rewrite (tab_find_ascii _ _ Ht Hc).
Qed.
Lemma table_fold_app tab a b : table_fold tab (a ++ b) = table_fold tab a ++ table_fold tab b.
Proof. unfold table_fold. apply flat_map_app. Qed.

Lemma uint_codes_digits u : Forall (λ c, (48 ≤ c ∧ c ≤ 57)%N) (uint_codes u).
Proof. induction u; simpl; constructor; try done; lia. Qed.
Lemma ascii_fold_digits s : Forall (λ c, (48 ≤ c ∧ c ≤ 57)%N) s → ascii_fold s = s.
Proof.
  intros H. induction H as [|c r [H1 H2] Hr IH]; [done|]. simpl. rewrite IH. f_equal. unfold ascii_lower.
  destruct (65 <=? c)%N eqn:E; [apply N.leb_le in E; lia|done].
Qed.

Theorem table_fold_ok tab : tab_non_ascii tab = true →
  table_fold tab [] = [] ∧ table_fold tab cn = cn ∧ table_fold tab tn = tn ∧ table_fold tab ws = ws ∧
  (∀ b i, table_fold tab (b ++ dec i) = table_fold tab b ++ dec i).
Proof.
  intros Ht. split; [done|].
  assert (Hlit : ∀ s, forallb (λ c, N.ltb c 128) s = true → ascii_fold s = s → table_fold tab s = s).
  { intros s H1 H2. rewrite table_fold_ascii; [done|done|]. apply Forall_forall. intros c Hc.
    rewrite forallb_forall in H1. apply N.ltb_lt, H1. by apply elem_of_list_In. }
  split; [by apply Hlit|]. split; [by apply Hlit|]. split; [by apply Hlit|].
  intros b i. rewrite table_fold_app. f_equal. pose proof (uint_codes_digits (N.to_uint i)) as Hd. unfold dec.
  rewrite table_fold_ascii; [by apply ascii_fold_digits|done|]. eapply Forall_impl; [exact Hd|]. simpl. intros; lia.
Qed.

Lemma table_fold_nodeid tab : tab_non_ascii tab = true → table_fold tab nodeid ≠ cn ∧ table_fold tab nodeid ≠ tn.
Proof. intros Ht. rewrite table_fold_ascii; [by vm_compute|done|]. repeat constructor; by vm_compute. Qed.

Lemma ascii_lower_idem c : ascii_lower (ascii_lower c) = ascii_lower c.
Proof.
  unfold ascii_lower. destruct ((65 <=? c) && (c <=? 90))%N eqn:E; [|by rewrite E].
  apply andb_true_iff in E as [E1 E2]. apply N.leb_le in E1, E2.
  assert (((65 <=? c + 32) && (c + 32 <=? 90))%N = false) as ->; [|done].
  apply andb_false_iff. right. apply N.leb_gt. lia.
Qed.

Lemma fold_cp_idem tab c : tab_non_ascii tab = true → tab_closed tab = true →
  table_fold tab (fold_cp tab c) = fold_cp tab c.
Proof.
  intros Ht Hc. unfold fold_cp at 1 2. destruct (tab_find c tab) as [l|] eqn:E.
  - apply tab_find_in in E. unfold tab_closed in Hc. rewrite forallb_forall in Hc.
    apply elem_of_list_In in E. apply Hc in E. by apply bool_decide_eq_true in E.
  - unfold table_fold. simpl. rewrite app_nil_r. unfold fold_cp.
    assert (tab_find (ascii_lower c) tab = None) as ->; [|by rewrite ascii_lower_idem].
    unfold ascii_lower. destruct ((65 <=? c) && (c <=? 90))%N eqn:E2; [|done].
    apply andb_true_iff in E2 as [E1 E2]. apply N.leb_le in E1, E2. apply tab_find_ascii; [done|lia].
Qed.
Theorem table_fold_idem tab : tab_non_ascii tab = true → tab_closed tab = true →
  ∀ s, table_fold tab (table_fold tab s) = table_fold tab s.
Proof.
  intros Ht Hc s. induction s as [|c r IH]; [done|]. change (table_fold tab (c :: r)) with (fold_cp tab c ++ table_fold tab r).
  by rewrite table_fold_app, IH, fold_cp_idem.
Qed.

(** CPython's table for the code points the check uses: ß ↦ ss, İ ↦ i + U+0307 *)
Definition tab_example : list (N * list N) := [(223, [115; 115]); (304, [105; 775])]%N.
Lemma tab_example_ok : tab_non_ascii tab_example = true ∧ tab_closed tab_example = true ∧
  tab_closed [(7838, [223]); (223, [115; 115])]%N = false ∧ table_fold tab_example [83; 223; 304]%N = [115; 115; 115; 105; 775]%N.
Proof. repeat split; reflexivity. Qed.
