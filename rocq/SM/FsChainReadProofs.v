(** C19, round 3 — proofs about SM/FsChainRead.v. *)
From Coq Require Import List NArith ZArith Bool Lia.
From SV Require Import SM.FsChain SM.FsChainForms SM.FsChainRead.
Import ListNotations.

Lemma slice_exact off len l :
  slice (Z.of_nat off + 0) (Z.of_nat off + Z.of_nat len + 0) l = firstn len (skipn off l).
Proof.
  unfold slice. rewrite !Z.add_0_r, <- Nat2Z.inj_add, !Nat2Z.id.
  replace (off + len - off)%nat with len by lia. reflexivity.
Qed.

Definition ctx_ok (d : option bool) (nt : bool) (f : rfile) : Prop :=
  (forall v, d = Some v -> r_in_dir f = v) /\ (nt = true -> r_len f = O).

Lemma r_tail_none f : r_len f = O -> r_tail f = [].
Proof. intros H. unfold r_tail. rewrite H. reflexivity. Qed.

Lemma rexpr_whole_sound e : forall d nt f,
  rexpr_whole d nt e = true -> ctx_ok d nt f -> reval e f = r_whole f.
Proof.
  induction e as [|dir a b|x IHx y IHy|x IHx y IHy|x IHx y IHy]; intros d nt f H [Hd Hn].
  - cbn in H. cbn [reval]. unfold r_whole. rewrite (r_tail_none f (Hn H)), app_nil_r. reflexivity.
  - discriminate.
  - destruct x; try discriminate. destruct y as [|dir a b| | |]; try discriminate.
    cbn [rexpr_whole] in H. apply andb_true_iff in H as [H Hk]. apply andb_true_iff in H as [Ha Hb].
    apply Z.eqb_eq in Ha, Hb. subst a b.
    destruct d as [w|]; [|discriminate]. cbn [known_is] in Hk. apply eqb_prop in Hk. subst w.
    cbn [reval]. rewrite (Hd dir eq_refl), eqb_reflx, slice_exact. reflexivity.
  - cbn [rexpr_whole] in H. cbn [reval]. destruct d as [[|]|].
    + rewrite (Hd true eq_refl). apply (IHx (Some true) nt f H). split; assumption.
    + rewrite (Hd false eq_refl). apply (IHy (Some false) nt f H). split; assumption.
    + apply andb_true_iff in H as [Hx Hy]. destruct (r_in_dir f) eqn:E.
      * apply (IHx (Some true) nt f Hx). split; [intros v Hv; injection Hv as <-; exact E|exact Hn].
      * apply (IHy (Some false) nt f Hy). split; [intros v Hv; injection Hv as <-; exact E|exact Hn].
  - cbn [rexpr_whole] in H. cbn [reval]. destruct nt.
    + rewrite (Hn eq_refl). apply (IHx d true f H). split; assumption.
    + apply andb_true_iff in H as [Hx Hy]. destruct (r_len f) eqn:E.
      * apply (IHx d true f Hx). split; [exact Hd|intros _; exact E].
      * apply (IHy d false f Hy). split; [exact Hd|discriminate].
Qed.

Lemma rfile_of_whole before after limit in_dir data :
  r_whole (rfile_of before after limit in_dir data) = data.
Proof.
  unfold r_whole, r_tail, rfile_of. cbn [r_pre r_home r_off r_len].
  rewrite skipn_app, skipn_all, Nat.sub_diag. cbn [skipn app].
  rewrite firstn_app, firstn_all, Nat.sub_diag. cbn [firstn]. rewrite app_nil_r. apply firstn_skipn.
Qed.

(** A reader recognised as whole returns the stored bytes for every split between preload and rest, for both homes of
    the rest, wherever in its home the rest lies. *)
Theorem reader_whole_all_placements e before after limit in_dir data :
  rexpr_whole None false e = true -> reval e (rfile_of before after limit in_dir data) = data.
Proof.
  intros H. rewrite (rexpr_whole_sound e None false _ H); [apply rfile_of_whole|].
  split; [discriminate|discriminate].
Qed.

(** Today's reader is such an expression; the reader that slices one byte short in the directory block is not, and loses
    the last byte of a file whose rest is kept there. *)
Theorem reader_today_whole : rexpr_whole None false reader_today = true.
Proof. reflexivity. Qed.
Theorem reader_short_refuted :
  rexpr_whole None false reader_short = false
  /\ reval reader_short (rfile_of [9%N] [8%N] 1 true [1%N; 2%N; 3%N]) = [1%N; 2%N]
  /\ reval reader_today (rfile_of [9%N] [8%N] 1 true [1%N; 2%N; 3%N]) = [1%N; 2%N; 3%N]
  /\ reval reader_short (rfile_of [9%N] [8%N] 1 false [1%N; 2%N; 3%N]) = [1%N; 2%N; 3%N].
Proof. vm_compute. repeat split; reflexivity. Qed.

(** The backend's content expression over the translated reader: a content expression recognised as whole
    ([cexpr_whole], FsChainForms) over a reader recognised as whole hands out the stored bytes - preload only, directory
    tail, numbered archive, single-file VPK, any split, any position of the rest in its home. *)
Lemma ceval_r_sound rd c : forall nt f,
  rexpr_whole None false rd = true -> cexpr_whole nt c = true -> (nt = true -> r_len f = O) ->
  ceval_r rd c f = r_whole f.
Proof.
  intros nt f Hrd. revert nt. induction c as [| |a IHa b IHb|a IHa b IHb]; intros nt H Hn; cbn [ceval_r cexpr_whole] in *.
  - apply (rexpr_whole_sound rd None false f Hrd). split; discriminate.
  - unfold r_whole. rewrite (r_tail_none f (Hn H)), app_nil_r. reflexivity.
  - apply andb_true_iff in H as [Ha Hb]. destruct (r_in_dir f); [eapply IHa|eapply IHb]; eassumption.
  - apply andb_true_iff in H as [Ha Hb]. destruct (r_len f) eqn:E.
    + apply (IHa true Ha). intros _. reflexivity.
    + apply (IHb nt Hb). intros Hnt. specialize (Hn Hnt). discriminate.
Qed.

Theorem open_through_reader_all_placements rd c before after limit in_dir data :
  rexpr_whole None false rd = true -> cexpr_whole false c = true ->
  ceval_r rd c (rfile_of before after limit in_dir data) = data.
Proof.
  intros Hrd Hc. rewrite (ceval_r_sound rd c false _ Hrd Hc); [apply rfile_of_whole|discriminate].
Qed.

(** With the short reader, a backend that opens through [file.read()] loses the byte too. *)
Theorem open_through_short_reader_refuted :
  ceval_r reader_short CRead (rfile_of [9%N] [8%N] 1 true [1%N; 2%N; 3%N]) = [1%N; 2%N]
  /\ ceval_r reader_today CRead (rfile_of [9%N] [8%N] 1 true [1%N; 2%N; 3%N]) = [1%N; 2%N; 3%N].
Proof. vm_compute. split; reflexivity. Qed.
