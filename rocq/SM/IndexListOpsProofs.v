(** Proofs about SM/IndexListOps.v: a [remove_ent] program that passes its three path obligations is the hand model
    [remove_ent], an [add_ent] program that appends and indexes the item exactly once is the hand model [add_ent]
    (inside its domain), for every entity and state; the variants with the membership test before the list removal
    and with an `and` guard are refuted. *)
From stdpp Require Import gmap sets list.
From Coq Require Import NArith Lia.
From SV Require Import SM.IndexModel SM.IndexProofs SM.IndexListOps.

Section listops.
  Variable fold : str → str.

  (** the concrete state [st] is in phase [ph] relative to the state [st0] the function started in *)
  Definition phase_ok (ph : vphase) (e : nat) (st0 st : mstate) : Prop :=
    spawn st = spawn st0 ∧ objs st = objs st0 ∧
    match ph with P0 => ents st = ents st0 | P1 => ents st = remove_first e (ents st0) | PX => True end.
  Definition facts_for (e : nat) (st0 : mstate) : vfacts :=
    VF (bool_decide (e = spawn st0)) (bool_decide (e ∈ ents st0)) (bool_decide (e ∈ remove_first e (ents st0))).

  Lemma vcond_abs_sound c e st0 st ph b : phase_ok ph e st0 st →
    vcond_abs c (facts_for e st0) ph = Some b → v_cond c e st = b.
  Proof.
    intros (Hs & _ & Hph). revert b. induction c as [| |c IH|a IHa b0 IHb|a IHa b0 IHb|s]; intros b; simpl.
    - intros [= <-]. by rewrite Hs.
    - destruct ph; [| |done]; intros [= <-]; by rewrite Hph.
    - destruct (vcond_abs c _ _) as [x|]; [|done]. simpl. intros [= <-]. by rewrite (IH x).
    - destruct (vcond_abs a _ _) as [x|]; [|done]. destruct (vcond_abs b0 _ _) as [y|]; [|done].
      intros [= <-]. by rewrite (IHa x), (IHb y).
    - destruct (vcond_abs a _ _) as [x|]; [|done]. destruct (vcond_abs b0 _ _) as [y|]; [|done].
      intros [= <-]. by rewrite (IHa x), (IHb y).
    - done.
  Qed.

  Lemma v_act_phase a e st0 st ph : phase_ok ph e st0 st → phase_ok (vphase_after a ph) e st0 (v_act fold a e st).
  Proof.
    intros (Hs & Ho & Hph). destruct a; simpl; (split; [done|split; [done|]]); try done; destruct ph; simpl in *; try done.
    by rewrite Hph.
  Qed.

  Lemma vacts_run_app la lb e st : vacts_run fold (la ++ lb) e st = vacts_run fold lb e (vacts_run fold la e st).
  Proof. unfold vacts_run. by rewrite foldl_app. Qed.

  Lemma v_run_flat p e st0 : ∀ st ph l ph', phase_ok ph e st0 st →
    v_flat p (facts_for e st0) ph = Some (l, ph') →
    v_run fold p e st = vacts_run fold l e st ∧ phase_ok ph' e st0 (v_run fold p e st).
  Proof.
    induction p as [|a IHa b IHb|c a IHa b IHb|a]; intros st ph l ph' Hph Hf; simpl in *.
    - by simplify_eq.
    - destruct (v_flat a _ ph) as [[la ph1]|] eqn:Ea; [|done].
      destruct (v_flat b _ ph1) as [[lb ph2]|] eqn:Eb; [|done]. simplify_eq.
      destruct (IHa _ _ _ _ Hph Ea) as [Ra Pa]. destruct (IHb _ _ _ _ Pa Eb) as [Rb Pb].
      split; [|done]. by rewrite vacts_run_app, Rb, Ra.
    - destruct (vcond_abs c _ ph) as [[|]|] eqn:Ec; [| |done]; rewrite (vcond_abs_sound _ _ _ _ _ _ Hph Ec); eauto.
    - simplify_eq. split; [done|]. by apply v_act_phase.
  Qed.

  Lemma phase0 e st : phase_ok P0 e st st.
  Proof. done. Qed.

  Lemma remove_ok_path p f : remove_ok p = true → remove_path_ok p f = true.
  Proof.
    unfold remove_ok, remove_worldspawn_stays_indexed, remove_still_listed_stays_indexed, remove_unlists_and_unindexes.
    rewrite !andb_true_iff, !forallb_forall. intros [[H1 H2] H3].
    assert (Hin : In f all_vfacts) by (destruct f as [[|] [|] [|]]; simpl; tauto).
    specialize (H1 _ Hin). specialize (H2 _ Hin). specialize (H3 _ Hin).
    destruct f as [[|] a [|]]; simpl in *; done.
  Qed.

  Theorem remove_ent_pg_ok p e st : remove_ok p = true → v_run fold p e st = remove_ent fold e st.
  Proof.
    intros Hp. pose proof (remove_ok_path p (facts_for e st) Hp) as Hpath. unfold remove_path_ok in Hpath.
    destruct (v_flat p _ P0) as [[l ph']|] eqn:El; [|done].
    destruct (v_run_flat p e st st P0 l ph' (phase0 e st) El) as [-> _].
    apply orb_true_iff in Hpath. unfold remove_ent.
    destruct Hpath as [H|H]; apply bool_decide_eq_true in H; subst l; unfold remove_today, remove_today', facts_for; simpl;
      destruct (decide (e = spawn st ∨ e ∈ remove_first e (ents st))) as [Hd|Hd].
    - assert (Hb : bool_decide (e = spawn st) || bool_decide (e ∈ remove_first e (ents st)) = true).
      { apply orb_true_iff. rewrite !bool_decide_eq_true. done. }
      by rewrite Hb.
    - assert (Hb : bool_decide (e = spawn st) || bool_decide (e ∈ remove_first e (ents st)) = false).
      { apply orb_false_iff. rewrite !bool_decide_eq_false. tauto. }
      rewrite Hb. reflexivity.
    - assert (Hb : bool_decide (e = spawn st) || bool_decide (e ∈ remove_first e (ents st)) = true).
      { apply orb_true_iff. rewrite !bool_decide_eq_true. done. }
      by rewrite Hb.
    - assert (Hb : bool_decide (e = spawn st) || bool_decide (e ∈ remove_first e (ents st)) = false).
      { apply orb_false_iff. rewrite !bool_decide_eq_false. tauto. }
      rewrite Hb. reflexivity.
  Qed.

  (** add_ent: three actions, one of each kind, in any of the six orders *)
  Lemma add_lists l : length l = 3 → count_vact VAppend l = 1 → count_vact VAddClass l = 1 → count_vact VAddTarget l = 1 →
    ∀ e st, vacts_run fold l e st = vacts_run fold [VAppend; VAddClass; VAddTarget] e st.
  Proof.
    destruct l as [|a [|b [|c [|]]]]; try done. intros _ H1 H2 H3 e st.
    destruct a, b, c; try done; reflexivity.
  Qed.

  Theorem add_ent_pg_ok p e st : add_ok p = true → e ≠ spawn st → e < nobj st → v_run fold p e st = add_ent fold e st.
  Proof.
    intros Hp Hs Hn. unfold add_ok in Hp. rewrite forallb_forall in Hp.
    assert (Hin : In (facts_for e st) all_vfacts).
    { unfold facts_for. repeat case_bool_decide; simpl; tauto. }
    specialize (Hp _ Hin). unfold add_path_ok in Hp.
    destruct (v_flat p _ P0) as [[l ph']|] eqn:El; [|done].
    destruct (v_run_flat p e st st P0 l ph' (phase0 e st) El) as [-> _].
    rewrite !andb_true_iff in Hp. destruct Hp as [[[H0 H1] H2] H3]. apply Nat.eqb_eq in H0, H1, H2, H3.
    rewrite (add_lists l H0 H1 H2 H3). unfold add_ent. rewrite decide_False by lia. reflexivity.
  Qed.
End listops.

Lemma listops_today_ok : remove_ok remove_ent_today = true ∧ add_ok add_ent_today = true.
Proof. split; reflexivity. Qed.

(** Refutations.  The membership test placed before the list removal: an entity that was added once is taken off the
    list but stays in both indexes.  The guard written with `and`: removing the worldspawn takes it out of by_class. *)
Lemma listops_refutations :
  (remove_unlists_and_unindexes remove_ent_test_first = false ∧
   let st0 := run ascii_fold [CreateEnt [97]%N []] init in
   let st1 := v_run ascii_fold remove_ent_test_first 1 st0 in
   Inv ascii_fold st0 ∧ ents st1 = [] ∧ ¬ Inv ascii_fold st1) ∧
  (remove_worldspawn_stays_indexed remove_ent_and_guard = false ∧
   remove_still_listed_stays_indexed remove_ent_and_guard = false ∧
   ¬ Inv ascii_fold (v_run ascii_fold remove_ent_and_guard 0 init)).
Proof.
  split.
  - split; [reflexivity|]. split; [by apply run_inv, init_inv|]. split; [reflexivity|].
    intros HI. pose proof (proj1 (inv_by_class ascii_fold _ [97]%N 1 HI)) as Hp.
    assert (H1 : 1 ∈ ix_get (by_class (v_run ascii_fold remove_ent_test_first 1 (run ascii_fold [CreateEnt [97]%N []] init))) [97]%N).
    { apply elem_of_elements.
      match goal with |- _ ∈ ?l => replace l with [1] by (vm_compute; reflexivity) end. set_solver. }
    destruct (Hp H1) as [Hpres _]. unfold present in Hpres. revert Hpres.
    match goal with |- context [spawn ?s] => replace (spawn s) with 0 by (vm_compute; reflexivity) end.
    match goal with |- context [ents ?s] => replace (ents s) with (@nil nat) by (vm_compute; reflexivity) end.
    set_solver.
  - split; [reflexivity|]. split; [reflexivity|].
    intros HI. apply (inv_worldspawn ascii_fold) in HI as [_ HI].
    apply elem_of_elements in HI. revert HI.
    match goal with |- _ ∈ ?l → _ => replace l with (@nil nat) by (vm_compute; reflexivity) end. set_solver.
Qed.

(** Round 5: "still listed" read from a flag cached on the entity object: state the model does not have; no fact decides
    the condition, so no path obligation of remove_ent holds for it. *)
Lemma remove_cached_flag_refuted :
  remove_worldspawn_stays_indexed remove_ent_cached_flag = false ∧
  remove_still_listed_stays_indexed remove_ent_cached_flag = false ∧
  remove_unlists_and_unindexes remove_ent_cached_flag = false.
Proof. repeat split; reflexivity. Qed.
