(** Proofs about SM/IndexMaint.v: a maintenance program of [Entity.__setitem__] that passes its path obligations,
    run after a lookup loop that passes the shape obligations, *is* the hand model [set_item] (including the error
    path of the worldspawn guard, whose recursive [self['classname'] = 'worldspawn'] puts the index entry back);
    an [add_ents] program that lists and indexes every entity exactly once — whether or not its argument can be
    iterated twice — is the hand model [add_ents].  The shapes of seeded faults c07_3 and c07_4 are refuted. *)
From stdpp Require Import gmap sets list.
From Coq Require Import NArith Lia.
From SV Require Import SM.IndexModel SM.IndexProofs SM.IndexShapes SM.IndexShapeProofs SM.IndexMaint.

(** * 1. Entity.__setitem__: lookup loop + maintenance program *)
Section maint.
  Variable fold : str → str.
  Hypothesis fold_cn : fold cn = cn.
  Hypothesis fold_ws : fold ws = ws.

  Lemma setitem_prefix_ok sh key v l : setitem_shape_ok sh = true →
    default [] (setitem_prefix fold sh key v l).1 = default [] (kv_find fold (fold key) l) ∧
    (setitem_prefix fold sh key v l).2 = kv_set fold key v l.
  Proof.
    destruct sh as [lf rf hr hs mr ms].
    unfold setitem_shape_ok, ss_match_ok, ss_hit_read_ok, ss_hit_store_ok, ss_miss_read_ok, ss_miss_store_ok. simpl.
    intros Hok. unfold setitem_prefix. simpl.
    destruct lf, rf; try discriminate. destruct hr as [|[]|[]]; try discriminate. destruct hs; try discriminate.
    destruct ms; try (by rewrite ?andb_false_r in Hok). simpl.
    destruct (first_match _ l) as [k0|] eqn:Hm; simpl.
    - destruct (first_match_hit fold key _ k0 v Hm) as [H1 H2]. by rewrite H1, H2.
    - destruct (first_match_miss fold key _ v Hm) as (H1 & H2 & H3). rewrite H3, H1.
      destruct mr as [|[]|[]]; try discriminate; simpl; by rewrite ?H2.
  Qed.

  Definition rec_frame (rec : nat → str → str → mstate → mstate * nat) : Prop :=
    ∀ e k v st, ents (rec e k v st).1 = ents st ∧ spawn (rec e k v st).1 = spawn st.

  Lemma act_run_frame rec a e key v orig st : rec_frame rec →
    ents (act_run fold rec a e key v orig st).1 = ents st ∧ spawn (act_run fold rec a e key v orig st).1 = spawn st.
  Proof. intros Hr. destruct a; simpl; auto. Qed.

  Lemma m_run_frame rec p : rec_frame rec → ∀ e key v orig st,
    ents (m_run fold rec p e key v orig st).1 = ents st ∧ spawn (m_run fold rec p e key v orig st).1 = spawn st.
  Proof.
    intros Hr. induction p as [|a IHa b IHb|c a IHa b IHb|a]; intros e key v orig st; simpl.
    - done.
    - specialize (IHa e key v orig st). destruct (m_run fold rec a e key v orig st) as [st1 er]. simpl in IHa.
      destruct er; [|done]. destruct (IHb e key v orig st1) as [H1 H2]. destruct IHa. split; congruence.
    - destruct (cond_eval fold c e key v st); auto.
    - by apply act_run_frame.
  Qed.

  Lemma facts_of_frame e key v st st' : ents st' = ents st → spawn st' = spawn st →
    facts_of fold e key v st' = facts_of fold e key v st.
  Proof. unfold facts_of. by intros -> ->. Qed.

  Lemma cond_abs_sound c e key v st b :
    cond_abs c (facts_of fold e key v st) = Some b → cond_eval fold c e key v st = b.
  Proof.
    revert b. induction c as [s| | |s|c IH|a IHa b0 IHb|a IHa b0 IHb|s]; intros b; simpl.
    - destruct (decide (s = cn)) as [->|Hs1].
      { intros [= <-]. destruct (decide (fold key = cn)) as [E|E]; simpl.
        - by rewrite bool_decide_eq_true_2.
        - rewrite bool_decide_eq_false_2 by done. by destruct (decide (fold key = tn)). }
      destruct (decide (s = tn)) as [->|Hs2].
      { intros [= <-]. destruct (decide (fold key = cn)) as [E|E]; simpl.
        - rewrite bool_decide_eq_false_2; [done|]. rewrite E. done.
        - destruct (decide (fold key = tn)) as [E2|E2]; simpl.
          + by rewrite bool_decide_eq_true_2.
          + by rewrite bool_decide_eq_false_2. }
      destruct (decide (fold key = cn)) as [E|E]; simpl.
      { intros [= <-]. rewrite bool_decide_eq_false_2; [done|]. congruence. }
      destruct (decide (fold key = tn)) as [E2|E2]; simpl; [|done].
      intros [= <-]. rewrite bool_decide_eq_false_2; [done|]. congruence.
    - by intros [= <-].
    - by intros [= <-].
    - destruct (decide (s = ws)) as [->|]; [|done]. by intros [= <-].
    - destruct (cond_abs c _) as [x|]; [|done]. simpl. intros [= <-]. by rewrite (IH x).
    - destruct (cond_abs a _) as [x|]; [|done]. destruct (cond_abs b0 _) as [y|]; [|done].
      intros [= <-]. by rewrite (IHa x), (IHb y).
    - destruct (cond_abs a _) as [x|]; [|done]. destruct (cond_abs b0 _) as [y|]; [|done].
      intros [= <-]. by rewrite (IHa x), (IHb y).
    - done.
  Qed.

  Lemma acts_run_app rec la lb e key v orig st :
    acts_run fold rec (la ++ lb) e key v orig st =
    let '(st1, er) := acts_run fold rec la e key v orig st in
    match er with 0 => acts_run fold rec lb e key v orig st1 | _ => (st1, er) end.
  Proof.
    revert st. induction la as [|a la IH]; intros st; simpl; [done|].
    destruct (act_run fold rec a e key v orig st) as [st1 er]. destruct er; [apply IH|done].
  Qed.

  Lemma acts_run_trunc rec l e key v orig st :
    acts_run fold rec (trunc_raise l) e key v orig st = acts_run fold rec l e key v orig st.
  Proof.
    revert st. induction l as [|a l IH]; intros st; [done|].
    destruct a; simpl; try (destruct (rec _ _ _ _) as [st1 er]; destruct er); try apply IH; try done.
    by destruct x.
  Qed.

  Lemma m_run_flat rec p : rec_frame rec → ∀ e key v orig st l,
    m_flat p (facts_of fold e key v st) = Some l →
    m_run fold rec p e key v orig st = acts_run fold rec l e key v orig st.
  Proof.
    intros Hr. induction p as [|a IHa b IHb|c a IHa b IHb|a]; intros e key v orig st l Hf; simpl in *.
    - by simplify_eq.
    - destruct (m_flat a _) as [la|] eqn:Ea; [|done]. destruct (m_flat b _) as [lb|] eqn:Eb; [|done]. simplify_eq.
      rewrite acts_run_app. pose proof (m_run_frame rec a Hr e key v orig st) as Hfr.
      rewrite (IHa _ _ _ _ _ _ Ea) in *.
      destruct (acts_run fold rec la e key v orig st) as [st1 er]. simpl in Hfr. destruct Hfr as [Hf1 Hf2].
      destruct er; [|done]. apply IHb. by rewrite (facts_of_frame _ _ _ st st1).
    - destruct (cond_abs c _) as [[|]|] eqn:Ec.
      + rewrite (cond_abs_sound _ _ _ _ _ _ Ec). by apply IHa.
      + rewrite (cond_abs_sound _ _ _ _ _ _ Ec). by apply IHb.
      + destruct (m_flat a _) as [la|] eqn:Ea; [|done]. destruct (m_flat b _) as [lb|] eqn:Eb; [|done].
        case_decide; [|done]. simplify_eq. destruct (cond_eval fold c e key v st); auto.
    - simplify_eq. simpl. destruct (act_run fold rec a e key v orig st) as [st1 er]. by destruct er.
  Qed.

  Lemma maint_ok_path p f : maint_ok p = true → path_ok p f = true.
  Proof.
    unfold maint_ok, maint_classname_ok, maint_guard_error_ok, maint_targetname_ok, maint_other_ok.
    rewrite !andb_true_iff, !forallb_forall. intros [[[H1 H2] H3] H4].
    assert (Hin : In f (facts_with (f_key f))).
    { destruct f as [k [|] [|] [|]]; simpl; destruct k; simpl; tauto. }
    destruct f as [k i s w]. destruct k; simpl in Hin.
    - specialize (H1 _ Hin). specialize (H2 _ Hin). apply orb_true_iff in H1, H2.
      destruct (is_guard_error _); simpl in *; naive_solver.
    - by apply H3.
    - by apply H4.
  Qed.

  Lemma set_item_pg_frame sh p d : rec_frame (set_item_pg fold sh p d).
  Proof.
    induction d as [|d IH]; intros e k v st; simpl; [done|].
    destruct (setitem_prefix fold sh k v (keys_of st e)) as [o l'].
    by destruct (m_run_frame _ p IH e k v (default [] o) (with_keys e l' st)) as [-> ->].
  Qed.

  (** one level of the function = the actions today's code executes on the path the facts select *)
  Lemma set_item_pg_acts sh p d e key v st : setitem_shape_ok sh = true → maint_ok p = true →
    set_item_pg fold sh p (S d) e key v st =
    acts_run fold (set_item_pg fold sh p d) (acts_today (facts_of fold e key v st)) e key v
      (default [] (kv_find fold (fold key) (keys_of st e))) (with_keys e (kv_set fold key v (keys_of st e)) st).
  Proof.
    intros Hsh Hp. simpl. destruct (setitem_prefix_ok sh key v (keys_of st e) Hsh) as [Ho Hl].
    destruct (setitem_prefix fold sh key v (keys_of st e)) as [o l']. simpl in Ho, Hl. subst l'. rewrite Ho.
    pose proof (maint_ok_path p (facts_of fold e key v st) Hp) as Hpath. unfold path_ok in Hpath.
    destruct (m_flat p _) as [l|] eqn:El; [|done]. apply bool_decide_eq_true in Hpath.
    rewrite (m_run_flat _ p (set_item_pg_frame sh p d) _ _ _ _ _ l); [|exact El].
    by rewrite <- acts_run_trunc, Hpath.
  Qed.

  (** every path but the error path of the worldspawn guard: no recursion *)
  Lemma set_item_pg_noguard sh p d e key v st : setitem_shape_ok sh = true → maint_ok p = true →
    is_guard_error (facts_of fold e key v st) = false →
    set_item_pg fold sh p (S d) e key v st = set_item fold e key v st.
  Proof.
    intros Hsh Hp Hg. rewrite set_item_pg_acts by done. revert Hg. unfold set_item, facts_of, acts_today, in_map. simpl.
    destruct (decide (fold key = cn)) as [Hcn|Hcn]; simpl.
    - repeat case_bool_decide; repeat case_decide; simpl; done.
    - intros _. destruct (decide (fold key = tn)) as [Htn|Htn]; simpl; [|done].
      repeat case_bool_decide; repeat case_decide; simpl; done.
  Qed.

  (** Entity.__setitem__ as written — lookup loop [sh], maintenance program [p], recursion depth at least 2 — is
      the hand model, for all arguments and states. *)
  Theorem set_item_pg_ok sh p d e key v st : setitem_shape_ok sh = true → maint_ok p = true →
    set_item_pg fold sh p (S (S d)) e key v st = set_item fold e key v st.
  Proof.
    intros Hsh Hp. destruct (is_guard_error (facts_of fold e key v st)) eqn:Hg; [|by apply set_item_pg_noguard].
    rewrite set_item_pg_acts by done. set (R := set_item_pg fold sh p (S d)). revert Hg.
    unfold set_item, facts_of, acts_today, is_guard_error. cbn [f_key f_in_ents f_is_spawn f_new_ws].
    destruct (decide (fold key = cn)) as [Hcn|Hcn]; [|by destruct (decide (fold key = tn))].
    intros Hg. repeat case_bool_decide; try done. clear Hg.
    rename select (e ∉ ents st) into Hne. rename select (e = spawn st) into Hsp. rename select (fold v ≠ ws) into Hnws.
    rewrite (decide_False (P := e ∈ ents st)), (decide_True (P := e = spawn st)), (decide_False (P := fold v = ws)) by done.
    simpl.
    set (l' := kv_set fold key v (keys_of st e)).
    set (st2 := upd_class _ (with_keys e l' st)). subst R.
    rewrite (set_item_pg_noguard sh p d e cn ws st2 Hsh Hp).
    2:{ unfold facts_of, is_guard_error. simpl. rewrite fold_cn, decide_True by done.
        rewrite fold_ws, (bool_decide_eq_true_2 (ws = ws)) by done. by rewrite andb_false_r. }
    unfold set_item. rewrite fold_cn, fold_ws. rewrite !decide_True by done.
    assert (Hk : keys_of st2 e = l').
    { unfold keys_of, st2. simpl. by rewrite lookup_insert. }
    rewrite Hk. rewrite decide_False by done. rewrite decide_True by done. simpl.
    assert (Hf : kv_find fold cn l' = Some v).
    { unfold l'. rewrite <- Hcn at 1. apply kv_find_set_eq. }
    rewrite Hf. done.
  Qed.
End maint.

Lemma maint_today_ok : maint_ok maint_today = true.
Proof. reflexivity. Qed.

(** Seeded fault c07_3: the rejected re-class of the worldspawn reverted by a direct store.  The obligation about
    the error path fails (the other three hold), and on a fresh map [vmf.spawn['classname'] = 'a'] — which raises
    ValueError as it should — leaves a state in which the worldspawn is not listed under 'worldspawn'. *)
Lemma maint_direct_revert_refuted :
  maint_guard_error_ok maint_direct_revert = false ∧
  maint_classname_ok maint_direct_revert = true ∧ maint_targetname_ok maint_direct_revert = true ∧
  maint_other_ok maint_direct_revert = true ∧
  let r := set_item_pg ascii_fold setitem_shape_today maint_direct_revert 2 0 cn [97]%N init in
  r.2 = 2 ∧ keys_of r.1 0 = [(cn, ws)] ∧ ¬ Inv ascii_fold r.1.
Proof.
  repeat (split; [reflexivity|]). intros HI. apply (inv_worldspawn ascii_fold) in HI as [_ HI].
  apply elem_of_elements in HI. revert HI.
  match goal with |- _ ∈ ?l → _ => replace l with (@nil nat) by (vm_compute; reflexivity) end. set_solver.
Qed.

(** Seeded fault c07_7 (round 5): membership in the map is read from a flag cached on the entity ([self._in_map], set
    by add_ent, cleared by remove_ent, never set by add_ents) instead of scanning [self.map.entities].  The flag is
    state the model does not have: the state census [prog_stateless] fails, and so do the path obligations of both
    indexed keys (the facts do not decide the condition and the two branches differ).  With the value the flag has
    for an entity that add_ents put into the map (false), re-classing that entity leaves it in no class set. *)
Lemma maint_cached_flag_refuted :
  prog_stateless maint_today = true ∧ prog_stateless maint_cached_flag = false ∧
  maint_classname_ok maint_cached_flag = false ∧ maint_targetname_ok maint_cached_flag = false ∧
  maint_other_ok maint_cached_flag = true ∧
  let st0 := run ascii_fold [NewEnt [(cn, [97]%N)]; AddEnts [1]] init in
  let r := set_item_pg ascii_fold setitem_shape_today maint_cached_flag 2 1 cn [98]%N st0 in
  Inv ascii_fold st0 ∧ r.2 = 0 ∧ ents r.1 = [1] ∧ keys_of r.1 1 = [(cn, [98]%N)] ∧ ¬ Inv ascii_fold r.1.
Proof.
  repeat (split; [reflexivity|]). split; [by apply run_inv, init_inv|]. repeat (split; [reflexivity|]).
  intros HI.
  match type of HI with Inv _ ?st => assert (H1 : 1 ∈ ix_get (by_class st) [98]%N) end.
  { apply (inv_by_class ascii_fold); [done|]. split; [right; vm_compute; set_solver|reflexivity]. }
  apply elem_of_elements in H1. revert H1.
  match goal with |- _ ∈ ?l → _ => replace l with (@nil nat) by (vm_compute; reflexivity) end. set_solver.
Qed.

(** * 2. VMF.add_ents *)
Section add_ents.
  Variable fold : str → str.

  Definition proj (k : pkind) (ops : list (pkind * nat)) : list nat := map snd (List.filter (λ ke, pkind_eqb k ke.1) ops).

  Definition bad (st0 : mstate) (e : nat) : Prop := e = spawn st0 ∨ nobj st0 ≤ e.
  Definition fa (st0 : mstate) (l : list nat) (e : nat) : list nat := if decide (bad st0 e) then l else l ++ [e].
  Definition fc (st0 : mstate) (m : gmap str (gset nat)) (e : nat) :=
    if decide (bad st0 e) then m else ix_add (cls_of_keys fold (keys_of st0 e)) e m.
  Definition ft (st0 : mstate) (m : gmap (option str) (gset nat)) (e : nat) :=
    if decide (bad st0 e) then m else ix_add (tgt_of_keys fold (keys_of st0 e)) e m.
  (** the three components evolve independently *)
  Definition canon (st0 st : mstate) (la lc lt : list nat) : mstate :=
    MS (objs st) (nobj st) (foldl (fa st0) (ents st) la) (spawn st)
       (foldl (fc st0) (by_class st) lc) (foldl (ft st0) (by_target st) lt).
  Definition same_base (st0 st : mstate) : Prop := objs st = objs st0 ∧ nobj st = nobj st0 ∧ spawn st = spawn st0.

  Lemma atoms_canon st0 ops : ∀ st, same_base st0 st →
    foldl (λ s ke, atom fold ke s) st ops = canon st0 st (proj PAppend ops) (proj PClass ops) (proj PTarget ops).
  Proof.
    induction ops as [|[k e] ops IH]; intros st (Ho & Hn & Hs); [by destruct st|].
    simpl foldl. rewrite IH.
    2:{ unfold atom, same_base. simpl. destruct (decide _); [done|]. by destruct k. }
    unfold atom, canon, proj, fa, fc, ft, bad, keys_of. simpl. rewrite Hs, Hn, Ho.
    destruct (decide (e = spawn st0 ∨ nobj st0 ≤ e)) as [Hb|Hb].
    - destruct k; simpl; rewrite ?decide_True by done; by rewrite ?Ho, ?Hn, ?Hs.
    - destruct k; simpl; rewrite ?decide_False by done; by rewrite ?Ho, ?Hn, ?Hs.
  Qed.

  Lemma proj_app k a b : proj k (a ++ b) = proj k a ++ proj k b.
  Proof. unfold proj. by rewrite List.filter_app, map_app. Qed.

  Lemma count_kind_app k a b : count_kind k (a ++ b) = count_kind k a + count_kind k b.
  Proof. unfold count_kind. by rewrite List.filter_app, app_length. Qed.

  Lemma proj_body k body e : proj k (body ≫= λ k', [(k', e)]) = replicate (count_kind k body) e.
  Proof.
    induction body as [|k0 body IH]; [done|]. change ((k0 :: body) ≫= _) with ([(k0, e)] ++ (body ≫= λ k', [(k', e)])).
    rewrite proj_app, IH. unfold proj, count_kind. simpl. by destruct (pkind_eqb k k0).
  Qed.

  Lemma proj_loop_ops k body got :
    (count_kind k body = 0 → proj k (loop_ops body got) = []) ∧
    (count_kind k body = 1 → proj k (loop_ops body got) = got).
  Proof.
    unfold loop_ops. induction got as [|e got [IH0 IH1]]; [done|].
    change ((e :: got) ≫= _) with ((body ≫= λ k', [(k', e)]) ++ (got ≫= λ e, body ≫= λ k', [(k', e)])).
    rewrite proj_app, proj_body. split; intros Hc; rewrite Hc; simpl; [by rewrite IH0|by rewrite IH1].
  Qed.

  Lemma ae_ops_proj k es oneshot p : ∀ (consumed : bool) (loc : list nat) (locfull : bool), loc = (if locfull then es else []) →
    (count_kind k (ae_sym p oneshot consumed locfull) = 0 → proj k (ae_ops p es oneshot consumed loc) = []) ∧
    (count_kind k (ae_sym p oneshot consumed locfull) = 1 → proj k (ae_ops p es oneshot consumed loc) = es).
  Proof.
    induction p as [|s p IH]; intros consumed loc locfull Hloc; simpl.
    { split; [done|]. unfold count_kind. simpl. lia. }
    destruct s as [|[|] body]; simpl.
    - apply IH. by destruct (oneshot && consumed).
    - rewrite count_kind_app, proj_app. destruct (IH true loc locfull Hloc) as [IH0 IH1].
      destruct (oneshot && consumed); simpl.
      + unfold loop_ops. simpl. done.
      + destruct (proj_loop_ops k body es) as [L0 L1]. split; intros Hc.
        * rewrite L0, IH0 by lia. done.
        * destruct (count_kind k body) as [|[|n]] eqn:Eb; [| |lia].
          -- rewrite L0, IH1 by (done || lia). done.
          -- rewrite L1, IH0 by (done || lia). by rewrite app_nil_r.
    - rewrite count_kind_app, proj_app. destruct (IH consumed loc locfull Hloc) as [IH0 IH1]. subst loc.
      destruct locfull; simpl.
      + destruct (proj_loop_ops k body es) as [L0 L1]. split; intros Hc.
        * rewrite L0, IH0 by lia. done.
        * destruct (count_kind k body) as [|[|n]] eqn:Eb; [| |lia].
          -- rewrite L0, IH1 by (done || lia). done.
          -- rewrite L1, IH0 by (done || lia). by rewrite app_nil_r.
      + unfold loop_ops. simpl. done.
  Qed.

  Lemma atom_bad k e st : e = spawn st ∨ nobj st ≤ e → atom fold (k, e) st = st.
  Proof. intros. unfold atom. simpl. by rewrite decide_True. Qed.
  Lemma atom_good k e st : ¬ (e = spawn st ∨ nobj st ≤ e) →
    atom fold (k, e) st = match k with
                          | PAppend => with_ents (ents st ++ [e]) st
                          | PClass => upd_class (ix_add (cls_of_keys fold (keys_of st e)) e) st
                          | PTarget => upd_target (ix_add (tgt_of_keys fold (keys_of st e)) e) st
                          end.
  Proof. intros. unfold atom. simpl. by rewrite decide_False. Qed.

  Lemma add_ent_atoms e st :
    add_ent fold e st = foldl (λ s ke, atom fold ke s) st [(PAppend, e); (PClass, e); (PTarget, e)].
  Proof.
    unfold add_ent. cbn [foldl]. destruct (decide (e = spawn st ∨ nobj st ≤ e)) as [Hb|Hb].
    - by rewrite (atom_bad PAppend e st Hb), (atom_bad PClass e st Hb), (atom_bad PTarget e st Hb).
    - rewrite (atom_good PAppend) by done. rewrite (atom_good PClass) by done. rewrite (atom_good PTarget) by done.
      done.
  Qed.

  Lemma add_ents_atoms es : ∀ st,
    add_ents fold es st = foldl (λ s ke, atom fold ke s) st (loop_ops [PAppend; PClass; PTarget] es).
  Proof.
    unfold add_ents, loop_ops. induction es as [|e es IH]; intros st; [done|].
    change ((e :: es) ≫= _) with ([(PAppend, e); (PClass, e); (PTarget, e)] ++ (es ≫= λ e, [PAppend; PClass; PTarget] ≫= λ k, [(k, e)])).
    rewrite foldl_app, <- add_ent_atoms. apply IH.
  Qed.

  (** VMF.add_ents as written: a program in which every kind of effect reaches the full list exactly once, both
      for re-iterable and for one-shot arguments, is the hand model [add_ents] — for every argument and state. *)
  Theorem ae_run_ok p es oneshot st : ae_ok p = true → ae_run fold p es oneshot st = add_ents fold es st.
  Proof.
    unfold ae_ok, ae_ok_reiterable, ae_ok_oneshot, once_each. rewrite !andb_true_iff, !Nat.eqb_eq.
    intros [[[Ha Hc] Ht] [[Ha' Hc'] Ht']].
    unfold ae_run. rewrite add_ents_atoms, !(atoms_canon st) by done.
    assert (Hp : ∀ k, proj k (loop_ops [PAppend; PClass; PTarget] es) = es).
    { intros k. apply proj_loop_ops. by destruct k. }
    rewrite !Hp.
    assert (Hq : ∀ k, count_kind k (ae_sym p oneshot false false) = 1 → proj k (ae_ops p es oneshot false []) = es).
    { intros k. by apply (ae_ops_proj k es oneshot p false [] false). }
    destruct oneshot; by rewrite !Hq.
  Qed.
End add_ents.

Lemma add_ents_today_ok : ae_ok add_ents_today = true.
Proof. reflexivity. Qed.

(** Seeded fault c07_4 (the argument is iterated twice): fine for a list, but with a generator the entity is listed
    and not indexed. *)
Lemma add_ents_twice_refuted :
  ae_ok_reiterable add_ents_twice = true ∧ ae_ok_oneshot add_ents_twice = false ∧
  let st0 := run ascii_fold [NewEnt [(cn, [97]%N)]] init in
  Inv ascii_fold st0 ∧ ents (ae_run ascii_fold add_ents_twice [1] true st0) = [1] ∧
  ¬ Inv ascii_fold (ae_run ascii_fold add_ents_twice [1] true st0).
Proof.
  split; [reflexivity|]. split; [reflexivity|]. split; [by apply run_inv, init_inv|]. split; [reflexivity|].
  intros HI.
  assert (H1 : 1 ∈ ix_get (by_class (ae_run ascii_fold add_ents_twice [1] true (run ascii_fold [NewEnt [(cn, [97]%N)]] init))) [97]%N).
  { apply (inv_by_class ascii_fold); [done|]. split; [right; vm_compute; set_solver|reflexivity]. }
  apply elem_of_elements in H1. revert H1.
  match goal with |- _ ∈ ?l → _ => replace l with (@nil nat) by (vm_compute; reflexivity) end. set_solver.
Qed.
