(** C09, round 4 — the census row of a field that copy() builds by a CONDITIONAL (`A if t else B`, `x and B`, `x or B`,
    statement-level if/else storing the same field): the translator records the WEAKER of the two branch rows.
    [how_join] is that choice; StoreCondRowProofs.v shows that the joined row passes [field_fresh] exactly when both
    branches do, and exhibits the boundary case the rule exists for: a copy that shares a container only when it is
    EMPTY is complete (observed equal at every depth) and still not independent. *)
From Coq Require Import List PArith ZArith Bool String Arith.
From SV Require Import SM.Store SM.StoreCopy.
Import ListNotations.

(** The three ways of carrying a value over, ordered by how much of it is fresh. *)
Definition how_carries (w : how) : bool := match w with HShare | HShallow | HDeep => true | _ => false end.
Definition how_rank (w : how) : nat := match w with HShare => 0 | HShallow => 1 | HDeep => 2 | _ => 3 end.
Definition how_join (a b : how) : how := if Nat.leb (how_rank a) (how_rank b) then a else b.

(** The field of the original is a container that happens to be EMPTY; `x and [copies]` / `if x and isinstance(x, list)`
    hand the very same (empty) list to the copy. *)
Definition empty_shared_heap : heap := fun l =>
  match l with
  | 1%positive => Some (Node true [VAtom 5%Z; VRef 3%positive])      (* the original: a scalar and the list *)
  | 2%positive => Some (Node true [VAtom 5%Z; VRef 3%positive])      (* the copy *)
  | 3%positive => Some (Node true [])                                 (* the EMPTY list, shared *)
  | _ => None
  end.

(** The conditional rows the translator found: (census label, field, row of the one branch, row of the other branch).
    [cond_rows_ok]: both branches carry the value, and the row recorded in the census for that field IS their join
    (the translator's choice is re-computed in the kernel). *)
Definition how_eqb (a b : how) : bool :=
  match a, b with
  | HShare, HShare | HDeep, HDeep | HShallow, HShallow | HMissing, HMissing | HCtx, HCtx | HNewId, HNewId => true
  | _, _ => false
  end.

Fixpoint row_how (c : census) (f : string) : option how :=
  match c with
  | [] => None
  | (n, _, w) :: r => if String.eqb n f then Some w else row_how r f
  end.

Definition clookup (k : string) (l : list (string * census)) : option census :=
  option_map snd (find (fun q => String.eqb (fst q) k) l).

Definition cond_row := (string * string * how * how)%type.

Definition cond_row_ok (allc : list (string * census)) (r : cond_row) : bool :=
  let '(lab, f, a, b) := r in
  how_carries a && how_carries b &&
  match clookup lab allc with
  | Some c => match row_how c f with Some w => how_eqb w (how_join a b) | None => false end
  | None => false
  end.

Definition cond_rows_ok (allc : list (string * census)) (rows : list cond_row) : bool := forallb (cond_row_ok allc) rows.

(** A field stored after construction only under a guard: [new.f = E(self.f)] inside [if g(self.f):]; when the guard
    fails the constructor default [d] stays.  (Value level: what arrives in the copy for the original's value [v].) *)
Definition guarded_store {A} (g : A -> bool) (d : A) (v : A) : A := if g v then v else d.

(** The value of an [Optional[list]] field: absent, or a list (possibly EMPTY). *)
Definition optlist := option (list Z).
Definition g_is_not_none (v : optlist) : bool := match v with Some _ => true | None => false end.
Definition g_truthy (v : optlist) : bool := match v with Some (_ :: _) => true | _ => false end.
