(** Proofs about SM/IndexShapes.v: a generated shape that passes its boolean obligations behaves exactly like the
    hand model of SM/IndexModel.v (so every theorem about the hand model applies to the code as written); the
    shapes of the seeded faults are refuted by computed witnesses. *)
From stdpp Require Import gmap sets list.
From Coq Require Import NArith.
From SV Require Import SM.IndexModel SM.IndexProofs SM.IndexSearchProofs SM.IndexShapes.

(** * 1. Entity.__setitem__ *)
Section setitem.
  Variable fold : str → str.

  Lemma first_match_hit key l k0 v :
    first_match (λ k, bool_decide (fold k = fold key)) l = Some k0 →
    dget k0 l = kv_find fold (fold key) l ∧ dset k0 v l = kv_set fold key v l.
  Proof.
    induction l as [|[k1 v1] r IH]; simpl; [done|]. case_bool_decide as Hk.
    - intros [= ->]. by rewrite !decide_True by done.
    - intros Hm. assert (Hf : fold k0 = fold key).
      { clear IH. induction r as [|[k2 v2] r IH]; simpl in Hm; [done|]. case_bool_decide; [by simplify_eq|auto]. }
      destruct (IH Hm) as [H1 H2]. rewrite !decide_False by congruence. by rewrite H1, H2.
  Qed.

  Lemma first_match_miss key l v :
    first_match (λ k, bool_decide (fold k = fold key)) l = None →
    kv_find fold (fold key) l = None ∧ dget key l = None ∧ dset key v l = kv_set fold key v l.
  Proof.
    induction l as [|[k1 v1] r IH]; simpl; [done|]. case_bool_decide as Hk; [done|].
    intros Hm. destruct (IH Hm) as (H1 & H2 & H3). rewrite !decide_False by congruence. by rewrite H1, H2, H3.
  Qed.

  Lemma set_item_with_hand e key v st :
    set_item_with fold (default [] (kv_find fold (fold key) (keys_of st e))) (kv_set fold key v (keys_of st e)) e key v st
    = set_item fold e key v st.
  Proof. reflexivity. Qed.

  (** A source shape that passes the obligations is the hand model, for all arguments and states. *)
  Theorem set_item_sh_ok sh e key v st :
    setitem_shape_ok sh = true → set_item_sh fold sh e key v st = set_item fold e key v st.
  Proof.
    destruct sh as [lf rf hr hs mr ms].
    unfold setitem_shape_ok, ss_match_ok, ss_hit_read_ok, ss_hit_store_ok, ss_miss_read_ok, ss_miss_store_ok. simpl.
    intros Hok. rewrite <- set_item_with_hand. unfold set_item_sh, setitem_prefix. simpl.
    destruct lf, rf; try discriminate. destruct hr as [|[]|[]]; try discriminate. destruct hs; try discriminate.
    destruct ms; try (by rewrite ?andb_false_r in Hok). simpl.
    destruct (first_match _ (keys_of st e)) as [k0|] eqn:Hm.
    - destruct (first_match_hit key _ k0 v Hm) as [H1 H2]. by rewrite H1, H2.
    - destruct (first_match_miss key _ v Hm) as (H1 & H2 & H3). rewrite H3, H1.
      destruct mr as [|[]|[]]; try discriminate; simpl; by rewrite ?H2.
  Qed.
End setitem.

(** the shape of seeded fault c07_1 (previous value fetched with the caller's spelling), and of a read placed
    after the store *)
Definition setitem_shape_today : setitem_shape := SetShape true true (RBefore KStored) KStored (RBefore KCaller) KCaller.
Definition setitem_shape_caller : setitem_shape := SetShape true true (RBefore KCaller) KStored (RBefore KCaller) KCaller.
Definition setitem_shape_after : setitem_shape := SetShape true true (RAfter KStored) KStored (RBefore KCaller) KCaller.

Lemma setitem_shape_today_ok : setitem_shape_ok setitem_shape_today = true.
Proof. reflexivity. Qed.

Section setitem_refuted.
  Let x : str := [120]%N.  Let y : str := [121]%N.  Let a : str := [97]%N.
  Let tn_mixed : str := [84;97;114;103;101;116;78;97;109;101]%N.    (* 'TargetName' *)
  (** create_ent('a', TargetName='x') *)
  Let st0 := run ascii_fold [CreateEnt a [(tn_mixed, x)]] init.

  (** ent['targetname'] = 'y' under the caller-spelling shape: the entity stays filed under 'x' *)
  Lemma set_item_caller_spelling_refuted :
    setitem_shape_ok setitem_shape_caller = false ∧
    Inv ascii_fold st0 ∧ ¬ Inv ascii_fold (set_item_sh ascii_fold setitem_shape_caller 1 tn y st0).1.
  Proof.
    split; [reflexivity|]. split; [by apply run_inv, init_inv|].
    intros HI. set (st1 := (set_item_sh ascii_fold setitem_shape_caller 1 tn y st0).1) in *.
    assert (H1 : 1 ∈ ix_get (by_target st1) (Some x)).
    { apply elem_of_elements. replace (elements _) with [1] by (vm_compute; reflexivity). set_solver. }
    apply (inv_by_target ascii_fold) in H1 as [_ H1]; [|done]. vm_compute in H1. discriminate.
  Qed.

  (** previous value read after the store: the new name is un-filed, the old one stays *)
  Lemma set_item_read_after_store_refuted :
    setitem_shape_ok setitem_shape_after = false ∧
    ¬ Inv ascii_fold (set_item_sh ascii_fold setitem_shape_after 1 tn y st0).1.
  Proof.
    split; [reflexivity|].
    intros HI. set (st1 := (set_item_sh ascii_fold setitem_shape_after 1 tn y st0).1) in *.
    assert (H1 : 1 ∈ ix_get (by_target st1) (Some x)).
    { apply elem_of_elements. replace (elements _) with [1] by (vm_compute; reflexivity). set_solver. }
    apply (inv_by_target ascii_fold) in H1 as [_ H1]; [|done]. vm_compute in H1. discriminate.
  Qed.
End setitem_refuted.

(** * 2. VMF.search *)
(** two states that no reader of the indexes can tell apart *)
Definition ix_equiv (st st' : mstate) : Prop :=
  objs st' = objs st ∧ nobj st' = nobj st ∧ ents st' = ents st ∧ spawn st' = spawn st ∧
  (∀ k, ix_get (by_class st') k = ix_get (by_class st) k) ∧
  (∀ k, ix_get (by_target st') k = ix_get (by_target st) k).

Lemma ix_equiv_refl st : ix_equiv st st.
Proof. by repeat split. Qed.
Lemma ix_equiv_trans a b c : ix_equiv a b → ix_equiv b c → ix_equiv a c.
Proof.
  intros (?&?&?&?&Ha1&Ha2) (?&?&?&?&Hb1&Hb2). repeat split; try congruence.
Qed.

Section search.
  Variable fold : str → str.
  Hypothesis fold_idem : ∀ s, fold (fold s) = fold s.

  Lemma ix_equiv_inv st st' : Inv fold st → ix_equiv st st' → Inv fold st'.
  Proof.
    destruct st as [o n en sp bc bt], st' as [o' n' en' sp' bc' bt'].
    intros [Hc Ht Hs Hse Hk Hf] (Ho & Hn & He & Hsp & Hbc & Hbt). simpl in *. subst.
    split; simpl; try done.
    - intros k e. rewrite Hbc. apply Hc.
    - intros k e. rewrite Hbt. apply Ht.
  Qed.

  Lemma ix_equiv_present st st' e : ix_equiv st st' → present st' e ↔ present st e.
  Proof. intros (_&_&He&Hs&_). unfold present. by rewrite He, Hs. Qed.
  Lemma ix_equiv_tgt st st' e : ix_equiv st st' → tgt_of fold st' e = tgt_of fold st e.
  Proof. intros (Ho&_). unfold tgt_of, keys_of. by rewrite Ho. Qed.
  Lemma ix_equiv_cls st st' e : ix_equiv st st' → cls_of fold st' e = cls_of fold st e.
  Proof. intros (Ho&_). unfold cls_of, keys_of. by rewrite Ho. Qed.

  Lemma named_spec' (p : str → bool) f st e : Inv fold st →
    e ∈ named fold p f st ↔ present st e ∧ ∃ k, tgt_of fold st e = Some k ∧ p k = true.
  Proof.
    intros HI. unfold named. rewrite elem_of_union_list. split.
    - intros (X & HX & He). apply elem_of_list_In, in_map_iff in HX as ([ko X'] & <- & Hin).
      apply filter_In in Hin as [Hin Hp]. apply elem_of_list_In, elem_of_map_to_list in Hin. simpl in *.
      destruct ko as [k|]; [|done].
      assert (He' : e ∈ ix_get (by_target st) (Some k)) by (unfold ix_get; rewrite Hin; done).
      apply (inv_by_target fold) in He' as [Hpres Htg]; [|done].
      split; [done|]. exists k. split; [done|].
      destruct f; [by rewrite (tgt_of_folded fold fold_idem _ _ _ Htg) in Hp|done].
    - intros (Hpres & k & Htg & Hp).
      assert (He' : e ∈ ix_get (by_target st) (Some k)) by (apply (inv_by_target fold); done).
      unfold ix_get in He'. destruct (by_target st !! Some k) as [X|] eqn:E; simpl in He'; [|set_solver].
      exists X. split; [|done]. apply elem_of_list_In, in_map_iff. exists (Some k, X). split; [done|].
      apply filter_In. split.
      + apply elem_of_list_In, elem_of_map_to_list. done.
      + simpl. destruct f; [by rewrite (tgt_of_folded fold fold_idem _ _ _ Htg)|done].
  Qed.

  (** the three parts a search can yield, read off the entities themselves *)
  Definition eT (nm : str) (st : mstate) (e : nat) : Prop := present st e ∧ tgt_of fold st e = Some nm.
  Definition eC (nm : str) (st : mstate) (e : nat) : Prop := present st e ∧ cls_of fold st e = nm.
  Definition eP (nm : str) (st : mstate) (e : nat) : Prop :=
    present st e ∧ ∃ k, tgt_of fold st e = Some k ∧ is_prefix nm k = true.

  Lemma eT_equiv nm st st' e : ix_equiv st st' → eT nm st' e ↔ eT nm st e.
  Proof. intros Heq. unfold eT. by rewrite (ix_equiv_present st st'), (ix_equiv_tgt st st'). Qed.
  Lemma eC_equiv nm st st' e : ix_equiv st st' → eC nm st' e ↔ eC nm st e.
  Proof. intros Heq. unfold eC. by rewrite (ix_equiv_present st st'), (ix_equiv_cls st st'). Qed.
  Lemma eP_equiv nm st st' e : ix_equiv st st' → eP nm st' e ↔ eP nm st e.
  Proof. intros Heq. unfold eP. by rewrite (ix_equiv_present st st'), (ix_equiv_tgt st st'). Qed.

  Lemma has_target_probe nm st : has_target nm (upd_target (probe (Some nm)) st) = true.
  Proof.
    unfold has_target, probe. simpl. apply bool_decide_eq_true.
    destruct (by_target st !! Some nm) eqn:E; [by rewrite E|by rewrite lookup_insert].
  Qed.
  Lemma has_class_probe nm st : has_class nm (upd_class (probe nm) st) = true.
  Proof.
    unfold has_class, probe. simpl. apply bool_decide_eq_true.
    destruct (by_class st !! nm) eqn:E; [by rewrite E|by rewrite lookup_insert].
  Qed.

  (** The interpreter against the symbolic run: what is yielded is exactly the union of the parts the symbolic
      run says are yielded, the presence facts evolve as predicted, and no reader can tell the new state from
      the old one. *)
  Lemma ne_target_equiv nm st st' : ix_equiv st st' → ne_target nm st' = ne_target nm st.
  Proof. intros (_&_&_&_&_&Ht). unfold ne_target. by rewrite Ht. Qed.
  Lemma ne_class_equiv nm st st' : ix_equiv st st' → ne_class nm st' = ne_class nm st.
  Proof. intros (_&_&_&_&Hc&_). unfold ne_class. by rewrite Hc. Qed.

  Lemma sp_run_sem p : ∀ nm st t c pp bt' bc' r st', Inv fold st →
    sp_sym (ne_target nm st) (ne_class nm st) p (has_target nm st) (has_class nm st) = (t, c, pp, bt', bc') →
    sp_run fold p nm st = (r, st') →
    ix_equiv st st' ∧ has_target nm st' = bt' ∧ has_class nm st' = bc' ∧
    ∀ e, e ∈ r ↔ (t = true ∧ eT nm st e) ∨ (c = true ∧ eC nm st e) ∨ (pp = true ∧ eP nm st e).
  Proof.
    induction p as [|a IHa b IHb|cd a IHa b IHb| | |tst f| |]; intros nm st t c pp bt' bc' r st' HI Hsym Hrun; simpl in *.
    - simplify_eq. split; [apply ix_equiv_refl|]. split; [done|]. split; [done|].
      intros e. split; [set_solver|naive_solver].
    - destruct (sp_sym _ _ a _ _) as [[[[t1 c1] p1] bt1] bc1] eqn:Ea.
      destruct (sp_run fold a nm st) as [r1 st1] eqn:Ra.
      destruct (IHa _ _ _ _ _ _ _ _ _ HI Ea Ra) as (Heq1 & Hbt1 & Hbc1 & Hr1).
      rewrite <- Hbt1, <- Hbc1, <- (ne_target_equiv nm st st1 Heq1), <- (ne_class_equiv nm st st1 Heq1) in Hsym.
      destruct (sp_sym _ _ b _ _) as [[[[t2 c2] p2] bt2] bc2] eqn:Eb.
      destruct (sp_run fold b nm st1) as [r2 st2] eqn:Rb.
      assert (HI1 : Inv fold st1) by (by eapply ix_equiv_inv).
      destruct (IHb _ _ _ _ _ _ _ _ _ HI1 Eb Rb) as (Heq2 & Hbt2 & Hbc2 & Hr2).
      simplify_eq. split; [by eapply ix_equiv_trans|]. split; [done|]. split; [done|].
      intros e. rewrite elem_of_union, Hr1, Hr2.
      rewrite (eT_equiv nm st st1 e Heq1), (eC_equiv nm st st1 e Heq1), (eP_equiv nm st st1 e Heq1).
      rewrite !orb_true_iff. tauto.
    - destruct cd.
      + destruct (has_target nm st) eqn:E; [eapply IHa|eapply IHb]; eauto; by rewrite E.
      + destruct (has_class nm st) eqn:E; [eapply IHa|eapply IHb]; eauto; by rewrite E.
      + destruct (ne_target nm st) eqn:E; [eapply IHa|eapply IHb]; eauto; by rewrite E.
      + destruct (ne_class nm st) eqn:E; [eapply IHa|eapply IHb]; eauto; by rewrite E.
    - simplify_eq. split.
      { repeat split; try done. intros k. simpl. apply ix_get_probe. }
      split; [apply has_target_probe|]. split; [done|].
      intros e. rewrite (inv_by_target fold) by done. unfold eT. naive_solver.
    - simplify_eq. split.
      { repeat split; try done. intros k. simpl. apply ix_get_probe. }
      split; [done|]. split; [apply has_class_probe|].
      intros e. rewrite (inv_by_class fold) by done. unfold eC. naive_solver.
    - destruct tst; simplify_eq; (split; [apply ix_equiv_refl|]); (split; [done|]); (split; [done|]);
        intros e; rewrite named_spec' by done; unfold eT, eP.
      + split.
        * intros (Hp & k & Hk & Hb). apply bool_decide_eq_true in Hb as ->. naive_solver.
        * intros [[_ [Hp Hk]]|[[? _]|[? _]]]; try done. split; [done|]. exists nm. by rewrite bool_decide_eq_true.
      + naive_solver.
    - simplify_eq. split; [apply ix_equiv_refl|]. split; [done|]. split; [done|].
      intros e. rewrite (inv_by_target fold) by done. unfold eT. naive_solver.
    - simplify_eq. split; [apply ix_equiv_refl|]. split; [done|]. split; [done|].
      intros e. rewrite (inv_by_class fold) by done. unfold eC. naive_solver.
  Qed.

  Lemma is_prefix_refl s : is_prefix s s = true.
  Proof. induction s as [|x s IH]; simpl; [done|]. by rewrite bool_decide_eq_true_2. Qed.

  Lemma absent_target_empty nm st e : Inv fold st → has_target nm st = false → ¬ eT nm st e.
  Proof.
    intros HI Hh [Hp Ht]. assert (He : e ∈ ix_get (by_target st) (Some nm)) by (by apply (inv_by_target fold)).
    unfold has_target in Hh. apply bool_decide_eq_false in Hh. unfold ix_get in He.
    destruct (by_target st !! Some nm) eqn:E; [by destruct Hh|set_solver].
  Qed.
  Lemma absent_class_empty nm st e : Inv fold st → has_class nm st = false → ¬ eC nm st e.
  Proof.
    intros HI Hh [Hp Ht]. assert (He : e ∈ ix_get (by_class st) nm) by (by apply (inv_by_class fold)).
    unfold has_class in Hh. apply bool_decide_eq_false in Hh. unfold ix_get in He.
    destruct (by_class st !! nm) eqn:E; [by destruct Hh|set_solver].
  Qed.

  (** a set without members holds no match; a set with members is present *)
  Lemma empty_target_none nm st e : Inv fold st → ne_target nm st = false → ¬ eT nm st e.
  Proof.
    intros HI Hh [Hp Ht]. assert (He : e ∈ ix_get (by_target st) (Some nm)) by (by apply (inv_by_target fold)).
    unfold ne_target in Hh. apply bool_decide_eq_false in Hh. apply Hh. intros E. rewrite E in He. set_solver.
  Qed.
  Lemma empty_class_none nm st e : Inv fold st → ne_class nm st = false → ¬ eC nm st e.
  Proof.
    intros HI Hh [Hp Ht]. assert (He : e ∈ ix_get (by_class st) nm) by (by apply (inv_by_class fold)).
    unfold ne_class in Hh. apply bool_decide_eq_false in Hh. apply Hh. intros E. rewrite E in He. set_solver.
  Qed.
  Lemma ne_target_present nm st : ne_target nm st = true → has_target nm st = true.
  Proof.
    unfold ne_target, has_target, ix_get. intros H%bool_decide_eq_true. apply bool_decide_eq_true.
    destruct (by_target st !! Some nm); [done|by destruct H].
  Qed.
  Lemma ne_class_present nm st : ne_class nm st = true → has_class nm st = true.
  Proof.
    unfold ne_class, has_class, ix_get. intros H%bool_decide_eq_true. apply bool_decide_eq_true.
    destruct (by_class st !! nm); [done|by destruct H].
  Qed.

  Lemma flag_case_in (bt bc net nec : bool) : (net = true → bt = true) → (nec = true → bc = true) →
    (bt, bc, net, nec) ∈ flag_cases.
  Proof.
    clear fold_idem fold. intros H1 H2. destruct net; [rewrite H1 by done|]; (destruct nec; [rewrite H2 by done|]);
      try destruct bt; try destruct bc; unfold flag_cases; set_solver.
  Qed.
  Lemma flag_case_st nm st : (has_target nm st, has_class nm st, ne_target nm st, ne_class nm st) ∈ flag_cases.
  Proof. apply flag_case_in; [apply ne_target_present|apply ne_class_present]. Qed.

  (** VMF.search as written (any generated shape that passes [search_shape_ok]) returns exactly the entities of
      [search_spec], and leaves a state that no reader can tell from the one before (only empty sets may have
      been added by defaultdict reads). *)
  Theorem search_sh_sound_complete sh name st : search_shape_ok sh = true → Inv fold st →
    (∀ e, e ∈ (search_sh fold sh name st).1 ↔ search_spec fold name st e) ∧
    ix_equiv st (search_sh fold sh name st).2 ∧ Inv fold (search_sh fold sh name st).2.
  Proof.
    unfold search_shape_ok. rewrite !andb_true_iff. intros ((((He & Hf) & Hs) & Hstar) & Hex) HI.
    cut ((∀ e, e ∈ (search_sh fold sh name st).1 ↔ search_spec fold name st e) ∧
         ix_equiv st (search_sh fold sh name st).2).
    { intros [? ?]. split; [done|]. split; [done|]. by eapply ix_equiv_inv. }
    unfold search_sh, search_spec. rewrite He, Hf, Hs. simpl.
    case_bool_decide as Hn; simpl.
    { split; [|apply ix_equiv_refl]. intros e. split; [set_solver|]. by intros [? _]. }
    destruct (ends_star (fold name)) eqn:Hst.
    - set (nm := removelast (fold name)).
      destruct (sp_sym (ne_target nm st) (ne_class nm st) (sh_star sh) (has_target nm st) (has_class nm st)) as [[[[t c] pp] bt'] bc'] eqn:Es.
      destruct (sp_run fold (sh_star sh) nm st) as [r st'] eqn:Er.
      destruct (sp_run_sem _ _ _ _ _ _ _ _ _ _ HI Es Er) as (Heq & _ & _ & Hr). simpl. split; [|done].
      unfold star_ok in Hstar. rewrite forallb_forall in Hstar.
      specialize (Hstar _ (proj1 (elem_of_list_In _ _) (flag_case_st nm st))).
      simpl in Hstar. rewrite Es in Hstar. apply andb_true_iff in Hstar as [-> Hc]. apply negb_true_iff in Hc as ->.
      intros e. rewrite Hr. unfold eT, eC, eP. split.
      + intros [[_ [Hp Ht]]|[[? _]|[_ [Hp Hk]]]].
        * split; [done|]. split; [done|]. exists nm. split; [done|]. apply is_prefix_refl.
        * done.
        * by split.
      + intros (_ & Hp & Hk). right. right. by split.
    - set (nm := fold name).
      destruct (sp_sym (ne_target nm st) (ne_class nm st) (sh_exact sh) (has_target nm st) (has_class nm st)) as [[[[t c] pp] bt'] bc'] eqn:Es.
      destruct (sp_run fold (sh_exact sh) nm st) as [r st'] eqn:Er.
      destruct (sp_run_sem _ _ _ _ _ _ _ _ _ _ HI Es Er) as (Heq & _ & _ & Hr). simpl. split; [|done].
      unfold exact_ok in Hex. rewrite forallb_forall in Hex.
      specialize (Hex _ (proj1 (elem_of_list_In _ _) (flag_case_st nm st))).
      simpl in Hex. rewrite Es in Hex. apply andb_true_iff in Hex as [Hex Hc]. apply andb_true_iff in Hex as [Hpp Ht].
      apply negb_true_iff in Hpp as ->.
      intros e. rewrite Hr. split.
      + intros [[_ [Hp Hk]]|[[_ [Hp Hk]]|[? _]]]; try done; naive_solver.
      + intros (_ & Hp & [Hk|Hk]).
        * left. split; [|done]. destruct (ne_target nm st) eqn:E; [by destruct t|].
          by destruct (empty_target_none nm st e HI E).
        * right. left. split; [|done]. destruct (ne_class nm st) eqn:E; [by destruct c|].
          by destruct (empty_class_none nm st e HI E).
  Qed.

  (** ... hence it is the hand model [search] of SM/IndexModel.v. *)
  Corollary search_sh_is_search sh name st : search_shape_ok sh = true → Inv fold st →
    (search_sh fold sh name st).1 ≡ search fold name st.
  Proof.
    intros Hok HI e. destruct (search_sh_sound_complete sh name st Hok HI) as [H _].
    by rewrite H, (search_sound_complete fold fold_idem).
  Qed.
End search.

Lemma search_shape_today_ok : search_shape_ok search_shape_today = true.
Proof. reflexivity. Qed.

(** The [elif] shape (seeded fault c07_2) is rejected by the obligation, and wrong on reachable states: after a
    mere read of by_target['a'] the class search finds nothing; an entity named like another one's class hides
    that class. *)
Section elif_refuted.
  Let a : str := [97]%N.  Let b : str := [98]%N.  Let bigA : str := [65]%N.
  Let st_probe := run ascii_fold [CreateEnt a []; ProbeTarget (Some a)] init.
  Let st_named := run ascii_fold [CreateEnt a []; CreateEnt b [(tn, bigA)]] init.

  Lemma search_elif_refuted :
    search_shape_ok search_shape_elif = false ∧
    Inv ascii_fold st_probe ∧ search_spec ascii_fold a st_probe 1 ∧ 1 ∉ (search_sh ascii_fold search_shape_elif a st_probe).1 ∧
    Inv ascii_fold st_named ∧ search_spec ascii_fold a st_named 1 ∧ 1 ∉ (search_sh ascii_fold search_shape_elif a st_named).1.
  Proof.
    split; [reflexivity|].
    assert (Hp : ∀ X : gset nat, elements X = [] ∨ elements X = [2] → 1 ∉ X).
    { intros X HX He. apply elem_of_elements in He. destruct HX as [HX|HX]; rewrite HX in He; set_solver. }
    split; [by apply run_inv, init_inv|]. split.
    { split; [done|]. split; [right; vm_compute; set_solver|]. right. reflexivity. }
    split; [apply Hp; left; vm_compute; reflexivity|].
    split; [by apply run_inv, init_inv|]. split.
    { split; [done|]. split; [right; vm_compute; set_solver|]. right. reflexivity. }
    apply Hp; right; vm_compute; reflexivity.
  Qed.

  (** Seeded fault c07_5 (round 5): [ents = self.by_target.get(name) or self.by_class.get(name); if ents: yield from ents].
      The obligation about the exact branch fails; two plain lookups one after the other pass; and when an entity is
      named like another one's class, the search for that class misses the entity of that class. *)
  Lemma search_or_refuted :
    search_shape_ok search_shape_or = false ∧ search_shape_ok search_shape_two_gets = true ∧
    Inv ascii_fold st_named ∧ search_spec ascii_fold a st_named 1 ∧ 1 ∉ (search_sh ascii_fold search_shape_or a st_named).1 ∧
    1 ∈ (search_sh ascii_fold search_shape_two_gets a st_named).1.
  Proof.
    split; [reflexivity|]. split; [reflexivity|].
    split; [by apply run_inv, init_inv|]. split.
    { split; [done|]. split; [right; vm_compute; set_solver|]. right. reflexivity. }
    split.
    - intros He. apply elem_of_elements in He. revert He.
      match goal with |- _ ∈ ?l → _ => replace l with [2] by (vm_compute; reflexivity) end. set_solver.
    - apply elem_of_elements.
      match goal with |- _ ∈ ?l => let v := eval vm_compute in l in change l with v end. set_solver.
  Qed.
End elif_refuted.
