From stdpp Require Import gmap sets list.
From Coq Require Import ZArith Lia.
From SV Require Import SM.IdMan SM.IdManProofs SM.IdLife SM.IdNode.
Open Scope Z_scope.

(** A manager together with the list of IDs currently held by owners. *)
Definition Good (m : idman) (ids : list Z) : Prop :=
  Inv m ∧ NoDup ids ∧ ∀ i, i ∈ ids → i ∈ used m ∧ 0 < i.

Lemma good_init : Good init [].
Proof. split; [apply init_inv|]. split; [constructor|]. intros i H. inversion H. Qed.

(** An owner gives its ID up, with or without telling the manager. *)
Lemma good_release (rel : bool) m A n B :
  Good m (A ++ n :: B) → Good (if rel then discard n m else m) (A ++ B).
Proof.
  intros (HI & Hnd & Hin).
  apply NoDup_app in Hnd as (HA & Hdisj & HB). apply NoDup_cons in HB as [HnB HB].
  assert (HnA : n ∉ A) by (intros Hx; apply (Hdisj _ Hx); left).
  assert (Hnd' : NoDup (A ++ B)).
  { apply NoDup_app. split; [done|]. split; [|done]. intros x Hx Hx'. apply (Hdisj _ Hx). by right. }
  assert (Hin' : ∀ i, i ∈ A ++ B → i ∈ used m ∧ 0 < i ∧ i ≠ n).
  { intros i Hi. assert (i ∈ A ++ n :: B) as Hi'.
    { apply elem_of_app in Hi as [?|?]; apply elem_of_app; [by left|right; by right]. }
    destruct (Hin _ Hi'). split; [done|]. split; [done|].
    intros ->. apply elem_of_app in Hi as [?|?]; done. }
  destruct rel.
  - split; [by apply discard_inv|]. split; [done|]. intros i Hi. destruct (Hin' _ Hi) as (? & ? & ?).
    split; [|done]. unfold discard, discard_g; simpl. set_solver.
  - split; [done|]. split; [done|]. intros i Hi. destruct (Hin' _ Hi) as (? & ? & ?). done.
Qed.

(** A new owner receives an ID from the manager. *)
Lemma good_alloc m A B d i m' : Good m (A ++ B) → get_id d m = Some (i, m') → Good m' (A ++ i :: B).
Proof.
  intros (HI & Hnd & Hin) E.
  destruct (get_id_fresh _ _ _ _ HI E) as (Hpos & Hfresh & Hused & HI').
  split; [done|]. split.
  - apply NoDup_app in Hnd as (HA & Hdisj & HB). apply NoDup_app. split; [done|]. split.
    + intros x Hx Hx'. apply elem_of_cons in Hx' as [->|Hx'].
      * apply Hfresh. apply Hin. apply elem_of_app; by left.
      * by apply (Hdisj _ Hx).
    + apply NoDup_cons. split; [|done]. intros Hx. apply Hfresh, Hin. apply elem_of_app; by right.
  - intros j Hj. rewrite Hused.
    assert (j = i ∨ j ∈ A ++ B) as [->|Hj'].
    { apply elem_of_app in Hj as [?|Hj]; [right; apply elem_of_app; by left|].
      apply elem_of_cons in Hj as [?|?]; [by left|right; apply elem_of_app; by right]. }
    + split; [set_solver|done].
    + destruct (Hin _ Hj'). split; [set_solver|done].
Qed.

Definition NInv (w : nworld) : Prop := Good (nman w) (nids (nents w)).

Lemma nids_app l1 l2 : nids (l1 ++ l2) = nids l1 ++ nids l2.
Proof. apply flat_map_app. Qed.

Lemma nids_split l k o : l !! k = Some o →
  nids l = nids (take k l) ++ nown o ++ nids (drop (S k) l).
Proof. intros Hk. rewrite <- (take_drop_middle l k o Hk) at 1. by rewrite nids_app. Qed.

Lemma nids_insert l k o o' : l !! k = Some o →
  nids (<[k := o']> l) = nids (take k l) ++ nown o' ++ nids (drop (S k) l).
Proof.
  intros Hk. rewrite insert_take_drop by (by eapply lookup_lt_Some). by rewrite nids_app.
Qed.

(** An allocation nobody keeps (a leak) is harmless. *)
Lemma good_leak m ids d i m' : Good m ids → get_id d m = Some (i, m') → Good m' ids.
Proof.
  intros (HI & Hnd & Hin) E. destruct (get_id_fresh _ _ _ _ HI E) as (_ & _ & Hused & HI').
  split; [done|]. split; [done|]. intros j Hj. destruct (Hin _ Hj). rewrite Hused. split; [set_solver|done].
Qed.

(** Effect of __setitem__ on a slot that currently holds [old]. *)
Lemma nset_key_good d old m A B key m' :
  Good m (A ++ olist old ++ B) → nset_key d old m = (key, m') → Good m' (A ++ olist key ++ B).
Proof.
  intros HG. unfold nset_key.
  assert (HG1 : Good (nrelease old m) (A ++ B)).
  { destruct old as [n|]; simpl in *; [apply (good_release true), HG|done]. }
  destruct d as [n'|].
  - destruct (get_id n' (nrelease old m)) as [[i m2]|] eqn:E.
    + intros [= <- <-]. simpl. eapply good_alloc; eauto.
    + intros [= <- <-]. done.
  - intros [= <- <-]. done.
Qed.

(** Effect of add_ent's node block, in either shape. *)
Lemma nadd_good ra key m A B key' m' :
  Good m (A ++ olist key ++ B) → nadd ra key m = (key', m') → Good m' (A ++ olist key' ++ B).
Proof.
  intros HG. unfold nadd. destruct ra; [|by intros [= <- <-]].
  destruct key as [n|]; [|by intros [= <- <-]].
  destruct (get_id n m) as [[j m1]|] eqn:E; [|by intros [= <- <-]].
  intros H. eapply nset_key_good; [|exact H]. eapply good_leak; eauto.
Qed.

Lemma ncreate_inv ra d w : NInv w → NInv (ncreate ra d w).
Proof.
  unfold NInv, ncreate. intros HG.
  destruct (nset_key d None (nman w)) as [key m1] eqn:E.
  destruct (nadd ra key m1) as [key' m2] eqn:E'. simpl.
  rewrite nids_app. unfold nids at 2. simpl. unfold nown; simpl.
  assert (HG0 : Good (nman w) (nids (nents w) ++ olist None ++ [])) by (simpl; by rewrite app_nil_r).
  pose proof (nset_key_good d None (nman w) (nids (nents w)) [] key m1 HG0 E) as H.
  exact (nadd_good ra key m1 (nids (nents w)) [] key' m2 H E').
Qed.

Lemma nstep_inv ra rd w e : NInv w → NInv (nstep ra false rd true w e).
Proof.
  intros HG. destruct e as [d|k d|k|k|k|k|k|d]; simpl.
  - by apply ncreate_inv.
  - (* NSet *)
    destruct (nents w !! k) as [o|] eqn:Hk; [|done]. destruct (nalive o) eqn:Ha; [|done].
    destruct (nset_key d (nid o) (nman w)) as [key m] eqn:E.
    unfold NInv in *. simpl. rewrite (nids_insert _ _ _ _ Hk). rewrite (nids_split _ _ _ Hk) in HG.
    unfold nown in *. rewrite Ha in HG. simpl. eapply nset_key_good; eauto.
  - (* NDel *)
    destruct (nents w !! k) as [o|] eqn:Hk; [|done]. destruct (nalive o) eqn:Ha; [|done].
    unfold NInv in *. simpl. rewrite (nids_insert _ _ _ _ Hk). rewrite (nids_split _ _ _ Hk) in HG.
    unfold nown in *. rewrite Ha in HG. simpl.
    destruct (nid o) as [n|]; simpl in *; [apply (good_release true), HG|done].
  - (* NRemove: no release *)
    destruct (nents w !! k) as [o|] eqn:Hk; [|done].
    destruct (nalive o && ninmap o) eqn:Hc; [|done]. apply andb_true_iff in Hc as [Ha _].
    unfold NInv in *. simpl. rewrite (nids_insert _ _ _ _ Hk). rewrite (nids_split _ _ _ Hk) in HG.
    unfold nown in *. rewrite Ha in HG. simpl. done.
  - (* NReAdd *)
    destruct (nents w !! k) as [o|] eqn:Hk; [|done].
    destruct (nalive o && negb (ninmap o)) eqn:Hc; [|done]. apply andb_true_iff in Hc as [Ha _].
    destruct (nadd ra (nid o) (nman w)) as [key m] eqn:E.
    unfold NInv in *. simpl. rewrite (nids_insert _ _ _ _ Hk). rewrite (nids_split _ _ _ Hk) in HG.
    unfold nown in *. rewrite Ha in HG. simpl. eapply nadd_good; eauto.
  - (* NGc *)
    destruct (nents w !! k) as [o|] eqn:Hk; [|done].
    destruct (nalive o && negb (ninmap o)) eqn:Hc; [|done]. apply andb_true_iff in Hc as [Ha _].
    unfold NInv in *. simpl. rewrite (nids_insert _ _ _ _ Hk). rewrite (nids_split _ _ _ Hk) in HG.
    unfold nown in *. rewrite Ha in HG. simpl.
    destruct (nid o) as [n|]; simpl in *.
    + apply (good_release rd) in HG. by destruct rd.
    + by destruct rd.
  - (* NCopy *)
    destruct (nents w !! k) as [o|] eqn:Hk; [|done]. destruct (nalive o); [|done].
    by apply ncreate_inv.
  - (* NReserve: an allocation nobody keeps *)
    destruct (get_id d (nman w)) as [[i m]|] eqn:E; [|done].
    unfold NInv in *. simpl. by eapply good_leak.
Qed.

Lemma nrun_inv_from ra rd es : ∀ w, NInv w → NInv (fold_left (nstep ra false rd true) es w).
Proof. induction es as [|e es IH]; intros w H; simpl; [done|]. apply IH. by apply nstep_inv. Qed.

(** Node IDs: when remove_ent does not release the ID of an entity that keeps its key, the node IDs held by the
    existing entities are pairwise distinct and positive after every history — whether or not add_ent allocates
    a second time and whether or not the destructor releases (those two shapes only leak IDs). *)
Theorem node_ids_nodup_pos ra rd es : let w := nrun ra false rd true es in
  NoDup (nids (nents w)) ∧ (∀ i, i ∈ nids (nents w) → 0 < i).
Proof.
  intros w. destruct (nrun_inv_from ra rd es nw0 good_init) as (_ & Hnd & Hin). split; [done|].
  intros i Hi. by destruct (Hin _ Hi).
Qed.

Lemma nmap_ids_sublist l : sublist (nmap_ids l) (nids l).
Proof.
  induction l as [|o l IH]; [constructor|]. unfold nmap_ids, nids in *. simpl.
  destruct (ninmap o); [by apply sublist_app|]. simpl. by apply sublist_inserts_l.
Qed.

(** The code shapes of the pinned tree are refuted by computed histories. *)
(** remove_ent releases, the entity keeps the key and is re-added (found by the search on the pinned tree). *)
Definition node_release_on_remove_history : list nev :=
  [NCreate (Some 0); NRemove 0; NCreate (Some (-1)); NReAdd 0].
Theorem node_release_on_remove_refuted :
  has_dup (nmap_ids (nents (nrun false true false true node_release_on_remove_history))) = true ∧
  has_dup (nmap_ids (nents (nrun true true false true [NCreate (Some 0); NRemove 0; NCreate (Some (-1)); NCreate (Some (-1)); NReAdd 0; NCreate (Some (-1))]))) = true.
Proof. split; vm_compute; reflexivity. Qed.
Example node_release_on_remove_history_ok :
  nmap_ids (nents (nrun false false true true node_release_on_remove_history)) = [1; 2].
Proof. vm_compute. reflexivity. Qed.

(** Round 3.  A copy that takes the key dictionary of its source over without going through __setitem__ holds
    the ID of its source: a duplicate at once (first history), and — because the destructor of the dropped copy
    releases the ID that the source still holds — a duplicate among later nodes (second history). *)
Theorem node_copy_unregistered_refuted :
  nids (nents (nrun false false true false [NCreate (Some 1); NCopy 0])) = [1; 1] ∧
  nids (nents (nrun false false true false
                 [NCreate (Some (-1)); NCopy 0; NRemove 1; NGc 1; NCreate (Some (-1))])) = [1; 1].
Proof. split; vm_compute; reflexivity. Qed.
Example node_copy_registered_ok :
  nids (nents (nrun false false true true [NCreate (Some 1); NCopy 0])) = [1; 2].
Proof. vm_compute. reflexivity. Qed.
