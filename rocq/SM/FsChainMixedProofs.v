(** C19, round 3 - proofs about SM/FsChainMixed.v. *)
From Coq Require Import List NArith Bool.
From SV Require Import SM.FsChain SM.FsChainProofs SM.FsChainWitness SM.FsChainRaw SM.FsChainForms SM.FsChainFormsProofs SM.FsChainWhole SM.FsChainWholeProofs SM.FsChainMixed.
Import ListNotations.
Open Scope N_scope.

Lemma find_all_false {A} (f : A -> bool) l : (forall x, In x l -> f x = false) -> find f l = None.
Proof.
  induction l as [|a l IH]; intros H; [reflexivity|]. cbn [find]. rewrite (H a (or_introl eq_refl)).
  apply IH. intros x Hx. apply H. right. exact Hx.
Qed.

Lemma raw_member_spec ops fs p q :
  raw_ops_ok ops = true -> clean_fs fs = true -> NoDup (map (fun e => nkey (fst e)) fs) ->
  exact_or_absent fs (normpath (slash (pjoin p q))) ->
  raw_lookup_ops ops fs (full_name p q) = spec_lookup fs (normpath (slash (pjoin p q))).
Proof.
  intros Ho Hc Hnd [[e [He Hn]]|Habs].
  - destruct (raw_lookup_slash_agree ops fs e (full_name p q) Ho Hc Hnd He) as [Hr Hs].
    + unfold full_name. rewrite slash_idem. symmetry. exact Hn.
    + unfold full_name in Hs. rewrite slash_idem in Hs. rewrite Hr, Hs. reflexivity.
  - unfold raw_lookup_ops, spec_lookup. rewrite (raw_ops_sem ops _ Ho). unfold full_name. rewrite slash_idem.
    rewrite !find_all_false; [reflexivity| |].
    + intros x Hx. apply in_rev in Hx. destruct (eqb_str_spec (nkey (fst x)) (nkey (normpath (slash (pjoin p q))))) as [E|_]; [|reflexivity].
      exfalso. exact (Habs x Hx E).
    + intros x Hx. apply in_rev in Hx. destruct (eqb_str_spec (fst x) (normpath (slash (pjoin p q)))) as [E|_]; [|reflexivity].
      exfalso. apply (Habs x Hx). rewrite E. reflexivity.
Qed.

(** A chain with directory members answers like the specification on queries that are exact for those members. *)
Theorem mchain_get_spec ms q :
  Forall (mmember_ok q) ms -> mchain_get ms q = chain_spec (map m_spec ms) q.
Proof.
  induction 1 as [|m r Hm _ IH]; [reflexivity|].
  cbn [map mchain_get chain_spec]. destruct m as [k|ops fs p]; cbn [m_get m_spec mmember_ok] in *.
  - unfold k_spec. rewrite (k_lookup_spec k q Hm). destruct (spec_lookup _ _); [reflexivity|exact IH].
  - destruct Hm as [Ho [Hc [Hnd Hx]]]. rewrite (raw_member_spec ops fs p q Ho Hc Hnd Hx).
    destruct (spec_lookup _ _); [reflexivity|exact IH].
Qed.

(** Hence replacing a directory member by any folding backend holding the same files (or the other way round) cannot
    be observed on such queries. *)
Theorem mchain_kind_unobservable ms1 ms2 q :
  Forall (mmember_ok q) ms1 -> Forall (mmember_ok q) ms2 -> map m_spec ms1 = map m_spec ms2 ->
  mchain_get ms1 q = mchain_get ms2 q.
Proof. intros H1 H2 E. rewrite (mchain_get_spec ms1 q H1), (mchain_get_spec ms2 q H2), E. reflexivity. Qed.

(** The premise cannot be dropped: a directory member asked for a name in the wrong case misses where a folding member
    holding the same file hits - and a later member's file is served instead. *)
Theorem mchain_case_needs_exact_refuted :
  map m_spec mixed_raw = map m_spec mixed_fold
  /\ mchain_get mixed_raw [97] = None /\ mchain_get mixed_fold [97] = Some ([65], [1])
  /\ mchain_get mixed_raw [65] = Some ([65], [1]) /\ mchain_get mixed_fold [65] = Some ([65], [1])
  /\ Forall (mmember_ok [65]) mixed_raw.
Proof.
  split; [reflexivity|]. split; [vm_compute; reflexivity|]. split; [vm_compute; reflexivity|].
  split; [vm_compute; reflexivity|]. split; [vm_compute; reflexivity|].
  unfold mixed_raw. apply Forall_cons; [|apply Forall_cons; [|apply Forall_nil]].
  - cbn [mmember_ok]. split; [reflexivity|]. split; [reflexivity|]. split; [repeat constructor; intros []|].
    left. exists ([65], [1]). split; [left; reflexivity|vm_compute; reflexivity].
  - cbn [mmember_ok]. split; [vm_compute; reflexivity|]. split; [vm_compute; reflexivity|exact I].
Qed.
