From stdpp Require Import gmap sets.
From Coq Require Import ZArith Lia.
From SV Require Import SM.IdMan.
Open Scope Z_scope.

Lemma scan_some f p u i : scan f p u = Some i → p ≤ i ∧ i ∉ u ∧ ∀ j, p ≤ j < i → j ∈ u.
Proof.
  revert p; induction f as [|f IH]; intros p; simpl; [discriminate|].
  destruct (decide (p ∈ u)) as [Hin|Hn].
  - intros H. destruct (IH _ H) as (Hle & Hni & Hall). repeat split; [lia|done|].
    intros j Hj. destruct (decide (j = p)) as [->|]; [done|]. apply Hall; lia.
  - intros [= <-]. repeat split; [lia|done|]. intros; lia.
Qed.

Lemma scan_terminates (f : nat) (p : Z) (u : gset Z) :
  (size (filter (λ x : Z, (p ≤ x)%Z) u) < f)%nat → is_Some (scan f p u).
Proof.
  revert p; induction f as [|f IH]; intros p Hs; [lia|]. simpl.
  destruct (decide (p ∈ u)) as [Hin|]; [|eauto].
  apply IH.
  assert (Hsub : filter (λ x, p + 1 ≤ x) u ⊂ filter (λ x, p ≤ x) u).
  { apply strict_spec_alt. split.
    - intros x. rewrite !elem_of_filter. intros [? ?]; split; [lia|done].
    - intros Heq. assert (Hp : p ∈ filter (λ x, p ≤ x) u) by (apply elem_of_filter; split; [lia|done]).
      rewrite <- Heq in Hp. apply elem_of_filter in Hp as [? _]. lia. }
  apply subset_size in Hsub. lia.
Qed.

(** The allocator invariant stated in the source comment: "IDs from 1:search_pos must have been used". *)
Definition Inv (s : idman) : Prop := 1 ≤ pos s ∧ (∀ j, 1 ≤ j < pos s → j ∈ used s).

Lemma init_inv : Inv init.
Proof. split; simpl; [lia|]. intros; lia. Qed.

Lemma get_id_total d s : is_Some (get_id d s).
Proof.
  unfold get_id. destruct (decide _); [eauto|].
  destruct (scan_terminates (S (size (used s))) (pos s) (used s)) as [i Hi]; [|rewrite Hi; eauto].
  assert (Hsub : filter (λ x, pos s ≤ x) (used s) ⊆ used s) by (intros x; rewrite elem_of_filter; tauto).
  apply subseteq_size in Hsub. lia.
Qed.

Lemma get_id_fresh d s i s' : Inv s → get_id d s = Some (i, s') →
  0 < i ∧ i ∉ used s ∧ used s' = {[i]} ∪ used s ∧ Inv s'.
Proof.
  intros [Hp Hall]. unfold get_id. destruct (decide _) as [[Hd Hn]|_].
  - intros [= <- <-]. split; [done|]. split; [done|]. split; [done|]. split; simpl; [done|].
    intros j Hj. apply elem_of_union_r. apply Hall; lia.
  - destruct (scan _ _ _) as [k|] eqn:E; [|discriminate]. intros [= <- <-].
    destruct (scan_some _ _ _ _ E) as (Hle & Hni & Hbetween).
    split; [lia|]. split; [done|]. split; [done|]. split; simpl; [lia|].
    intros j Hj. destruct (decide (j = k)) as [->|]; [set_solver|].
    apply elem_of_union_r. destruct (decide (j < pos s)); [apply Hall; lia|apply Hbetween; lia].
Qed.

(** The desired ID is honoured exactly when it is positive and free. *)
Lemma get_id_desired d s : 0 < d → d ∉ used s → ∃ s', get_id d s = Some (d, s').
Proof. intros Hd Hn. unfold get_id. destruct (decide _) as [|Hno]; [eauto|]. exfalso; apply Hno; done. Qed.

(** Releasing any value (positive or not, in use or not) keeps the invariant: only positive IDs lower the hint. *)
Lemma discard_inv e s : Inv s → Inv (discard e s).
Proof.
  intros [Hp Hall]. unfold discard, discard_g, Inv; simpl. destruct (decide (e < pos s)).
  - destruct (bool_decide (0 < e)) eqn:E; simpl.
    + apply bool_decide_eq_true in E. split; [lia|]. intros j Hj. apply elem_of_difference.
      split; [apply Hall; lia|]. rewrite elem_of_singleton. lia.
    + apply bool_decide_eq_false in E. split; [done|]. intros j Hj. apply elem_of_difference.
      split; [apply Hall; lia|]. rewrite elem_of_singleton. lia.
  - split; [done|]. intros j Hj. apply elem_of_difference. split; [apply Hall; lia|]. rewrite elem_of_singleton. lia.
Qed.

(** Without the guard (the pinned tree) releasing a non-positive value moves the hint below 1 and the next
    scan hands out a non-positive ID. *)
Lemma discard_unguarded_refuted :
  fst <$> get_id (-1) (discard_g false (-1) init) = Some (-1).
Proof. vm_compute. reflexivity. Qed.
