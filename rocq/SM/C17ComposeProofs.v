(** Proofs about SM/C17Compose.v. *)
From Coq Require Import List Permutation.
From SV Require Import SM.C17Compose.
Import ListNotations.

Section Proofs.
  Variables T G P A M Obs : Type.
  Variable obs : T -> Obs.
  Variable collapse : T -> G -> P -> A -> M * T * G.
  Variable ident : P.
  Variable transform : P -> M -> M.
  Notation c_out := (c_out T G M).
  Notation c_tmpl := (c_tmpl T G M).
  Notation c_history := (c_history T G P A M collapse).
  Notation as_if_first := (as_if_first T G P A M collapse ident transform).

  Hypothesis reads_obs : forall t t' g p a, obs t = obs t' -> c_out (collapse t g p a) = c_out (collapse t' g p a).
  Hypothesis template_intact : forall t g p a, obs (c_tmpl (collapse t g p a)) = obs t.
  Hypothesis state_independent : forall t g g' p a, c_out (collapse t g p a) = c_out (collapse t g' p a).
  Hypothesis equivariant : forall t g p a, c_out (collapse t g p a) = transform p (c_out (collapse t g ident a)).

  Lemma history_from : forall cs t t0 g g0, obs t = obs t0 -> c_history cs t g = map (as_if_first t0 g0) cs.
  Proof.
    induction cs as [|[p a] r IH]; intros t t0 g g0 Ho; cbn [C17Compose.c_history map]; [reflexivity|].
    f_equal.
    - unfold C17Compose.as_if_first; cbn [fst snd].
      rewrite equivariant, (state_independent t g g0 ident a), (reads_obs t t0 g0 ident a Ho). reflexivity.
    - apply IH. rewrite template_intact. exact Ho.
  Qed.

  (** Every result of the c_history is what that call alone gives on the untouched template in a new process at the
      identity placement, moved to its own placement: it depends on nothing that happened before. *)
  Theorem each_result_as_if_first : forall cs t g g0, c_history cs t g = map (as_if_first t g0) cs.
  Proof. intros. apply history_from. reflexivity. Qed.

  (** ... so the order does not matter: a permuted c_history gives the permuted results ... *)
  Corollary order_independent : forall cs cs' t g, Permutation cs cs' -> Permutation (c_history cs t g) (c_history cs' t g).
  Proof.
    intros cs cs' t g Hp. rewrite (each_result_as_if_first cs t g g), (each_result_as_if_first cs' t g g).
    apply Permutation_map. exact Hp.
  Qed.

  (** ... repeating a call repeats its result, however many collapses lie in between ... *)
  Corollary repeat_same : forall cs1 cs2 c t g d,
    nth (length cs1) (c_history (cs1 ++ c :: cs2 ++ [c]) t g) d = nth (length cs1 + S (length cs2)) (c_history (cs1 ++ c :: cs2 ++ [c]) t g) d.
  Proof.
    intros. rewrite (each_result_as_if_first _ t g g), map_app. cbn [map]. rewrite map_app. cbn [map].
    rewrite app_nth2; rewrite map_length; [|apply le_n]. rewrite PeanoNat.Nat.sub_diag. cbn [nth].
    rewrite app_nth2; rewrite map_length; [|apply PeanoNat.Nat.le_add_r].
    replace (length cs1 + S (length cs2) - length cs1) with (S (length cs2)) by (rewrite PeanoNat.Nat.add_comm, PeanoNat.Nat.add_sub; reflexivity).
    cbn [nth]. rewrite app_nth2; rewrite map_length; [|apply le_n]. rewrite PeanoNat.Nat.sub_diag. reflexivity.
  Qed.

  (** ... and two placements of the same call differ only by the placement. *)
  Corollary differ_only_by_placement : forall p1 p2 a t g g0,
    c_history [(p1, a); (p2, a)] t g =
    [transform p1 (c_out (collapse t g0 ident a)); transform p2 (c_out (collapse t g0 ident a))].
  Proof. intros. rewrite (each_result_as_if_first _ t g g0). reflexivity. Qed.
End Proofs.

(** The hypotheses are satisfiable together (and the theorem is not about the empty c_history only). *)
Definition toy_collapse (t g p a : nat) : nat * nat * nat := (t + a + p, t, S g).
Example compose_hypotheses_satisfiable :
  (forall t t' g p a, (fun x : nat => x) t = t' -> c_out _ _ _ (toy_collapse t g p a) = c_out _ _ _ (toy_collapse t' g p a)) /\
  (forall t g p a, c_tmpl _ _ _ (toy_collapse t g p a) = t) /\
  (forall t g g' p a, c_out _ _ _ (toy_collapse t g p a) = c_out _ _ _ (toy_collapse t g' p a)) /\
  (forall t g p a, c_out _ _ _ (toy_collapse t g p a) = (fun p m => m + p) p (c_out _ _ _ (toy_collapse t g 0 a))) /\
  c_history _ _ _ _ _ toy_collapse [(1, 2); (3, 4)] 10 0 = [13; 17].
Proof.
  repeat split; intros; cbn; try reflexivity.
  - subst; reflexivity.
  - rewrite PeanoNat.Nat.add_0_r. reflexivity.
Qed.
