(** C19, round 4 — directory members under any spelling of their subfolder, walked with any spelling of the folder.

    The directory backend resolves a name through normpath after the slash conversion as well (abspath), so a directory
    mounted under [p] and walked as [f] behaves like the one mounted under the clean [p0] and walked as the clean [f0];
    exactness of the folder is asked of the clean spellings. *)
From Coq Require Import List NArith Bool.
From SV Require Import SM.FsChain SM.FsChainProofs SM.FsChainRel SM.FsChainCompose SM.FsChainRaw SM.FsChainAdd SM.FsChainAddProofs
     SM.FsChainNorm SM.FsChainWalkGen SM.FsChainNoise.
Import ListNotations.
Open Scope N_scope.

Lemma raw_walk_normal_form ops fs f f' :
  raw_ops_ok ops = true -> normpath (slash f) = normpath (slash f') -> raw_walk ops fs f = raw_walk ops fs f'.
Proof. intros Ho E. unfold raw_walk, raw_folder. rewrite !(raw_ops_sem ops _ Ho), E. reflexivity. Qed.

Lemma raw_lookup_normal_form ops fs q q' :
  raw_ops_ok ops = true -> normpath (slash q) = normpath (slash q') -> raw_lookup_ops ops fs q = raw_lookup_ops ops fs q'.
Proof. intros Ho E. unfold raw_lookup_ops. rewrite !(raw_ops_sem ops _ Ho), E. reflexivity. Qed.

Definition noisy_raw_member (f f0 : str) (m : member) : Prop :=
  exists r ops fs p p0, m = raw_member_of r ops fs p /\ raw_rel_ok r = true /\ raw_ops_ok ops = true /\ clean_fs fs = true
    /\ NoDup (map (fun e => nkey (fst e)) fs) /\ okp p0 /\ spells p p0 /\ okp f0 /\ spells f f0 /\ folder_exact fs p0 f0.

Lemma noisy_raw_member_walk_ok m f f0 : noisy_raw_member f f0 m -> walk_member_ok_at (nkey f0) f m.
Proof.
  intros [r [ops [fs [p [p0 [-> [Hr [Ho [Hc [Hnd [Hp0 [Hsp [Hf0 [Hsf Hex]]]]]]]]]]]]]].
  assert (H0 : walk_member_ok f0 (raw_member_of r ops fs p0)).
  { apply raw_member_walk_ok; [|exact Hf0]. exists r, ops, fs, p0. split; [reflexivity|]. split; [exact Hr|]. split; [exact Ho|].
    split; [exact Hc|]. split; [exact Hnd|]. split; [exact Hp0|exact Hex]. }
  destruct H0 as [HA HB]. unfold walk_member_ok_at, lists_sound, lists_complete, lists_sound_at, lists_complete_at, asks in *.
  cbn [raw_member_of m_walk m_lookup m_prefix] in *.
  assert (Ew : raw_walk_rel r ops fs (full_name p f) = raw_walk_rel r ops fs (full_name p0 f0)).
  { unfold raw_walk_rel. rewrite (raw_walk_normal_form ops fs (full_name p f) (full_name p0 f0) Ho); [reflexivity|].
    apply spells_full_name; assumption. }
  assert (El : forall q, clean_name q = true -> raw_lookup_ops ops fs (full_name p q) = raw_lookup_ops ops fs (full_name p0 q)).
  { intros q Hq. apply raw_lookup_normal_form; [exact Ho|]. apply spells_full_name; [exact Hsp|].
    apply spells_refl. apply clean_name_plain. exact Hq. }
  split.
  - intros e He. rewrite Ew in He. rewrite (spells_drop_segs p p0 _ Hsp).
    destruct (HA e He) as [H1 [H2 H3]]. split; [exact H1|]. split; [exact H2|]. rewrite (El _ H1). exact H3.
  - intros q g Hq Hin Hg. rewrite (El q Hq) in Hg. rewrite Ew, (spells_drop_segs p p0 _ Hsp). apply (HB q g Hq Hin Hg).
Qed.

(** Members of either kind under any spelling. *)
Definition any_member_spelt (f f0 : str) (m : member) : Prop := noisy_member f f0 m \/ noisy_raw_member f f0 m.

Theorem chain_walk_lookup_closed_spelt dops ms f f0 x :
  dedup_ops_ok dops = true -> Forall (any_member_spelt f f0) ms ->
  In x (chain_walk RelDropSegs dops ms f) ->
  chain_get ms (fst x) = Some (snd x).
Proof.
  intros Hd Hms. apply (chain_walk_lookup_closed_at (nkey f0)); [exact Hd|].
  eapply Forall_impl; [|exact Hms]. intros m [H|H]; [apply noisy_member_walk_ok|apply noisy_raw_member_walk_ok]; exact H.
Qed.

(** [any_member] (clean folder for directories) is a special case. *)
Lemma any_member_is_spelt f f0 m : any_member f f0 m -> any_member_spelt f f0 m.
Proof.
  intros [H|[-> [Hf [r [ops [fs [p [-> [Hr [Ho [Hc [Hnd [Hp Hex]]]]]]]]]]]]]; [left; exact H|right].
  assert (Hpl : forall s, okp s -> plain s = true).
  { intros s [->|[Hs Hss]]; [reflexivity|]. unfold plain, segs_of. rewrite (clean_no_lead_slash _ Hss). cbn [negb andb].
    unfold clean in Hss. unfold no_dotdot. rewrite forallb_forall in *. intros c Hin. specialize (Hss c Hin).
    unfold good_seg in Hss. apply andb_true_iff in Hss as [_ Hss]. exact Hss. }
  exists r, ops, fs, p, p. split; [reflexivity|]. split; [exact Hr|]. split; [exact Ho|]. split; [exact Hc|]. split; [exact Hnd|].
  split; [exact Hp|]. split; [apply spells_refl; apply Hpl; exact Hp|]. split; [exact Hf|]. split; [apply spells_refl; apply Hpl; exact Hf|exact Hex].
Qed.
