(** C19, round 3 — the chain statement of the property as one theorem over heterogeneous members.

    "A chain of filesystems returns, for every name, the content of the first member that has it, addresses
    subfolder-restricted members relative to their subfolder" - stated against the specification map alone, for every
    public lookup form ([chain[q]], [q in chain], [chain.open_bin(q)] / [open_str(q)] and the bytes read from the
    handle), for members of any backend kind, with VPK members keeping their bytes in any placement.  Consequence:
    which backend kind holds a file set (and where a VPK keeps the bytes) cannot be observed through a chain.
    Executable definitions only (proofs in FsChainWholeProofs.v); composes [lookup_agree_all] (FsChainProofs), [chain_exists_agrees] and
    [ceval_whole_all_placements] (FsChainFormsProofs). *)
From Coq Require Import List NArith Bool.
From SV Require Import SM.FsChain SM.FsChainProofs SM.FsChainWitness SM.FsChainCompose SM.FsChainComplete SM.FsChainForms SM.FsChainFormsProofs.
Import ListNotations.
Open Scope N_scope.

(** A member with its backend kind, its files, its subfolder and how the bytes are kept: [None] = held as they are
    (in memory, zip); [Some (c, limit, in_dir)] = a VPK whose [open_bin] reads through content expression [c], written
    with preload limit [limit], the rest in the directory file ([in_dir]) or in a numbered archive. *)
Record kmember := { k_b : backend; k_fs : list file; k_p : str; k_store : option (cexpr * nat * bool) }.

Definition k_member (m : kmember) : member := member_of (k_b m) (k_fs m) (k_p m).
Definition k_xmember (m : kmember) : xmember := xmember_of (k_b m) (k_fs m) (k_p m).
Definition k_read (m : kmember) (e : file) : bytes :=
  match k_store m with
  | None => snd e
  | Some (c, limit, in_dir) => ceval c (vf_place limit in_dir (snd e))
  end.

(** [chain.open_bin(q).read()]: [_get_file] takes the first member that has the joined name and wraps that member's
    File; opening the wrapped File reads through that member. *)
Fixpoint chain_read (ms : list kmember) (q : str) : option bytes :=
  match ms with
  | [] => None
  | m :: r => match lookup (k_b m) (k_fs m) (full_name (k_p m) q) with
              | Some e => Some (k_read m e)
              | None => chain_read r q
              end
  end.

(** The specification, from the property text alone: the members in priority order as (files, subfolder); the first
    one whose files contain subfolder/name - up to case, either slash, redundant segments - gives the content. *)
Fixpoint chain_spec (ms : list (list file * str)) (q : str) : option file :=
  match ms with
  | [] => None
  | (fs, p) :: r => match spec_lookup fs (normpath (slash (pjoin p q))) with
                    | Some e => Some e
                    | None => chain_spec r q
                    end
  end.

Definition k_spec (m : kmember) : list file * str := (k_fs m, k_p m).

Definition kmember_ok (m : kmember) : Prop :=
  backend_keys_norm (k_b m) = true /\ clean_fs (k_fs m) = true /\
  match k_store m with Some (c, _, _) => cexpr_whole false c = true | None => True end.

(** ** The walk of such a chain ([walk_folder(folder)], and [iter(chain)] = [walk_folder('')]). *)

(** Members whose walk has a sound form and whose subfolder is empty or clean. *)
Definition kmember_walk_ok (m : kmember) : Prop := kmember_ok m /\ walk_ok (k_b m) = true /\ okp (k_p m).

Definition kw_zip : kmember := {| k_b := fixed_zip; k_fs := [([115; 47; 121], [9])]; k_p := [115]; k_store := None |}.
Definition kw_mem : kmember := {| k_b := fixed_zip; k_fs := [([120], [1; 2; 3])]; k_p := []; k_store := None |}.
Definition kw_vpk (c : cexpr) : kmember :=
  {| k_b := fixed_zip; k_fs := [([120], [1; 2; 3])]; k_p := []; k_store := Some (c, 2%nat, true) |}.
