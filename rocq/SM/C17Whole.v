(** C17 — the whole property as ONE machine, so that the composition theorem of SM/C17Compose.v gets its four hypotheses
    from the part theorems instead of from reading.

    A collapse is the run ([SM/C17Global.run]) of the control-flow skeleton of collapse_one (generated) over a program
    state with three parts:
      - [p_heap], [p_roots]: C09's heap model (SM/Store.v) - object identities, who holds a reference to what;
      - [p_x]: the values the code computes with (the non-heap shadow of everything it holds except the template).
    The process-global state [G] is threaded by [run].  The placement does not enter the run: what a collapse adds to
    the map is [transform p (content x)] - the placement arithmetic (an [arith] record; Props/C17.v instantiates it with
    the GENERATED g_vec_localise / g_fixup_key_direction / g_uv_localise / g_angle_imatmul) applied item by item to a
    placement-independent content.  (That the code uses the placement nowhere else is the site census of round 1:
    `localise(origin, orient)` once per brush loop with origin/orient bound to inst.pos/inst.orient and never re-bound,
    entity origin / angles / fixup_key sites - obligations, by reading here.)

    What is assumed about the statements ([respects], the only non-generated hypothesis of the final theorem):
      (i)  what a statement writes, it writes through references it holds, or it builds a copy field by field as the
           copy census of a class in the copy closure of a copied class says ([disciplined]);
      (ii) what a statement computes depends on the template only through its value ([alike]).
    Everything else is derived (SM/C17WholeProofs.v): template intact from C09's census/frame theorems + the generated
    census being fresh; independence of the process state from [fn_ok] of the generated skeleton; placement
    equivariance from the identity laws of the generated arithmetic. *)
From Coq Require Import List Bool String Reals.
From SV Require Import SM.Store SM.StoreProofs SM.StoreCopy SM.C17Frame SM.C17Global SM.C17Compose Rot.C17Base.
Import ListNotations.

(** The placement arithmetic as an object. *)
Record arith := {
  ar_point : vec -> vec -> mat -> vec;          (* positions: Vec.localise, entity origin, position keyvalues *)
  ar_dir : vec -> mat -> vec;                   (* directions: direction keyvalues, displacement normals / offsets *)
  ar_axis : uvaxis -> vec -> mat -> uvaxis;     (* texture axes *)
  ar_orient : mat -> mat -> mat }.              (* orientations: angles @= orient *)

(** Placing at (0, I) changes nothing. *)
Definition arith_identity (ar : arith) : Prop :=
  (forall v, ar_point ar v vzero mid = v) /\ (forall v, ar_dir ar v mid = v) /\
  (forall u, ar_axis ar u vzero mid = u) /\ (forall r, ar_orient ar r mid = r).

(** The specification arithmetic: rotate then offset; rotate; [uvplace]; compose with the instance rotation. *)
Definition spec_arith : arith := {| ar_point := place; ar_dir := vrot; ar_axis := uvplace; ar_orient := mmul |}.

Definition placement := (vec * mat)%type.
Definition ident_placement : placement := (vzero, mid).

Section Items.
  Variable D : Type.       (* placement-independent data: names, substituted texts, materials, outputs ... *)
  Inductive item := IPoint (v : vec) | IDir (v : vec) | IAxis (u : uvaxis) | IOrient (r : mat) | IData (d : D).

  Definition place_item (ar : arith) (p : placement) (it : item) : item :=
    match it with
    | IPoint v => IPoint (ar_point ar v (fst p) (snd p))
    | IDir v => IDir (ar_dir ar v (snd p))
    | IAxis u => IAxis (ar_axis ar u (fst p) (snd p))
    | IOrient r => IOrient (ar_orient ar r (snd p))
    | IData d => IData d
    end.

  (** what a collapse returns: how control left collapse_one, and what was added to the map *)
  Definition added := (status * list item)%type.
  Definition transform (ar : arith) (p : placement) (r : added) : added := (fst r, map (place_item ar p) (snd r)).
End Items.

Section Machine.
  Variable all : list (string * census).      (* C09's copy census (generated) *)
  Variable copied : list string.              (* the classes collapse_one copies (generated) *)

  (** What the statements of collapse_one may do to the heap: work through the references held, or build a copy as
      the census of a class reached by copy() from a copied class says. *)
  Inductive disciplined : heap -> list loc -> heap -> list loc -> Prop :=
  | dis_done h R : disciplined h R h R
  | dis_work h R ms h1 R1 h2 R2 :
      steps (h, R) ms (h1, R1) -> disciplined h1 R1 h2 R2 -> disciplined h R h2 R2
  | dis_copy h R h1 cls l n c la lc nd nd' h2 R2 :
      In cls copied -> copy_closure cls = Some l -> In n l -> lookup_census all n = Some c ->
      closed h1 -> extends h h1 -> h la = Some nd -> h lc = None -> h1 lc = Some nd' ->
      fields_rel h h1 (ck c) (nfields nd) (nfields nd') ->
      disciplined h1 (lc :: R) h2 R2 -> disciplined h R h2 R2.

  Variables X G : Type.
  Record pstate := { p_heap : heap; p_roots : list loc; p_x : X }.

  Variable a : loc.                           (* the template object *)

  Definition wf_hr (h : heap) (R : list loc) : Prop := closed h /\ alloc h a /\ roots_alloc h R /\ sep h a R.
  Definition wf (s : pstate) : Prop := wf_hr (p_heap s) (p_roots s).
  Definition tmpl_is (o : nat -> tree) (h : heap) : Prop := forall n, unfold n h (VRef a) = o n.
  Definition dis (s s' : pstate) : Prop := disciplined (p_heap s) (p_roots s) (p_heap s') (p_roots s').
  (** same values in hand, same value of the template (the heaps may differ in everything else) *)
  Definition alike (s s' : pstate) : Prop :=
    p_x s = p_x s' /\ forall n, unfold n (p_heap s) (VRef a) = unfold n (p_heap s') (VRef a).

  Variable m : sem pstate G.

  Record respects : Prop := {
    r_eff_dis : forall i s, wf s -> dis s (fst (eff _ _ m i s));
    r_teff_dis : forall i s g, wf s -> dis s (fst (teff _ _ m i s g));
    r_next_dis : forall i s, wf s -> dis s (next _ _ m i s);
    r_eff_val : forall i s s', alike s s' ->
      p_x (fst (eff _ _ m i s)) = p_x (fst (eff _ _ m i s')) /\ snd (eff _ _ m i s) = snd (eff _ _ m i s');
    r_teff_val : forall i s s' g, alike s s' ->
      p_x (fst (teff _ _ m i s g)) = p_x (fst (teff _ _ m i s' g)) /\ snd (teff _ _ m i s g) = snd (teff _ _ m i s' g);
    r_next_val : forall i s s', alike s s' -> p_x (next _ _ m i s) = p_x (next _ _ m i s');
    r_cond_val : forall i s s', alike s s' -> cond _ _ m i s = cond _ _ m i s';
    r_gcond_val : forall i s s' g, alike s s' -> gcond _ _ m i s g = gcond _ _ m i s' g;
    r_gupd_val : forall i s s' g, alike s s' -> gupd _ _ m i s g = gupd _ _ m i s' g;
    r_count_val : forall i s s', alike s s' -> count _ _ m i s = count _ _ m i s' }.

  (** One collapse: the heap and the references the process holds ([T]) and the process-global state go in and come
      out; the locals start from the arguments ([enter]) - nothing else survives a call. *)
  Variables A D : Type.
  Variable ar : arith.
  Variable body : skel.                       (* skeleton of collapse_one (generated) *)
  Variable enter : A -> X.
  Variable content : X -> list (item D).

  Definition T := (heap * list loc)%type.
  Definition start (t : T) (a0 : A) : pstate := {| p_heap := fst t; p_roots := snd t; p_x := enter a0 |}.

  Definition collapse (t : T) (g : G) (p : placement) (a0 : A) : added D * T * G :=
    match run pstate G m (KCall body) (start t a0) g with
    | (s1, g1, st) => (transform D ar p (st, content (p_x s1)), (p_heap s1, p_roots s1), g1)
    end.

  Definition wf_T (t : T) : Prop := wf_hr (fst t) (snd t).
End Machine.
