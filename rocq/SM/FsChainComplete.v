(** C19 — the chain walk is complete: whatever the chain's lookup finds inside the folder is listed (once), with that
    very File; and the lookup does not depend on the spelling of a clean name. *)
From Coq Require Import List NArith Bool.
From SV Require Import SM.FsChain SM.FsChainProofs SM.FsChainRel SM.FsChainCompose.
Import ListNotations.
Open Scope N_scope.

Lemma full_name_key p q q' :
  okp p -> clean_name q = true -> clean_name q' = true -> nkey q = nkey q' ->
  nkey (full_name p q) = nkey (full_name p q').
Proof.
  intros Hp Hq Hq' Hk.
  destruct (full_name_listed p q Hp Hq) as [_ H1]. destruct (full_name_listed p q' Hp Hq') as [_ H2].
  destruct p as [|c p'].
  - rewrite (H1 (nkey q)), (H2 (nkey q')); [exact Hk| |]; left; split; reflexivity.
  - rewrite (H1 (nkey (c :: p') ++ SL :: nkey q)), (H2 (nkey (c :: p') ++ SL :: nkey q')); [rewrite Hk; reflexivity| |];
      right; (split; [discriminate|reflexivity]).
Qed.

(** The chain's lookup ignores case (and slash kind) of a clean name. *)
Theorem chain_get_variant ms q q' :
  Forall sound_member ms -> clean_name q = true -> clean_name q' = true -> nkey q = nkey q' ->
  chain_get ms q = chain_get ms q'.
Proof.
  intros Hms Hq Hq' Hk. induction Hms as [|m ms Hm Hms IH]; [reflexivity|].
  destruct Hm as [b [fs [p [-> [Hw [Hkeys [Hc Hp]]]]]]]. cbn [chain_get].
  pose proof (asks_member b fs p q Hkeys Hc Hp Hq) as A1. pose proof (asks_member b fs p q' Hkeys Hc Hp Hq') as A2.
  unfold asks in A1, A2. rewrite A1, A2, IH.
  rewrite (spec_lookup_variant fs _ _ (full_name_key p q q' Hp Hq Hq' Hk)). reflexivity.
Qed.

(** Every name listed by walk_folder_repeat is a clean relative name of a stored file of that member. *)
Lemma rep_entry ms folder y :
  Forall sound_member ms -> okp folder -> In y (chain_walk_repeat RelDropSegs ms folder) -> clean_name (fst y) = true.
Proof.
  intros Hms Hfo Hin. unfold chain_walk_repeat in Hin. apply in_flat_map in Hin as [m [Hm Hy]].
  rewrite Forall_forall in Hms. destruct (Hms m Hm) as [b [fs [p [-> [Hw [Hk [Hc Hp]]]]]]].
  cbn [member_of m_walk m_prefix] in Hy. apply in_map_iff in Hy as [e [<- He]]. cbn [fst rel_name].
  apply (walk_member b fs p folder e Hw Hc Hp Hfo) in He as [Hent [R [Hun _]]].
  apply backend_keys_ok_inv in Hk as [Hs _].
  pose proof (proj1 (entries_spec b fs e Hs Hc) Hent) as Hes.
  pose proof (spec_lookup_sound _ _ _ Hes) as [Hefs _].
  apply (listed_name (fst e) p R (clean_fs_In _ _ Hc Hefs) Hp Hun).
Qed.

(** If the chain serves a (clean) name lying inside the folder, the de-duplicated walk of that folder lists the name
    (up to case) with the very File the lookup returns. *)
Theorem chain_walk_complete dops ms folder q f :
  dedup_ops_ok dops = true -> Forall sound_member ms -> okp folder ->
  clean_name q = true -> path_prefix (nkey folder) (nkey q) ->
  chain_get ms q = Some f ->
  exists x, In x (chain_walk RelDropSegs dops ms folder) /\ nkey (fst x) = nkey q /\ snd x = f.
Proof.
  intros Hd Hms Hfo Hq Hin Hget. pose proof Hget as Hget0.
  apply chain_first_match in Hget as [pre [m [post [Hsplit [Hask _]]]]].
  assert (Hm : sound_member m).
  { rewrite Forall_forall in Hms. apply Hms. rewrite Hsplit. apply in_or_app. right. left. reflexivity. }
  destruct Hm as [b [fs [p [-> [Hw [Hk [Hc Hp]]]]]]].
  rewrite (asks_member b fs p q Hk Hc Hp Hq) in Hask.
  pose proof (spec_lookup_sound _ _ _ Hask) as [Hffs Hfk].
  pose proof (clean_fs_In _ _ Hc Hffs) as Hclf.
  assert (Hun : under p (nkey (fst f)) (nkey q)).
  { destruct (full_name_listed p q Hp Hq) as [_ H1]. destruct p as [|c p'].
    - left. split; [reflexivity|]. rewrite Hfk. apply H1. left. split; reflexivity.
    - right. split; [discriminate|]. rewrite Hfk. apply H1. right. split; [discriminate|reflexivity]. }
  assert (Hent : In f (entries b fs)).
  { pose proof Hk as Hk'. apply backend_keys_ok_inv in Hk' as [Hs _]. apply (entries_spec b fs f Hs Hc).
    transitivity (spec_lookup fs (full_name p q)); [|exact Hask]. apply spec_lookup_variant. exact Hfk. }
  assert (Hfw : In f (walk b fs (full_name p folder))).
  { apply (walk_member b fs p folder f Hw Hc Hp Hfo). split; [exact Hent|]. exists (nkey q). split; assumption. }
  destruct (listed_name (fst f) p (nkey q) Hclf Hp Hun) as [Hclr Hkr].
  set (x0 := (drop_segs (fst f) p, f)).
  assert (Hrep : In x0 (chain_walk_repeat RelDropSegs ms folder)).
  { unfold chain_walk_repeat. apply in_flat_map. exists (member_of b fs p). split.
    - rewrite Hsplit. apply in_or_app. right. left. reflexivity.
    - cbn [member_of m_walk m_prefix rel_name]. apply in_map_iff. exists f. split; [reflexivity|exact Hfw]. }
  destruct (chain_walk_dedup RelDropSegs dops ms folder) as [_ [Hsub [Hcov _]]]. cbv zeta in Hsub, Hcov.
  destruct (Hcov x0 Hrep) as [y [Hy Hky]].
  pose proof (rep_entry ms folder y Hms Hfo (Hsub y Hy)) as Hcly.
  assert (Hyk : nkey (fst y) = nkey q).
  { rewrite (dedup_key dops _ Hd Hcly) in Hky. unfold x0 in Hky. cbn [fst] in Hky.
    rewrite (dedup_key dops _ Hd Hclr) in Hky. rewrite Hky. exact Hkr. }
  exists y. split; [exact Hy|]. split; [exact Hyk|].
  pose proof (chain_walk_lookup_closed dops ms folder y Hd Hms Hfo Hy) as Hcl.
  rewrite (chain_get_variant ms (fst y) q Hms Hcly Hq Hyk) in Hcl.
  congruence.
Qed.
