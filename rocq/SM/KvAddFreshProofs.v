From Coq Require Import List Bool.
From SV Require Import SM.KvAdd SM.KvAddProofs SM.KvAddFresh.
Import ListNotations.

(** With both branches appending copies, every child added by '+' is a fresh copy: none of the right
    operand's own children is in the result (and the left operand is unchanged, the result complete). *)
Theorem kv_add_ids_fresh {A} (cp : A -> A) : forall r1 r2 ret cs ci,
  recv_is_copy r1 && recv_is_copy r2 && recv_is_copy ret = true -> cs && ci = true ->
  forall single (self other : list A),
    kv_add_ids cp r1 r2 ret cs ci single self other = (self, self ++ map cp other) /\
    ((forall x y, In y other -> cp x <> y) ->
     forall x, In x (map cp other) -> ~ In x other).
Proof.
  intros r1 r2 ret cs ci Hr Hc single self other. apply andb_true_iff in Hc. destruct Hc as [-> ->].
  split.
  - unfold kv_add_ids, kv_added. destruct single; apply kv_add_pure; exact Hr.
  - intros Hf x Hx Hin. apply in_map_iff in Hx. destruct Hx as (x0 & <- & _). exact (Hf x0 _ Hin eq_refl).
Qed.

Theorem kv_iadd_ids_fresh {A} (cp : A -> A) : forall r1 r2 cs ci,
  negb (recv_is_copy r1) && negb (recv_is_copy r2) = true -> cs && ci = true ->
  forall single (self other : list A), kv_iadd_ids cp r1 r2 cs ci single self other = self ++ map cp other.
Proof.
  intros r1 r2 cs ci Hr Hc single self other. apply andb_true_iff in Hc. destruct Hc as [-> ->].
  unfold kv_iadd_ids, kv_added. destruct single; apply kv_iadd_extends_self; exact Hr.
Qed.

(** The seeded shape: the (deprecated) single-Keyvalues branch appends the operand itself — the result's last
    child IS the operand (identity 7), although the iterable branch is fine. *)
Theorem kv_add_single_branch_shares_refuted :
  kv_add_ids (fun x => x + 100) RCopy RCopy RCopy false true true [1] [7] = ([1], [1; 7]) /\
  kv_add_ids (fun x => x + 100) RCopy RCopy RCopy false true false [1] [7] = ([1], [1; 107]).
Proof. split; reflexivity. Qed.
