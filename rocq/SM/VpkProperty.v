(** C13 as one statement: the parts proved separately (API refinement with with-blocks, placement tables, nested dicts, string codec,
    directory codec as the programs of write_dirfile / load_dirfile, name helpers, archive file names, read-only rejection) composed, with
    every hypothesis about the objects read from the source visible as one boolean [c13_hyps].  The check discharges
    [c13_hyps <today's generated objects> = true] as an instance obligation on every run. *)
From Coq Require Import List NArith Bool Permutation.
From SV Require Import Fmt.VpkDir Fmt.VpkDirProofs Fmt.VpkDirV2 Fmt.VpkName Fmt.VpkNameSplit Fmt.VpkNameProofs SM.Vpk SM.VpkProofs.
From SV Require Import Fmt.VpkArchName Fmt.VpkArchNameProofs SM.VpkRefine.
From SV Require Import Fmt.VpkNullStr Fmt.VpkNullStrProofs SM.VpkNested SM.VpkNestedProofs SM.VpkApi SM.VpkApiProofs SM.VpkNestedMap SM.VpkNestedMapProofs
  SM.VpkNestedSim SM.VpkNestedWf SM.VpkPlace SM.VpkPlaceProofs SM.VpkPlaceTable SM.VpkPlaceTableProofs.
From SV Require Import SM.VpkWriteOrder SM.VpkWriteOrderProofs SM.VpkListing SM.VpkListingProofs.
From SV Require Import Fmt.VpkNameJoin Fmt.VpkNameJoinProofs Fmt.VpkDirProg Fmt.VpkDirProgProofs Fmt.VpkDirRead Fmt.VpkDirReadProofs.
Import ListNotations.
Open Scope N_scope.

(** Everything the theorem assumes about today's source, as booleans on the objects the translators produce:
    [et] the truth table of VPK.__exit__; [cf] format constants + validations; [pt] / [rt] the tables of FileInfo.write / read+verify;
    [g1] [g2] the get-or-create steps of new_file; [prog] the clean-up of __delitem__; [nk] _write_nullstring / iter_nullstr;
    [wp] / [rp] the programs of write_dirfile / load_dirfile; [sk] the split statement, [gp] the description of _get_file_parts,
    [jt] the table of _join_file_parts; [nc] the archive naming sites. *)
Definition c13_hyps (et : list exit_row) (cf : vcfg) (pt : list prow) (rt : list rrow) (g1 g2 : goc) (prog : dprog) (nk : ncodec)
  (wp : wprog) (rp : rprog) (sk : split_kind) (gp : gparts) (jt : list jrow) (nc : ncfg) : bool :=
  exit_table_ok et && vcfg_okb cf && place_table_ok pt && read_table_ok rt && goc_ok g1 && goc_ok g2 && prog_safe prog && ncodec_ok nk
  && wprog_ok wp && rprog_ok rp && split_kind_ok sk && gparts_ok gp && join_table_ok jt && ncfg_ok nc.

Theorem c13_property_composed et cf pt rt g1 g2 prog nk wp rp sk gp jt nc :
  c13_hyps et cf pt rt g1 g2 prog nk wp rp sk gp jt nc = true -> forall (crc : bytes -> N) (normpath : bytes -> bytes),
  (* 1. any history of new_file / add_file / write / del / write_dirfile / reopen / with-blocks / load_dirfile(), whose data values do not
        collide under the checksum and whose fields fit, then leaving a with-block normally (or write_dirfile) and reopening in 'r' or 'a':
        every call returned what the specification map says, the reopened archive lists exactly the files that should exist, and each
        file — read as the read table says — gives the bytes last written and passes verify() *)
  (forall xs m st codes, m <> MW -> collision_free crc (xplain xs) ->
     xrun et crc cf init (xs ++ [XExit true; XOp (OReopen m)]) = Some (st, codes) ->
     let '(s0, c0) := sxrun cf sinit xs in
     writable (smd s0) = true ->
     codes = c0 ++ [rOk; rOk] /\ md st = m /\ Permutation (map fst (tbl st)) (map fst (cur s0)) /\
     forall k, match alookup k (tbl st), alookup k (cur s0) with
               | Some i, Some d => read_info_t rt st i = Some d /\ verify_info_t rt crc st i = Some true
               | None, None => True
               | _, _ => False
               end)
  /\ (forall ops m st codes, m <> MW -> collision_free crc ops ->
     run crc cf init (ops ++ [OSave; OReopen m]) = Some (st, codes) ->
     let '(s0, c0) := srun cf sinit ops in
     writable (smd s0) = true ->
     codes = c0 ++ [rOk; rOk] /\ md st = m /\ Permutation (map fst (tbl st)) (map fst (cur s0)) /\
     forall k, match alookup k (tbl st), alookup k (cur s0) with
               | Some i, Some d => read_info_t rt st i = Some d /\ verify_info_t rt crc st i = Some true
               | None, None => True
               | _, _ => False
               end)
  (* 2. wherever the data is placed: the write of the state machine is the write the placement table describes *)
  /\ (forall st i d ix, write_info_t pt crc cf st i d ix = Some (write_info crc cf st i d ix))
  (* 3. the directory file: write_dirfile of the state machine is the translated writer program, reopen is the translated reader program,
        and the reader reads back what the writer wrote *)
  /\ (forall t footer, wexec (v_dc cf) footer wp t = enc_file (v_dc cf) t footer)
  /\ (forall bs, rexec (v_dc cf) rp bs = dec_file_v (v_dc cf) bs)
  /\ (forall t footer b, wf_tree (v_dc cf) t -> wexec (v_dc cf) footer wp t = Some b -> rexec (v_dc cf) rp b = Some (1, nmap (flat_tree t), footer))
  (* 4. the strings of the tree go through the translated codec, of any length *)
  /\ (forall s, write_cstr_k nk s = write_cstr s) /\ (forall bs, next_str_k nk bs = next_str bs)
  /\ (forall s rest, str_ok s = true -> next_str_k nk (write_cstr_k nk s ++ rest) = Some (Some s, rest))
  (* 5. the nested dicts hold exactly the table of the state machine, after any sequence of new_file / updates / deletes *)
  /\ (forall ops, exists t, nt_run g1 g2 prog [] ops = Some t
        /\ Permutation (map fst (flat_tree t)) (map fst (tb_run [] ops)) /\ forall k, alookup k (flat_tree t) = alookup k (tb_run [] ops))
  (* 6. names: string, 2-tuple and 3-tuple forms resolve alike, and the listed name of an entry resolves back to it
        (carve-outs: names whose last component ends in '.', known finding name-trailing-dot) *)
  /\ (forall s, let '(h, t) := split_path s in let '(n, e) := split_ext t [] in
        file_parts_g normpath sk gp (NPair h t) = file_parts_g normpath sk gp (NStr s)
        /\ ((e = [] -> rsplit1 46 n = None) -> file_parts_g normpath sk gp (NTriple h n e) = file_parts_g normpath sk gp (NStr s)))
  /\ (forall k, key_listable normpath k -> exists s, join_k jt k = Some s /\ file_parts_g normpath sk gp (NStr s) = k)
  (* 7. numbered archives: the file FileInfo.write appends to is the file read() and verify() open *)
  /\ (forall f p i, dir_prefix_of nc f = Some p ->
        site_name nc f (n_writer nc) i = Some (arch_filename nc p (Some i))
        /\ Forall (fun r => site_name nc f r i = Some (arch_filename nc p (Some i))) (n_readers nc)
        /\ arch_filename nc p None = f)
  (* 8. read-only archives reject every mutation *)
  /\ (forall st o, md st = MR -> mutating o = true -> exists c, step crc cf st o = Some (st, c) /\ (c = rReadOnly \/ c = rMissing)).
Proof.
  unfold c13_hyps. intros H crc normpath.
  do 13 (apply andb_prop in H; destruct H as [H ?]).
  rename H into Het, H0 into Hnc, H1 into Hjt, H2 into Hgp, H3 into Hsk, H4 into Hrp, H5 into Hwp, H6 into Hnk, H7 into Hprog, H8 into Hg2,
         H9 into Hg1, H10 into Hrt, H11 into Hpt, H12 into Hcf.
  assert (Hdc : dcfg_ok (v_dc cf) = true) by apply (vcfg_okb_inv cf Hcf).
  split.
  { intros xs m st codes Hm Hfree Hrun.
    pose proof (vpk_with_block_saves et crc cf Het Hcf xs m st codes Hm Hfree Hrun) as P.
    destruct (sxrun cf sinit xs) as [s0 c0]. intros Hw. destruct (P Hw) as (P1 & P2 & P3 & P4). repeat split; try assumption.
    intros k. specialize (P4 k). destruct (alookup k (tbl st)) as [i|], (alookup k (cur s0)) as [d|]; try exact P4.
    destruct P4 as [Pr Pv]. destruct (read_info_t_is_read_info rt Hrt crc st i) as [R V]. rewrite R, V, Pr, Pv. split; reflexivity. }
  split.
  { intros ops m st codes Hm Hfree Hrun.
    pose proof (vpk_history_save_reopen crc cf Hcf ops m st codes Hm Hfree Hrun) as P.
    destruct (srun cf sinit ops) as [s0 c0]. intros Hw. destruct (P Hw) as (P1 & P2 & P3 & P4). repeat split; try assumption.
    intros k. specialize (P4 k). destruct (alookup k (tbl st)) as [i|], (alookup k (cur s0)) as [d|]; try exact P4.
    destruct P4 as [Pr Pv]. destruct (read_info_t_is_read_info rt Hrt crc st i) as [R V]. rewrite R, V, Pr, Pv. split; reflexivity. }
  split; [exact (write_info_t_is_write_info pt Hpt crc cf)|].
  split; [intros t footer; apply (wprog_ok_is_enc_file wp Hwp)|].
  split; [intros bs; apply (rprog_ok_is_dec_file_v rp Hrp)|].
  split; [intros t footer b; apply (programs_roundtrip wp rp Hwp Hrp (v_dc cf) Hdc)|].
  split; [exact (proj1 (ncodec_ok_is_model nk Hnk))|].
  split; [exact (proj2 (ncodec_ok_is_model nk Hnk))|].
  split; [exact (nullstr_roundtrip nk Hnk)|].
  split; [exact (nested_history_lists_table g1 g2 prog Hg1 Hg2 Hprog)|].
  split.
  { intros s. pose proof (name_forms_agree_k normpath sk Hsk s) as P.
    destruct (split_path s) as [h t]. destruct (split_ext t []) as [n e].
    rewrite !(gparts_ok_is_file_parts gp Hgp). exact P. }
  split; [exact (generated_parts_of_join normpath sk gp jt Hsk Hgp Hjt)|].
  split; [exact (arch_names_coincide nc Hnc)|].
  exact (readonly_rejects crc cf).
Qed.

(** The hypotheses are satisfiable: the objects of vpk.py as pinned. *)
Example c13_hyps_pinned :
  c13_hyps exit_table_pinned ex_cfg table_pinned rtable_pinned goc_pinned goc_pinned del_prog_pinned ncodec_pinned wprog_pinned rprog_pinned
           (SplitLast 46) gparts_pinned join_table_pinned (ex_ncfg (n_writer (ex_ncfg reader_rstrip))) = true.
Proof. vm_compute. reflexivity. Qed.

(** Round 5.  [rj] is the rejection table of FileInfo.write (the method executed with a read-only archive / an index out of range /
    both: what raised, and what had been stored by then); [wn] / [wi] are the walks `filenames` / `fileinfos` perform for every combination
    of (extension argument given?, folder argument given?).  Under the hypotheses of [c13_property_composed] and these: the OWrite step of
    the state machine — the only place where the refinement proof uses "a rejected write changes nothing" — is the method run from the two
    generated tables, a rejected write stores nothing, and the listing methods called with arguments list, in the order of the default
    walk, exactly its entries with the extension whose folder name starts with the folder argument. *)
Definition c13_hyps_r5 (et : list exit_row) (cf : vcfg) (pt : list prow) (rt : list rrow) (g1 g2 : goc) (prog : dprog) (nk : ncodec)
  (wp : wprog) (rp : rprog) (sk : split_kind) (gp : gparts) (jt : list jrow) (nc : ncfg) (rj : list rejrow)
  (wn wi : list (bool * bool * lwalk)) : bool :=
  c13_hyps et cf pt rt g1 g2 prog nk wp rp sk gp jt nc && rej_table_ok rj && walks_ok wn && walks_ok wi.

Theorem c13_property_r5_composed et cf pt rt g1 g2 prog nk wp rp sk gp jt nc rj wn wi :
  c13_hyps_r5 et cf pt rt g1 g2 prog nk wp rp sk gp jt nc rj wn wi = true -> forall (crc : bytes -> N),
  c13_hyps et cf pt rt g1 g2 prog nk wp rp sk gp jt nc = true
  /\ (forall st k d ix,
        step crc cf st (OWrite k d ix) =
          match alookup k (tbl st) with
          | None => Some (st, rMissing)
          | Some i => match write_guarded_t rj pt crc cf st i d ix with
                      | Some (st', i', c) => Some (if c =? rOk then with_tbl st' (aset k i' (tbl st')) else st', c)
                      | None => None
                      end
          end)
  /\ (forall st i d ix st' i' c, write_guarded_t rj pt crc cf st i d ix = Some (st', i', c) -> c <> rOk -> st' = st /\ i' = i)
  /\ (forall eg fg w, In (eg, fg, w) (wn ++ wi) -> forall ext folder t, NoDup (map fst t) ->
        list_walk w ext folder t = filter (listed eg fg ext folder) (flat_tree t)).
Proof.
  unfold c13_hyps_r5. intros H crc. apply andb_prop in H. destruct H as [H Hwi]. apply andb_prop in H. destruct H as [H Hwn].
  apply andb_prop in H. destruct H as [H Hrj]. split; [exact H|].
  unfold c13_hyps in H. do 13 (apply andb_prop in H; destruct H as [H ?]).
  assert (Hchk : v_chk_idx cf = true) by (apply (vcfg_okb_inv cf); assumption).
  split; [|split].
  - intros st k d ix. apply step_write_is_guarded_tables; assumption.
  - intros st i d ix st' i' c. apply (rejected_write_stores_nothing rj pt); assumption.
  - intros eg fg w Hin. apply in_app_or in Hin. destruct Hin as [Hin|Hin].
    + exact (walks_ok_lists_matching wn Hwn eg fg w Hin).
    + exact (walks_ok_lists_matching wi Hwi eg fg w Hin).
Qed.

Example c13_hyps_r5_pinned :
  c13_hyps_r5 exit_table_pinned ex_cfg table_pinned rtable_pinned goc_pinned goc_pinned del_prog_pinned ncodec_pinned wprog_pinned rprog_pinned
           (SplitLast 46) gparts_pinned join_table_pinned (ex_ncfg (n_writer (ex_ncfg reader_rstrip))) rej_table_pinned walks_pinned walks_pinned = true.
Proof. vm_compute. reflexivity. Qed.
