(** C09 round 2 — what the operator census means: a run none of whose stores is tagged with an operand origin is a
    mutation history performed with NO pre-existing roots, so by the frame theorem every object that existed before
    (in particular both operands) is observed unchanged, and everything the method holds at the end is new.  A run
    whose operand-tagged stores all go to the receiver (in-place operators) leaves everything separated from the
    receiver unchanged. *)
From Coq Require Import List PArith ZArith Bool String.
From SV Require Import SM.Store SM.StoreProofs SM.OpPurity.
Import ListNotations.

Lemma reachR_incl h R R' l : incl R R' -> reachR h R l -> reachR h R' l.
Proof. intros Hi (r & Hr & Hl). exists r. split; [apply Hi; exact Hr|exact Hl]. Qed.

Lemma val_held_incl h R R' v : incl R R' -> val_held h R v -> val_held h R' v.
Proof. intros Hi. destruct v as [z|l]; [auto|]. cbn. apply reachR_incl. exact Hi. Qed.

Lemma roots_of_within slf ps F X o :
  tag_within slf ps X o -> incl (roots_of slf ps F o) (F ++ X).
Proof.
  unfold tag_within. intros Hi r Hr. apply in_or_app.
  destruct o; cbn in *; try (right; apply Hi; exact Hr); try (left; exact Hr).
Qed.

(** A tagged run all of whose tags are accounted for by the extra roots [X] is a mutation history through [F ++ X]. *)
Lemma trun_steps slf ps X : forall s tr s',
  trun slf ps s tr s' ->
  (forall o, In o (map snd tr) -> tag_within slf ps X o) ->
  steps (fst s, snd s ++ X) (map fst tr) (fst s', snd s' ++ X).
Proof.
  intros s tr s' Hr. induction Hr as [s|s m s1 ms s2 Hst Hr IH]; intros Htag; [constructor|].
  cbn [map]. eapply steps_cons; [|apply IH; intros o Ho; apply Htag; right; exact Ho].
  inversion Hst as [h F l nd Hl Hv|h F l vs nd o Hre Hl Hm Hv]; subst; cbn [fst snd].
  - change ((l :: F) ++ X) with (l :: (F ++ X)). apply step_alloc; [exact Hl|].
    intros v Hin. eapply val_held_incl; [|apply Hv; exact Hin]. apply incl_appl, incl_refl.
  - eapply step_store; eauto.
    + eapply reachR_incl; [|exact Hre]. apply roots_of_within. apply Htag. left. reflexivity.
    + intros v Hin. eapply val_held_incl; [|apply Hv; exact Hin]. apply incl_appl, incl_refl.
Qed.

(** Whatever a history holds at the end was a root at the start or did not exist at the start. *)
Lemma steps_roots_new : forall s ms s', steps s ms s' ->
  (forall l, alloc (fst s) l -> alloc (fst s') l) /\
  (forall r, In r (snd s') -> In r (snd s) \/ fst s r = None).
Proof.
  intros s ms s' Hs. induction Hs as [s|s m s1 ms s2 Hst Hs IH]; [split; auto|].
  destruct IH as [IH1 IH2].
  assert (H1 : (forall l, alloc (fst s) l -> alloc (fst s1) l) /\
               (forall r, In r (snd s1) -> In r (snd s) \/ fst s r = None)).
  { inversion Hst as [h R l vs nd Hre Hl Hm Hv|h R l nd Hl Hv]; subst; cbn [fst snd]; split.
    - intros x Hx. unfold alloc, upd in *. destruct (Pos.eqb x l); [discriminate|exact Hx].
    - intros r Hr. left. exact Hr.
    - intros x Hx. unfold alloc, upd in *. destruct (Pos.eqb x l); [discriminate|exact Hx].
    - intros r [<-|Hr]; [right; exact Hl|left; exact Hr]. }
  destruct H1 as [H1a H1b]. split.
  - intros l Hl. apply IH1, H1a, Hl.
  - intros r Hr. destruct (IH2 r Hr) as [Hin|Hnone].
    + apply H1b. exact Hin.
    + right. destruct (fst s r) as [nd|] eqn:E; [|reflexivity].
      exfalso. assert (Ha : alloc (fst s) r) by (unfold alloc; congruence).
      apply H1a in Ha. apply Ha. exact Hnone.
Qed.

(** PURE OPERATORS.  No store tagged with an operand origin: every object that existed before the call — the
    receiver, the other operands, anything else — is observed unchanged at every depth, and every object the method
    holds at the end (its result) did not exist before. *)
Theorem pure_op_frame slf ps h tr h' F' :
  closed h ->
  trun slf ps (h, []) tr (h', F') ->
  (forall o, In o (map snd tr) -> is_operand o = false) ->
  (forall a, alloc h a -> forall n, unfold n h' (VRef a) = unfold n h (VRef a)) /\
  (forall r, In r F' -> h r = None).
Proof.
  intros Hc Hr Htag.
  assert (Hs : steps (h, []) (map fst tr) (h', F')).
  { pose proof (trun_steps slf ps [] _ _ _ Hr) as H. cbn [fst snd] in H. rewrite !app_nil_r in H. apply H.
    intros o Ho. specialize (Htag o Ho). unfold tag_within. destruct o; try discriminate; cbn; apply incl_refl. }
  split.
  - intros a Ha n. eapply frame_observation; eauto.
    + intros r [].
    + intros l _ (r & [] & _).
  - intros r Hin. destruct (steps_roots_new _ _ _ Hs) as [_ H2]. destruct (H2 r Hin) as [[]|H]. exact H.
Qed.

(** IN-PLACE OPERATORS.  Operand-tagged stores go to the receiver only: every object separated from the receiver
    (e.g. the right operand, or the receiver's original before a copy) is observed unchanged. *)
Theorem inplace_op_frame slf ps h tr h' F' :
  closed h -> alloc h slf ->
  trun slf ps (h, []) tr (h', F') ->
  (forall o, In o (map snd tr) -> o = OSelf \/ is_operand o = false) ->
  forall b, alloc h b -> sep h b [slf] -> forall n, unfold n h' (VRef b) = unfold n h (VRef b).
Proof.
  intros Hc Hs0 Hr Htag b Hb Hsep n.
  assert (Hs : steps (h, [slf]) (map fst tr) (h', F' ++ [slf])).
  { pose proof (trun_steps slf ps [slf] _ _ _ Hr) as H. cbn [fst snd app] in H. apply H.
    intros o Ho. unfold tag_within. destruct (Htag o Ho) as [->|Hn].
    - cbn. apply incl_refl.
    - destruct o; try discriminate; cbn; intros x []. }
  eapply frame_observation; eauto. intros r [<-|[]]. exact Hs0.
Qed.

(** The census booleans, unfolded. *)
Lemma writes_ok_pure r :
  op_kind r = OpPure -> row_writes_ok r = true -> forall o, In o (op_writes r) -> is_operand o = false.
Proof.
  unfold row_writes_ok. intros -> H o Ho. rewrite forallb_forall in H. specialize (H o Ho).
  apply negb_true_iff in H. exact H.
Qed.

Lemma writes_ok_inplace r :
  op_kind r = OpInplace -> row_writes_ok r = true -> forall o, In o (op_writes r) -> o = OSelf \/ is_operand o = false.
Proof.
  unfold row_writes_ok. intros -> H o Ho. rewrite forallb_forall in H. specialize (H o Ho).
  destruct o; auto; discriminate.
Qed.

(** Census row + "the census lists every origin a run of the method can write" ⟹ frame. *)
Theorem census_pure_op_frame (r : oprow) slf ps h tr h' F' :
  op_kind r = OpPure -> row_writes_ok r = true ->
  (forall o, In o (map snd tr) -> In o (op_writes r)) ->
  closed h -> trun slf ps (h, []) tr (h', F') ->
  (forall a, alloc h a -> forall n, unfold n h' (VRef a) = unfold n h (VRef a)) /\
  (forall x, In x F' -> h x = None).
Proof.
  intros Hk Hok Hsub Hc Hr. eapply pure_op_frame; eauto.
  intros o Ho. eapply writes_ok_pure; eauto.
Qed.

Theorem census_inplace_op_frame (r : oprow) slf ps h tr h' F' :
  op_kind r = OpInplace -> row_writes_ok r = true ->
  (forall o, In o (map snd tr) -> In o (op_writes r)) ->
  closed h -> alloc h slf -> trun slf ps (h, []) tr (h', F') ->
  forall b, alloc h b -> sep h b [slf] -> forall n, unfold n h' (VRef b) = unfold n h (VRef b).
Proof.
  intros Hk Hok Hsub Hc Hs Hr. eapply inplace_op_frame; eauto.
  intros o Ho. eapply writes_ok_inplace; eauto.
Qed.

(** What the census rejects is a real change: [a + b] implemented by storing into [b] (tag [OParam]). *)
Definition op_h : heap := fun l => match l with
  | 1%positive => Some (Node true [VAtom 1%Z]) | 2%positive => Some (Node true [VAtom 2%Z]) | _ => None end.

Theorem operand_write_observable :
  row_writes_ok (mkop "Vec.__add__" OpPure true [OParam] [OParam]) = false /\
  exists h', trun 1%positive [2%positive] (op_h, []) [(MStore 2%positive [VAtom 3%Z], OParam)] (h', []) /\
             unfold 1 h' (VRef 2%positive) <> unfold 1 op_h (VRef 2%positive).
Proof.
  split; [reflexivity|]. eexists. split.
  - eapply tr_cons; [|apply tr_nil]. eapply ts_store with (nd := Node true [VAtom 2%Z]); try reflexivity.
    + exists 2%positive. split; [left; reflexivity|constructor].
    + intros v [<-|[]]. exact I.
  - cbv. discriminate.
Qed.

(** ... and a pure run exists (hypotheses satisfiable): [a + b] building a new node 3 from atoms. *)
Example pure_run_example :
  trun 1%positive [2%positive] (op_h, [])
       [(MAlloc 3%positive (Node true [VAtom 0%Z]), OFresh); (MStore 3%positive [VAtom 3%Z], OFresh)]
       (upd (upd op_h 3%positive (Node true [VAtom 0%Z])) 3%positive (Node true [VAtom 3%Z]), [3%positive]).
Proof.
  eapply tr_cons; [apply ts_alloc; [reflexivity|intros v [<-|[]]; exact I]|].
  eapply tr_cons; [|apply tr_nil].
  eapply ts_store with (nd := Node true [VAtom 0%Z]); try reflexivity.
  - exists 3%positive. split; [left; reflexivity|constructor].
  - intros v [<-|[]]. exact I.
Qed.
