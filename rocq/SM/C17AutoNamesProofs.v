(** Proofs for SM/C17AutoNames.v: a counter kept across the passes never gives a number twice. *)
From Coq Require Import List Arith Lia.
From SV Require Import SM.C17AutoNames.
Import ListNotations.

Lemma auto_names_kept_is_seq : forall passes c, auto_names false c passes = seq (S c) (list_sum passes).
Proof.
  induction passes as [|n r IH]; intros c.
  - reflexivity.
  - change (list_sum (n :: r)) with (n + list_sum r). cbn [auto_names]. rewrite IH, seq_app.
    reflexivity.
Qed.

Theorem auto_names_kept_distinct : forall passes c, NoDup (auto_names false c passes).
Proof. intros. rewrite auto_names_kept_is_seq. apply seq_NoDup. Qed.

Theorem auto_names_kept_above_start : forall passes c k, In k (auto_names false c passes) -> c < k.
Proof. intros passes c k H. rewrite auto_names_kept_is_seq in H. apply in_seq in H. lia. Qed.

Theorem counter_kept_gives_distinct_names : forall evs, counter_kept evs = true ->
  forall passes, NoDup (auto_names (counter_resets evs) 0 passes).
Proof.
  intros evs H passes. unfold counter_kept in H. unfold counter_resets.
  apply andb_prop in H as [_ H]. apply andb_prop in H as [_ H].
  destruct (existsb is_reset evs); [discriminate|]. apply auto_names_kept_distinct.
Qed.

(** numbering that restarts in every pass: an unnamed instance of pass 2 gets the number of one of pass 1 *)
Theorem auto_names_reset_refuted :
  auto_names true 0 [1; 1] = [1; 1] /\ ~ NoDup (auto_names true 0 [1; 1]) /\
  counter_kept [CStoreInLoop] = false /\ counter_kept [CInitBeforeLoop; CIncrAtUse; CStoreInLoop] = false /\
  counter_kept [CInitBeforeLoop; CIncrAtUse] = true.
Proof.
  repeat split; try reflexivity.
  simpl. intro H. inversion H as [|x l Hin _]. apply Hin. left. reflexivity.
Qed.
