(** [want_cut] / [want_dest] of SM/VpkPlace.v are what [write_info] of SM/Vpk.v does, for every configuration, state, entry, data and
    index.  The table example of the pinned code and two wrong tables. *)
From Coq Require Import List NArith Bool Lia.
From SV Require Import Fmt.VpkDir SM.Vpk SM.VpkProofs SM.VpkPlace.
Import ListNotations.
Open Scope N_scope.

Lemma split_rule_want cf :
  split_rule cf = (cut_val cf (want_cut (v_is_dir cf) (class_of cf)), forced (v_is_dir cf) (class_of cf)).
Proof.
  unfold split_rule, want_cut, forced, class_of, cut_val. destruct (v_is_dir cf); cbn [negb orb]; destruct (v_limit cf) as [l|]; cbn [lim_eqb]; try reflexivity.
  destruct (N.leb_spec l (v_max_pre cf)); cbn [lim_eqb]; f_equal; lia.
Qed.

Definition is_none {A} (o : option A) : bool := match o with None => true | Some _ => false end.
Definition is_nil' {A} (l : list A) : bool := match l with [] => true | _ => false end.

Theorem write_info_want crc cf st i d ix : (crc d =? icrc i) = false ->
  let cut := cut_val cf (want_cut (v_is_dir cf) (class_of cf)) in
  let tail := skipn (N.to_nat cut) d in
  let dest := want_dest (v_is_dir cf) (class_of cf) (is_none ix) (is_nil' tail) in
  let '(st', i') := write_info crc cf st i d ix in
  icrc i' = crc d /\ ipre i' = firstn (N.to_nat cut) d /\ ilen i' = len tail /\
  match dest with
  | DNone => st' = st /\ iidx i' = None /\ ioff i' = 0
  | DFooter => foot st' = foot st ++ tail /\ archs st' = archs st /\ tbl st' = tbl st /\ iidx i' = None /\ ioff i' = len (foot st)
  | DArch => exists x, ix = Some x /\ archs st' = arch_app x tail (archs st) /\ foot st' = foot st /\ tbl st' = tbl st
                       /\ iidx i' = Some x /\ ioff i' = len (arch_get x (archs st))
  | DOther => False
  end.
Proof.
  intros Hc. cbv zeta. unfold write_info. rewrite Hc, split_rule_want. unfold want_dest.
  set (cut := cut_val cf (want_cut (v_is_dir cf) (class_of cf))).
  destruct (skipn (N.to_nat cut) d) as [|t0 tl] eqn:Et; cbn [is_nil'].
  - cbn [icrc ipre ilen iidx ioff]. repeat split; reflexivity.
  - destruct (forced (v_is_dir cf) (class_of cf)) eqn:Ef; cbn [orb].
    + cbn [icrc ipre ilen iidx ioff foot archs tbl]. repeat split; reflexivity.
    + destruct ix as [x|]; cbn [is_none].
      * cbn [icrc ipre ilen iidx ioff foot archs tbl]. repeat split; try reflexivity. exists x. repeat split; reflexivity.
      * cbn [icrc ipre ilen iidx ioff foot archs tbl]. repeat split; reflexivity.
Qed.

(** the table of vpk.py as pinned (what the translator produces today), and two wrong ones *)
Definition row_of (d : bool) (l : lim_class) (i t : bool) : prow :=
  let ds := want_dest d l i t in mkRow d l i t (want_cut d l) ds (negb (dest_eqb ds DArch)) (want_off ds) true.
Definition table_pinned : list prow := map (fun s => let '(d, l, i, t) := s in row_of d l i t) all_scen.
(** no cap at MAX_PRELOAD when the limit is larger (defect 20 of round 1) *)
Definition table_no_cap : list prow :=
  map (fun r => if lim_eqb (r_lim r) LBig && r_dir r then mkRow (r_dir r) (r_lim r) (r_idx_none r) (r_tail_empty r) CLimit (r_dest r) (r_stored_none r) (r_off r) true else r) table_pinned.
(** the rest of a file with arch_index None is dropped instead of going to footer_data (defect 19 of round 1) *)
Definition table_tail_dropped : list prow :=
  map (fun r => match r_dest r with DFooter => mkRow (r_dir r) (r_lim r) (r_idx_none r) (r_tail_empty r) (r_cut r) DNone true OZero true | _ => r end) table_pinned.
Example place_tables_computed :
  place_table_ok table_pinned = true /\ length table_pinned = 24%nat
  /\ place_cut_ok table_no_cap = false /\ place_dest_ok table_tail_dropped = false /\ place_table_ok [] = false.
Proof. vm_compute. repeat split; reflexivity. Qed.

(** [want_src] is [read_info] of SM/Vpk.v, and [verify_info] compares the checksum of exactly those bytes. *)
Theorem read_info_want crc st i :
  read_info st i = ipre i ++ match want_src (ilen i =? 0) (is_none (iidx i)) with
                            | RNone => []
                            | RFooter => slice (foot st) (ioff i) (ilen i)
                            | RArch => match iidx i with Some x => slice (arch_get x (archs st)) (ioff i) (ilen i) | None => [] end
                            | ROther => []
                            end
  /\ verify_info crc st i = (crc (read_info st i) =? icrc i).
Proof.
  split; [|reflexivity]. unfold read_info, container, want_src. destruct (ilen i =? 0); [reflexivity|]. destruct (iidx i); reflexivity.
Qed.

Definition rtable_pinned : list rrow := [mkRRow false false RArch RArch; mkRRow false true RFooter RFooter; mkRRow true false RNone RNone; mkRRow true true RNone RNone].
Example read_tables_computed :
  read_table_ok rtable_pinned = true
  (* verify() that does not seek to the offset checks other bytes than read() returns *)
  /\ read_table_ok [mkRRow false false RArch ROther; mkRRow false true RFooter RFooter; mkRRow true false RNone RNone; mkRRow true true RNone RNone] = false
  /\ read_table_ok [mkRRow false false RArch RArch] = false.
Proof. vm_compute. repeat split; reflexivity. Qed.
