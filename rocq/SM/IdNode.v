(** Nav-node IDs: the ['nodeid'] keyvalue of entities (vmf.py: Entity.__setitem__/__delitem__/clear/__del__,
    VMF.add_ent/add_ents/remove_ent) over the map's [node_id] manager.

    An entity may or may not hold a node ID ([nid]: [None] = no 'nodeid' key, or a value that is not an
    integer).  Setting the key releases the previous ID and allocates a new one with the written value as the
    desired ID; deleting the key releases it.  Three code shapes are parameters, read from the source by
    translate/c08_sites.py:
    - [realloc_on_add]: add_ent/add_ents allocate again through __setitem__ (get_id(own ID), then store);
    - [release_on_remove]: remove_ent releases the ID although the entity keeps the key;
    - [release_in_del]: the destructor releases the ID;
    - [copy_registers] (round 3): the keyvalues a copy takes over from its source enter the new entity through
      __setitem__ (so the 'nodeid' value is only a *desired* ID), as opposed to being written into the key
      dictionary directly (the copy then holds the very ID of its source without owning it).
    Executable definitions only; proofs are in SM/IdNodeProofs.v. *)
From stdpp Require Import gmap sets.
From Coq Require Import ZArith.
From SV Require Import SM.IdMan.
Open Scope Z_scope.

Record nent := { nid : option Z; nalive : bool; ninmap : bool }.
Record nworld := { nman : idman; nents : list nent }.
Definition nw0 : nworld := {| nman := init; nents := [] |}.

Inductive nev :=
| NCreate (d : option Z)        (* Entity(vmf, keys) [+ 'nodeid': d] then add_ent; also parse *)
| NSet (k : nat) (d : option Z) (* ent['nodeid'] = value; [None]: the value is not an integer *)
| NDel (k : nat)                (* del ent['nodeid'], pop, clear *)
| NRemove (k : nat)             (* remove_ent *)
| NReAdd (k : nat)              (* add_ent of a removed entity *)
| NGc (k : nat)                 (* __del__ *)
| NCopy (k : nat)               (* ent.copy() then add_ent: the copied key value is the desired ID *)
| NReserve (d : Z).             (* round 3: instancing.Instance.fixup_key on a node-link keyvalue: get_id(d) on the
                                   map's node_id manager, kept only in the Instance's own table -- no entity owns
                                   the ID and nothing ever releases it (a leak, harmless for uniqueness) *)

Section node.
  Variables realloc_on_add release_on_remove release_in_del : bool.
  Variable copy_registers : bool.

  Definition nrelease (old : option Z) (m : idman) : idman :=
    match old with Some n => discard n m | None => m end.

  (** Entity.__setitem__('nodeid', v). *)
  Definition nset_key (d old : option Z) (m : idman) : option Z * idman :=
    let m1 := nrelease old m in
    match d with
    | Some n => match get_id n m1 with Some (i, m2) => (Some i, m2) | None => (None, m1) end
    | None => (None, m1)
    end.

  (** The node part of VMF.add_ent. *)
  Definition nadd (key : option Z) (m : idman) : option Z * idman :=
    if realloc_on_add then
      match key with
      | Some n => match get_id n m with Some (j, m') => nset_key (Some j) (Some n) m' | None => (key, m) end
      | None => (key, m)
      end
    else (key, m).

  Definition ncreate (d : option Z) (w : nworld) : nworld :=
    let '(key, m1) := nset_key d None (nman w) in
    let '(key', m2) := nadd key m1 in
    {| nman := m2; nents := nents w ++ [ {| nid := key'; nalive := true; ninmap := true |} ] |}.

  (** A copy whose keyvalues bypass __setitem__: the key value is taken over as it is, the manager is not asked. *)
  Definition ncopy_raw (key : option Z) (w : nworld) : nworld :=
    let '(key', m) := nadd key (nman w) in
    {| nman := m; nents := nents w ++ [ {| nid := key'; nalive := true; ninmap := true |} ] |}.

  Definition nstep (w : nworld) (e : nev) : nworld :=
    match e with
    | NCreate d => ncreate d w
    | NCopy k => match nents w !! k with
                 | Some o => if nalive o then
                               if copy_registers then ncreate (nid o) w else ncopy_raw (nid o) w
                             else w
                 | None => w end
    | NSet k d =>
        match nents w !! k with
        | Some o => if nalive o then
                      let '(key, m) := nset_key d (nid o) (nman w) in
                      {| nman := m; nents := <[k := {| nid := key; nalive := true; ninmap := ninmap o |}]> (nents w) |}
                    else w
        | None => w end
    | NDel k =>
        match nents w !! k with
        | Some o => if nalive o then
                      {| nman := nrelease (nid o) (nman w);
                         nents := <[k := {| nid := None; nalive := true; ninmap := ninmap o |}]> (nents w) |}
                    else w
        | None => w end
    | NRemove k =>
        match nents w !! k with
        | Some o => if nalive o && ninmap o then
                      {| nman := if release_on_remove then nrelease (nid o) (nman w) else nman w;
                         nents := <[k := {| nid := nid o; nalive := true; ninmap := false |}]> (nents w) |}
                    else w
        | None => w end
    | NReAdd k =>
        match nents w !! k with
        | Some o => if nalive o && negb (ninmap o) then
                      let '(key, m) := nadd (nid o) (nman w) in
                      {| nman := m; nents := <[k := {| nid := key; nalive := true; ninmap := true |}]> (nents w) |}
                    else w
        | None => w end
    | NReserve d =>
        match get_id d (nman w) with
        | Some (_, m) => {| nman := m; nents := nents w |}
        | None => w
        end
    | NGc k =>
        match nents w !! k with
        | Some o => if nalive o && negb (ninmap o) then
                      {| nman := if release_in_del then nrelease (nid o) (nman w) else nman w;
                         nents := <[k := {| nid := nid o; nalive := false; ninmap := false |}]> (nents w) |}
                    else w
        | None => w end
    end.

  Definition nrun (es : list nev) : nworld := fold_left nstep es nw0.
End node.

(** The node IDs held by existing entities / by entities in the map. *)
Definition olist (o : option Z) : list Z := match o with Some n => [n] | None => [] end.
Definition nown (o : nent) : list Z := if nalive o then olist (nid o) else [].
Definition nids (l : list nent) : list Z := flat_map nown l.
Definition nmap_ids (l : list nent) : list Z := flat_map (λ o, if ninmap o then nown o else []) l.
