(** C09 round 3 — kernel-checkable certificate for the COMPLETENESS premises on a real object graph.
    [copy_export_equal] (StoreCopyExportProofs.v) takes as premise [fields_rel_c]: every field export reads is, in the
    copy, the same value / a fresh container of the same elements with the same mask / a nested copy that itself is
    observed equal at EVERY depth ([mobs_eq]).  Here that premise is decided on finite heaps exported from real objects.
    The only non-trivial part is [mobs_eq] (a statement about all depths): it is decided by comparing the masked
    unfoldings at one depth [N] at which both have STABILISED (unfolding one level deeper changes nothing) — below [N]
    equality follows by truncation, above by stabilisation (StoreExportCertProofs.v). *)
From Coq Require Import List PArith ZArith Bool String FMapPositive.
From SV Require Import SM.Store SM.StoreCert SM.StoreCopy SM.StoreCopySrc SM.StoreCopyExport SM.StoreRowCert.
Import ListNotations.

Fixpoint tree_eqb (a b : tree) : bool :=
  match a, b with
  | TAtom x, TAtom y => Z.eqb x y
  | TCut, TCut => true
  | TDangling, TDangling => true
  | TNode m ch, TNode m' ch' =>
      Bool.eqb m m' &&
      (fix go (l l' : list tree) : bool :=
         match l, l' with
         | [], [] => true
         | x :: r, y :: r' => tree_eqb x y && go r r'
         | _, _ => false
         end) ch ch'
  | _, _ => false
  end.

(** What an unfolding to depth [n >= m] looks like when cut at depth [m]. *)
Fixpoint trunc (m : nat) (t : tree) : tree :=
  match t with
  | TAtom z => TAtom z
  | TCut => TCut
  | TDangling => match m with O => TCut | S _ => TDangling end
  | TNode b ch => match m with O => TCut | S m' => TNode b (map (trunc m') ch) end
  end.

Fixpoint mask_eqb (a b : list bool) : bool :=
  match a, b with
  | [], [] => true
  | x :: a', y :: b' => Bool.eqb x y && mask_eqb a' b'
  | _, _ => false
  end.

Section Decide.
  Variable mk : loc -> list bool.

  (** Equal at depth [N], and both sides stable at depth [N]. *)
  Definition mobs_eq_b (N : nat) (h h' : heap) (v v' : val) : bool :=
    tree_eqb (munfold mk N h' v') (munfold mk N h v) &&
    tree_eqb (munfold mk N h v) (munfold mk (S N) h v) &&
    tree_eqb (munfold mk N h' v') (munfold mk (S N) h' v').

  Variables (m' : fheap) (so : pset) (N : nat).

  Definition how_complete_b (w : how) (v v' : val) : bool :=
    match w with
    | HShare | HCtx => val_eqb v' v
    | HShallow =>
      match v with
      | VAtom z => val_eqb v' (VAtom z)
      | VRef c =>
        match v' with
        | VRef c' =>
          match hfind m' so c, PositiveMap.find c' m' with
          | Some nd, Some nd' =>
              Bool.eqb (nmut nd') (nmut nd) && vals_eqb (nfields nd') (nfields nd) && mask_eqb (mk c') (mk c)
          | _, _ => false
          end
        | VAtom _ => false
        end
      end
    | HDeep => mobs_eq_b N (hold m' so) (hof m') v v'
    | HNewId | HMissing => true
    end.

  Fixpoint erows_ok_b (orig : list val) (rows : list erow) (vs' : list val) : bool :=
    match rows, vs' with
    | [], [] => true
    | (mm, w, j) :: rows', v' :: vs'' =>
        (if mm then true
         else match j with
              | Some i => match nth_error orig i with Some v => how_complete_b w v v' | None => false end
              | None => false
              end) && erows_ok_b orig rows' vs''
    | _, _ => false
    end.
End Decide.

Definition mk_of (masks : PositiveMap.t (list bool)) : loc -> list bool :=
  fun l => match PositiveMap.find l masks with Some b => b | None => [] end.

Definition mk_masks (l : list (loc * list bool)) : PositiveMap.t (list bool) :=
  fold_right (fun p m => PositiveMap.add (fst p) (snd p) m) (PositiveMap.empty (list bool)) l.

(** The whole certificate: [l'] the exported heap after the copy, [old] the locations that existed before, [la] the
    original, [lc] the copy, [masks] the export mask of every labelled node (unlabelled nodes — containers, vectors —
    are fully observed), [N] the comparison depth, [c] / [s] / [reads] the generated tables of the class. *)
Definition export_cert_ok (l' : list (loc * node)) (old : list loc) (la lc : loc) (masks : list (loc * list bool))
    (N : nat) (c : census) (s : srcmap) (reads : list string) : bool :=
  let m' := mk_heap l' in let so := mk_set old in let mk := mk_of (mk_masks masks) in
  old_closed_b m' so l' && smem la so &&
  match PositiveMap.find la m', PositiveMap.find lc m' with
  | Some nd, Some nd' =>
      Bool.eqb (nmut nd') (nmut nd) && mask_eqb (mk la) (obs_mask c reads) && mask_eqb (mk lc) (obs_mask c reads) &&
      Nat.eqb (List.length (nfields nd)) (List.length c) &&
      erows_ok_b mk m' so N (nfields nd) (eresolve c s reads) (nfields nd')
  | _, _ => false
  end.
