(** C19, round 4 — the glue around the anchored functions.

    (1) [FileSystemChain.add_sys] as a whole *history* of calls: the chain a program ends up with after any sequence of
        [add_sys(fs, prefix, priority=...)] calls.  The translator reads, besides the action of either branch
        ([ins_action], round 2), whether the method may return *before* inserting ([add_guard]): a guard such as
        `if (sys, prefix) in self.systems: return` uses [FileSystem.__eq__], which compares type and path label only,
        so a second archive mounted under the same label is dropped and a priority re-add is ignored.
    (2) [RawFileSystem.walk_folder]: how the listed name of a file is computed from os.walk's (dirpath, file)
        ([raw_rel]): relative path of the joined file name (today), or relative path of the directory joined with the
        file name afterwards - which spells the files of the root folder "./name".
    (3) Why the known finding case-duplicate-winner-vpk-differs cannot be repaired inside VPKFileSystem: no function
        of a container that forgets the insertion order serves "the file stored last".

    Executable definitions only; proofs are in FsChainAddProofs.v. *)
From Coq Require Import List NArith Bool.
From SV Require Import SM.FsChain.
Import ListNotations.
Open Scope N_scope.

(** ** (1) add_sys over a history *)
Inductive add_guard :=
| AddAlways          (* every call inserts *)
| AddSkipMounted.    (* `if (sys, prefix) in self.systems: return` before inserting *)

Section Add.
  Context {A : Type}.
  Definition ins_at (a : ins_action) (m : A) (ms : list A) : list A :=
    match a with InsertAt n => firstn n ms ++ m :: skipn n ms | Append => ms ++ [m] end.
  (** one call; [same] is the equality the membership test uses *)
  Definition add_sys_g (g : add_guard) (same : A -> A -> bool) (prio plain : ins_action) (priority : bool) (m : A)
             (ms : list A) : list A :=
    let ins := ins_at (if priority then prio else plain) m ms in
    match g with
    | AddAlways => ins
    | AddSkipMounted => if existsb (same m) ms then ms else ins
    end.
  (** a history of calls (priority flag, member), oldest first, on an empty chain *)
  Definition build_chain (g : add_guard) (same : A -> A -> bool) (prio plain : ins_action) (h : list (bool * A)) : list A :=
    fold_left (fun acc x => add_sys_g g same prio plain (fst x) (snd x) acc) h [].
  (** what the property asks for: the priority members, latest first, then the others in the order they were added *)
  Definition priority_order (h : list (bool * A)) : list A :=
    rev (map snd (filter (fun x => fst x) h)) ++ map snd (filter (fun x => negb (fst x)) h).
End Add.

Definition guard_ok (g : add_guard) : bool := match g with AddAlways => true | AddSkipMounted => false end.
Definition actions_ok (prio plain : ins_action) : bool :=
  match prio, plain with InsertAt O, Append => true | _, _ => false end.

(** members described by data (kind label, files, subfolder), compared the way [FileSystem.__eq__] does for the zip, VPK
    and directory backends: by label only *)
Definition dmember := (N * list file * str)%type.
Definition same_label (a b : dmember) : bool :=
  (fst (fst a) =? fst (fst b)) && eqb_str (snd a) (snd b).
Definition d_spec (m : dmember) : list file * str := (snd (fst m), snd m).

(** ** (2) the names RawFileSystem.walk_folder lists *)
Inductive raw_rel :=
| RawRelFile        (* relpath(join(dirpath, file), root) *)
| RawRelDirJoin.    (* relpath(dirpath, root) + '/' + file:  relpath(root, root) = '.' *)

Definition has_sep (s : str) : bool := existsb (fun c => c =? SL) s.
Definition raw_relname (r : raw_rel) (name : str) : str :=
  match r with
  | RawRelFile => name
  | RawRelDirJoin => if has_sep name then name else DOT :: SL :: name
  end.
Definition raw_walk_rel (r : raw_rel) (ops : list sop) (fs : list file) (folder : str) : list file :=
  map (fun e => (raw_relname r (fst e), snd e)) (raw_walk ops fs folder).
Definition raw_rel_ok (r : raw_rel) : bool := match r with RawRelFile => true | RawRelDirJoin => false end.

(** a chain member that is a directory *)
Definition raw_member_of (r : raw_rel) (ops : list sop) (fs : list file) (p : str) : member :=
  {| m_lookup := raw_lookup_ops ops fs; m_walk := raw_walk_rel r ops fs; m_prefix := p |}.

(** ** (3) containers that forget the insertion order *)
Definition swap2 (fs : list file) : list file :=
  match fs with [a; b] => [b; a] | _ => fs end.
Definition dup_a : file := ([97; 47; 120], [1]).     (* "a/x" *)
Definition dup_A : file := ([65; 47; 120], [2]).     (* "A/x" *)
