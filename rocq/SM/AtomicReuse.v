(** One [AtomicWriter] object used for several [with] blocks (the class says "not reentrant, but can be repeated").

    What survives a [with] block is the object's *instance attributes*; the locals of [__exit__] do not.  The
    translator therefore emits, next to the program of [__exit__], the list of attribute slots the program mentions,
    their values when [__init__] returns, what [__enter__]/[make_tempfile] assign on every successful entry, and which
    attributes are assigned nowhere after [__init__] (constants such as [self.filename]).

    * [proto_at o a] is the exit protocol (both decision trees, computed by the interpreter [exec] of AtomicExit.v)
      of a use that *starts with the attributes in state [a]*: [__enter__] overwrites what it assigns, everything else
      is whatever the previous uses left.
    * [reuse_indep o] decides, by enumerating EVERY attribute state that agrees with [__init__] on the constant
      attributes (each other attribute ranges over unbound / None / True / False / the temp handle / the temp name /
      the destination / an exception object), that the protocol does not depend on the state: every attribute read by
      [__exit__] is re-initialised on entry, or constant, or overwritten by [__exit__] before it is read.
    * [hrun o h d] runs a history [h] of uses (scenario, fault pattern, attribute state) one after the other, each in
      the directory the previous one left; a use that is killed ends the history.

    AtomicReuseProofs.v: if [reuse_indep o] and the first-use protocol is good, EVERY use of EVERY history is a good
    single use (old or complete new, no temp file left by a handled failure, other files untouched), and temp files
    do not accumulate over a history.  A flag kept in an attribute that nothing resets (first-use protocol good,
    [reuse_indep] false) is refuted by a computed history. *)
From Coq Require Import List Bool Arith PeanoNat.
From SV Require Import SM.AtomicWriter SM.AtomicExit.
Import ListNotations.

Definition astate := list (option xval).

Record wobj := {
  o_excl : bool;                    (* every open mode of the temp file is exclusive-create, retried *)
  o_prog : xstmt;                   (* AtomicWriter.__exit__ *)
  o_attrs : list nat;               (* slots of the instance attributes the program mentions *)
  o_init : astate;                  (* their values when __init__ returns ([None]: not representable / unbound) *)
  o_enter : list (nat * xval);      (* assigned by __enter__ / make_tempfile on every successful entry *)
  o_const : list nat                (* attributes assigned nowhere after __init__ *)
}.

Fixpoint alookup {A} (x : nat) (l : list (nat * A)) : option A :=
  match l with
  | [] => None
  | (y, v) :: r => if Nat.eqb x y then Some v else alookup x r
  end.

(** The attribute state after a successful [__enter__]. *)
Definition entered (o : wobj) (a : astate) : astate :=
  map (fun xv : nat * option xval =>
         match alookup (fst xv) (o_enter o) with Some w => Some w | None => snd xv end)
      (combine (o_attrs o) a).

(** The environment [__exit__] starts in: attributes from the state, the three parameters, no local bound. *)
Definition env_of (attrs : list nat) (a : astate) (exc : bool) : xenv := fun x =>
  match x with
  | 3 | 4 | 5 => Some (if exc then VExc else VNone)
  | _ => match alookup x (combine attrs a) with Some v => v | None => None end
  end.

Definition tree_at (o : wobj) (a : astate) (exc : bool) : xtree :=
  exec (o_prog o) None (env_of (o_attrs o) (entered o a) exc) (kfin exc).
Definition proto_at (o : wobj) (a : astate) : xproto :=
  {| x_excl := o_excl o; x_ok := tree_at o a false; x_exc := tree_at o a true |}.
(** The protocol of the first use of a fresh object. *)
Definition obj_proto (o : wobj) : xproto := proto_at o (o_init o).

(** ** Every attribute state *)
Definition opt_vals : list (option xval) :=
  [None; Some VNone; Some VTrue; Some VFalse; Some VTemp; Some VTName; Some VDest; Some VExc].

Fixpoint states (attrs : list nat) (init : astate) (const : list nat) : list astate :=
  match attrs, init with
  | x :: xs, v :: vs =>
      let rest := states xs vs const in
      if existsb (Nat.eqb x) const then map (cons v) rest
      else flat_map (fun w => map (cons w) rest) opt_vals
  | _, _ => [[]]
  end.

(** [a] gives a value to every attribute and agrees with [__init__] on the constant ones. *)
Fixpoint consistent (attrs : list nat) (init : astate) (const : list nat) (a : astate) : Prop :=
  match attrs, init, a with
  | x :: xs, v :: vs, w :: ws => (existsb (Nat.eqb x) const = true -> w = v) /\ consistent xs vs const ws
  | [], [], [] => True
  | _, _, _ => False
  end.
Definition ostate (o : wobj) (a : astate) : Prop := consistent (o_attrs o) (o_init o) (o_const o) a.

Definition proto_eqb (x y : xproto) : bool :=
  Bool.eqb (x_excl x) (x_excl y) && xtree_eqb (x_ok x) (x_ok y) && xtree_eqb (x_exc x) (x_exc y).

(** The exit protocol is the same in every attribute state. *)
Definition reuse_indep (o : wobj) : bool :=
  Nat.eqb (length (o_init o)) (length (o_attrs o)) &&
  forallb (fun a => proto_eqb (proto_at o a) (obj_proto o)) (states (o_attrs o) (o_init o) (o_const o)).

(** ** Predicates on the attribute values at the leaves of [__exit__] (what a use leaves behind) *)
Fixpoint all_leaves (t : xtree) : bool :=
  match t with
  | XDone b => b
  | XBad => true                          (* outside the model: judged by [no_bad] *)
  | XClose a b => all_leaves a && all_leaves b
  | XReplace a b c | XUnlink a b c => all_leaves a && all_leaves b && all_leaves c
  end.
(** The leaf of the path on which every operation succeeds. *)
Fixpoint ok_leaf (t : xtree) : bool :=
  match t with
  | XDone b => b
  | XBad => false
  | XClose a _ | XReplace a _ _ | XUnlink a _ _ => ok_leaf a
  end.
Definition leaf_tree (o : wobj) (a : astate) (exc : bool) (P : xenv -> bool) : xtree :=
  exec (o_prog o) None (env_of (o_attrs o) (entered o a) exc) (fun e _ => XDone (P e)).
Definition is_val (v : xval) (o : option xval) : bool := match o with Some w => xval_eqb v w | None => false end.
(** However [__exit__] ends, from whatever state: slot [x] holds [v] afterwards. *)
Definition exit_always_leaves (o : wobj) (x : nat) (v : xval) : bool :=
  forallb (fun a => all_leaves (leaf_tree o a false (fun e => is_val v (e x))) &&
                    all_leaves (leaf_tree o a true (fun e => is_val v (e x))))
          (states (o_attrs o) (o_init o) (o_const o)).

(** [__exit__] on a fresh object that was never entered (attributes as [__init__] left them). *)
Definition tree_unentered (o : wobj) (exc : bool) : xtree :=
  exec (o_prog o) None (env_of (o_attrs o) (o_init o) exc) (kfin exc).
Definition unentered_exit_is_inert (o : wobj) : bool :=
  xtree_eqb (tree_unentered o false) (XDone false) && xtree_eqb (tree_unentered o true) (XDone true).

(** A fresh object has not been entered: no temp handle, no temp name. *)
Definition init_unentered (o : wobj) : bool :=
  is_val VNone (env_of (o_attrs o) (o_init o) false 0) && is_val VNone (env_of (o_attrs o) (o_init o) false 1).
(** A successful entry binds the temp handle and the temp name. *)
Definition enter_binds (o : wobj) : bool :=
  is_val VTemp (alookup 0 (o_enter o)) && is_val VTName (alookup 1 (o_enter o)).

(** ** Histories of uses of one object *)
Definition huse := (scen * list bool * astate)%type.

Fixpoint hrun (o : wobj) (h : list huse) (d : dir) : list syst :=
  match h with
  | [] => []
  | (s, fl, a) :: r =>
      let st := alonet (proto_at o a) s fl d in
      st :: (if finishedt (q1 st) then hrun o r (sdt st) else [])
  end.
(** The directory after the history. *)
Fixpoint hfinal (o : wobj) (h : list huse) (d : dir) : dir :=
  match h with
  | [] => d
  | (s, fl, a) :: r =>
      let st := alonet (proto_at o a) s fl d in
      if finishedt (q1 st) then hfinal o r (sdt st) else sdt st
  end.

(** Executable form for the correspondence: every use starts in the directory the previous one left; [cut] limits
    the number of operations of a use (a kill), [faults] are the indexes of its operations that get an OSError.  The
    attribute state of every use is the first-use state (that this loses nothing is [reuse_indep]). *)
Fixpoint corr_hist (o : wobj) (uses : list (scen * nat * list nat)) (d : dir) (ns : list name)
  : list (list nat * list (list nat) * list (list nat)) :=
  match uses with
  | [] => []
  | (s, cut, faults) :: r =>
      let '(p, d', es) := run1t (obj_proto o) s cut 0 faults TMkdir d in
      (enc_pct p, map enc_event es, map enc_opt (probe d' ns)) ::
      (if finishedt p then corr_hist o r d' ns else [])
  end.

(** ** The attribute state a use leaves behind (correspondence with [vars()] of the real object)

    The harness abstracts the instance attributes of the real object after [__init__], inside the body of every
    [with] block and after every [__exit__] into [astate]s ([None] = a value outside [xval] / unbound) and asks whether
    the model agrees: [entered] must give the state inside the body, and [__exit__] run from that state, its calls
    answering as they did in the real run ([oracle], in the encoding of [walk]), must end in the observed state. *)
Definition oval_eqb (a b : option xval) : bool :=
  match a, b with Some v, Some w => xval_eqb v w | None, None => true | _, _ => false end.
Fixpoint astate_eqb (a b : astate) : bool :=
  match a, b with
  | v :: vs, w :: ws => oval_eqb v w && astate_eqb vs ws
  | [], [] => true
  | _, _ => false
  end.
Definition env_state (attrs : list nat) (e : xenv) : astate := map e attrs.
Definition exit_leaves (o : wobj) (mid : astate) (exc : bool) (oracle : list nat) (obs : astate) : bool :=
  Nat.eqb (snd (walk (exec (o_prog o) None (env_of (o_attrs o) mid exc)
                           (fun e _ => XDone (astate_eqb (env_state (o_attrs o) e) obs))) oracle)) 1.
(** One use: state before, body raised?, results of the calls of [__exit__], observed state inside the body and
    afterwards -> [entry agrees; exit agrees]. *)
Definition corr_attrs_use (o : wobj) (u : astate * bool * list nat * astate * astate) : list bool :=
  let '(a, exc, oracle, mid, obs) := u in
  [astate_eqb (entered o a) mid; exit_leaves o (entered o a) exc oracle obs].
Definition corr_attrs (o : wobj) (init : astate) (uses : list (astate * bool * list nat * astate * astate))
  : list (list bool) :=
  [astate_eqb (o_init o) init] :: map (corr_attrs_use o) uses.

(** ** Example objects *)
(** Today's class: no attribute besides the temp handle, the temp name and the destination. *)
Definition obj_fixed : wobj :=
  {| o_excl := true; o_prog := prog_fixed; o_attrs := [0; 1; 2];
     o_init := [Some VNone; Some VNone; Some VDest]; o_enter := [(0, VTemp); (1, VTName)]; o_const := [2] |}.

(** The "committed" flag kept in an instance attribute (slot 6; 7, 8 = temporaries of the tuple assignment, 9 = temp). *)
Definition prog_flag_attr : xstmt :=
  SSeq (SSeq (SAssign 7 (EV 0)) (SSeq (SAssign 8 (EC VNone)) (SSeq (SAssign 9 (EV 7)) (SAssign 0 (EV 8)))))
  (SSeq (STry
     (SSeq (SIf (TIsNot (EV 9) (EC VNone)) (SCall MClose (EV 9) [] false) SSkip)
     (SSeq (SIf (TIs (EV 1) (EC VNone)) (SReturn false) SSkip)
           (SIf (TIs (EV 3) (EC VNone))
                (SSeq (SCall MReplace (EV 1) [EV 2] false) (SAssign 6 (EC VTrue))) SSkip)))
     HNil SSkip
     (SIf (TAnd (TNot (TTruth (EV 6))) (TIsNot (EV 1) (EC VNone)))
          (STry (SCall MUnlink (EV 1) [] false) (HCons [KNoEnt] SSkip HNil) SSkip SSkip) SSkip))
  (SReturn false)).
(** ... initialised in [__init__] only: nothing resets it when the object is entered again. *)
Definition obj_flag_never_reset : wobj :=
  {| o_excl := true; o_prog := prog_flag_attr; o_attrs := [0; 1; 2; 6];
     o_init := [Some VNone; Some VNone; Some VDest; Some VFalse]; o_enter := [(0, VTemp); (1, VTName)];
     o_const := [2] |}.
(** ... reset by [make_tempfile]. *)
Definition obj_flag_reset_on_entry : wobj :=
  {| o_excl := true; o_prog := prog_flag_attr; o_attrs := [0; 1; 2; 6];
     o_init := [Some VNone; Some VNone; Some VDest; Some VFalse];
     o_enter := [(0, VTemp); (1, VTName); (6, VFalse)]; o_const := [2] |}.
(** ... reset by [__exit__] itself before it is read. *)
Definition obj_flag_reset_in_exit : wobj :=
  {| o_excl := true; o_prog := SSeq (SAssign 6 (EC VFalse)) prog_flag_attr; o_attrs := [0; 1; 2; 6];
     o_init := [Some VNone; Some VNone; Some VDest; None]; o_enter := [(0, VTemp); (1, VTName)]; o_const := [2] |}.
