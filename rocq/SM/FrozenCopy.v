(** C05 (b) — what copy-like methods RETURN: a new object, or the receiver itself (allowed only for frozen
    classes).  Extends the frame model SM/FrozenOps.v, whose state is read here as a heap of objects: an operation
    names objects, a result is either a freshly allocated object or an alias of an existing one.  The table
    [result_kinds] (Gen/AngleSites_gen.v) lists, for each of the six concrete classes, every public method as
    resolved through inheritance, with the kind of its result read from its return statements.  Definitions only. *)
From Coq Require Import List String Bool Arith.
From SV Require Import SM.FrozenOps.
Import ListNotations.
Open Scope string_scope.

Inductive rkind :=
  | RFresh        (* every return yields an object created inside the call (constructor call, X.__new__, helper that builds) *)
  | RSelf         (* returns the receiver itself *)
  | RArgFrozen    (* constructor of a frozen class: returns its argument under `isinstance(arg, <that frozen class>)`, otherwise new *)
  | RArg          (* returns an argument without such a guard *)
  | ROther        (* no object of the six classes (number, string, tuple, iterator, None, NotImplemented ...) *)
  | RUnknown.     (* not understood *)

Definition result_entry := (string * string * rkind)%type.      (* concrete class, method, kind *)

Definition copylike (m : string) : bool :=
  (m =? "copy") || (m =? "__copy__") || (m =? "__deepcopy__") || (m =? "__reduce__") || (m =? "freeze") || (m =? "thaw").
Definition ctor (m : string) : bool := (m =? "__init__") || (m =? "__new__").

Definition kind_of (results : list result_entry) (cls m : string) : rkind :=
  match find (fun e : result_entry => (fst (fst e) =? cls) && (snd (fst e) =? m)) results with
  | Some e => snd e
  | None => RUnknown
  end.

(** a copy-like method returns a new object, or the receiver when the receiver's class is frozen;
    a constructor returns a new object, or (frozen classes only) its argument when that already is of the class *)
Definition entry_ok (e : result_entry) : bool :=
  let '(c, m, k) := e in
  if copylike m then match k with RFresh => true | RSelf => frozen_class c | _ => false end
  else if ctor m then match k with RFresh => true | RArgFrozen => frozen_class c | _ => false end
  else true.
Definition copy_results_ok (results : list result_entry) : bool := forallb entry_ok results.
Definition bad_results (results : list result_entry) : list (string * string) :=
  map (fun e : result_entry => fst e) (filter (fun e => negb (entry_ok e)) results).

(** every concrete class has the whole copy protocol *)
Definition has (results : list result_entry) (c m : string) : bool :=
  existsb (fun e : result_entry => (fst (fst e) =? c) && (snd (fst e) =? m)) results.
Definition copy_methods_present (results : list result_entry) : bool :=
  forallb (fun c => has results c "copy" && has results c "__copy__" && has results c "__deepcopy__" && has results c "__reduce__")
          ["Vec"; "FrozenVec"; "Angle"; "FrozenAngle"; "Matrix"; "FrozenMatrix"] &&
  forallb (fun c => has results c "freeze") ["Vec"; "Angle"; "Matrix"] &&
  forallb (fun c => has results c "thaw") ["FrozenVec"; "FrozenAngle"; "FrozenMatrix"].

(** copy-like methods write nothing at all: no mutation event of the census belongs to one *)
Definition no_copy_events (table : list mut_event) : bool :=
  forallb (fun e : mut_event => negb (copylike (snd (fst (fst e))))) table.

(** where the result of a copy-like call on object [src] lives: a new heap cell, or [src] itself *)
Definition result_obj {V} (k : rkind) (heap : list (reg V)) (src : nat) : nat :=
  match k with RSelf => src | _ => List.length heap end.
Definition result_alloc {V} (k : rkind) (newobj : reg V) : list (reg V) :=
  match k with RSelf => [] | _ => [newobj] end.
