(** C18 — proofs about SM/PathHistory.v. *)
From Coq Require Import List NArith Bool String.
From SV Require Import SM.PathNorm SM.PathNormProofs SM.PathOps SM.PathOpsProofs SM.PathMemo SM.PathMemoProofs SM.PathHistory.
Import ListNotations.

(** With a covering key the threaded evaluation is [peval], and the table stays valid. *)
Lemma peval_m_transparent wf g cwd evict root_arg con i :
  only_drops evict -> (wf || con = true) ->
  forall e c, cache_valid g cwd c ->
    snd (peval_m wf g cwd evict c root_arg con i e) = peval g con cwd root_arg i e /\
    cache_valid g cwd (fst (peval_m wf g cwd evict c root_arg con i e)).
Proof.
  intros He Hcov. induction e; intros c Hv; cbn [peval_m peval]; try (split; [reflexivity|exact Hv]).
  - destruct (IHe c Hv) as [H1 H2]. destruct (peval_m wf g cwd evict c root_arg con i e) as [c1 v].
    cbn in *. subst v. split; [reflexivity|exact H2].
  - destruct (IHe1 c Hv) as [H1 H2]. destruct (peval_m wf g cwd evict c root_arg con i e1) as [c1 va].
    cbn in H1, H2. subst va. destruct (peval g con cwd root_arg i e1) as [x|]; [|split; [reflexivity|exact H2]].
    destruct (IHe2 c1 H2) as [H3 H4]. destruct (peval_m wf g cwd evict c1 root_arg con i e2) as [c2 vb].
    cbn in H3, H4. subst vb. split; [|exact H4]. cbn. destruct (peval g con cwd root_arg i e2); reflexivity.
  - destruct (IHe c Hv) as [H1 H2]. destruct (peval_m wf g cwd evict c root_arg con i e) as [c1 va].
    cbn in H1, H2. subst va. destruct (peval g con cwd root_arg i e) as [s|]; [|split; [reflexivity|exact H2]].
    pose (call := {| rc_root := root_arg; rc_con := con; rc_path := s |}).
    assert (Hk : key_covers wf call = true) by exact Hcov.
    destruct (memo_step_transparent wf g cwd evict c1 call He H2 Hk) as [H3 H4]. fold call.
    destruct (memo_step wf g cwd evict c1 call) as [c2 r]. cbn in H3, H4. subst r. split; [|exact H4].
    cbn. unfold plain. cbn. destruct (resolve g con cwd root_arg s); reflexivity.
Qed.

(** Whole histories: any number of objects, any interleaving, any table policy. *)
Theorem hist_run_transparent wf g cwd evict :
  only_drops evict ->
  forall ops c, cache_valid g cwd c -> forallb (op_covered wf) ops = true ->
    hist_run wf g cwd evict c ops = map (op_plain g cwd) ops.
Proof.
  intros He. induction ops as [|op rest IH]; intros c Hv Hall; [reflexivity|].
  cbn in Hall. apply andb_prop in Hall as [Hc Hr]. cbn [hist_run map].
  destruct (peval_m_transparent wf g cwd evict (oc_root op) (oc_con op) (oc_in op) He Hc (st_arg (oc_site op)) c Hv)
    as [H1 H2].
  destruct (peval_m wf g cwd evict c (oc_root op) (oc_con op) (oc_in op) (st_arg (oc_site op))) as [c' v].
  cbn in H1, H2. subst v. unfold op_plain at 1. f_equal. now apply IH.
Qed.

(** Every path a constrained object hands to the OS at any point of any history is inside its root. *)
Theorem hist_accesses_inside wf g cwd evict :
  raise_sound g = true -> is_abs cwd = true -> only_drops evict ->
  forall ops n op a,
    forallb (op_covered wf) ops = true ->
    nth_error ops n = Some op -> oc_con op = true -> site_ok (oc_site op) = true ->
    nth_error (hist_run wf g cwd evict [] ops) n = Some (Some a) ->
    inside (abspath cwd (oc_root op)) a.
Proof.
  intros Hg Hc He ops n op a Hall Hn Hcon Hok Hr.
  rewrite (hist_run_transparent wf g cwd evict He ops [] (cache_valid_nil g cwd) Hall) in Hr.
  rewrite nth_error_map, Hn in Hr. cbn in Hr. inversion Hr as [Hp]. unfold op_plain in Hp. rewrite Hcon in Hp.
  destruct (peval_resolved g true cwd (oc_root op) (oc_in op) _ a Hok Hp) as [p Hres].
  exact (segprefix_guard_sound g cwd (oc_root op) p a Hg Hc Hres).
Qed.

(** Steps through a FileSystemChain are ordinary steps: what the member's site receives is [chain_access] of SM/PathOps.v. *)
Lemma chain_step_is_chain_access g cwd root_arg c s i op :
  chain_step g cwd root_arg true c s i = Some op ->
  op_plain g cwd op = chain_access g cwd root_arg i c s /\ oc_root op = root_arg /\ oc_con op = true /\ oc_site op = s.
Proof.
  unfold chain_step, chain_access, op_plain. destruct (peval g true cwd root_arg i (cc_arg c)) as [a|]; [|discriminate].
  intro H. inversion H; subst op. cbn. repeat split.
Qed.

Open Scope string_scope.
(** The fault history on the level of operations: an unconstrained RawFileSystem('/t/root') opens '../secret.txt'
    (allowed: it is exempt), then a constrained one on the same folder is asked to open the same name. *)
Definition open_site : site :=
  {| st_method := "open_bin"; st_callee := "open"; st_branch := "str"; st_arg := PResolve (PUnbs PArg) |}.
Definition ask (s : string) : inp := {| i_arg := s2l s; i_data := []; i_hpath := []; i_prefix := []; i_walked := [] |}.
Definition fault_ops : list opcall :=
  [ {| oc_root := s2l "/t/root"; oc_con := false; oc_site := open_site; oc_in := ask "..\secret.txt" |};
    {| oc_root := s2l "/t/root"; oc_con := true;  oc_site := open_site; oc_in := ask "../secret.txt" |} ].

Theorem hist_key_without_flag_refuted :
  raise_sound guard_rstrip_sep = true /\ site_ok open_site = true /\
  (* key without the flag: the constrained object opens /t/secret.txt *)
  hist_run false guard_rstrip_sep (s2l "/w") (fun c => c) [] fault_ops
    = [Some (s2l "/t/secret.txt"); Some (s2l "/t/secret.txt")] /\
  seg_prefixb (segs (abspath (s2l "/w") (s2l "/t/root"))) (segs (s2l "/t/secret.txt")) = false /\
  (* key with the flag, and no table: it raises *)
  hist_run true guard_rstrip_sep (s2l "/w") (fun c => c) [] fault_ops = [Some (s2l "/t/secret.txt"); None] /\
  map (op_plain guard_rstrip_sep (s2l "/w")) fault_ops = [Some (s2l "/t/secret.txt"); None].
Proof. vm_compute. repeat split. Qed.
