(** C09 round 2 — completeness as EXPORT EQUALITY, per class.
    The export of an object reads a set of its data fields ([export_reads_X] in Gen/CopyExportReads_gen.v: the
    attributes read by export()/_serialise()/__str__ and the helpers they call); IDs and the map back pointer are
    not part of the comparison ("apart from freshly assigned IDs").  The observation is therefore the unfolding
    of the object graph with the unread / ID / context positions of every node masked ([munfold mk]).
    [copy_export_ok] (instance obligation [copy_export_equal:<Class>]): every observed field is carried over
    (share / shallow / deep) and is built from exactly its own field.  Proofs in StoreCopyExportProofs.v. *)
From Coq Require Import List PArith ZArith Bool String.
From SV Require Import SM.Store SM.StoreCopy SM.StoreCopySrc.
Import ListNotations.

Section Masked.
  (** [mk l]: for the node at [l], which field positions are NOT observed by export (true = masked). *)
  Variable mk : loc -> list bool.

  Fixpoint mask_apply (m : list bool) (ts : list tree) : list tree :=
    match m, ts with
    | true :: m', _ :: ts' => TCut :: mask_apply m' ts'
    | false :: m', t :: ts' => t :: mask_apply m' ts'
    | [], _ => ts
    | _, [] => []
    end.

  Fixpoint munfold (n : nat) (h : heap) (v : val) : tree :=
    match v with
    | VAtom z => TAtom z
    | VRef l =>
      match n with
      | O => TCut
      | S n' => match h l with
                | None => TDangling
                | Some nd => TNode (nmut nd) (mask_apply (mk l) (map (munfold n' h) (nfields nd)))
                end
      end
    end.

  (** Export equality of an original value and the corresponding value of the copy, at every depth. *)
  Definition mobs_eq (h h' : heap) (v v' : val) : Prop := forall n, munfold n h' v' = munfold n h v.

  (** What a "how" means for completeness.  [HDeep]: the nested copy exports like its original — the
      conclusion of [copy_export_equal] one level down (Entity → Solid → Side → DispVertex → Vec). *)
  Definition how_complete (w : how) (h h' : heap) (v v' : val) : Prop :=
    match w with
    | HShare | HCtx => v' = v
    | HShallow =>
      match v with
      | VAtom z => v' = VAtom z
      | VRef c => exists c' nd, v' = VRef c' /\ h c = Some nd /\
                                h' c' = Some (Node (nmut nd) (nfields nd)) /\ mk c' = mk c
      end
    | HDeep => mobs_eq h h' v v'
    | HNewId | HMissing => True
    end.

  (** Rows with the observation mask: (masked?, how, source position). *)
  Definition erow := (bool * how * option nat)%type.

  Inductive fields_rel_c (h h' : heap) (orig : list val) : list erow -> list val -> Prop :=
  | frc_nil : fields_rel_c h h' orig [] []
  | frc_cons m w j rows v' vs' :
      (m = false -> exists i v, j = Some i /\ nth_error orig i = Some v /\ how_complete w h h' v v') ->
      fields_rel_c h h' orig rows vs' ->
      fields_rel_c h h' orig ((m, w, j) :: rows) (v' :: vs').
End Masked.

Definition how_transfers (w : how) : bool :=
  match w with HShare | HDeep | HShallow => true | _ => false end.

Definition kind_masked (k : kind) : bool := match k with KId | KCtx => true | _ => false end.

(** Is the field of this census row part of what export shows? *)
Definition observed (reads : list string) (row : string * kind * how) : bool :=
  existsb (String.eqb (cname row)) reads && negb (kind_masked (snd (fst row))).

Definition obs_mask (c : census) (reads : list string) : list bool := map (fun row => negb (observed reads row)) c.

Definition field_export_ok (s : srcmap) (reads : list string) (row : string * kind * how) : bool :=
  if observed reads row then how_transfers (snd row) && field_source_ok s row else true.

(** The instance obligation [copy_export_equal:<Class>]. *)
Definition copy_export_ok (c : census) (s : srcmap) (reads : list string) : bool :=
  nodupb (names c) && forallb (field_export_ok s reads) c.

Definition export_broken (c : census) (s : srcmap) (reads : list string) : list string :=
  map cname (filter (fun row => negb (field_export_ok s reads row)) c).

(** Every field export reads is a declared data field (the reads census and the field census agree). *)
Definition reads_are_fields (c : census) (reads : list string) : bool :=
  forallb (fun r => existsb (String.eqb r) (names c)) reads.

Definition eresolve (c : census) (s : srcmap) (reads : list string) : list erow :=
  map (fun row => (negb (observed reads row), snd row,
                   match src_of s (cname row) with
                   | Some [g] => index_of g (names c)
                   | _ => None
                   end)) c.
