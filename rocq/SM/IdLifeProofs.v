From stdpp Require Import gmap sets list.
From Coq Require Import ZArith Lia.
From SV Require Import SM.IdMan SM.IdManProofs SM.IdLife.
Open Scope Z_scope.

Lemma my_sublist_filter {A} (P : A → Prop) `{∀ x, Decision (P x)} (l : list A) : filter P l `sublist_of` l.
Proof.
  induction l as [|a l IH]; [constructor|]. destruct (decide (P a)).
  - rewrite filter_cons_True by done. by constructor.
  - rewrite filter_cons_False by done. by constructor.
Qed.
Lemma my_sublist_NoDup {A} (l k : list A) : l `sublist_of` k → NoDup k → NoDup l.
Proof.
  intros Hs. induction Hs as [|x l k Hs IH|x l k Hs IH]; intros Hnd; [constructor| |].
  - apply NoDup_cons in Hnd as [Hn Hnd]. apply NoDup_cons. split; [|auto].
    intros Hin. apply Hn. eapply elem_of_submseteq; [exact Hin|]. by apply sublist_submseteq.
  - apply NoDup_cons in Hnd as [_ Hnd]. auto.
Qed.

Definition LInv (w : world) : Prop :=
  Inv (man w) ∧ NoDup (live_ids w) ∧ ∀ i, i ∈ live_ids w → i ∈ used (man w) ∧ 0 < i.

Lemma live_ids_app l1 l2 :
  live_ids {| man := init; objs := l1 ++ l2 |} =
  live_ids {| man := init; objs := l1 |} ++ live_ids {| man := init; objs := l2 |}.
Proof. unfold live_ids; simpl. rewrite filter_app, fmap_app. done. Qed.

Lemma live_ids_objs m m' l : live_ids {| man := m; objs := l |} = live_ids {| man := m'; objs := l |}.
Proof. done. Qed.

Definition lids (l : list obj) : list Z := oid <$> filter (λ o, alive o = true) l.
Lemma live_ids_lids w : live_ids w = lids (objs w). Proof. done. Qed.
Lemma lids_app l1 l2 : lids (l1 ++ l2) = lids l1 ++ lids l2.
Proof. unfold lids. rewrite filter_app, fmap_app. done. Qed.
Lemma lids_cons_alive o l : alive o = true → lids (o :: l) = oid o :: lids l.
Proof. intros H. unfold lids. rewrite filter_cons_True by done. done. Qed.
Lemma lids_cons_dead o l : alive o = false → lids (o :: l) = lids l.
Proof. intros H. unfold lids. rewrite filter_cons_False; [done|]. rewrite H. done. Qed.

Lemma split_at (l : list obj) k o : l !! k = Some o → l = take k l ++ o :: drop (S k) l ∧ (k < length l)%nat.
Proof. intros H. split; [symmetry; by apply take_drop_middle|]. by eapply lookup_lt_Some. Qed.

(** Replacing an alive object by an alive one with the same ID leaves the live IDs unchanged. *)
Lemma lids_insert_same l k o o' :
  l !! k = Some o → alive o = true → alive o' = true → oid o' = oid o → lids (<[k:=o']> l) = lids l.
Proof.
  intros Hk Ha Ha' Hid. destruct (split_at _ _ _ Hk) as [Hl Hlen].
  rewrite insert_take_drop by done. rewrite Hl at 3.
  rewrite !lids_app, !lids_cons_alive by done. by rewrite Hid.
Qed.

Lemma lids_insert_kill l k o o' :
  l !! k = Some o → alive o = true → alive o' = false →
  lids l = lids (take k l) ++ oid o :: lids (drop (S k) l) ∧
  lids (<[k:=o']> l) = lids (take k l) ++ lids (drop (S k) l).
Proof.
  intros Hk Ha Ha'. destruct (split_at _ _ _ Hk) as [Hl Hlen]. split.
  - rewrite Hl at 1. rewrite lids_app, lids_cons_alive by done. done.
  - rewrite insert_take_drop by done. rewrite lids_app, lids_cons_dead by done. done.
Qed.

Lemma w0_linv : LInv w0.
Proof. split; [apply init_inv|]. split; [constructor|]. intros i Hi. inversion Hi. Qed.

Lemma lstep_linv w e : LInv w → LInv (lstep false w e).
Proof.
  intros (HI & Hnd & Hin). destruct e as [d|k|k|k]; simpl.
  - (* Create *)
    destruct (get_id d (man w)) as [[i m']|] eqn:E; [|done].
    destruct (get_id_fresh _ _ _ _ HI E) as (Hpos & Hfresh & Hused & HI').
    split; [done|]. rewrite live_ids_lids in *. simpl. rewrite lids_app.
    change (lids [ {| oid := i; alive := true; inmap := true |} ]) with [i].
    split.
    + apply NoDup_app. split; [done|]. split; [|apply NoDup_singleton].
      intros x Hx Hx'. apply elem_of_list_singleton in Hx' as ->. by destruct (Hin _ Hx).
    + intros x Hx. apply elem_of_app in Hx as [Hx|Hx].
      * destruct (Hin _ Hx). rewrite Hused. split; [set_solver|done].
      * apply elem_of_list_singleton in Hx as ->. rewrite Hused. split; [set_solver|done].
  - (* RemoveFromMap, no release *)
    destruct (objs w !! k) as [o|] eqn:Hk; [|done].
    destruct (alive o && inmap o) eqn:Hc; [|done]. apply andb_true_iff in Hc as [Ha _].
    split; [done|]. rewrite live_ids_lids in *. simpl.
    erewrite lids_insert_same; eauto.
  - (* ReAdd *)
    destruct (objs w !! k) as [o|] eqn:Hk; [|done].
    destruct (alive o && negb (inmap o)) eqn:Hc; [|done]. apply andb_true_iff in Hc as [Ha _].
    split; [done|]. rewrite live_ids_lids in *. simpl.
    erewrite lids_insert_same; eauto.
  - (* Gc *)
    destruct (objs w !! k) as [o|] eqn:Hk; [|done].
    destruct (alive o && negb (inmap o)) eqn:Hc; [|done]. apply andb_true_iff in Hc as [Ha _].
    unfold LInv. rewrite live_ids_lids in *. simpl.
    destruct (lids_insert_kill (objs w) k o {| oid := oid o; alive := false; inmap := false |} Hk Ha eq_refl)
      as [Hbefore Hafter].
    rewrite Hafter. rewrite Hbefore in Hnd, Hin.
    apply NoDup_app in Hnd as (Hnd1 & Hdisj & Hnd2). apply NoDup_cons in Hnd2 as [Hnot2 Hnd2].
    assert (Hnot1 : oid o ∉ lids (take k (objs w))).
    { intros Hx. apply (Hdisj _ Hx). left. }
    assert (Hpos : 0 < oid o) by (apply Hin; set_solver).
    split; [by apply discard_inv|]. split.
    + apply NoDup_app. split; [done|]. split; [|done].
      intros x Hx Hx'. apply (Hdisj _ Hx). by right.
    + intros x Hx. assert (Hne : x ≠ oid o).
      { intros ->. apply elem_of_app in Hx as [Hx|Hx]; done. }
      assert (Hx' : x ∈ lids (take k (objs w)) ++ oid o :: lids (drop (S k) (objs w))) by set_solver.
      destruct (Hin _ Hx') as [Hu Hp]. split; [|done]. simpl. set_solver.
Qed.

Lemma lrun_linv_from w es : LInv w → LInv (fold_left (lstep false) es w).
Proof. revert w; induction es as [|e es IH]; intros w H; simpl; [done|]. apply IH. by apply lstep_linv. Qed.

(** Main lifecycle theorem: when removal from the map does not release the ID (the destructor does, once),
    the objects that still exist never share an ID and all IDs are positive, after every history. *)
Theorem live_ids_nodup_pos es :
  let w := lrun false es in NoDup (live_ids w) ∧ (∀ i, i ∈ live_ids w → 0 < i).
Proof.
  intros w. destruct (lrun_linv_from w0 es w0_linv) as (_ & Hnd & Hin). split; [done|].
  intros i Hi. by destruct (Hin _ Hi).
Qed.

(** Objects in the map are a sub-population of the existing objects. *)
Lemma map_ids_sublist es : let w := lrun false es in
  (∀ o, o ∈ objs w → inmap o = true → alive o = true) → sublist (map_ids w) (live_ids w).
Proof.
  intros w H. unfold map_ids, live_ids. apply fmap_sublist.
  induction (objs w) as [|o l IH]; [constructor|].
  assert (Hl : ∀ o, o ∈ l → inmap o = true → alive o = true) by (intros; apply H; [by right|done]).
  destruct (inmap o) eqn:Em.
  - rewrite filter_cons_True by done. rewrite filter_cons_True by (apply H; [left|done]).
    constructor. by apply IH.
  - rewrite filter_cons_False by (rewrite Em; done).
    destruct (alive o) eqn:Ea.
    + rewrite filter_cons_True by done. constructor. by apply IH.
    + rewrite filter_cons_False by (rewrite Ea; done). by apply IH.
Qed.

(** With release on removal (the pinned tree's [VMF.remove_ent]) the statement is false:
    create; remove; create; gc(first); create  -> two existing objects in the map share ID 1. *)
Definition double_release_history : list ev := [Create (-1); RemoveFromMap 0; Create (-1); Gc 0; Create (-1)].
Theorem live_ids_nodup_refuted_with_release_on_remove :
  has_dup (map_ids (lrun true double_release_history)) = true.
Proof. vm_compute. reflexivity. Qed.

(** Non-vacuity: the same history is harmless without the release on removal. *)
Example double_release_history_ok :
  map_ids (lrun false double_release_history) = [2; 1].
Proof. vm_compute. reflexivity. Qed.

(* ------------------------------------------------------------------ fixup indexes *)

Lemma lowest_unused_spec fuel (i : Z) (ids : list Z) :
  (length (filter (λ x : Z, (i ≤ x)%Z) ids) < fuel)%nat → lowest_unused fuel i ids ∉ ids ∧ i ≤ lowest_unused fuel i ids.
Proof.
  revert i; induction fuel as [|f IH]; intros i Hlen; [lia|]. simpl.
  destruct (decide (i ∈ ids)) as [Hin|Hn]; [|split; [done|lia]].
  destruct (IH (i + 1)) as [H1 H2]; [|split; [done|lia]].
  assert (Hlt : (length (filter (λ x : Z, (i + 1 ≤ x)%Z) ids) < length (filter (λ x : Z, (i ≤ x)%Z) ids))%nat).
  { clear -Hin. induction ids as [|a l IHl]; [inversion Hin|].
    destruct (decide (a = i)) as [->|Hne].
    - rewrite (filter_cons_False (λ x, i + 1 ≤ x)) by lia. rewrite (filter_cons_True (λ x, i ≤ x)) by lia. simpl.
      assert (length (filter (λ x : Z, (i + 1 ≤ x)%Z) l) ≤ length (filter (λ x : Z, (i ≤ x)%Z) l))%nat; [|lia].
      clear. induction l as [|b l IH]; [done|].
      destruct (decide (i + 1 ≤ b)).
      + rewrite !filter_cons_True by lia. simpl. lia.
      + rewrite (filter_cons_False (λ x, i + 1 ≤ x)) by lia. destruct (decide (i ≤ b)).
        * rewrite filter_cons_True by lia. simpl. lia.
        * rewrite filter_cons_False by lia. lia.
    - apply elem_of_cons in Hin as [->|Hin]; [done|]. specialize (IHl Hin).
      destruct (decide (i + 1 ≤ a)).
      + rewrite !filter_cons_True by lia. simpl. lia.
      + rewrite (filter_cons_False (λ x, i + 1 ≤ x)) by lia. destruct (decide (i ≤ a)).
        * rewrite filter_cons_True by lia. simpl. lia.
        * rewrite filter_cons_False by lia. lia. }
  lia.
Qed.

Definition FxInv (f : fixups) : Prop := NoDup (f.*2) ∧ ∀ i, i ∈ f.*2 → 0 < i.

Lemma fx_set_inv v f : FxInv f → FxInv (fx_set v f).
Proof.
  intros [Hnd Hpos]. unfold fx_set. destruct (decide _); [done|].
  destruct (lowest_unused_spec (S (length f)) 1 (f.*2)) as [Hni Hle].
  { pose proof (filter_length (λ x, 1 ≤ x) (f.*2)). rewrite fmap_length in *. lia. }
  set (nid := lowest_unused _ _ _) in *. clearbody nid.
  split.
  - rewrite fmap_app. simpl. apply NoDup_app. split; [done|]. split; [|apply NoDup_singleton].
    intros x Hx Hx'. apply elem_of_list_singleton in Hx' as ->. done.
  - intros i Hi. rewrite fmap_app in Hi. apply elem_of_app in Hi as [Hi|Hi]; [by apply Hpos|].
    simpl in Hi. apply elem_of_list_singleton in Hi as ->. lia.
Qed.

Lemma fx_filter_inv (P : Z * Z → Prop) `{∀ p, Decision (P p)} f : FxInv f → FxInv (filter P f).
Proof.
  intros [Hnd Hpos]. split.
  - eapply my_sublist_NoDup; [|exact Hnd]. apply fmap_sublist, my_sublist_filter.
  - intros i Hi. apply Hpos. apply elem_of_list_fmap in Hi as (p & -> & Hp).
    apply elem_of_list_filter in Hp as [_ Hp]. apply elem_of_list_fmap. eauto.
Qed.

Lemma fx_del_inv v f : FxInv f → FxInv (fx_del v f).
Proof. apply fx_filter_inv. Qed.

Lemma fx_init_pass_inv l : ∀ seen f extra,
  FxInv f → (∀ i, i ∈ f.*2 → i ∈ seen) →
  FxInv (fx_init_pass true true l seen f extra).1.
Proof.
  induction l as [|[v i] r IH]; intros seen f extra HI Hseen; simpl; [done|].
  destruct (accept true i seen) eqn:Hacc.
  - unfold accept in Hacc. apply andb_true_iff in Hacc as [Hp Hn].
    apply bool_decide_eq_true in Hp. apply bool_decide_eq_true in Hn.
    apply IH.
    + pose proof (fx_filter_inv (λ p, p.1 ≠ v) f HI) as [Hnd Hpos].
      split.
      * rewrite fmap_app. simpl. apply NoDup_app. split; [done|]. split; [|apply NoDup_singleton].
        intros x Hx Hx'. apply elem_of_list_singleton in Hx' as ->. apply Hn, Hseen.
        apply elem_of_list_fmap in Hx as (p & -> & Hp'). apply elem_of_list_filter in Hp' as [_ Hp'].
        apply elem_of_list_fmap. eauto.
      * intros x Hx. rewrite fmap_app in Hx. apply elem_of_app in Hx as [Hx|Hx]; [by apply Hpos|].
        simpl in Hx. apply elem_of_list_singleton in Hx as ->. done.
    + intros x Hx. rewrite fmap_app in Hx. apply elem_of_app in Hx as [Hx|Hx].
      * right. apply Hseen. apply elem_of_list_fmap in Hx as (p & -> & Hp').
        apply elem_of_list_filter in Hp' as [_ Hp']. apply elem_of_list_fmap. eauto.
      * simpl in Hx. apply elem_of_list_singleton in Hx as ->. left.
  - by apply IH.
Qed.

Lemma fold_fx_set_inv extra : ∀ f, FxInv f → FxInv (fold_left (λ f v, fx_set v f) extra f).
Proof. induction extra as [|v r IH]; intros f H; simpl; [done|]. apply IH. by apply fx_set_inv. Qed.

(** With the positivity test in the constructor, every fixup table has distinct positive indexes. *)
Theorem fx_init_inv l : FxInv (fx_init true true l).
Proof.
  unfold fx_init. pose proof (fx_init_pass_inv l [] [] []) as H.
  destruct (fx_init_pass true true l [] [] []) as [f extra]. apply fold_fx_set_inv. apply H.
  - split; [constructor|]. intros i Hi. inversion Hi.
  - intros i Hi. inversion Hi.
Qed.

(** Without it (the pinned tree) a parsed "replace00" keeps index 0. *)
Theorem fx_init_refuted_without_positive_test : (fx_init false true [(7, 0)]).*2 = [0].
Proof. vm_compute. reflexivity. Qed.

(** Re-inserting a rejected value at once, before the later values of the list have claimed their indexes, lets a
    later value claim the index just given away: replace02 a, replace02 b, replace01 c -> b and c share index 1. *)
Theorem fx_init_refuted_without_deferral : (fx_init true false [(10, 2); (11, 2); (12, 1)]).*2 = [2; 1; 1].
Proof. vm_compute. reflexivity. Qed.
