(** Source-shaped model for property C07, round 3: [VMF.add_ent] and [VMF.remove_ent] as written — little programs
    over the entity list and the two indexes, read off vmf.py by translate/c07_index_listops.py on every run
    ([gen_add_ent], [gen_remove_ent] in Gen/IndexListOps_gen.v).  Conditions are evaluated on the state at the point
    where they stand (the membership test of remove_ent comes after the list removal).

    Executable definitions only; proofs are in IndexListOpsProofs.v. *)
From stdpp Require Import gmap sets list.
From Coq Require Import NArith.
From SV Require Import SM.IndexModel.

Inductive vact :=
| VAppend            (* self.entities.append(item) *)
| VRemoveFirst       (* try: self.entities.remove(item) except ValueError: pass *)
| VRemClass          (* _remove_copyset(self.by_class, item['classname'].casefold(), item) *)
| VRemTarget         (* _remove_copyset(self.by_target, item['targetname'].casefold() or None, item) *)
| VAddClass          (* self.by_class[item['classname'].casefold()].add(item) *)
| VAddTarget.        (* self.by_target[item['targetname'].casefold() or None].add(item) *)
Inductive vcond :=
| VCIsSpawn          (* item is self.spawn *)
| VCInEnts           (* item in self.entities *)
| VCNot (c : vcond) | VCOr (a b : vcond) | VCAnd (a b : vcond)
| VCCached (attr : str).   (* item.<attr>: a flag kept on the entity object (round 5); the model has no such state, the
                              facts never decide it, so no program in which it matters passes a path obligation *)
Inductive vprog := VSkip | VSeq (a b : vprog) | VIf (c : vcond) (a b : vprog) | VAct (a : vact).

Global Instance vact_eq_dec : EqDecision vact.
Proof. solve_decision. Defined.

Section listops.
  Variable fold : str → str.

  Definition v_act (a : vact) (e : nat) (st : mstate) : mstate :=
    match a with
    | VAppend => with_ents (ents st ++ [e]) st
    | VRemoveFirst => with_ents (remove_first e (ents st)) st
    | VRemClass => upd_class (ix_remove (cls_of fold st e) e) st
    | VRemTarget => upd_target (ix_remove (tgt_of fold st e) e) st
    | VAddClass => upd_class (ix_add (cls_of fold st e) e) st
    | VAddTarget => upd_target (ix_add (tgt_of fold st e) e) st
    end.
  Fixpoint v_cond (c : vcond) (e : nat) (st : mstate) : bool :=
    match c with
    | VCIsSpawn => bool_decide (e = spawn st)
    | VCInEnts => bool_decide (e ∈ ents st)
    | VCNot c => negb (v_cond c e st)
    | VCOr a b => v_cond a e st || v_cond b e st
    | VCAnd a b => v_cond a e st && v_cond b e st
    | VCCached _ => false
    end.
  Fixpoint v_run (p : vprog) (e : nat) (st : mstate) : mstate :=
    match p with
    | VSkip => st
    | VSeq a b => v_run b e (v_run a e st)
    | VIf c a b => if v_cond c e st then v_run a e st else v_run b e st
    | VAct a => v_act a e st
    end.
  Definition vacts_run (l : list vact) (e : nat) (st : mstate) : mstate := foldl (λ s a, v_act a e s) st l.

  (** ** The obligation: which actions each path executes.
      Facts: is the item the worldspawn; is it in the entity list at the start ([f_l0]); is it still in the list
      after one [list.remove] ([f_l1]: it was added more than once).  [vphase]: what has been done to the list so
      far — nothing, exactly one removal, anything else (then a membership test is not decided by the facts). *)
  Inductive vphase := P0 | P1 | PX.
  Record vfacts := VF { f_sp : bool; f_l0 : bool; f_l1 : bool }.

  Fixpoint vcond_abs (c : vcond) (f : vfacts) (ph : vphase) : option bool :=
    match c with
    | VCIsSpawn => Some (f_sp f)
    | VCInEnts => match ph with P0 => Some (f_l0 f) | P1 => Some (f_l1 f) | PX => None end
    | VCNot c => negb <$> vcond_abs c f ph
    | VCOr a b => match vcond_abs a f ph, vcond_abs b f ph with Some x, Some y => Some (x || y) | _, _ => None end
    | VCAnd a b => match vcond_abs a f ph, vcond_abs b f ph with Some x, Some y => Some (x && y) | _, _ => None end
    | VCCached _ => None
    end.
  Definition vphase_after (a : vact) (ph : vphase) : vphase :=
    match a with
    | VAppend => PX
    | VRemoveFirst => match ph with P0 => P1 | _ => PX end
    | _ => ph
    end.
  Fixpoint v_flat (p : vprog) (f : vfacts) (ph : vphase) : option (list vact * vphase) :=
    match p with
    | VSkip => Some ([], ph)
    | VAct a => Some ([a], vphase_after a ph)
    | VSeq a b => match v_flat a f ph with
                  | Some (la, ph1) => match v_flat b f ph1 with Some (lb, ph2) => Some (la ++ lb, ph2) | None => None end
                  | None => None
                  end
    | VIf c a b => match vcond_abs c f ph with
                   | Some true => v_flat a f ph
                   | Some false => v_flat b f ph
                   | None => None
                   end
    end.

  (** what today's code executes *)
  Definition remove_today (f : vfacts) : list vact :=
    VRemoveFirst :: (if f_sp f || f_l1 f then [] else [VRemClass; VRemTarget]).
  Definition remove_today' (f : vfacts) : list vact :=
    VRemoveFirst :: (if f_sp f || f_l1 f then [] else [VRemTarget; VRemClass]).
  Definition all_vfacts : list vfacts := s ← [false; true]; a ← [false; true]; b ← [false; true]; [VF s a b].
  Definition remove_path_ok (p : vprog) (f : vfacts) : bool :=
    match v_flat p f P0 with
    | Some (l, _) => bool_decide (l = remove_today f) || bool_decide (l = remove_today' f)
    | None => false
    end.
  (** the named obligations of remove_ent *)
  Definition remove_worldspawn_stays_indexed (p : vprog) : bool :=
    forallb (λ f, negb (f_sp f) || remove_path_ok p f) all_vfacts.
  Definition remove_still_listed_stays_indexed (p : vprog) : bool :=
    forallb (λ f, f_sp f || negb (f_l1 f) || remove_path_ok p f) all_vfacts.
  Definition remove_unlists_and_unindexes (p : vprog) : bool :=
    forallb (λ f, f_sp f || f_l1 f || remove_path_ok p f) all_vfacts.
  Definition remove_ok (p : vprog) : bool :=
    remove_worldspawn_stays_indexed p && remove_still_listed_stays_indexed p && remove_unlists_and_unindexes p.

  (** add_ent: the item is appended once and added once to each index, unconditionally, in any order *)
  Definition count_vact (a : vact) (l : list vact) : nat := length (List.filter (λ b, bool_decide (a = b)) l).
  Definition add_path_ok (p : vprog) (f : vfacts) : bool :=
    match v_flat p f P0 with
    | Some (l, _) => Nat.eqb (length l) 3 && Nat.eqb (count_vact VAppend l) 1 && Nat.eqb (count_vact VAddClass l) 1
                     && Nat.eqb (count_vact VAddTarget l) 1
    | None => false
    end.
  Definition add_ok (p : vprog) : bool := forallb (add_path_ok p) all_vfacts.

  Definition remove_ent_today : vprog :=
    VSeq (VAct VRemoveFirst) (VIf (VCOr VCIsSpawn VCInEnts) VSkip (VSeq (VAct VRemClass) (VAct VRemTarget))).
  Definition add_ent_today : vprog := VSeq (VAct VAppend) (VSeq (VAct VAddClass) (VAct VAddTarget)).
  (** the membership test placed before the list removal; the guard with `and` instead of `or` *)
  Definition remove_ent_test_first : vprog :=
    VIf (VCOr VCIsSpawn VCInEnts) (VAct VRemoveFirst) (VSeq (VAct VRemoveFirst) (VSeq (VAct VRemClass) (VAct VRemTarget))).
  Definition remove_ent_and_guard : vprog :=
    VSeq (VAct VRemoveFirst) (VIf (VCAnd VCIsSpawn VCInEnts) VSkip (VSeq (VAct VRemClass) (VAct VRemTarget))).
  (** "still listed" read from a flag on the entity instead of the scan of the list (round 5) *)
  Definition remove_ent_cached_flag : vprog :=
    VSeq (VAct VRemoveFirst) (VIf (VCOr VCIsSpawn (VCCached [95;105;110;95;109;97;112]%N)) VSkip (VSeq (VAct VRemClass) (VAct VRemTarget))).
End listops.
