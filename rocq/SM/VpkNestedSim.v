(** The nested dicts simulate the flat table of SM/Vpk.v: the relation "lookup in the nested dicts = lookup in the table" holds for the
    empty archive and is preserved by new_file / an in-place update (insertion, SM/VpkNestedMap.v [nins] vs [aset]) and by __delitem__
    (SM/VpkNested.v [ndel] vs [adel]), for the translated descriptions accepted by [goc_ok] / [prog_safe].  So every table that the state
    machine reaches by these operations is the lookup function of the nested dicts the implementation holds at that point. *)
From Coq Require Import List NArith Bool.
From SV Require Import Fmt.VpkDir SM.Vpk SM.VpkProofs SM.VpkNested SM.VpkNestedProofs SM.VpkNestedMap SM.VpkNestedMapProofs.
Import ListNotations.
Open Scope N_scope.

Definition nrel (t : tree) (tb : list (key * info)) : Prop := forall k, nlookup t k = alookup k tb.

Lemma nrel_nil : nrel [] [].
Proof. intros k. rewrite nlookup_nil. reflexivity. Qed.

Theorem nrel_nins g1 g2 : goc_ok g1 = true -> goc_ok g2 = true -> forall t tb k i, nrel t tb ->
  exists t', nins g1 g2 t k i = Some t' /\ nrel t' (aset k i tb).
Proof.
  intros H1 H2 t tb k i R. destruct (nlookup_nins g1 g2 H1 H2 t k i) as (t' & E & L). exists t'. split; [exact E|].
  intros k'. rewrite L, alookup_aset. destruct (key_eqb k' k); [reflexivity|apply R].
Qed.

(** A KeyError only when the table has no such file; in every case the relation is preserved.  (That the delete does raise whenever the
    table has no such file needs that no dict entry is shadowed by an earlier one with the same key, which Python dicts guarantee and
    association lists do not; on the flat view it is c13_nested_delete_is_flat_delete.) *)
Theorem nrel_ndel prog : prog_safe prog = true -> forall t tb k, nrel t tb ->
  match ndel prog t k with
  | Some t' => nrel t' (adel k tb)
  | None => alookup k tb = None
  end.
Proof.
  intros Hs t tb k R. pose proof (nlookup_ndel prog Hs t k) as L.
  destruct (ndel prog t k) as [t'|].
  - intros k'. rewrite L, alookup_adel. destruct (key_eqb k' k); [reflexivity|apply R].
  - rewrite <- R. exact L.
Qed.
