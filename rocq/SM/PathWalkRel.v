(** C18 — walk_folder stores os.path.relpath(os.path.join(dirpath, file), self.path) (slashes changed) in the handle
    it yields.  Model of posixpath.relpath and the fidelity theorem: re-resolving the stored string names the very
    file that os.walk found (same segments), so handles yielded by a walk open what was listed -- nothing else. *)
From Coq Require Import List NArith Bool Lia.
From SV Require Import SM.PathNorm SM.PathNormProofs SM.PathOps SM.PathOpsProofs.
Import ListNotations.
Open Scope N_scope.

(** [posixpath.relpath(path, start)]: both made absolute, split into non-empty components (after normpath an
    absolute path has no '.' component, so these are the segments), common prefix dropped, one '..' per remaining
    start component; posixpath.join of the pieces or '.' *)
Definition relpath (cwd path start : str) : str :=
  let sl := segs (abspath cwd start) in
  let pl := segs (abspath cwd path) in
  let i := List.length (lcp sl pl) in
  match repeat [dotc; dotc] (List.length sl - i) ++ skipn i pl with
  | [] => [dotc]
  | x :: r => fold_left pjoin r x
  end.

(** ---------------------------------------------------------------- normpath keeps the segments of a '..'-free path *)
Lemma fold_norm_no_dd b cs : forall acc,
  Forall (fun c => is_dotdot c = false) cs ->
  fold_left (norm_step b) cs acc = rev (filter (fun c => negb (skip c)) cs) ++ acc.
Proof.
  induction cs as [|c cs IH]; intros acc H; [reflexivity|]. inversion H as [|? ? Hc Hcs]; subst.
  cbn [fold_left filter]. unfold norm_step at 2. destruct (skip c) eqn:Es; cbn [negb].
  - now apply IH.
  - rewrite Hc, (IH (c :: acc) Hcs). cbn [rev]. now rewrite <- app_assoc.
Qed.

Lemma no_dotdot_split p : no_dotdot (segs p) -> Forall (fun c => is_dotdot c = false) (split p).
Proof.
  unfold no_dotdot, segs. intros H. apply Forall_forall. intros c Hc.
  destruct (skip c) eqn:Es.
  - destruct c as [|x c']; [reflexivity|]. cbn [skip] in Es. unfold is_dot in Es. apply str_eqb_eq in Es.
    rewrite Es. reflexivity.
  - rewrite Forall_forall in H. apply H. apply filter_In. split; [exact Hc|]. now rewrite Es.
Qed.

Lemma segs_normpath_no_dd p : is_abs p = true -> no_dotdot (segs p) -> segs (normpath p) = segs p.
Proof.
  intros Ha Hd. destruct (normpath_abs_shape p Ha) as (n & comps & Hn & Hp & Hc).
  destruct p as [|a r]; [discriminate|]. unfold normpath in Hp |- *.
  pose proof (lead_slashes_abs (a :: r) Ha) as Hl.
  set (m := lead_slashes (a :: r)) in *.
  assert (Hlt : Nat.ltb 0 m = true) by (apply PeanoNat.Nat.ltb_lt; lia). rewrite Hlt in *.
  assert (Hs : repeat sep m ++ join (norm_comps true (split (a :: r))) <> []) by (destruct m; [lia|discriminate]).
  destruct (repeat sep m ++ join (norm_comps true (split (a :: r)))) as [|x y] eqn:E; [congruence|].
  rewrite <- E. rewrite segs_repeat_sep. unfold norm_comps.
  rewrite (fold_norm_no_dd true _ [] (no_dotdot_split _ Hd)), app_nil_r, rev_involutive.
  apply segs_join. apply segs_valid_all.
Qed.

Lemma segs_abspath_abs_no_dd cwd p : is_abs p = true -> no_dotdot (segs p) -> segs (abspath cwd p) = segs p.
Proof. intros Ha Hd. unfold abspath. rewrite Ha. now apply segs_normpath_no_dd. Qed.

(** ---------------------------------------------------------------- joins of relative pieces *)
Lemma segs_pjoin_rel a b : starts_sep b = false -> segs (pjoin a b) = segs a ++ segs b.
Proof.
  intros Hb. unfold pjoin. rewrite Hb. destruct a as [|c a']; [reflexivity|].
  destruct (ends_sep (c :: a')) eqn:E.
  - destruct (ends_sep_inv _ E) as [u Hu]. rewrite Hu, <- app_assoc. cbn [app].
    now rewrite segs_app_sep, segs_snoc_sep.
  - now rewrite segs_app_sep.
Qed.

Lemma starts_sep_pjoin a b : a <> [] -> starts_sep b = false -> starts_sep (pjoin a b) = starts_sep a.
Proof.
  intros Ha Hb. unfold pjoin. rewrite Hb. destruct a as [|c a']; [congruence|].
  destruct (ends_sep (c :: a')); reflexivity.
Qed.

Lemma pjoin_nonnil a b : a <> [] -> pjoin a b <> [].
Proof.
  intros Ha. unfold pjoin. destruct (starts_sep b) eqn:Eb.
  - destruct b; [discriminate|discriminate].
  - destruct a as [|c a']; [congruence|]. destruct (ends_sep (c :: a')); discriminate.
Qed.

Lemma fold_pjoin_valid r : forall x, x <> [] -> starts_sep x = false -> Forall valid r ->
  segs (fold_left pjoin r x) = segs x ++ r /\ starts_sep (fold_left pjoin r x) = false.
Proof.
  induction r as [|y r IH]; intros x Hx Hs Hr; cbn [fold_left].
  - now rewrite app_nil_r.
  - inversion Hr as [|? ? Hy Hr']; subst. pose proof (valid_not_starts_sep y Hy) as Hys.
    destruct (IH (pjoin x y) (pjoin_nonnil x y Hx)) as [H1 H2]; [|exact Hr'|].
    + now rewrite (starts_sep_pjoin x y Hx Hys).
    + split; [|exact H2]. rewrite H1, (segs_pjoin_rel x y Hys), (segs_single y Hy), <- app_assoc. reflexivity.
Qed.

Lemma valid_nonnil c : valid c -> c <> [].
Proof. intros [_ Hs] ->. discriminate. Qed.

Lemma lcp_app_self a : forall rest, lcp a (a ++ rest) = a.
Proof. induction a as [|x a IH]; intros rest; [reflexivity|]. cbn [app lcp]. now rewrite str_eqb_refl, IH. Qed.

Lemma skipn_app_self {A} (a rest : list A) : skipn (List.length a) (a ++ rest) = rest.
Proof. induction a as [|x a IH]; [reflexivity|]. exact IH. Qed.

(** ---------------------------------------------------------------- relpath of a path under the start *)
Lemma relpath_under cwd path start rest :
  is_abs path = true -> is_abs start = true -> no_dotdot (segs path) -> no_dotdot (segs start) ->
  segs path = segs start ++ rest -> rest <> [] ->
  segs (relpath cwd path start) = rest /\ starts_sep (relpath cwd path start) = false.
Proof.
  intros Hp Hs Hdp Hds Heq Hne. unfold relpath.
  rewrite (segs_abspath_abs_no_dd cwd path Hp Hdp), (segs_abspath_abs_no_dd cwd start Hs Hds), Heq.
  rewrite lcp_app_self, PeanoNat.Nat.sub_diag, skipn_app_self. cbn [repeat app].
  destruct rest as [|x r]; [congruence|].
  assert (Hv : Forall valid (x :: r)).
  { pose proof (segs_valid_all path) as H. rewrite Heq in H. now apply Forall_app in H as [_ H]. }
  inversion Hv as [|? ? Hx Hr]; subst.
  destruct (fold_pjoin_valid r x (valid_nonnil x Hx) (valid_not_starts_sep x Hx) Hr) as [H1 H2].
  split; [|exact H2]. now rewrite H1, (segs_single x Hx).
Qed.

(** ---------------------------------------------------------------- fidelity of walk_folder *)
Lemma segs_descend top names : Forall valid names -> segs (descend top names) = segs top ++ names.
Proof.
  revert top. induction names as [|n r IH]; intros top H; cbn [descend]; [now rewrite app_nil_r|].
  inversion H as [|? ? Hn Hr]; subst. rewrite (IH _ Hr), (segs_pjoin_entry top n Hn), <- app_assoc. reflexivity.
Qed.

Section WalkFidelity.
  Variable os_walk : str -> list (str * list str).
  Hypothesis walk_shape : forall top d fs, In (d, fs) (os_walk top) ->
    (exists names, forallb entry_nameb names = true /\ d = descend top names) /\ forallb entry_nameb fs = true.

  (** walk_folder(folder) found [file = os.path.join(dirpath, f)] and stores
      [y = os.path.relpath(file, self.path).replace('\\', '/')] in the handle.  If [y] carries no backslash to replace,
      opening the handle computes abspath(join(self.path, y)): it has exactly the segments of the file found. *)
  Theorem walk_yield_names_the_file_found g cwd root_arg folder top d fs f :
    raise_sound g = true -> is_abs cwd = true ->
    resolve g true cwd root_arg folder = Ok top ->
    In (d, fs) (os_walk top) -> In f fs ->
    let root := abspath cwd root_arg in
    let file := pjoin d f in
    let y := relpath cwd file root in
    unbackslash y = y ->
    segs (abspath cwd (pjoin root (unbackslash y))) = segs file.
  Proof.
    intros Hg Hc Hres Hin Hf root file y Hy. rewrite Hy.
    pose proof (walk_found_inside os_walk walk_shape g cwd root_arg folder top d fs f Hg Hc Hres Hin Hf) as Hfile.
    fold root in Hfile. fold file in Hfile. destruct Hfile as (Hfa & [rest Hrest] & Hfd).
    assert (Hra : is_abs root = true) by now apply abspath_is_abs.
    assert (Hrd : no_dotdot (segs root)) by now apply abspath_no_dotdot.
    (* the file has at least its own name below the root's segments *)
    assert (Hne : rest <> []).
    { destruct (walk_shape top d fs Hin) as [(names & Hn & Hd) Hfs]. rewrite forallb_forall in Hfs.
      destruct (entry_nameb_spec f (Hfs f Hf)) as [Hv _].
      unfold file in Hrest. rewrite (segs_pjoin_entry d f Hv) in Hrest. intros ->. rewrite app_nil_r in Hrest.
      pose proof (segprefix_guard_sound g cwd root_arg folder top Hg Hc Hres) as (_ & [r0 Hr0] & _).
      assert (Hvn : Forall valid names).
      { apply Forall_forall. intros n Hn'. rewrite forallb_forall in Hn. now destruct (entry_nameb_spec n (Hn n Hn')). }
      rewrite Hd, (segs_descend top names Hvn), Hr0 in Hrest. fold root in Hrest.
      apply (f_equal (@List.length str)) in Hrest. rewrite !app_length in Hrest. cbn [List.length] in Hrest. lia. }
    destruct (relpath_under cwd file root rest Hfa Hra Hfd Hrd Hrest Hne) as [Hys Hyr]. fold y in Hys, Hyr.
    assert (Hj : segs (pjoin root y) = segs file) by now rewrite (segs_pjoin_rel root y Hyr), Hys.
    rewrite segs_abspath_abs_no_dd; [exact Hj | now apply pjoin_abs | now rewrite Hj].
  Qed.
End WalkFidelity.
