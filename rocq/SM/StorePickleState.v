(** C09, round 4 — the pickling pair [__getstate__] / [__setstate__] of a map object (Output): copy.copy, copy.deepcopy and
    pickle all rebuild the object by handing the tuple the first returns to the second.  Read off the source:
    [put] = the field each position of the state tuple is built from, [get] = the field each position is unpacked into.
    [state_ok]: same fields at the same positions, no field twice, every data field present.  StorePickleStateProofs.v:
    then every field comes back with its own value; a swapped pair of positions does not. *)
From Coq Require Import List String Bool ZArith.
Import ListNotations.

Fixpoint sl_eqb (a b : list string) : bool :=
  match a, b with
  | [], [] => true
  | x :: a', y :: b' => String.eqb x y && sl_eqb a' b'
  | _, _ => false
  end.

Fixpoint sl_nodupb (l : list string) : bool :=
  match l with
  | [] => true
  | x :: r => negb (existsb (String.eqb x) r) && sl_nodupb r
  end.

Definition state_ok (fields put get : list string) : bool :=
  sl_nodupb get && sl_eqb put get && forallb (fun f => existsb (String.eqb f) put) fields.

(** The short form (optional parts at their defaults are left out) must be a prefix pair that matches as well. *)
Definition state_short_ok (put_short get_short put get : list string) : bool :=
  sl_eqb put_short get_short && sl_eqb (firstn (List.length get_short) get) get_short &&
  sl_eqb (firstn (List.length put_short) put) put_short.

(** Value level: an object is an association list field -> value. *)
Fixpoint alookup {A} (f : string) (l : list (string * A)) : option A :=
  match l with
  | [] => None
  | (k, v) :: r => if String.eqb k f then Some v else alookup f r
  end.

Definition getstate (obj : list (string * Z)) (put : list string) : list (option Z) := map (fun f => alookup f obj) put.
Definition setstate (get : list string) (st : list (option Z)) : list (string * option Z) := combine get st.
