(** C17 — the value sites of instancing.collapse_one: in which order `inst.fixup.substitute`, `inst.fixup_name`,
    `inst.fixup_key` and the numeric parsers (`Vec.from_str`, `Angle.from_str`, `conv_float`) are applied to the
    strings taken from the template copy.  translate/c17_formulas.py follows the data flow of the per-entity loop and
    emits one [sexpr] per consumer call and per store ([g_collapse_sites] in Gen/C17Formulas_gen.v).

    The property ("names follow the chosen fixup style and $variables are substituted") needs the substitution to
    come FIRST at every site: `fixup_name` decides by the first character of the name ('@', '!' and empty names are
    kept), so it has to look at the substituted value, and a number has to be parsed from the substituted text. *)
From Coq Require Import NArith List Bool.
From SV Require Import SM.C17Name.
Import ListNotations.
Open Scope N_scope.

Inductive sexpr :=
| SRaw                     (* a string of the template copy: new_ent[...], the loop value, out.target, a fixup value *)
| SOther                   (* not string data of the template (orient, origin, constants) *)
| SSubst (e : sexpr)       (* inst.fixup.substitute(e, ...) *)
| SName (e : sexpr)        (* inst.fixup_name(e) *)
| SKey (e : sexpr)         (* inst.fixup_key(vmf, classes, type, e) *)
| SParse (e : sexpr)       (* Vec.from_str / Angle.from_str / conv_float *)
| SWrap (e : sexpr)        (* str(), format_float(), arithmetic with non-template operands *)
| SJoin (a b : sexpr).     (* value after an `if` that re-binds it in one branch: (re-bound, not re-bound) *)

Definition site := (str * sexpr)%type.      (* (label = the store target or the consumer call, expression) *)

Definition is_core (e : sexpr) : bool := match e with SSubst SRaw => true | _ => false end.

(** Substitution is applied to the raw text, exactly once, before anything else looks at it. *)
Fixpoint site_ok (e : sexpr) : bool :=
  match e with
  | SSubst SRaw => true
  | SName a | SKey a | SParse a => is_core a
  | SWrap a => site_ok a
  | SJoin a b => site_ok a && site_ok b
  | _ => false
  end.

Fixpoint has_name (e : sexpr) : bool :=
  match e with
  | SName _ | SKey _ => true
  | SSubst a | SParse a | SWrap a => has_name a
  | SJoin a b => has_name a || has_name b
  | _ => false
  end.

Definition sites_ok (l : list site) : bool := forallb (fun s => site_ok (snd s)) l.
Definition has_site (l : list site) (label : str) : bool := existsb (fun s => str_eqb (fst s) label) l.
Definition has_name_site (l : list site) (label : str) : bool :=
  existsb (fun s => str_eqb (fst s) label && has_name (snd s)) l.
Definition labels_present (l : list site) (labels : list str) : bool := forallb (has_site l) labels.
Definition name_labels_present (l : list site) (labels : list str) : bool := forallb (has_name_site l) labels.

Definition obind {A B} (o : option A) (f : A -> option B) : option B := match o with Some x => f x | None => None end.

Section Eval.
  Variables (S F : str -> option str).     (* substitute(., '') and fixup_name; None = exception *)
  (** The string a site computes from the raw template text [x] (numeric post-processing is not a string function and
      is the identity here; [SJoin] follows the re-bound branch). *)
  Fixpoint seval (e : sexpr) (x : str) : option str :=
    match e with
    | SRaw => Some x
    | SOther => None
    | SSubst a => obind (seval a x) S
    | SName a | SKey a => obind (seval a x) F
    | SParse a | SWrap a => seval a x
    | SJoin a _ => seval a x
    end.
  (** What an accepted site does after the substitution. *)
  Fixpoint post (e : sexpr) : str -> option str :=
    match e with
    | SName _ | SKey _ => F
    | SWrap a | SJoin a _ => post a
    | _ => @Some str
    end.
End Eval.
