(** C19 — which spellings of a path normpath identifies: empty segments (doubled, trailing slashes) and "." segments
    are noise.  (".." segments are resolved by normpath too; they are covered by computation and correspondence only.) *)
From Coq Require Import List NArith Bool.
From SV Require Import SM.FsChain SM.FsChainProofs SM.FsChainRel SM.FsChainCompose.
Import ListNotations.
Open Scope N_scope.

Definition nosl (s : str) : bool := forallb (fun c => negb (c =? SL)) s.
Definition is_noise (c : str) : bool := eqb_str c [] || eqb_str c S_DOT.
Definition denoise (l : list str) : list str := filter (fun c => negb (is_noise c)) l.
Definition no_dotdot (l : list str) : bool := forallb (fun c => negb (eqb_str c S_DOTDOT)) l.

Lemma split_nosl a : nosl a = true -> split_on SL a = [a].
Proof.
  induction a as [|x a IH]; [reflexivity|]. cbn [nosl forallb]. intros H. apply andb_true_iff in H as [Hx Ha].
  apply negb_true_iff in Hx. cbn [split_on]. rewrite Hx, (IH Ha). reflexivity.
Qed.

Lemma split_join l : l <> [] -> forallb nosl l = true -> split_on SL (join_with SL l) = l.
Proof.
  induction l as [|a r IH]; [congruence|]. intros _ H. cbn [forallb] in H. apply andb_true_iff in H as [Ha Hr].
  destruct r as [|b r']; [apply split_nosl; exact Ha|].
  change (join_with SL (a :: b :: r')) with (a ++ SL :: join_with SL (b :: r')).
  rewrite split_app_sep, (split_nosl a Ha), IH; [reflexivity|discriminate|exact Hr].
Qed.

Lemma np_fold_noise a segs acc :
  no_dotdot segs = true -> fold_left (np_step a) segs acc = rev (denoise segs) ++ acc.
Proof.
  revert acc. induction segs as [|c segs IH]; intros acc H; [reflexivity|].
  cbn [no_dotdot forallb] in H. apply andb_true_iff in H as [Hc Hs]. apply negb_true_iff in Hc.
  cbn [fold_left denoise filter]. fold (denoise segs). unfold is_noise. unfold np_step at 2.
  destruct (eqb_str c [] || eqb_str c S_DOT) eqn:E; cbn [negb].
  - apply IH. exact Hs.
  - rewrite Hc. cbn [negb]. rewrite (IH _ Hs). cbn [rev]. rewrite <- app_assoc. reflexivity.
Qed.

(** normpath drops the empty and "." segments of a relative path without ".." segments. *)
Theorem normpath_noise segs :
  segs <> [] -> forallb nosl segs = true -> no_dotdot segs = true ->
  is_prefix [SL] (join_with SL segs) = false -> denoise segs <> [] ->
  normpath (join_with SL segs) = join_with SL (denoise segs).
Proof.
  intros Hne Hsl Hdd Hlead Hden.
  assert (Hs : join_with SL segs <> []).
  { intros E. apply Hden. destruct segs as [|a [|b r]]; [congruence| |].
    - cbn in E. subst a. reflexivity.
    - change (join_with SL (a :: b :: r)) with (a ++ SL :: join_with SL (b :: r)) in E.
      apply app_eq_nil in E as [_ E]. discriminate. }
  rewrite (normpath_cons _ Hs).
  assert (Hi : initial_slashes (join_with SL segs) = 0%nat).
  { unfold initial_slashes. destruct (join_with SL segs) as [|x r]; [reflexivity|].
    cbn [is_prefix] in *. rewrite andb_true_r in Hlead. rewrite Hlead. reflexivity. }
  rewrite Hi. cbn [Nat.eqb negb repeat app]. rewrite (split_join segs Hne Hsl), (np_fold_noise _ _ _ Hdd).
  rewrite app_nil_r, rev_involutive.
  destruct (join_with SL (denoise segs)) as [|x r] eqn:E; [|reflexivity].
  exfalso. destruct (denoise segs) as [|a [|b r']] eqn:Ed; [congruence| |].
  - cbn in E. subst a.
    assert (Hin : In [] (denoise segs)) by (rewrite Ed; left; reflexivity).
    unfold denoise in Hin. apply filter_In in Hin as [_ Hn]. discriminate.
  - change (join_with SL (a :: b :: r')) with (a ++ SL :: join_with SL (b :: r')) in E.
    apply app_eq_nil in E as [_ E]. discriminate.
Qed.

(** Two spellings with the same segments up to noise (and either slash) are one name for every backend of today's
    form: e.g. "./sub//x/." , "sub\\x" and "sub/x". *)
Theorem lookup_noise_insensitive b fs q q' segs segs' :
  backend_keys_norm b = true -> clean_fs fs = true ->
  slash q = join_with SL segs -> slash q' = join_with SL segs' ->
  segs <> [] -> forallb nosl segs = true -> no_dotdot segs = true -> is_prefix [SL] (slash q) = false ->
  segs' <> [] -> forallb nosl segs' = true -> no_dotdot segs' = true -> is_prefix [SL] (slash q') = false ->
  denoise segs <> [] -> denoise segs = denoise segs' ->
  lookup b fs q = lookup b fs q' /\ exists_ b fs q = exists_ b fs q' /\ open_ b fs q = open_ b fs q'.
Proof.
  intros Hb Hc Hq Hq' H1 H2 H3 H4 H1' H2' H3' H4' Hd He.
  destruct (lookup_agree_all b b fs q Hb Hb Hc) as [_ [_ [_ [Ho [Hl Hx]]]]].
  destruct (lookup_agree_all b b fs q' Hb Hb Hc) as [_ [_ [_ [Ho' [Hl' Hx']]]]].
  rewrite Hq in H4. rewrite Hq' in H4'.
  assert (E : normpath (slash q) = normpath (slash q')).
  { rewrite Hq, Hq', (normpath_noise segs H1 H2 H3 H4 Hd), (normpath_noise segs' H1' H2' H3' H4'); [rewrite He; reflexivity|].
    rewrite <- He. exact Hd. }
  rewrite Ho, Ho', Hl, Hl', Hx, Hx', E. repeat split; reflexivity.
Qed.

Example noise_example :
  let segs := [[46]; [115]; []; [120]; [46]] in            (* "./s//x/." *)
  join_with SL segs = [46; 47; 115; 47; 47; 120; 47; 46] /\ denoise segs = [[115]; [120]]
  /\ normpath (join_with SL segs) = [115; 47; 120]
  /\ normpath [115; 47; 46; 46; 47; 115; 47; 120] = [115; 47; 120].    (* "s/../s/x" *)
Proof. repeat split; reflexivity. Qed.
