(** C09 round 3 — kernel-checkable certificate that the CENSUS ROWS hold on a real object graph.
    The census theorems ([c09_census_src_copy_independent], [c09_copy_complete_and_independent]) take as premise that
    the copy's fields are related to the original's as the census rows say ([fields_rel_src]: shared / fresh container
    of the same elements / everything mutable below is new / a new ID) and that the original's fields have the declared
    kinds ([kinds_rel]).  That reading of a row was tied to the code only by a Python comparison (census_vs_runtime).
    Here the relation is DECIDED inside the kernel on finite heaps exported from real srctools objects (original +
    copy, the original's part marked old), against the generated census and source tables; soundness
    (StoreRowCertProofs.v): an accepted heap satisfies every premise of the census theorem. *)
From Coq Require Import List PArith ZArith Bool String FMapPositive.
From SV Require Import SM.Store SM.StoreCert SM.StoreCopy SM.StoreCopySrc.
Import ListNotations.

(** The heap before the copy was made: the old locations of the exported heap. *)
Definition hfind (m' : fheap) (so : pset) (x : loc) : option node :=
  if smem x so then PositiveMap.find x m' else None.
Definition hold (m' : fheap) (so : pset) : heap := hfind m' so.

Definition val_eqb (a b : val) : bool :=
  match a, b with
  | VAtom x, VAtom y => Z.eqb x y
  | VRef x, VRef y => Pos.eqb x y
  | _, _ => false
  end.

Fixpoint vals_eqb (a b : list val) : bool :=
  match a, b with
  | [], [] => true
  | x :: a', y :: b' => val_eqb x y && vals_eqb a' b'
  | _, _ => false
  end.

Definition is_atom (v : val) : bool := match v with VAtom _ => true | VRef _ => false end.

(** An immutable leaf of the old heap: an atom, or an immutable node all of whose fields are atoms (tuple of
    numbers, frozen vector ...). *)
Definition flat_imm (m' : fheap) (so : pset) (v : val) : bool :=
  match v with
  | VAtom _ => true
  | VRef r => match hfind m' so r with
              | Some nd => negb (nmut nd) && forallb is_atom (nfields nd)
              | None => false
              end
  end.

Definition kind_ok_b (m' : fheap) (so : pset) (k : kind) (v : val) : bool :=
  match k with
  | KImm | KCtx | KId => flat_imm m' so v
  | KMut | KCont true => true
  | KCont false =>
    match v with
    | VAtom _ => true
    | VRef c => match hfind m' so c with
                | Some nd => forallb (flat_imm m' so) (nfields nd)
                | None => true
                end
    end
  end.

Fixpoint kinds_ok_b (m' : fheap) (so : pset) (c : census) (vs : list val) : bool :=
  match c, vs with
  | [], [] => true
  | (_, k, _) :: c', v :: vs' => kind_ok_b m' so k v && kinds_ok_b m' so c' vs'
  | _, _ => false
  end.

(** One row.  [sb] = a set of locations closed under fields all of whose mutable members are new ([new_set_ok]):
    a value inside it reaches only new mutables. *)
Definition how_ok_b (m' : fheap) (so sb : pset) (w : how) (v v' : val) : bool :=
  match w with
  | HShare | HCtx => val_eqb v' v
  | HNewId => is_atom v'
  | HDeep | HMissing => val_in sb v'
  | HShallow =>
    match v with
    | VAtom z => val_eqb v' (VAtom z)
    | VRef c =>
      match v' with
      | VRef c' =>
        match hfind m' so c, PositiveMap.find c' m' with
        | Some nd, Some nd' => negb (smem c' so) && vals_eqb (nfields nd') (nfields nd)
        | _, _ => false
        end
      | VAtom _ => false
      end
    end
  end.

Definition how_src_ok_b (m' : fheap) (so sb : pset) (orig : list val) (w : how) (j : option nat) (v' : val) : bool :=
  if needs_source w then
    match j with
    | Some i => match nth_error orig i with Some v => how_ok_b m' so sb w v v' | None => false end
    | None => false
    end
  else how_ok_b m' so sb w (VAtom 0%Z) v'.

Fixpoint rows_ok_b (m' : fheap) (so sb : pset) (orig : list val) (rows : list srow) (vs' : list val) : bool :=
  match rows, vs' with
  | [], [] => true
  | (_, w, j) :: rows', v' :: vs'' => how_src_ok_b m' so sb orig w j v' && rows_ok_b m' so sb orig rows' vs''
  | _, _ => false
  end.

(** The old part is closed: an old node references old, allocated nodes only. *)
Definition old_closed_b (m' : fheap) (so : pset) (l' : list (loc * node)) : bool :=
  forallb (fun p => negb (smem (fst p) so) ||
                    forallb (fun v => match v with
                                      | VAtom _ => true
                                      | VRef r => smem r so && PositiveMap.mem r m'
                                      end) (nfields (snd p))) l'.

Definition new_set_ok (m' : fheap) (so : pset) (SB : list loc) (sb : pset) : bool :=
  closed_set m' SB sb && forallb (fun l => negb (mutb m' l) || negb (smem l so)) SB.

(** The whole certificate: [l'] = the exported heap after the copy, [old] = the locations that existed before,
    [la] the original, [lc] the copy, [SB] the locations reachable from the copy, [c] / [s] the generated census and
    source tables of the class. *)
Definition row_cert_ok (l' : list (loc * node)) (old : list loc) (la lc : loc) (SB : list loc)
    (c : census) (s : srcmap) : bool :=
  let m' := mk_heap l' in let so := mk_set old in let sb := mk_set SB in
  heap_closed_b m' l' && old_closed_b m' so l' && smem la so && negb (smem lc so) && new_set_ok m' so SB sb &&
  match PositiveMap.find la m', PositiveMap.find lc m' with
  | Some nd, Some nd' =>
      kinds_ok_b m' so c (nfields nd) && rows_ok_b m' so sb (nfields nd) (resolve c s) (nfields nd')
  | _, _ => false
  end.
