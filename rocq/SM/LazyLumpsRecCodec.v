(** C10, round 4: the codec premise of a view that is a plain array of fixed [struct] records (one lump, the reader
    is [Struct.iter_unpack fmt], the writer packs every record with the same format), for EVERY content of the lump,
    from the well-formedness of the format alone.  C11's [unpack_pack] is about values a user assigns (hypothesis:
    the values fit the format); the direction C10 needs is supplied here: whatever [unpack] returns for a string of
    bytes fits the format ([unpack_fits]).  Stdlib style. *)
From Coq Require Import List Arith NArith ZArith Bool Lia.
From SV Require Import Bin.LE Bin.Struct Bin.StructProofs.
Import ListNotations.
Close Scope N_scope.

Lemma all_bytes_app : forall a b, all_bytes (a ++ b) = all_bytes a && all_bytes b.
Proof. intros. unfold all_bytes. apply forallb_app. Qed.

Lemma all_bytes_firstn : forall n l, all_bytes l = true -> all_bytes (firstn n l) = true.
Proof.
  intros n l H. rewrite <- (firstn_skipn n l), all_bytes_app in H. apply andb_prop in H. tauto.
Qed.
Lemma all_bytes_skipn : forall n l, all_bytes l = true -> all_bytes (skipn n l) = true.
Proof.
  intros n l H. rewrite <- (firstn_skipn n l), all_bytes_app in H. apply andb_prop in H. tauto.
Qed.

Lemma pow256_4 : (256 ^ N.of_nat 4 = 2 ^ 32)%N.
Proof. reflexivity. Qed.

(** One field: what the reader makes of [ksize k] bytes fits the field. *)
Lemma unpack1_fits : forall k bs, wf_kind k = true -> k <> KPad -> length bs = ksize k -> all_bytes bs = true ->
  fits1 k (unpack1 k bs) = true.
Proof.
  intros k bs Hw Hp Hl Hb. pose proof (all_bytes_ok bs Hb) as Hok. destruct k; cbn [unpack1 fits1 ksize] in *.
  - apply Nat.ltb_lt in Hw.
    pose proof (le_dec_bound bs Hok) as B. rewrite Hl in B.
    destruct (to_of_unsigned signed w (le_dec bs) Hw B) as [R _]. exact R.
  - pose proof (le_dec_bound bs Hok) as B. rewrite Hl, pow256_4 in B. apply N.ltb_lt. exact B.
  - reflexivity.
  - rewrite Hl, Nat.eqb_refl, Hb. reflexivity.
  - congruence.
Qed.

(** A whole record: the values [unpack] returns for bytes fit the format. *)
Lemma unpack_fits : forall f bs vs, wf_fmt f = true -> all_bytes bs = true -> unpack f bs = Some vs -> fits f vs = true.
Proof.
  induction f as [|k f IH]; intros bs vs Hw Hb E.
  - cbn [unpack] in E. destruct bs; [|discriminate]. injection E as <-. reflexivity.
  - cbn [wf_fmt forallb] in Hw. apply andb_prop in Hw. destruct Hw as [Hk Hw].
    cbn [unpack] in E. destruct (length bs <? ksize k) eqn:L; [discriminate|]. apply Nat.ltb_ge in L.
    destruct (unpack f (skipn (ksize k) bs)) as [r|] eqn:U; [|discriminate].
    pose proof (IH _ _ Hw (all_bytes_skipn _ _ Hb) U) as Hr.
    assert (F1 : k <> KPad -> fits1 k (unpack1 k (firstn (ksize k) bs)) = true).
    { intros Hp. apply unpack1_fits; [exact Hk | exact Hp | rewrite firstn_length; lia | apply all_bytes_firstn; exact Hb]. }
    destruct k; injection E as <-; cbn [fits];
      try (apply andb_true_intro; split; [apply F1; discriminate | exact Hr]). exact Hr.
Qed.

(** The array: [iter_unpack] of back-to-back packed records gives the records back. *)
Definition pack_or_nil (f : fmt) (r : list value) : list N := match pack f r with Some b => b | None => [] end.
Definition pack_all (f : fmt) (recs : list (list value)) : list N := concat (map (pack_or_nil f) recs).

Lemma iter_unpack_pack_all : forall f, wf_fmt f = true -> 0 < calcsize f ->
  forall recs fuel, Forall (fun r => fits f r = true) recs -> length recs <= fuel ->
  iter_unpack fuel f (pack_all f recs) = Some recs.
Proof.
  intros f Hw Hc. induction recs as [|r recs IH]; intros fuel Hf Hn.
  - destruct fuel; reflexivity.
  - inversion Hf as [|? ? Hr Hrest]; subst.
    destruct (unpack_pack f r Hw Hr) as (b & Pb & Ub). pose proof (pack_length _ _ _ Pb) as Lb.
    unfold pack_all. cbn [map concat]. unfold pack_or_nil at 1. rewrite Pb. fold (pack_all f recs).
    destruct fuel as [|fuel]; [cbn [length] in Hn; lia|].
    destruct b as [|b0 b]; [cbn [length] in Lb; lia|].
    cbn [iter_unpack app]. change (b0 :: b ++ pack_all f recs) with ((b0 :: b) ++ pack_all f recs).
    assert (L : (length ((b0 :: b) ++ pack_all f recs) <? calcsize f) = false).
    { apply Nat.ltb_ge. rewrite app_length. lia. }
    rewrite L. rewrite <- Lb.
    rewrite firstn_app, firstn_all, Nat.sub_diag. cbn [firstn]. rewrite app_nil_r.
    rewrite skipn_app, skipn_all, Nat.sub_diag. cbn [skipn app].
    rewrite Ub, IH; [reflexivity | exact Hrest | cbn [length] in Hn; lia].
Qed.

(** Every record [iter_unpack] returns for a string of bytes fits the format, and there are at most as many
    records as bytes. *)
Lemma iter_unpack_fits : forall f, wf_fmt f = true -> 0 < calcsize f ->
  forall fuel bs recs, all_bytes bs = true -> iter_unpack fuel f bs = Some recs ->
  Forall (fun r => fits f r = true) recs /\ length recs <= length bs.
Proof.
  intros f Hw Hc. induction fuel as [|fuel IH]; intros bs recs Hb E.
  - destruct bs; cbn [iter_unpack] in E; [|discriminate]. injection E as <-. split; [constructor | cbn; lia].
  - destruct bs as [|b0 bs']; cbn [iter_unpack] in E; [injection E as <-; split; [constructor | cbn; lia]|].
    set (bs := b0 :: bs') in *.
    destruct (length bs <? calcsize f) eqn:L; [discriminate|]. apply Nat.ltb_ge in L.
    destruct (unpack f (firstn (calcsize f) bs)) as [r|] eqn:U; [|discriminate].
    destruct (iter_unpack fuel f (skipn (calcsize f) bs)) as [rs|] eqn:I; [|discriminate].
    injection E as <-.
    destruct (IH _ _ (all_bytes_skipn _ _ Hb) I) as [F Ln]. split.
    + constructor; [|exact F]. eapply unpack_fits; [exact Hw | apply all_bytes_firstn; exact Hb | exact U].
    + cbn [length]. rewrite skipn_length in Ln. lia.
Qed.

(** The view: one lump; the reader iterates over whole records (anything else is [struct.error]), the writer packs
    every record. *)
Definition rec_view_rd (f : fmt) (ds : list (list N)) : option (list (list value)) :=
  match ds with [data] => iter_unpack (S (length data)) f data | _ => None end.
Definition rec_view_wr (f : fmt) (recs : list (list value)) : list (list N) := [pack_all f recs].

Lemma pack_all_length : forall f recs, Forall (fun r => fits f r = true) recs -> wf_fmt f = true ->
  length (pack_all f recs) = length recs * calcsize f.
Proof.
  intros f recs Hf Hw. induction Hf as [|r recs Hr _ IH]; [reflexivity|].
  unfold pack_all. cbn [map concat]. fold (pack_all f recs). rewrite app_length, IH.
  destruct (unpack_pack f r Hw Hr) as (b & Pb & _). unfold pack_or_nil. rewrite Pb, (pack_length _ _ _ Pb). cbn [length]. lia.
Qed.

(** The codec premise of a record-array view, for EVERY content of its lump that is a string of bytes. *)
Theorem rec_view_codec : forall f, wf_fmt f = true -> 0 < calcsize f ->
  forall data recs, all_bytes data = true -> rec_view_rd f [data] = Some recs ->
  rec_view_rd f (rec_view_wr f recs) = Some recs /\ length (rec_view_wr f recs) = 1.
Proof.
  intros f Hw Hc data recs Hb E. cbn [rec_view_rd] in E.
  destruct (iter_unpack_fits f Hw Hc _ _ _ Hb E) as [F Ln]. split; [|reflexivity].
  cbn [rec_view_rd rec_view_wr]. apply iter_unpack_pack_all; [exact Hw | exact Hc | exact F|].
  rewrite (pack_all_length f recs F Hw). nia.
Qed.

(** Non-vacuity and the nearby wrong shape: the plane record [<ffffi] (CUBEMAPS [<iiii], VERTEXES [<fff] alike) on a
    two-record lump; a writer that packs the last field as a SHORT ([<ffffh]) writes records the reader rejects. *)
Definition fmt_plane : fmt := [KFloat; KFloat; KFloat; KFloat; KInt true 4].
Definition ex_planes : list N :=
  [0; 0; 128; 63; 0; 0; 0; 0; 0; 0; 0; 0; 0; 0; 128; 66; 0; 0; 0; 0;
   0; 0; 0; 0; 0; 0; 128; 191; 0; 0; 0; 0; 0; 0; 0; 192; 255; 255; 255; 255]%N.
Example rec_view_codec_example :
  wf_fmt fmt_plane = true /\ calcsize fmt_plane = 20 /\ all_bytes ex_planes = true /\
  option_map (@length _) (rec_view_rd fmt_plane [ex_planes]) = Some 2 /\
  option_map (rec_view_wr fmt_plane) (rec_view_rd fmt_plane [ex_planes]) = Some [ex_planes].
Proof. vm_compute. repeat split; reflexivity. Qed.

Example rec_view_other_writer_format_refuted :
  let wr_short := [KFloat; KFloat; KFloat; KFloat; KInt true 2] in
  match rec_view_rd fmt_plane [ex_planes] with
  | Some recs => rec_view_rd fmt_plane (rec_view_wr wr_short recs) = None
  | None => False
  end.
Proof. vm_compute. reflexivity. Qed.

(** * From the object C11 generates: a stream of Gen/BspFormats_gen.v (reader and writer alternatives of one lump, as
    format sites) whose alternatives all denote one well-formed format of positive size in a layout table gives the
    codec premise of the record-array view for ANY pairing of a reading and a writing alternative. *)
From Coq Require Import String.
From SV Require Import Fmt.BspFormatsSpec Fmt.BspFormatsProofs.

Definition rec_stream_ok_in (lay : list (string * string)) (st : stream) : bool :=
  stream_ok_in lay st &&
  match st with
  | (_, _, r0 :: _, _) => match alt_fmt lay r0 with Some f0 => (0 <? calcsize f0)%nat | None => false end
  | _ => false
  end.

(** In every layout table the stream applies to. *)
Definition rec_stream_ok (layouts : list (string * list (string * string))) (sts : list stream) (n : string) : bool :=
  match stream_named n sts with
  | Some st => let '(_, appl, _, _) := st in
      existsb (fun l => applies appl (fst l)) layouts &&
      forallb (fun l => if applies appl (fst l) then rec_stream_ok_in (snd l) st else true) layouts
  | None => false
  end.

Theorem rec_view_codec_generated : forall lay n appl ralts walts ra wa fr fw,
  rec_stream_ok_in lay (n, appl, ralts, walts) = true -> In ra ralts -> In wa walts ->
  alt_fmt lay ra = Some fr -> alt_fmt lay wa = Some fw ->
  forall data recs, all_bytes data = true -> rec_view_rd fr [data] = Some recs ->
  rec_view_rd fr (rec_view_wr fw recs) = Some recs /\ List.length (rec_view_wr fw recs) = 1.
Proof.
  intros lay n appl ralts walts ra wa fr fw H Hra Hwa Er Ew data recs Hb E.
  unfold rec_stream_ok_in in H. apply andb_prop in H. destruct H as [H Hc].
  cbn [stream_ok_in] in H. destruct ralts as [|r0 ralts']; [discriminate|]. destruct walts as [|w0 walts']; [discriminate|].
  destruct (alt_fmt lay r0) as [f0|] eqn:E0; [|discriminate].
  apply andb_prop in H. destruct H as [H Hws]. apply andb_prop in H. destruct H as [Hwf Hrs].
  rewrite forallb_forall in Hrs, Hws.
  pose proof (alt_is_eq _ _ _ (Hrs ra Hra)) as Ar. pose proof (alt_is_eq _ _ _ (Hws wa Hwa)) as Aw.
  rewrite Er in Ar. rewrite Ew in Aw. injection Ar as ->. injection Aw as ->.
  apply Nat.ltb_lt in Hc. exact (rec_view_codec f0 Hwf Hc data recs Hb E).
Qed.
