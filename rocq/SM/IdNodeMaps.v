(** Nav-node IDs over several maps (round 3).

    SM/IdNode.v is one map.  The node IDs of different maps live in different managers, so a world of several maps
    is a family of single-map node worlds plus a directory that says, for every entity ever made, in which map it
    lives and which local index it has there.  What crosses maps:
    - [MCopy k m]      [ents[k].copy(vmf_file=maps[m])] then [add_ent]: the 'nodeid' value of the source is the
                       *desired* ID in map [m] (through __setitem__), or taken over as it is when the constructor
                       bypasses __setitem__ ([copy_registers = false]);
    - [MCollapse ks m] [instancing.collapse_one(maps[m], inst, file)] for the entities [ks] of the instance map (in
                       the order of its entity list): first every entity is copied into [m]; then, for every copy
                       that holds a node ID, [Instance.fixup_key] reserves an ID with the copy's ID as the desired
                       one (nobody owns or releases it) and the copy's key is set to the reserved ID.
    Everything else ([MOn k e]: set / delete / remove / re-add / destroy; [MCreate]; [MReserve]) is the single-map
    event in the entity's map.  Executable definitions only; proofs are in SM/IdNodeMapsProofs.v. *)
From stdpp Require Import gmap sets list.
From Coq Require Import ZArith.
From SV Require Import SM.IdMan SM.IdNode.
Open Scope Z_scope.

Record mworld := { mmaps : gmap nat nworld; mdir : list (nat * nat) }.
Definition mw0 : mworld := {| mmaps := ∅; mdir := [] |}.
Definition mmap (w : mworld) (m : nat) : nworld := default nw0 (mmaps w !! m).

Inductive mop := OSet (d : option Z) | ODel | ORemove | OReAdd | OGc.
Inductive mev :=
| MCreate (m : nat) (d : option Z)
| MOn (k : nat) (o : mop)
| MCopy (k : nat) (m : nat)
| MReserve (m : nat) (d : Z)
| MCollapse (ks : list nat) (m : nat).

Definition mop_ev (o : mop) (j : nat) : nev :=
  match o with OSet d => NSet j d | ODel => NDel j | ORemove => NRemove j | OReAdd => NReAdd j | OGc => NGc j end.

Section nodemaps.
  Variables realloc_on_add release_on_remove release_in_del copy_registers : bool.
  Notation nstep' := (nstep realloc_on_add release_on_remove release_in_del copy_registers).

  (** One single-map event in map [m]. *)
  Definition mlocal (w : mworld) (m : nat) (e : nev) : mworld :=
    {| mmaps := <[m := nstep' (mmap w m) e]> (mmaps w); mdir := mdir w |}.

  (** A new entity of map [m] gets the next local index there. *)
  Definition mnew (w : mworld) (m : nat) (w' : nworld) : mworld :=
    {| mmaps := <[m := w']> (mmaps w); mdir := mdir w ++ [(m, length (nents (mmap w m)))] |}.

  Definition mcopy (w : mworld) (k m : nat) : mworld :=
    match mdir w !! k with
    | Some (ms, j) =>
        match nents (mmap w ms) !! j with
        | Some o => if nalive o then
                      mnew w m (if copy_registers then ncreate realloc_on_add (nid o) (mmap w m)
                                else ncopy_raw realloc_on_add (nid o) (mmap w m))
                    else w
        | None => w
        end
    | None => w
    end.

  (** collapse_one's rewriting of the 'nodeid' key of the copy with global index [k]. *)
  Definition mrewrite (w : mworld) (k : nat) : mworld :=
    match mdir w !! k with
    | Some (m, j) =>
        match nents (mmap w m) !! j with
        | Some o =>
            match nid o with
            | Some i => match get_id i (nman (mmap w m)) with
                        | Some (r, _) => mlocal (mlocal w m (NReserve i)) m (NSet j (Some r))
                        | None => w
                        end
            | None => w
            end
        | None => w
        end
    | None => w
    end.

  Definition mstep (w : mworld) (e : mev) : mworld :=
    match e with
    | MCreate m d => mnew w m (nstep' (mmap w m) (NCreate d))
    | MOn k o => match mdir w !! k with Some (m, j) => mlocal w m (mop_ev o j) | None => w end
    | MCopy k m => mcopy w k m
    | MReserve m d => mlocal w m (NReserve d)
    | MCollapse ks m =>
        let n0 := length (mdir w) in
        let w1 := fold_left (λ w k, mcopy w k m) ks w in
        fold_left mrewrite (seq n0 (length (mdir w1) - n0)) w1
    end.

  Definition mrun (es : list mev) : mworld := fold_left mstep es mw0.
End nodemaps.
