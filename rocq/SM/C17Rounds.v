(** C17 — the loop of instancing.collapse_all as rounds over an instance-inclusion graph.

    Python (instancing.py, collapse_all):
<<
      for _ in range(recur_limit):
          instances = list(vmf.by_class['func_instance'])
          if not instances: return
          for inst_ent in instances:            # snapshot
              inst_ent.remove(); ... collapse_one(vmf, inst, file)   # adds the func_instance entities of the file
      raise RecursionError('Loop in instances!')
>>
    A pending instance is identified by the file it refers to; [children f] lists the files referred to by the
    visible func_instance entities inside file [f] (what collapse_one copies into the map).  The per-entity
    recursion counter (RECUR_COUNT_ATTR) is written but never read by the code, so it is not part of the model. *)
From Coq Require Import List Arith.
Import ListNotations.

Notation file := nat (only parsing).
Inductive outcome := Done | Raise.

Section Graph.
  Variable children : file -> list file.

  Definition round (pending : list file) : list file := flat_map children pending.

  Fixpoint rounds (k : nat) (pending : list file) : list file :=
    match k with 0 => pending | S k' => rounds k' (round pending) end.

  (** (outcome, number of collapsing rounds executed, number of collapse_one calls). *)
  Fixpoint loop (limit : nat) (pending : list file) : outcome * nat * nat :=
    match limit with
    | 0 => (Raise, 0, 0)
    | S k =>
        match pending with
        | [] => (Done, 0, 0)
        | _ :: _ => let '(o, r, w) := loop k (round pending) in (o, S r, length pending + w)
        end
    end.

  Definition l_outcome (x : outcome * nat * nat) := fst (fst x).
  Definition l_rounds (x : outcome * nat * nat) := snd (fst x).
  Definition l_work (x : outcome * nat * nat) := snd x.

  (** Total number of pending instances over the first [k] rounds. *)
  Fixpoint work_upto (k : nat) (pending : list file) : nat :=
    match k with 0 => 0 | S k' => length pending + work_upto k' (round pending) end.
End Graph.

(** * The loop with the ancestry check (round 4: repair of the exponential blow-up on cycles)

    Python (instancing.py after the repair):
<<
      for _ in range(recur_limit):
          instances = list(vmf.by_class['func_instance'])           # a set: iteration order is arbitrary
          if not instances: return
          for inst_ent in instances:
              inst = Instance.from_entity(inst_ent)                 # reads .parents from the hidden attribute
              if inst.filename in inst.parents: raise RecursionError('Loop in instances!')
              inst_ent.remove(); ... collapse_one(vmf, inst, file)  # nested instance: parents + (filename,)
      raise RecursionError('Loop in instances!')
>>
    A pending instance is now a pair (file, files of the enclosing instances, innermost first).  [children] is a
    fixed graph, i.e. every nested func_instance names its file without [$variables] (a "static" link; for such a
    link collapse_one extends the parents).  A file name containing [$] is substituted with the fixup values of the
    enclosing instance and can differ on every level: collapse_one then resets the parents to [()], and such graphs
    are outside this model (the harness covers them by search against an independent reference of the old loop).

    [perm] is the order in which the set [by_class] hands out the pending instances of a round (any permutation;
    the identity in the correspondence, where the harness pins the iteration order to insertion order). *)
Definition item := (file * list file)%type.

Section Graph2.
  Variable children : file -> list file.
  Variable perm : list item -> list item.

  Definition expand (x : item) : list item := map (fun c => (c, fst x :: snd x)) (children (fst x)).
  Definition is_loop (x : item) : bool := existsb (Nat.eqb (fst x)) (snd x).

  (** Number of collapse_one calls of a round before the first instance that is found among its own parents. *)
  Fixpoint before (p : list item) : nat :=
    match p with [] => 0 | x :: r => if is_loop x then 0 else S (before r) end.

  (** (outcome, number of rounds started, number of collapse_one calls). *)
  Fixpoint loop2 (limit : nat) (pending : list item) : outcome * nat * nat :=
    match limit with
    | 0 => (Raise, 0, 0)
    | S k =>
        match pending with
        | [] => (Done, 0, 0)
        | _ :: _ =>
            let q := perm pending in
            if existsb is_loop q then (Raise, 1, before q)
            else let '(o, r, w) := loop2 k (flat_map expand q) in (o, S r, length q + w)
        end
    end.

  (** The instances placed in the map itself have no enclosing instance. *)
  Definition start (roots : list file) : list item := map (fun f => (f, [])) roots.
End Graph2.
