(** C17 — the loop of instancing.collapse_all as rounds over an instance-inclusion graph.

    Python (instancing.py, collapse_all):
<<
      for _ in range(recur_limit):
          instances = list(vmf.by_class['func_instance'])
          if not instances: return
          for inst_ent in instances:            # snapshot
              inst_ent.remove(); ... collapse_one(vmf, inst, file)   # adds the func_instance entities of the file
      raise RecursionError('Loop in instances!')
>>
    A pending instance is identified by the file it refers to; [children f] lists the files referred to by the
    visible func_instance entities inside file [f] (what collapse_one copies into the map).  The per-entity
    recursion counter (RECUR_COUNT_ATTR) is written but never read by the code, so it is not part of the model. *)
From Coq Require Import List Arith.
Import ListNotations.

Notation file := nat (only parsing).
Inductive outcome := Done | Raise.

Section Graph.
  Variable children : file -> list file.

  Definition round (pending : list file) : list file := flat_map children pending.

  Fixpoint rounds (k : nat) (pending : list file) : list file :=
    match k with 0 => pending | S k' => rounds k' (round pending) end.

  (** (outcome, number of collapsing rounds executed, number of collapse_one calls). *)
  Fixpoint loop (limit : nat) (pending : list file) : outcome * nat * nat :=
    match limit with
    | 0 => (Raise, 0, 0)
    | S k =>
        match pending with
        | [] => (Done, 0, 0)
        | _ :: _ => let '(o, r, w) := loop k (round pending) in (o, S r, length pending + w)
        end
    end.

  Definition l_outcome (x : outcome * nat * nat) := fst (fst x).
  Definition l_rounds (x : outcome * nat * nat) := snd (fst x).
  Definition l_work (x : outcome * nat * nat) := snd x.

  (** Total number of pending instances over the first [k] rounds. *)
  Fixpoint work_upto (k : nat) (pending : list file) : nat :=
    match k with 0 => 0 | S k' => length pending + work_upto k' (round pending) end.
End Graph.
