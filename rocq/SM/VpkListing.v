(** The listing methods of [srctools.vpk.VPK] called WITH arguments: [filenames(ext, folder)], [fileinfos(ext=, folder=)].
    translate/c13_api.py executes each method for every combination (extension argument given? / folder argument given?) and describes
    the walk it performs as an [lwalk]: which extension dicts are visited (all of them / only the one stored under the argument, none when
    there is no such key) and which folders (all / those whose name starts with the argument).  [list_walk] gives the description its
    meaning on the nested dicts; VpkListingProofs.v: for dicts without duplicate keys (what Python dicts are, [tree_wf]) an accepted
    description lists exactly the entries of the default walk ([flat_tree], which is the table of the state machine:
    c13_nested_walk_is_table) that have the extension and whose folder starts with the argument, in the same order. *)
From Coq Require Import List NArith Bool.
From SV Require Import Fmt.VpkDir SM.Vpk SM.VpkNested SM.VpkNestedMap.
Import ListNotations.
Open Scope N_scope.

Inductive ext_sel := EAll | EOnly | EOtherSel.
Inductive dir_sel := DAll | DPrefix | DOtherSel.
Record lwalk := mkWalk { lw_ext : ext_sel; lw_dir : dir_sel; lw_every_file : bool }.

(** s.startswith(p) *)
Fixpoint prefixb (p s : bytes) : bool :=
  match p, s with
  | [], _ => true
  | x :: p', y :: s' => (x =? y) && prefixb p' s'
  | _ :: _, [] => false
  end.

Definition ext_dicts (w : lwalk) (ext : bytes) (t : tree) : tree :=
  match lw_ext w with
  | EAll => t
  | EOnly => match bget ext t with Some ds => [(ext, ds)] | None => [] end
  | EOtherSel => []
  end.
Definition dir_taken (w : lwalk) (folder d : bytes) : bool :=
  match lw_dir w with DAll => true | DPrefix => prefixb folder d | DOtherSel => false end.

Definition list_walk (w : lwalk) (ext folder : bytes) (t : tree) : list (key * info) :=
  flat_map (fun e => flat_map (fun d => if dir_taken w folder (fst d) && lw_every_file w
                                        then map (fun f => ((fst e, fst d, fst f), snd f)) (snd d) else []) (snd e))
           (ext_dicts w ext t).

(** what the call should list: the entries with the extension (when one is given) whose folder starts with the folder argument *)
Definition listed (ext_given folder_given : bool) (ext folder : bytes) (e : key * info) : bool :=
  let '((x, d, _), _) := e in
  (if ext_given then bytes_eqb ext x else true) && (if folder_given then prefixb folder d else true).

Definition walk_ok (ext_given folder_given : bool) (w : lwalk) : bool :=
  match lw_ext w, ext_given with EAll, false | EOnly, true => true | _, _ => false end
  && match lw_dir w, folder_given with DAll, false | DPrefix, true => true | _, _ => false end
  && lw_every_file w.

(** one description per (method, extension given?, folder given?) *)
Definition walks_ok (ws : list (bool * bool * lwalk)) : bool :=
  forallb (fun x : bool * bool * lwalk => let '(eg, fg, w) := x in walk_ok eg fg w) ws
  && forallb (fun s => existsb (fun x : bool * bool * lwalk => let '(eg, fg, _) := x in Bool.eqb eg (fst s) && Bool.eqb fg (snd s)) ws)
             [(false, false); (false, true); (true, false); (true, true)].

Definition walks_pinned : list (bool * bool * lwalk) :=
  [(false, false, mkWalk EAll DAll true); (false, true, mkWalk EAll DPrefix true);
   (true, false, mkWalk EOnly DAll true); (true, true, mkWalk EOnly DPrefix true)].
(** R7 of round 3 (`if subfolder.startswith(folder): continue`, the filter inverted) is not a prefix walk: [DOtherSel] *)
Definition walks_inverted_filter : list (bool * bool * lwalk) :=
  map (fun x : bool * bool * lwalk => let '(eg, fg, w) := x in (eg, fg, if fg then mkWalk (lw_ext w) DOtherSel true else w)) walks_pinned.

(** ---- VPK.extract_all: for every FileInfo of the walk [w] one file <destination>/<listed name> with the bytes read() returns.
    [names] gives the listed name of a key (_join_file_parts, Fmt/VpkNameJoin.v [join_k] over the translated table), [rd] is read(). *)
Definition extract_files {A B} (w : lwalk) (names : key -> A) (rd : info -> B) (t : tree) : list (A * B) :=
  map (fun e => (names (fst e), rd (snd e))) (list_walk w [] [] t).
