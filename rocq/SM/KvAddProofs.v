From Coq Require Import List Bool.
From SV Require Import SM.KvAdd.
Import ListNotations.

(** With every append going to the copy and the copy returned, '+' is pure and complete. *)
Theorem kv_add_pure {A} : forall r1 r2 ret,
  recv_is_copy r1 && recv_is_copy r2 && recv_is_copy ret = true ->
  forall single (self other : list A), kv_add r1 r2 ret single self other = (self, self ++ other).
Proof.
  intros [|] [|] [|] H; try discriminate. intros [|] self other; reflexivity.
Qed.

(** The pinned code appends to self in the iterable branch: operand changed, result incomplete. *)
Theorem kv_add_self_receiver_refuted :
  kv_add RCopy RSelf RCopy false [1] [2] = ([1; 2], [1]).
Proof. reflexivity. Qed.

Theorem kv_iadd_extends_self {A} : forall r1 r2,
  negb (recv_is_copy r1) && negb (recv_is_copy r2) = true ->
  forall single (self other : list A), kv_iadd r1 r2 single self other = self ++ other.
Proof. intros [|] [|] H; try discriminate. intros [|] self other; reflexivity. Qed.
