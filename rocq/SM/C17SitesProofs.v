(** C17 — proofs about the value sites of collapse_one (SM/C17Sites.v) over the name and substitution models. *)
From Coq Require Import NArith List Bool.
From SV Require Import SM.C17Name SM.C17NameProofs SM.C17Subst SM.C17SubstProofs SM.C17Sites.
Import ListNotations.
Open Scope N_scope.

Lemma is_core_eq : forall e, is_core e = true -> e = SSubst SRaw.
Proof. intros [| |[]| | | | |]; cbn; intros H; try discriminate; reflexivity. Qed.

(** Every accepted site is "substitute the raw text, then [post]". *)
Theorem site_ok_substitutes_first : forall e, site_ok e = true ->
  forall S F x, seval S F e x = obind (S x) (post F e).
Proof.
  induction e as [| |a IH|a IH|a IH|a IH|a IH|a IHa b IHb]; intros H S F x; cbn [site_ok] in H; try discriminate.
  - destruct a; try discriminate. cbn. destruct (S x); reflexivity.
  - apply is_core_eq in H. subst a. reflexivity.
  - apply is_core_eq in H. subst a. reflexivity.
  - apply is_core_eq in H. subst a. cbn. destruct (S x); reflexivity.
  - cbn [seval post]. now apply IH.
  - apply andb_true_iff in H as [H _]. cbn [seval post]. now apply IHa.
Qed.

Theorem sites_ok_all : forall l, sites_ok l = true -> forall lbl e, In (lbl, e) l ->
  forall S F x, seval S F e x = obind (S x) (post F e).
Proof.
  unfold sites_ok. intros l H lbl e I. rewrite forallb_forall in H. apply site_ok_substitutes_first. exact (H _ I).
Qed.

(** Consequence on names: a global ('@...') or special ('!...') or empty name that arrives through a $variable is
    kept as it is by every accepted name site, whatever the fixup style. *)
Theorem subst_first_keeps_global_names : forall c, cfg_ok c = true -> forall st inst e S x v,
  site_ok e = true -> S x = Some v ->
  (v = [] \/ exists ch rest, v = ch :: rest /\ (ch = AT \/ ch = BANG)) ->
  post (fixup_name c st inst) e = fixup_name c st inst ->
  seval S (fixup_name c st inst) e x = Some v.
Proof.
  intros c Hc st inst e S x v He Hs Hv Hp. rewrite (site_ok_substitutes_first e He), Hs, Hp. cbn [obind].
  destruct (fixup_name_cases c Hc st inst v) as (A & B & _).
  destruct Hv as [-> | (ch & rest & -> & Hch)]; [now apply A | now apply (B ch rest)].
Qed.

(** ... and an ordinary name gets the style applied to the SUBSTITUTED text. *)
Theorem subst_first_names_substituted_text : forall c, cfg_ok c = true -> forall st inst e S x ch rest,
  site_ok e = true -> S x = Some (ch :: rest) -> ch <> AT -> ch <> BANG ->
  post (fixup_name c st inst) e = fixup_name c st inst ->
  seval S (fixup_name c st inst) e x = Some (expected st inst (ch :: rest)).
Proof.
  intros c Hc st inst e S x ch rest He Hs H1 H2 Hp. rewrite (site_ok_substitutes_first e He), Hs, Hp. cbn [obind].
  destruct (fixup_name_cases c Hc st inst (ch :: rest)) as (_ & _ & C). now apply (C ch rest).
Qed.

(** The other order is a different function.  Witness: `$v` with v = `@global`, instance `i`, PREFIX style.
    substitute-then-name gives `@global`; name-then-substitute gives `i-@global`; and so does every style but NONE;
    not substituting at all gives `i-$v`. *)
Definition w_tbl : table := [([118], [64;103;108;111;98;97;108])].
Definition w_S := substitute ref_subst_cfg false w_tbl (Some []).
Definition w_F := fixup_name ref_cfg SPrefix [105].

Theorem name_before_substitute_refuted :
  seval w_S w_F (SName (SSubst SRaw)) [36;118] = Some [64;103;108;111;98;97;108] /\
  seval w_S w_F (SSubst (SName SRaw)) [36;118] = Some [105;45;64;103;108;111;98;97;108] /\
  seval w_S w_F (SName SRaw) [36;118] = Some [105;45;36;118] /\
  site_ok (SSubst (SName SRaw)) = false /\ site_ok (SName SRaw) = false /\ site_ok (SSubst (SSubst SRaw)) = false.
Proof. vm_compute. repeat split; reflexivity. Qed.

(** For ordinary values the two orders agree, which is why the swap looks harmless: `$v` with v = `door`. *)
Example orders_agree_on_ordinary_names :
  let S := substitute ref_subst_cfg false [([118], [100;111;111;114])] (Some []) in
  seval S w_F (SName (SSubst SRaw)) [36;118] = seval S w_F (SSubst (SName SRaw)) [36;118].
Proof. vm_compute. reflexivity. Qed.

Example site_ok_examples :
  site_ok (SName (SSubst SRaw)) = true /\ site_ok (SKey (SSubst SRaw)) = true /\
  site_ok (SWrap (SWrap (SParse (SSubst SRaw)))) = true /\ site_ok (SJoin (SName (SSubst SRaw)) (SSubst SRaw)) = true /\
  site_ok SRaw = false /\ site_ok (SParse SRaw) = false.
Proof. repeat split; reflexivity. Qed.
