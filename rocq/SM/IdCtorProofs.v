From stdpp Require Import gmap sets list.
From Coq Require Import ZArith Lia.
From SV Require Import SM.IdMan SM.IdManProofs SM.IdLife SM.IdLifeProofs SM.IdCtor.
Open Scope Z_scope.

Definition pend (h : half) : bool := match hid h with Some _ => negb (hreg h) | None => false end.

Section proofs.
  Variables (dr dg : bool).

  (** The destructor of [h] does not release an ID that [h] holds unregistered. *)
  Definition hsafe (h : half) : Prop := hreg h = false → releasable dr dg h = true → hid h = None.

  Lemma crun_spec l : ∀ f d h m h' m' ok,
    cscan dr dg l (pend h) (hreg h) (hown h) = true → Inv m → crun l f d h m = (h', m', ok) →
    Inv m' ∧ used m ⊆ used m' ∧ hsafe h' ∧ (ok = true → hreg h' = true) ∧
    (hreg h' = true → (hreg h = true ∧ hid h' = hid h) ∨ ∃ i, hid h' = Some i ∧ 0 < i ∧ i ∉ used m ∧ i ∈ used m').
  Proof.
    induction l as [|s r IH]; intros f d h m h' m' ok Hs HI Hr; simpl in *.
    - inversion Hr; subst. split; [done|]. split; [done|]. split.
      + intros Hf. rewrite Hs in Hf. done.
      + split; [done|]. intros _. left. done.
    - destruct s.
      + (* CStoreRaw *)
        specialize (IH f d {| hid := Some d; hreg := false; hown := hown h |} m h' m' ok Hs HI Hr).
        destruct IH as (I1 & I2 & I3 & I4 & I5). split; [done|]. split; [done|]. split; [done|]. split; [done|].
        intros Hreg. destruct (I5 Hreg) as [[Hc _]|Hx]; [simpl in Hc; done|]. right. done.
      + (* CMayRaise *)
        apply andb_true_iff in Hs as [Hg Hs].
        assert (Hsafe : hsafe h).
        { intros Hf Hrel. unfold releasable in Hrel. unfold pend in Hg. destruct (hid h) as [i|]; [|done].
          rewrite Hf in Hg. simpl in Hg. rewrite Hrel in Hg. done. }
        destruct f as [[|n]|].
        * inversion Hr; subst. split; [done|]. split; [done|]. split; [done|]. split; [done|]. intros Hreg. left. done.
        * exact (IH _ _ _ _ _ _ _ Hs HI Hr).
        * exact (IH _ _ _ _ _ _ _ Hs HI Hr).
      + (* CRegister *)
        destruct (get_id (default d (hid h)) m) as [[i m1]|] eqn:E.
        2: { destruct (get_id_total (default d (hid h)) m) as [x Hx]. rewrite Hx in E. done. }
        destruct (get_id_fresh _ _ _ _ HI E) as (Hpos & Hfresh & Hused & HI1).
        specialize (IH f d {| hid := Some i; hreg := true; hown := hown h |} m1 h' m' ok Hs HI1 Hr).
        destruct IH as (I1 & I2 & I3 & I4 & I5). split; [done|]. split; [set_solver|]. split; [done|]. split; [done|].
        intros Hreg. right. destruct (I5 Hreg) as [[_ Hid]|(i' & Hid & Hp & Hn & Hi)].
        * exists i. simpl in Hid. split; [done|]. split; [done|]. split; [done|]. set_solver.
        * exists i'. split; [done|]. split; [done|]. split; [set_solver|done].
      + (* CSetOwned *)
        specialize (IH f d {| hid := hid h; hreg := hreg h; hown := true |} m h' m' ok Hs HI Hr).
        destruct IH as (I1 & I2 & I3 & I4 & I5). split; [done|]. split; [done|]. split; [done|]. split; [done|]. exact I5.
  Qed.

  (** IDs registered to objects that still exist (complete or half-built). *)
  Definition rid (o : cobj) : option Z := if calive o && hreg (ch o) then hid (ch o) else None.
  Definition regs (l : list cobj) : list Z := omap rid l.
  Definition oinv (o : cobj) : Prop :=
    (calive o = true → hsafe (ch o)) ∧ (cdone o = true → hreg (ch o) = true) ∧ (hreg (ch o) = true → is_Some (hid (ch o))).
  Definition KInv (w : cworld) : Prop :=
    Inv (cman w) ∧ NoDup (regs (cobjs w)) ∧ (∀ i, i ∈ regs (cobjs w) → i ∈ used (cman w) ∧ 0 < i) ∧ Forall oinv (cobjs w).

  Lemma cw0_kinv : KInv cw0.
  Proof. split; [apply init_inv|]. split; [constructor|]. split; [|constructor]. intros i Hi. inversion Hi. Qed.

  Lemma regs_app l1 l2 : regs (l1 ++ l2) = regs l1 ++ regs l2.
  Proof. apply omap_app. Qed.

  Lemma kstep_kinv steps w e : ctor_ok steps dr dg = true → KInv w → KInv (kstep steps dr dg false w e).
  Proof.
    intros Hok (HI & Hnd & Hin & Hall). destruct e as [d f|k|k]; simpl.
    3: { destruct (cobjs w !! k); done. }
    - destruct (crun steps f d h0 (cman w)) as [[h' m'] ok] eqn:E.
      destruct (crun_spec steps f d h0 (cman w) h' m' ok Hok HI E) as (I1 & I2 & I3 & I4 & I5).
      unfold KInv. simpl. rewrite regs_app.
      assert (Ho : oinv {| ch := h'; cdone := ok; calive := true |}).
      { split; [done|]. split; [done|]. simpl. intros Hreg. destruct (I5 Hreg) as [[Hc _]|(i & -> & _)]; [done|]. by eexists. }
      split; [done|]. destruct (hreg h') eqn:Hreg.
      + destruct (I5 eq_refl) as [[Hc _]|(i & Hid & Hp & Hn & Hi)]; [done|].
        assert (Hr : regs [ {| ch := h'; cdone := ok; calive := true |} ] = [i]).
        { unfold regs, rid. simpl. rewrite Hreg, Hid. done. }
        rewrite Hr. split.
        * apply NoDup_app. split; [done|]. split; [|apply NoDup_singleton].
          intros x Hx Hx'. apply elem_of_list_singleton in Hx' as ->. destruct (Hin _ Hx). done.
        * split; [|apply Forall_app; split; [done|by constructor]].
          intros x Hx. apply elem_of_app in Hx as [Hx|Hx].
          -- destruct (Hin _ Hx). split; [set_solver|done].
          -- apply elem_of_list_singleton in Hx as ->. done.
      + assert (Hr : regs [ {| ch := h'; cdone := ok; calive := true |} ] = []).
        { unfold regs, rid. simpl. rewrite Hreg. done. }
        rewrite Hr, app_nil_r. split; [done|]. split; [|apply Forall_app; split; [done|by constructor]].
        intros x Hx. destruct (Hin _ Hx). split; [set_solver|done].
    - destruct (cobjs w !! k) as [o|] eqn:Hk; [|done].
      destruct (calive o) eqn:Ha; [|done].
      assert (Hl : cobjs w = take k (cobjs w) ++ o :: drop (S k) (cobjs w)) by (symmetry; by apply take_drop_middle).
      assert (Hlen : (k < length (cobjs w))%nat) by (by eapply lookup_lt_Some).
      set (o' := {| ch := ch o; cdone := cdone o; calive := false |}).
      assert (Hoi : oinv o) by (eapply Forall_lookup_1; eauto).
      assert (Hall' : Forall oinv (<[k := o']> (cobjs w))).
      { apply Forall_insert; [done|]. destruct Hoi as (_ & H2 & H3). split; [done|]. split; done. }
      assert (Hafter : regs (<[k := o']> (cobjs w)) = regs (take k (cobjs w)) ++ regs (drop (S k) (cobjs w))).
      { rewrite insert_take_drop by done. rewrite regs_app. unfold regs at 2. simpl. done. }
      assert (Hbefore : regs (cobjs w) = regs (take k (cobjs w)) ++ from_option (λ i, [i]) [] (rid o) ++ regs (drop (S k) (cobjs w))).
      { rewrite Hl at 1. rewrite regs_app. unfold regs at 2. simpl. destruct (rid o); done. }
      unfold KInv. simpl. rewrite Hafter. rewrite Hbefore in Hnd, Hin.
      assert (Hnd' : NoDup (regs (take k (cobjs w)) ++ regs (drop (S k) (cobjs w)))).
      { apply NoDup_app in Hnd as (H1 & H2 & H3). apply NoDup_app in H3 as (_ & _ & H3).
        apply NoDup_app. split; [done|]. split; [|done]. intros x Hx Hx'. apply (H2 _ Hx). set_solver. }
      unfold cdel. destruct (releasable dr dg (ch o)) eqn:Hrel.
      2: { split; [done|]. split; [done|]. split; [|done]. intros x Hx. apply Hin. set_solver. }
      destruct (hid (ch o)) as [i|] eqn:Hid.
      2: { split; [done|]. split; [done|]. split; [|done]. intros x Hx. apply Hin. set_solver. }
      assert (Hreg : hreg (ch o) = true).
      { destruct (hreg (ch o)) eqn:Hr; [done|]. destruct Hoi as (H1 & _). specialize (H1 Ha Hr Hrel). congruence. }
      assert (Hrid : rid o = Some i) by (unfold rid; rewrite Ha, Hreg; done).
      rewrite Hrid in Hnd, Hin. simpl in Hnd, Hin.
      split; [by apply discard_inv|]. split; [done|]. split; [|done].
      intros x Hx. assert (Hne : x ≠ i).
      { intros ->. apply NoDup_app in Hnd as (H1 & H2 & H3). apply NoDup_cons in H3 as [H3 _].
        apply elem_of_app in Hx as [Hx|Hx]; [|done]. apply (H2 _ Hx). left. }
      destruct (Hin x) as [Hu Hp]; [set_solver|]. split; [|done]. simpl. set_solver.
  Qed.

  Lemma krun_kinv steps es : ctor_ok steps dr dg = true → KInv (krun steps dr dg false es).
  Proof.
    intros Hok. unfold krun. generalize cw0_kinv. generalize cw0. induction es as [|e es IH]; intros w Hw; simpl; [done|].
    apply IH. by apply kstep_kinv.
  Qed.

  Lemma klive_sublist l : Forall oinv l → omap kid l `sublist_of` regs l.
  Proof.
    induction 1 as [|o l Ho Hl IH]; [constructor|]. unfold regs. simpl.
    destruct (kid o) as [i|] eqn:Hk.
    - unfold kid in Hk. destruct (cdone o) eqn:Hd; [|done]. destruct (calive o) eqn:Ha; [|done]. simpl in Hk.
      destruct Ho as (_ & H2 & _). unfold rid. rewrite Ha, (H2 Hd). simpl. rewrite Hk. by constructor.
    - destruct (rid o); [constructor|]; done.
  Qed.

  (** Main statement: when the step list passes [ctor_ok], after EVERY history of constructor calls (any desired ID, raising at
      any of the points where they can raise, or completing) and destructor calls (of complete and of half-built objects, at any
      later time), the complete objects that still exist have pairwise distinct, positive IDs -- and every complete object has
      an ID that the manager handed out to it. *)
  Theorem failed_ctor_unique steps es : ctor_ok steps dr dg = true →
    let w := krun steps dr dg false es in
    NoDup (klive w) ∧ (∀ i, i ∈ klive w → 0 < i) ∧ ∀ o, o ∈ cobjs w → cdone o = true → hreg (ch o) = true ∧ is_Some (hid (ch o)).
  Proof.
    intros Hok w. destruct (krun_kinv steps es Hok) as (_ & Hnd & Hin & Hall). fold w in Hnd, Hin, Hall.
    pose proof (klive_sublist _ Hall) as Hs. split; [by eapply my_sublist_NoDup|]. split.
    - intros i Hi. apply Hin. eapply elem_of_submseteq; [exact Hi|]. by apply sublist_submseteq.
    - intros o Ho Hd. rewrite Forall_forall in Hall. destruct (Hall _ Ho) as (_ & H2 & H3). split; [auto|]. apply H3. auto.
  Qed.
End proofs.

(** The shapes.  [attrs_raw_then_convert]: an attrs class whose [id] field is followed by a field with a converter (the seeded
    fault c08_8, and the pinned tree's Solid with its [visgroup_ids] converter). *)
Definition attrs_raw_then_convert : list cstep := [CStoreRaw; CMayRaise; CRegister].
Definition attrs_guarded : list cstep := [CStoreRaw; CMayRaise; CRegister; CSetOwned].
Definition direct_register : list cstep := [CMayRaise; CRegister; CMayRaise].

Lemma shapes_ok :
  ctor_ok attrs_raw_then_convert true false = false ∧ ctor_ok attrs_raw_then_convert false false = true ∧
  ctor_ok attrs_guarded true true = true ∧ ctor_ok direct_register true false = true ∧
  ctor_ok [CSetOwned; CStoreRaw; CMayRaise; CRegister] true true = false ∧ ctor_ok [CStoreRaw; CMayRaise] false false = false.
Proof. vm_compute. done. Qed.

(** Refutation: brushes 1 and 2 exist; a third constructor call asks for ID 2 and raises in the converter; the half-built
    object is destroyed and its destructor releases 2; the next brush is handed 2: IDs 1, 2, 2. *)
Definition failed_ctor_history : list cev := [KNew (-1) None; KNew (-1) None; KNew 2 (Some O); KDel 2; KNew (-1) None].
Lemma failed_ctor_refuted :
  klive (krun attrs_raw_then_convert true false false failed_ctor_history) = [1; 2; 2] ∧
  klive (krun attrs_guarded true true false failed_ctor_history) = [1; 2; 3] ∧
  klive (krun attrs_raw_then_convert false false false failed_ctor_history) = [1; 2; 3].
Proof. vm_compute. done. Qed.

(** copy.copy() left to the default protocol: the copy of brush 1 shares its ID at once; when the copy dies its destructor releases
    the ID (the flag was copied with the other fields, so the guard does not help), and the next brush is handed 1 while the original
    still holds it. *)
Lemma shallow_alias_refuted :
  klive (krun attrs_guarded true true true [KNew (-1) None; KAlias 0]) = [1; 1] ∧
  klive (krun attrs_guarded true true true [KNew (-1) None; KAlias 0; KDel 1; KNew (-1) None]) = [1; 1] ∧
  klive (krun attrs_guarded true true false [KNew (-1) None; KAlias 0; KDel 1; KNew (-1) None]) = [1; 2].
Proof. vm_compute. done. Qed.

(** [fail_states] is what [crun] leaves behind when it raises. *)
Lemma crun_fail_state l : ∀ f d h m h' m',
  crun l f d h m = (h', m', false) → half_abs h' ∈ fail_states l (bool_decide (is_Some (hid h))) (hreg h) (hown h).
Proof.
  induction l as [|s r IH]; intros f d h m h' m' Hr; simpl in *; [done|]. destruct s.
  - specialize (IH _ _ _ _ _ _ Hr). simpl in IH. exact IH.
  - destruct f as [[|n]|].
    + inversion Hr; subst. left.
    + right. exact (IH _ _ _ _ _ _ Hr).
    + right. exact (IH _ _ _ _ _ _ Hr).
  - destruct (get_id (default d (hid h)) m) as [[i m1]|] eqn:E.
    + specialize (IH _ _ _ _ _ _ Hr). simpl in IH. exact IH.
    + destruct (get_id_total (default d (hid h)) m) as [x Hx]. rewrite Hx in E. done.
  - specialize (IH _ _ _ _ _ _ Hr). simpl in IH. exact IH.
Qed.
