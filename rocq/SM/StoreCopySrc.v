(** C09 round 2 — the copy census with SOURCES: from which field of the original each field of the copy is
    built.  [Gen/CopyCensus_gen.v] lists, for every class, [sources_X : list (field * fields read)] next to
    [census_X].  A census all of whose rows pass [field_fresh] / [field_covered] says nothing when the value
    comes from the WRONG field (seeded fault: [multi_alpha=vert.multi_blend]); [copy_sources_match] closes
    that gap, and [resolve] gives the census its positional meaning ([fields_rel_src]).
    Proofs in StoreCopySrcProofs.v. *)
From Coq Require Import List PArith ZArith Bool String.
From SV Require Import SM.Store SM.StoreCopy.
Import ListNotations.

Definition srcmap := list (string * list string).

Fixpoint src_of (s : srcmap) (f : string) : option (list string) :=
  match s with
  | [] => None
  | (g, l) :: s' => if String.eqb g f then Some l else src_of s' f
  end.

(** Does the heap meaning of this "how" depend on a value of the original? *)
Definition needs_source (w : how) : bool :=
  match w with HShare | HDeep | HShallow | HCtx => true | HMissing | HNewId => false end.

Definition cname (row : string * kind * how) : string := fst (fst row).
Definition names (c : census) : list string := map cname c.

Definition field_source_ok (s : srcmap) (row : string * kind * how) : bool :=
  if needs_source (snd row) then
    match src_of s (cname row) with
    | Some [g] => String.eqb g (cname row)
    | _ => false
    end
  else true.

Fixpoint nodupb (l : list string) : bool :=
  match l with
  | [] => true
  | x :: r => negb (existsb (String.eqb x) r) && nodupb r
  end.

(** The instance obligation [copy_sources_match:<Class>]. *)
Definition copy_sources_match (c : census) (s : srcmap) : bool :=
  nodupb (names c) && forallb (field_source_ok s) c.

(** Names of the offending fields (for the failure report). *)
Definition wrong_source (c : census) (s : srcmap) : list string :=
  map cname (filter (fun row => negb (field_source_ok s row)) c).

(** Positional meaning: the index (in the original's field list) of the single field a row is built from. *)
Fixpoint index_of (f : string) (l : list string) : option nat :=
  match l with
  | [] => None
  | g :: r => if String.eqb g f then Some O else option_map S (index_of f r)
  end.

Definition srow := (kind * how * option nat)%type.

Definition resolve (c : census) (s : srcmap) : list srow :=
  map (fun row => (snd (fst row), snd row,
                   match src_of s (cname row) with
                   | Some [g] => index_of g (names c)
                   | _ => None
                   end)) c.

(** Field [v'] of the copy is produced, in the way [w] says, from field number [j] of the original
    ([orig] = the original's field values).  For hows that do not read the original the source is irrelevant. *)
Definition how_src_sem (h h' : heap) (orig : list val) (w : how) (j : option nat) (v' : val) : Prop :=
  if needs_source w
  then exists i v, j = Some i /\ nth_error orig i = Some v /\ how_sem w h h' v v'
  else how_sem w h h' (VAtom 0%Z) v'.

Inductive fields_rel_src (h h' : heap) (orig : list val) : list srow -> list val -> Prop :=
| frs_nil : fields_rel_src h h' orig [] []
| frs_cons k w j rows v' vs' :
    how_src_sem h h' orig w j v' -> fields_rel_src h h' orig rows vs' ->
    fields_rel_src h h' orig ((k, w, j) :: rows) (v' :: vs').

(** The kinds describe the original's own fields. *)
Inductive kinds_rel (h : heap) : census -> list val -> Prop :=
| kr_nil : kinds_rel h [] []
| kr_cons f k w c v vs : kind_sem k h v -> kinds_rel h c vs -> kinds_rel h ((f, k, w) :: c) (v :: vs).
