(** C09 — a copy built according to a census all of whose fields pass [field_fresh] shares no mutable
    location with the original; with the frame theorem: copy and original are independent under every
    mutation history.  Observational equality (completeness) composes field by field. *)
From Coq Require Import List PArith ZArith Bool String.
From SV Require Import SM.Store SM.StoreProofs SM.StoreCopy.
Import ListNotations.

(** In an extension of a closed heap, what an old object reaches is old and reached as before. *)
Lemma old_reach h h' r l :
  closed h -> extends h h' -> alloc h r -> reach h' r l -> reach h r l /\ alloc h l.
Proof.
  intros Hc He Ha Hr. induction Hr; [split; [constructor|assumption]|].
  destruct IHHr as (Hr0 & Hal).
  unfold alloc in Hal. destruct (h l) as [nd0|] eqn:E; [|congruence].
  pose proof (He _ _ E) as E'. rewrite E' in H. inversion H; subst nd0.
  split; [eapply reach_step; eauto | eapply Hc; eauto].
Qed.

Lemma extends_agree h h' r :
  closed h -> extends h h' -> alloc h r -> forall x, reach h r x -> h' x = h x.
Proof.
  intros Hc He Ha x Hx. pose proof (reach_alloc _ _ _ Hc Ha Hx) as Hal.
  unfold alloc in Hal. destruct (h x) as [nd|] eqn:E; [|congruence]. apply He. exact E.
Qed.

Lemma no_mut_ext h h' v :
  closed h -> extends h h' -> val_alloc h v -> no_mut h v -> new_mut h h' v.
Proof.
  intros Hc He Hv Hn l Hl Hm. destruct v as [z|r]; [destruct Hl|]. cbn in *.
  destruct (old_reach _ _ _ _ Hc He Hv Hl) as (Hr & Hal). exfalso. apply (Hn l Hr).
  unfold alloc in Hal. destruct (h l) as [nd|] eqn:E; [|congruence].
  destruct Hm as (nd' & E' & Hm). rewrite (He _ _ E) in E'. inversion E'; subst nd'.
  exists nd. auto.
Qed.

Lemma reach_head h r l :
  reach h r l -> l = r \/ exists nd r', h r = Some nd /\ In (VRef r') (nfields nd) /\ reach h r' l.
Proof.
  intros Hr. induction Hr; [left; reflexivity|]. right.
  destruct IHHr as [->|(nd1 & r1 & H1 & H2 & H3)].
  - exists nd, l'. split; [assumption|]. split; [assumption|constructor].
  - exists nd1, r1. split; [assumption|]. split; [assumption|]. eapply reach_step; eauto.
Qed.

(** A new node whose field values reach only new mutables reaches only new mutables. *)
Lemma node_new_mut h h' c nd' :
  h c = None -> h' c = Some nd' -> (forall v', In v' (nfields nd') -> new_mut h h' v') ->
  new_mut h h' (VRef c).
Proof.
  intros Hc Hc' Hf l Hl Hm. cbn in Hl. destruct (reach_head _ _ _ Hl) as [->|(nd & r' & H1 & H2 & H3)].
  - exact Hc.
  - rewrite Hc' in H1. inversion H1; subst nd. exact (Hf (VRef r') H2 l H3 Hm).
Qed.

Lemma no_mut_elem h c nd el : no_mut h (VRef c) -> h c = Some nd -> In el (nfields nd) -> no_mut h el.
Proof.
  intros Hn Hc Hin l Hl. destruct el as [z|r]; [destruct Hl|]. cbn in *.
  apply Hn. eapply reach_trans; [|exact Hl]. eapply reach_step; [constructor| exact Hc | exact Hin].
Qed.

(** One field: an accepted (kind, how) pair yields a value whose mutable reach is entirely new. *)
Lemma field_new_mut k w h h' v v' :
  closed h -> extends h h' -> val_alloc h v ->
  field_fresh k w = true -> kind_sem k h v -> how_sem w h h' v v' -> new_mut h h' v'.
Proof.
  intros Hc He Hv Hok Hk Hw.
  assert (Hshallow : forall c, v = VRef c ->
            (forall nd el, h c = Some nd -> In el (nfields nd) -> no_mut h el) ->
            how_sem HShallow h h' v v' -> new_mut h h' v').
  { intros c -> Hel (c' & nd & m & -> & Hn & Hnd & Hnd').
    eapply node_new_mut; eauto. cbn. intros el Hin.
    apply no_mut_ext; auto.
    - destruct el as [z|x]; [exact I|]. exact (Hc _ _ _ Hnd Hin).
    - eapply Hel; eauto. }
  assert (Hatom : forall z, new_mut h h' (VAtom z)) by (intros z l []).
  destruct w; cbn in Hw.
  - (* HShare *) subst v'. destruct k as [| | | |[|]]; try discriminate; apply no_mut_ext; auto.
  - (* HDeep *) exact Hw.
  - (* HShallow *)
    destruct v as [z|c]; [subst v'; apply Hatom|].
    destruct k as [| | | |[|]]; try discriminate.
    + apply (Hshallow c eq_refl); [|exact Hw]. intros nd el H1 H2. eapply no_mut_elem; eauto.
    + apply (Hshallow c eq_refl); [|exact Hw]. intros nd el H1 H2. eapply no_mut_elem; eauto.
    + apply (Hshallow c eq_refl); [|exact Hw]. intros nd el H1 H2. eapply no_mut_elem; eauto.
    + apply (Hshallow c eq_refl); [|exact Hw]. exact Hk.
  - (* HMissing *) exact Hw.
  - (* HCtx *) subst v'. destruct k as [| | | |[|]]; try discriminate; apply no_mut_ext; auto.
  - (* HNewId *) destruct Hw as (z & ->). apply Hatom.
Qed.

Lemma fields_new_mut h h' :
  closed h -> extends h h' ->
  forall cen vs vs', fields_rel h h' cen vs vs' ->
  (forall v, In v vs -> val_alloc h v) ->
  forallb (fun p => field_fresh (fst p) (snd p)) cen = true ->
  forall v', In v' vs' -> new_mut h h' v'.
Proof.
  intros Hc He cen vs vs' Hr. induction Hr; intros Hal Hok v0 Hin; [destruct Hin|].
  cbn in Hok. rewrite andb_true_iff in Hok. destruct Hok as [Hok1 Hok2].
  destruct Hin as [<-|Hin].
  - eapply field_new_mut; eauto. apply Hal. left. reflexivity.
  - apply IHHr; auto. intros x Hx. apply Hal. right. exact Hx.
Qed.

Lemma ck_fresh c :
  copy_fresh_mutables c = true -> forallb (fun p => field_fresh (fst p) (snd p)) (ck c) = true.
Proof.
  unfold copy_fresh_mutables, ck. induction c as [|[[s k] w] c IH]; [reflexivity|].
  cbn. rewrite !andb_true_iff. intros [H1 H2]. auto.
Qed.

(** Class level: the copy of [a] is a new node [c] whose fields are related to [a]'s by the census. *)
Theorem census_copy_new_mut : forall (c : census) h h' la lc nd nd',
  closed h -> extends h h' -> h la = Some nd -> h lc = None -> h' lc = Some nd' ->
  copy_fresh_mutables c = true ->
  fields_rel h h' (ck c) (nfields nd) (nfields nd') ->
  new_mut h h' (VRef lc).
Proof.
  intros c h h' la lc nd nd' Hc He Hla Hlc Hlc' Hok Hrel.
  eapply node_new_mut; eauto.
  eapply fields_new_mut; eauto using ck_fresh.
  intros v Hin. destruct v as [z|x]; [exact I|]. exact (Hc _ _ _ Hla Hin).
Qed.

(** A copy all of whose mutables are new is separated from the original. *)
Theorem copy_sep h h' a c :
  closed h -> extends h h' -> alloc h a -> new_mut h h' (VRef c) -> sep h' a [c].
Proof.
  intros Hc He Ha Hn l Hla (r & [<-|[]] & Hlc) Hm.
  destruct (old_reach _ _ _ _ Hc He Ha Hla) as (_ & Hal). apply Hal. exact (Hn l Hlc Hm).
Qed.

(** Census + frame theorem: copy and original are independent under every mutation history. *)
Theorem census_copy_independent : forall (c : census) h h' la lc nd nd',
  closed h -> closed h' -> extends h h' -> h la = Some nd -> h lc = None -> h' lc = Some nd' ->
  copy_fresh_mutables c = true ->
  fields_rel h h' (ck c) (nfields nd) (nfields nd') ->
  (forall ms h'' R, steps (h', [lc]) ms (h'', R) -> forall n, unfold n h'' (VRef la) = unfold n h' (VRef la)) /\
  (forall ms h'' R, steps (h', [la]) ms (h'', R) -> forall n, unfold n h'' (VRef lc) = unfold n h' (VRef lc)).
Proof.
  intros c h h' la lc nd nd' Hc Hc' He Hla Hlc Hlc' Hok Hrel.
  assert (Ha : alloc h la) by (unfold alloc; congruence).
  assert (Ha' : alloc h' la) by (unfold alloc; rewrite (He _ _ Hla); discriminate).
  assert (Hcc : alloc h' lc) by (unfold alloc; congruence).
  assert (Hsep : sep h' la [lc]).
  { apply (copy_sep h h' la lc Hc He Ha). exact (census_copy_new_mut c h h' la lc nd nd' Hc He Hla Hlc Hlc' Hok Hrel). }
  split; intros ms h'' R Hs n.
  - eapply frame_observation; eauto. intros r [<-|[]]. exact Hcc.
  - eapply frame_observation; eauto using sep_sym. intros r [<-|[]]. exact Ha'.
Qed.

(** Completeness composes: a shared field is observed equal, and a node whose fields are observed equal
    is observed equal. *)
Lemma share_obs_eq h h' v : closed h -> extends h h' -> val_alloc h v -> obs_eq h h' v v.
Proof.
  intros Hc He Hv n. destruct v as [z|r]; [destruct n; reflexivity|].
  apply (unfold_agree h h' r); [|constructor]. intros x Hx. eapply extends_agree; eauto.
Qed.

Theorem node_obs_eq h h' a c nd nd' :
  h a = Some nd -> h' c = Some nd' -> nmut nd' = nmut nd ->
  Forall2 (obs_eq h h') (nfields nd) (nfields nd') -> obs_eq h h' (VRef a) (VRef c).
Proof.
  intros Ha Hc Hm Hf n. destruct n as [|n]; [reflexivity|].
  cbn [unfold]. rewrite Ha, Hc, Hm. f_equal.
  induction Hf as [|v v' vs vs' Hv Hvs IH]; [reflexivity|]. cbn [map]. rewrite (Hv n), IH. reflexivity.
Qed.

(** Census booleans unfold to statements about every field. *)
Theorem covers_all_fields (c : census) :
  copy_covers_fields c = true -> forall f k w, In (f, k, w) c -> w <> HMissing.
Proof.
  unfold copy_covers_fields. rewrite forallb_forall. intros H f k w Hin ->.
  specialize (H _ Hin). discriminate.
Qed.

Theorem fresh_all_fields (c : census) :
  copy_fresh_mutables c = true -> forall f k w, In (f, k, w) c -> field_fresh k w = true.
Proof.
  unfold copy_fresh_mutables. rewrite forallb_forall. intros H f k w Hin. exact (H _ Hin).
Qed.

(** A dropped field is observable: an original whose field differs from the constructor default. *)
Lemma missing_field_observable :
  let h : heap := fun l => match l with 1%positive => Some (Node true [VAtom 5%Z]) | _ => None end in
  let h' : heap := fun l => match l with 1%positive => Some (Node true [VAtom 5%Z])
                                    | 2%positive => Some (Node true [VAtom 0%Z]) | _ => None end in
  extends h h' /\ how_sem HMissing h h' (VAtom 5%Z) (VAtom 0%Z) /\ ~ obs_eq h h' (VRef 1%positive) (VRef 2%positive).
Proof.
  cbn. split; [|split].
  - intros l nd. destruct l as [l|l|]; try discriminate. auto.
  - intros l [].
  - intros H. specialize (H 1%nat). cbv in H. discriminate.
Qed.

(** A shared mutable field breaks separation (the census check is not stronger than needed). *)
Lemma shared_mutable_field_not_separated :
  let h' : heap := fun l => match l with
      | 1%positive => Some (Node true [VRef 3%positive]) | 2%positive => Some (Node true [VRef 3%positive])
      | 3%positive => Some (Node true [VAtom 255%Z]) | _ => None end in
  field_fresh KMut HShare = false /\ ~ sep h' 1%positive [2%positive].
Proof.
  cbn. split; [reflexivity|]. intros H. apply (H 3%positive).
  - eapply reach_step; [constructor|reflexivity|left; reflexivity].
  - exists 2%positive. split; [left; reflexivity|].
    eapply reach_step; [constructor|reflexivity|left; reflexivity].
  - eexists. split; reflexivity.
Qed.
