(** C09 — the frame theorem for the heap model of Store.v: if no mutable location is reachable both from
    [a] and from the roots a mutator holds, then no sequence of in-place mutations performed through those
    roots changes anything reachable from [a]; in particular the unfolding (export) of [a] is unchanged. *)
From Coq Require Import List PArith ZArith Bool.
From SV Require Import SM.Store.
Import ListNotations.

Lemma upd_same h l nd : upd h l nd l = Some nd.
Proof. unfold upd. rewrite Pos.eqb_refl. reflexivity. Qed.

Lemma upd_other h l nd x : x <> l -> upd h l nd x = h x.
Proof. unfold upd. intros H. destruct (Pos.eqb_spec x l); congruence. Qed.

Lemma alloc_upd h l nd x : alloc h x -> alloc (upd h l nd) x.
Proof.
  unfold alloc. intros H. destruct (Pos.eqb_spec x l) as [->|Hne].
  - rewrite upd_same. discriminate.
  - rewrite upd_other by assumption. exact H.
Qed.

Lemma reach_trans h a b c : reach h a b -> reach h b c -> reach h a c.
Proof. intros Hab Hbc. induction Hbc; eauto using reach_step. Qed.

Lemma reach_alloc h a l : closed h -> alloc h a -> reach h a l -> alloc h l.
Proof. intros Hc Ha Hr. induction Hr; eauto. Qed.

Definition roots_alloc (h : heap) (R : list loc) : Prop := forall r, In r R -> alloc h r.

Lemma reachR_alloc h R l : closed h -> roots_alloc h R -> reachR h R l -> alloc h l.
Proof. intros Hc HR (r & Hin & Hr). eapply reach_alloc; eauto. Qed.

Lemma reachR_step h R l nd l' :
  reachR h R l -> h l = Some nd -> In (VRef l') (nfields nd) -> reachR h R l'.
Proof. intros (r & Hin & Hr) H1 H2. exists r. split; [assumption|]. eapply reach_step; eauto. Qed.

(** Two heaps that agree on everything reachable from [a] have the same reach set from [a]. *)
Lemma reach_agree h h' a :
  (forall l, reach h a l -> h' l = h l) -> forall l, reach h' a l -> reach h a l.
Proof.
  intros Hag l Hr. induction Hr.
  - constructor.
  - eapply reach_step; eauto. rewrite <- (Hag l IHHr). exact H.
Qed.

Lemma reach_agree' h h' a :
  (forall l, reach h a l -> h' l = h l) -> forall l, reach h a l -> reach h' a l.
Proof.
  intros Hag l Hr. induction Hr.
  - constructor.
  - eapply reach_step; eauto. rewrite (Hag l Hr). exact H.
Qed.

(** What the roots reach after a store was already reachable before it. *)
Lemma store_reachR h R l m vs :
  (forall v, In v vs -> val_held h R v) ->
  forall r t, reachR h R r -> reach (upd h l (Node m vs)) r t -> reachR h R t.
Proof.
  intros Hvs r t Hr Ht. induction Ht.
  - exact Hr.
  - destruct (Pos.eqb_spec l0 l) as [->|Hne].
    + rewrite upd_same in H. inversion H; subst nd. cbn in H0.
      exact (Hvs (VRef l') H0).
    + rewrite upd_other in H by assumption. eapply reachR_step; eauto.
Qed.

(** After an allocation the roots reach the new object or something reachable before. *)
Lemma alloc_reachR h R l nd :
  (forall v, In v (nfields nd) -> val_held h R v) ->
  forall r t, (r = l \/ reachR h R r) -> reach (upd h l nd) r t -> t = l \/ reachR h R t.
Proof.
  intros Hvs r t Hr Ht. induction Ht.
  - exact Hr.
  - destruct (Pos.eqb_spec l0 l) as [->|Hne].
    + rewrite upd_same in H. inversion H; subst nd0.
      right. exact (Hvs (VRef l') H0).
    + rewrite upd_other in H by assumption.
      destruct IHHt as [->|HR]; [congruence|].
      right. eapply reachR_step; eauto.
Qed.

(** One mutation keeps the whole invariant and does not touch anything reachable from [a]. *)
Lemma step_frame h R m h1 R1 a :
  closed h -> alloc h a -> roots_alloc h R -> sep h a R -> step (h, R) m (h1, R1) ->
  closed h1 /\ alloc h1 a /\ roots_alloc h1 R1 /\ sep h1 a R1 /\
  (forall l, reach h a l -> h1 l = h l).
Proof.
  intros Hc Ha HR Hsep Hst.
  inversion Hst as [h0 R0 l vs nd HRl Hnd Hmut Hvs | h0 R0 l nd Hfresh Hvs]; subst; clear Hst.
  - (* store *)
    assert (Hne : forall t, reach h a t -> t <> l).
    { intros t Ht ->. eapply Hsep; eauto. exists nd. auto. }
    assert (Hag : forall t, reach h a t -> upd h l (Node true vs) t = h t).
    { intros t Ht. apply upd_other. auto. }
    split; [|split; [|split; [|split]]].
    + intros l0 nd0 l' H0 Hin. apply alloc_upd.
      destruct (Pos.eqb_spec l0 l) as [->|Hn].
      * rewrite upd_same in H0. inversion H0; subst nd0. cbn in Hin.
        eapply reachR_alloc; eauto. exact (Hvs (VRef l') Hin).
      * rewrite upd_other in H0 by assumption. eapply Hc; eauto.
    + apply alloc_upd. exact Ha.
    + intros r Hr. apply alloc_upd. auto.
    + intros t Hta HtR Hm.
      assert (Hta' : reach h a t) by (eapply reach_agree; eauto).
      assert (HtR' : reachR h R1 t).
      { destruct HtR as (r & Hin & Hr).
        apply (store_reachR h R1 l true vs Hvs r t); [|exact Hr].
        exists r. split; [assumption|constructor]. }
      destruct Hm as (ndt & Hndt & Hmt). rewrite upd_other in Hndt by auto.
      eapply Hsep; eauto. exists ndt. auto.
    + exact Hag.
  - (* alloc *)
    assert (Hne : forall t, reach h a t -> t <> l).
    { intros t Ht ->. apply (reach_alloc h a l Hc Ha Ht). assumption. }
    assert (Hag : forall t, reach h a t -> upd h l nd t = h t).
    { intros t Ht. apply upd_other. auto. }
    split; [|split; [|split; [|split]]].
    + intros l0 nd0 l' H0 Hin. apply alloc_upd.
      destruct (Pos.eqb_spec l0 l) as [->|Hn].
      * rewrite upd_same in H0. inversion H0; subst nd0.
        eapply reachR_alloc; eauto. exact (Hvs (VRef l') Hin).
      * rewrite upd_other in H0 by assumption. eapply Hc; eauto.
    + apply alloc_upd. exact Ha.
    + intros r [<-|Hr].
      * unfold alloc. rewrite upd_same. discriminate.
      * apply alloc_upd. auto.
    + intros t Hta HtR Hm.
      assert (Hta' : reach h a t) by (eapply reach_agree; eauto).
      assert (HtR' : t = l \/ reachR h R t).
      { destruct HtR as (r & Hin & Hr).
        apply (alloc_reachR h R l nd Hvs r t); [|exact Hr].
        destruct Hin as [<-|Hin]; [left; reflexivity|].
        right. exists r. split; [assumption|constructor]. }
      destruct HtR' as [->|HtR']; [exact (Hne l Hta' eq_refl)|].
      destruct Hm as (ndt & Hndt & Hmt). rewrite upd_other in Hndt by auto.
      eapply Hsep; eauto. exists ndt. auto.
    + exact Hag.
Qed.

(** The frame theorem: induction over the whole mutation history. *)
Theorem frame_steps : forall ms h R h' R' a,
  closed h -> alloc h a -> roots_alloc h R -> sep h a R -> steps (h, R) ms (h', R') ->
  (forall l, reach h a l -> h' l = h l) /\ sep h' a R' /\ closed h' /\ roots_alloc h' R'.
Proof.
  induction ms as [|m ms IH]; intros h R h' R' a Hc Ha HR Hsep Hs; inversion Hs; subst.
  - auto.
  - destruct s1 as [h1 R1].
    destruct (step_frame _ _ _ _ _ _ Hc Ha HR Hsep H2) as (Hc1 & Ha1 & HR1 & Hsep1 & Hag1).
    destruct (IH _ _ _ _ _ Hc1 Ha1 HR1 Hsep1 H4) as (Hag2 & Hsep2 & Hc2 & HR2).
    split; [|auto].
    intros l Hl. rewrite Hag2 by (eapply reach_agree'; eauto). auto.
Qed.

(** Observations agree when the heaps agree below the observed object. *)
Lemma unfold_agree h h' a :
  (forall x, reach h a x -> h' x = h x) ->
  forall n l, reach h a l -> unfold n h' (VRef l) = unfold n h (VRef l).
Proof.
  intros Hag. induction n as [|n IH]; intros l Hl; [reflexivity|].
  cbn [unfold]. rewrite (Hag l Hl). destruct (h l) as [nd|] eqn:E; [|reflexivity].
  f_equal. apply map_ext_in. intros v Hin. destruct v as [z|l'].
  - destruct n; reflexivity.
  - apply IH. eapply reach_step; eauto.
Qed.

Theorem frame_observation : forall ms h R h' R' a,
  closed h -> alloc h a -> roots_alloc h R -> sep h a R -> steps (h, R) ms (h', R') ->
  forall n, unfold n h' (VRef a) = unfold n h (VRef a).
Proof.
  intros ms h R h' R' a Hc Ha HR Hsep Hs n.
  destruct (frame_steps _ _ _ _ _ _ Hc Ha HR Hsep Hs) as (Hag & _).
  apply (unfold_agree h h' a Hag). constructor.
Qed.

(** Separation is symmetric: "and vice versa". *)
Lemma sep_sym h a b : sep h a [b] -> sep h b [a].
Proof.
  intros H l Hb (r & [<-|[]] & Hr) Hm.
  eapply H; eauto. exists b. split; [left; reflexivity|assumption].
Qed.

(** The premise is necessary: a shared mutable node lets a mutation through [b] change [a]'s observation. *)
Definition shared_heap : heap := fun l =>
  match l with
  | 1%positive => Some (Node true [VRef 3%positive])
  | 2%positive => Some (Node true [VRef 3%positive])
  | 3%positive => Some (Node true [VAtom 255%Z])
  | _ => None
  end.

Lemma frame_needs_separation :
  exists h', steps (shared_heap, [2%positive]) [MStore 3%positive [VAtom 0%Z]] (h', [2%positive]) /\
             unfold 2 h' (VRef 1%positive) <> unfold 2 shared_heap (VRef 1%positive).
Proof.
  eexists. split.
  - eapply steps_cons; [|apply steps_nil].
    eapply (step_store shared_heap [2%positive] 3%positive [VAtom 0%Z] (Node true [VAtom 255%Z])).
    + exists 2%positive. split; [left; reflexivity|].
      eapply reach_step; [constructor| reflexivity | left; reflexivity].
    + reflexivity.
    + reflexivity.
    + intros v [<-|[]]. exact I.
  - cbv. discriminate.
Qed.
