From stdpp Require Import gmap sets list.
From Coq Require Import ZArith Lia.
From SV Require Import SM.IdMan SM.IdManProofs SM.IdLifeProofs SM.IdWorld.
Open Scope Z_scope.

(** Allocation keys of the existing objects: (map whose manager issued the ID, ID). *)
Definition wkeys (l : list wobj) : list (nat * Z) :=
  (λ o, (wowner o, wid o)) <$> filter (λ o, walive o = true) l.

Lemma wkeys_app l1 l2 : wkeys (l1 ++ l2) = wkeys l1 ++ wkeys l2.
Proof. unfold wkeys. by rewrite filter_app, fmap_app. Qed.
Lemma wkeys_cons_alive o l : walive o = true → wkeys (o :: l) = (wowner o, wid o) :: wkeys l.
Proof. intros H. unfold wkeys. by rewrite filter_cons_True. Qed.
Lemma wkeys_cons_dead o l : walive o = false → wkeys (o :: l) = wkeys l.
Proof. intros H. unfold wkeys. rewrite filter_cons_False; [done|]. by rewrite H. Qed.

Lemma wsplit_at (l : list wobj) k o : l !! k = Some o → l = take k l ++ o :: drop (S k) l ∧ (k < length l)%nat.
Proof. intros H. split; [symmetry; by apply take_drop_middle|]. by eapply lookup_lt_Some. Qed.

Lemma wkeys_insert_same l k o i :
  l !! k = Some o → walive o = true → wkeys (<[k := wset o true i]> l) = wkeys l.
Proof.
  intros Hk Ha. destruct (wsplit_at _ _ _ Hk) as [Hl Hlen].
  rewrite insert_take_drop by done. rewrite Hl at 3.
  rewrite !wkeys_app, !wkeys_cons_alive by done. done.
Qed.

Lemma wkeys_insert_kill l k o i :
  l !! k = Some o → walive o = true →
  wkeys l = wkeys (take k l) ++ (wowner o, wid o) :: wkeys (drop (S k) l) ∧
  wkeys (<[k := wset o false i]> l) = wkeys (take k l) ++ wkeys (drop (S k) l).
Proof.
  intros Hk Ha. destruct (wsplit_at _ _ _ Hk) as [Hl Hlen]. split.
  - rewrite Hl at 1. by rewrite wkeys_app, wkeys_cons_alive.
  - rewrite insert_take_drop by done. by rewrite wkeys_app, wkeys_cons_dead.
Qed.

Lemma man_of_insert ms l m s m' :
  man_of {| wmans := <[m := s]> ms; wobjs := l |} m' =
  if decide (m' = m) then s else default init (ms !! m').
Proof.
  unfold man_of; simpl. destruct (decide (m' = m)) as [->|Hne].
  - by rewrite lookup_insert.
  - by rewrite lookup_insert_ne.
Qed.

(** The allocator-level invariant: every manager satisfies its own invariant, the allocation keys of the
    existing objects are pairwise distinct, and each is registered (and positive) in the manager that issued it. *)
Definition WInv (w : wworld) : Prop :=
  (∀ m, Inv (man_of w m)) ∧ NoDup (wkeys (wobjs w)) ∧
  (∀ m i, (m, i) ∈ wkeys (wobjs w) → i ∈ used (man_of w m) ∧ 0 < i).

Lemma ww0_inv : WInv ww0.
Proof.
  split; [|split].
  - intros m. unfold man_of; simpl. rewrite lookup_empty. apply init_inv.
  - constructor.
  - intros m i H. inversion H.
Qed.

Lemma walloc_inv am hm d w : WInv w → WInv (walloc am hm d w).
Proof.
  intros (HI & Hnd & Hin). unfold walloc.
  destruct (get_id d (man_of w am)) as [[i s']|] eqn:E; [|done].
  destruct (get_id_fresh _ _ _ _ (HI am) E) as (Hpos & Hfresh & Hused & HI').
  split; [|split].
  - intros m. rewrite man_of_insert. destruct (decide _); [done|apply HI].
  - simpl. rewrite wkeys_app. change (wkeys [ _ ]) with [(am, i)].
    apply NoDup_app. split; [done|]. split; [|apply NoDup_singleton].
    intros x Hx Hx'. apply elem_of_list_singleton in Hx' as ->. by destruct (Hin _ _ Hx).
  - intros m j Hj. simpl in Hj. rewrite wkeys_app in Hj. change (wkeys [ _ ]) with [(am, i)] in Hj.
    rewrite man_of_insert. apply elem_of_app in Hj as [Hj|Hj].
    + destruct (Hin _ _ Hj) as [Hu Hp]. destruct (decide _) as [->|]; [|done].
      rewrite Hused. split; [set_solver|done].
    + apply elem_of_list_singleton in Hj as [= -> ->]. rewrite decide_True by done.
      rewrite Hused. split; [set_solver|done].
Qed.

Lemma wcopy_inv c k m d w : WInv w → WInv (wcopy c k m d w).
Proof.
  intros H. unfold wcopy. destruct (wobjs w !! k) as [o|]; [|done].
  destruct (walive o); [|done]. by apply walloc_inv.
Qed.

Lemma fold_walloc_inv m ds : ∀ w, WInv w → WInv (fold_left (λ w d, walloc m m d w) ds w).
Proof. induction ds as [|d r IH]; intros w H; simpl; [done|]. apply IH. by apply walloc_inv. Qed.
Lemma fold_wcopy_inv c m ks : ∀ w, WInv w → WInv (fold_left (λ w k, wcopy c k m (-1) w) ks w).
Proof. induction ks as [|k r IH]; intros w H; simpl; [done|]. apply IH. by apply wcopy_inv. Qed.

Lemma wstep1_inv c w e : WInv w → WInv (wstep1 false c w e).
Proof.
  intros H. destruct e as [m d|k m d|k|k|k|m ds|ks m]; simpl.
  - by apply walloc_inv.
  - by apply wcopy_inv.
  - destruct H as (HI & Hnd & Hin).
    destruct (wobjs w !! k) as [o|] eqn:Hk; [|done].
    destruct (walive o && winmap o) eqn:Hc; [|done]. apply andb_true_iff in Hc as [Ha _].
    split; [done|]. simpl. erewrite wkeys_insert_same by done. done.
  - destruct H as (HI & Hnd & Hin).
    destruct (wobjs w !! k) as [o|] eqn:Hk; [|done].
    destruct (walive o && negb (winmap o)) eqn:Hc; [|done]. apply andb_true_iff in Hc as [Ha _].
    split; [done|]. simpl. erewrite wkeys_insert_same by done. done.
  - destruct H as (HI & Hnd & Hin).
    destruct (wobjs w !! k) as [o|] eqn:Hk; [|done].
    destruct (walive o) eqn:Ha; [|done].
    destruct (wkeys_insert_kill (wobjs w) k o false Hk Ha) as [Hbefore Hafter].
    unfold WInv. simpl. rewrite Hafter. rewrite Hbefore in Hnd, Hin.
    apply NoDup_app in Hnd as (Hnd1 & Hdisj & Hnd2). apply NoDup_cons in Hnd2 as [Hnot2 Hnd2].
    assert (Hnot1 : (wowner o, wid o) ∉ wkeys (take k (wobjs w))).
    { intros Hx. apply (Hdisj _ Hx). left. }
    split; [|split].
    + intros m. rewrite man_of_insert. destruct (decide _); [apply discard_inv, HI|apply HI].
    + apply NoDup_app. split; [done|]. split; [|done].
      intros x Hx Hx'. apply (Hdisj _ Hx). by right.
    + intros m j Hj. assert (Hne : (m, j) ≠ (wowner o, wid o)).
      { intros [= -> ->]. apply elem_of_app in Hj as [Hj|Hj]; done. }
      assert (Hj' : (m, j) ∈ wkeys (take k (wobjs w)) ++ (wowner o, wid o) :: wkeys (drop (S k) (wobjs w))).
      { apply elem_of_app in Hj as [Hj|Hj]; apply elem_of_app; [by left|right; by right]. }
      destruct (Hin _ _ Hj') as [Hu Hp]. split; [|done].
      rewrite man_of_insert. destruct (decide _) as [->|]; [|done].
      unfold discard, discard_g; simpl. apply elem_of_difference. split; [done|].
      rewrite elem_of_singleton. intros ->. done.
  - by apply fold_walloc_inv.
  - by apply fold_wcopy_inv.
Qed.

Lemma wrun_from_inv c es : ∀ w, WInv w → WInv (wrun_from false c w es).
Proof. induction es as [|e r IH]; intros w H; simpl; [done|]. apply IH. by apply wstep1_inv. Qed.

(** Whatever [copy()] does with its map argument, IDs are unique and positive *per issuing manager*. *)
Theorem wrun_keys_nodup c es : let w := wrun false c es in
  NoDup (wkeys (wobjs w)) ∧ ∀ m i, (m, i) ∈ wkeys (wobjs w) → 0 < i.
Proof.
  intros w. destruct (wrun_from_inv c es ww0 ww0_inv) as (_ & Hnd & Hin). split; [done|].
  intros m i H. by destruct (Hin _ _ H).
Qed.

(** When copies allocate in the destination map, every object is listed in the map that issued its ID. *)
Definition Homed (w : wworld) : Prop := Forall (λ o, wowner o = whome o) (wobjs w).

Lemma walloc_homed m d w : Homed w → Homed (walloc m m d w).
Proof.
  intros H. unfold walloc. destruct (get_id _ _) as [[i s']|]; [|done].
  unfold Homed; simpl. apply Forall_app. split; [done|]. by constructor.
Qed.
Lemma wcopy_homed k m d w : Homed w → Homed (wcopy true k m d w).
Proof.
  intros H. unfold wcopy. destruct (wobjs w !! k) as [o|]; [|done].
  destruct (walive o); [|done]. by apply walloc_homed.
Qed.
Lemma wset_homed w k o a i mans : Homed w → wobjs w !! k = Some o →
  Homed {| wmans := mans; wobjs := <[k := wset o a i]> (wobjs w) |}.
Proof.
  intros H Hk. unfold Homed; simpl. apply Forall_insert; [done|]. simpl.
  eapply (proj1 (Forall_lookup _ _) H); eauto.
Qed.

Lemma wstep1_homed r w e : Homed w → Homed (wstep1 r true w e).
Proof.
  intros H. destruct e as [m d|k m d|k|k|k|m ds|ks m]; simpl.
  - by apply walloc_homed.
  - by apply wcopy_homed.
  - destruct (wobjs w !! k) as [o|] eqn:Hk; [|done]. destruct (_ && _); [|done]. by apply wset_homed.
  - destruct (wobjs w !! k) as [o|] eqn:Hk; [|done]. destruct (_ && _); [|done]. by apply wset_homed.
  - destruct (wobjs w !! k) as [o|] eqn:Hk; [|done]. destruct (walive o); [|done]. by apply wset_homed.
  - revert w H. induction ds as [|d ds IH]; intros w H; simpl; [done|]. apply IH. by apply walloc_homed.
  - revert w H. induction ks as [|k ks IH]; intros w H; simpl; [done|]. apply IH. by apply wcopy_homed.
Qed.

Lemma wrun_from_homed r es : ∀ w, Homed w → Homed (wrun_from r true w es).
Proof. induction es as [|e es IH]; intros w H; simpl; [done|]. apply IH. by apply wstep1_homed. Qed.

Lemma keys_to_ids m (l : list wobj) :
  NoDup (wkeys l) → Forall (λ o, wowner o = whome o) l →
  NoDup (wid <$> filter (λ o, walive o = true ∧ whome o = m) l).
Proof.
  induction l as [|o l IH]; intros Hnd Hh; [constructor|].
  apply Forall_cons in Hh as [Ho Hh].
  destruct (walive o) eqn:Ha.
  - rewrite wkeys_cons_alive in Hnd by done. apply NoDup_cons in Hnd as [Hni Hnd].
    destruct (decide (whome o = m)) as [Hm|Hm].
    + rewrite filter_cons_True by done. rewrite fmap_cons. apply NoDup_cons. split; [|by apply IH].
      intros Hx. apply Hni. apply elem_of_list_fmap in Hx as (o' & Hid & Ho').
      apply elem_of_list_filter in Ho' as [[Ha' Hm'] Hin].
      apply elem_of_list_fmap. exists o'. split.
      * f_equal; [|done]. rewrite Ho, Hm, <- Hm'. symmetry.
        by apply (proj1 (Forall_forall _ _) Hh).
      * by apply elem_of_list_filter.
    + rewrite filter_cons_False by tauto. by apply IH.
  - rewrite wkeys_cons_dead in Hnd by done.
    rewrite filter_cons_False by (rewrite Ha; intros [? _]; done). by apply IH.
Qed.

Lemma ids_pos m (l : list wobj) :
  (∀ m' i, (m', i) ∈ wkeys l → 0 < i) → ∀ i, i ∈ wid <$> filter (λ o, walive o = true ∧ whome o = m) l → 0 < i.
Proof.
  intros H i Hi. apply elem_of_list_fmap in Hi as (o & -> & Ho).
  apply elem_of_list_filter in Ho as [[Ha _] Hin]. apply (H (wowner o)).
  apply elem_of_list_fmap. exists o. split; [done|]. by apply elem_of_list_filter.
Qed.

(** Main theorem: with IDs released only by destructors and copies allocating in the destination map, after
    every history of construction with arbitrary desired IDs, copy within and across maps, removal, re-adding,
    destruction, parsing of documents with arbitrary (colliding, missing, non-positive) IDs and collapsing of
    instances, the existing objects that belong to one map have pairwise distinct, positive IDs. *)
Theorem world_live_ids_nodup_pos es m : let w := wrun false true es in
  NoDup (live_ids_in m w) ∧ (∀ i, i ∈ live_ids_in m w → 0 < i).
Proof.
  intros w. destruct (wrun_keys_nodup true es) as [Hnd Hpos].
  assert (Hh : Homed w) by (apply wrun_from_homed; constructor).
  split; [by apply keys_to_ids|by apply ids_pos].
Qed.

(** The objects in the map's lists are among them. *)
Lemma map_ids_sublist_live m w : sublist (map_ids_in m w) (live_ids_in m w).
Proof.
  unfold map_ids_in, live_ids_in. apply fmap_sublist.
  induction (wobjs w) as [|o l IH]; [constructor|].
  destruct (decide (walive o = true ∧ winmap o = true ∧ whome o = m)) as [(?&?&?)|Hn].
  - rewrite !filter_cons_True by tauto. by constructor.
  - rewrite (filter_cons_False (λ o, walive o = true ∧ winmap o = true ∧ whome o = m)) by done.
    destruct (decide (walive o = true ∧ whome o = m)).
    + rewrite filter_cons_True by done. by constructor.
    + by rewrite filter_cons_False.
Qed.

Corollary world_map_ids_nodup_pos es m : let w := wrun false true es in
  NoDup (map_ids_in m w) ∧ (∀ i, i ∈ map_ids_in m w → 0 < i).
Proof.
  intros w. destruct (world_live_ids_nodup_pos es m) as [Hnd Hpos]. split.
  - eapply my_sublist_NoDup; [apply map_ids_sublist_live|done].
  - intros i Hi. apply Hpos. eapply elem_of_submseteq; [exact Hi|]. apply sublist_submseteq, map_ids_sublist_live.
Qed.

(** [VMF.parse] and [collapse_one] as single events are the folds of their constructor / copy calls. *)
Lemma wparse_unfold r c m ds w : wstep1 r c w (WParse m ds) = wrun_from r c w (WCreate m <$> ds).
Proof. revert w. induction ds as [|d ds IH]; intros w; simpl; [done|]. apply IH. Qed.
Lemma wcollapse_unfold r c m ks w :
  wstep1 r c w (WCollapse ks m) = wrun_from r c w ((λ k, WCopy k m (-1)) <$> ks).
Proof. revert w. induction ks as [|k ks IH]; intros w; simpl; [done|]. apply IH. Qed.

(** Refutations of the variants. *)
(** A copy that takes its ID from the source map's manager: the destination map gets two objects with ID 2. *)
Definition xmap_copy_history : list wev := [WCreate 0 (-1); WCreate 1 (-1); WCreate 1 (-1); WCopy 0 1 (-1)].
Theorem copy_from_source_refuted : map_ids_in 1 (wrun false false xmap_copy_history) = [1; 2; 2].
Proof. vm_compute. reflexivity. Qed.
Example xmap_copy_history_ok : map_ids_in 1 (wrun false true xmap_copy_history) = [1; 2; 3].
Proof. vm_compute. reflexivity. Qed.
(** Collapsing an instance whose objects take IDs from the instance map. *)
Theorem collapse_from_source_refuted :
  map_ids_in 1 (wrun false false [WParse 0 [7; 7; 0]; WParse 1 [3; 1]; WCollapse [0; 1; 2]%nat 1]) = [3; 1; 3; 4; 5].
Proof. vm_compute. reflexivity. Qed.
(** Release on removal (the shape VMF.remove_ent had for entity IDs): duplicate inside one map. *)
Theorem world_release_on_remove_refuted :
  map_ids_in 0 (wrun true true [WCreate 0 (-1); WRemove 0; WCreate 0 (-1); WReAdd 0]) = [1; 1].
Proof. vm_compute. reflexivity. Qed.
(** Parsing a document whose IDs collide, are missing (-1) or non-positive renumbers them. *)
Example parse_colliding_ids : map_ids_in 0 (wrun false true [WParse 0 [5; 5; -1; 0; 1; 5; 2]]) = [5; 1; 2; 3; 4; 6; 7].
Proof. vm_compute. reflexivity. Qed.
