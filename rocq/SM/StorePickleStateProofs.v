(** C09, round 4 — proofs about SM/StorePickleState.v. *)
From Coq Require Import List String Bool ZArith.
From SV Require Import SM.StorePickleState.
Import ListNotations.

Lemma sl_eqb_eq : forall a b, sl_eqb a b = true -> a = b.
Proof.
  induction a as [|x a IH]; destruct b as [|y b]; simpl; try discriminate; auto.
  intro H. apply andb_true_iff in H. destruct H as [H1 H2]. apply String.eqb_eq in H1. subst. f_equal. auto.
Qed.

Lemma existsb_eqb_in : forall f l, existsb (String.eqb f) l = true -> In f l.
Proof.
  intros f l H. apply existsb_exists in H. destruct H as [x [Hx He]]. apply String.eqb_eq in He. subst. exact Hx.
Qed.

Lemma existsb_eqb_notin : forall f l, existsb (String.eqb f) l = false -> ~ In f l.
Proof.
  intros f l H HI. assert (existsb (String.eqb f) l = true) as E.
  { apply existsb_exists. exists f. split; [exact HI | apply String.eqb_refl]. }
  rewrite E in H. discriminate.
Qed.

Lemma lookup_combine_map : forall (g : string -> option Z) l f, sl_nodupb l = true -> In f l ->
  alookup f (combine l (map g l)) = Some (g f).
Proof.
  induction l as [|x r IH]; simpl; intros f Hn HI; [contradiction|].
  apply andb_true_iff in Hn. destruct Hn as [Hx Hr].
  destruct (String.eqb x f) eqn:E.
  - apply String.eqb_eq in E. subst. reflexivity.
  - destruct HI as [->|HI]; [rewrite String.eqb_refl in E; discriminate|]. apply IH; assumption.
Qed.

(** ROUND TRIP: an accepted pair gives every data field its own value back. *)
Theorem state_roundtrip : forall fields put get, state_ok fields put get = true ->
  forall obj f, In f fields -> alookup f (setstate get (getstate obj put)) = Some (alookup f obj).
Proof.
  intros fields put get H obj f HI. unfold state_ok in H.
  apply andb_true_iff in H. destruct H as [H H3]. apply andb_true_iff in H. destruct H as [H1 H2].
  apply sl_eqb_eq in H2. subst put.
  rewrite forallb_forall in H3. specialize (H3 f HI). apply existsb_eqb_in in H3.
  unfold setstate, getstate. apply (lookup_combine_map (fun k => alookup k obj)); assumption.
Qed.

(** Swapping two positions on the reading side only (write and read side inconsistent) is rejected, and the object that
    comes back has the two values exchanged. *)
Definition ps_fields : list string := ["inst_out"%string; "inst_in"%string; "delay"%string].
Definition ps_obj : list (string * Z) := [("inst_out"%string, 1%Z); ("inst_in"%string, 2%Z); ("delay"%string, 3%Z)].
Lemma state_swap_refuted :
  state_ok ps_fields ps_fields ps_fields = true /\
  state_ok ps_fields ps_fields ["inst_in"%string; "inst_out"%string; "delay"%string] = false /\
  alookup "inst_out"%string (setstate ["inst_in"%string; "inst_out"%string; "delay"%string] (getstate ps_obj ps_fields)) = Some (Some 2%Z) /\
  (* a field that is not in the state at all is rejected too *)
  state_ok ps_fields ["inst_out"%string; "delay"%string] ["inst_out"%string; "delay"%string] = false.
Proof. repeat split; reflexivity. Qed.
