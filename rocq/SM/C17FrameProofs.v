(** C17 — the census booleans of SM/C17Frame.v mean what they say, and C09's independence theorem read as
    "mutating the copy leaves the template as it was". *)
From Coq Require Import List String Bool.
From SV Require Import SM.Store SM.StoreCopy SM.StoreCopyProofs SM.C17Frame.
Import ListNotations.

Lemma lookup_census_in : forall all cls c, lookup_census all cls = Some c -> In (cls, c) all.
Proof.
  induction all as [|[n c'] r IH]; intros cls c H; cbn [lookup_census] in H; [discriminate|].
  destruct (String.eqb n cls) eqn:E.
  - apply String.eqb_eq in E. injection H as <-. subst. now left.
  - right. now apply IH.
Qed.

Lemma lookup_field_in : forall c f k w, lookup_field c f = Some (k, w) -> In (f, k, w) c.
Proof.
  induction c as [|[[n k'] w'] r IH]; intros f k w H; cbn [lookup_field] in H; [discriminate|].
  destruct (String.eqb n f) eqn:E.
  - apply String.eqb_eq in E. injection H as <- <-. subst. now left.
  - right. now apply IH.
Qed.

(** Every field that localise modifies in place is, by the census, a freshly built object in the copy. *)
Theorem inplace_writes_are_deep : forall all ws, writes_ok all ws = true ->
  forall cls f, In (cls, f, WInPlace) ws ->
  exists c k, In (cls, c) all /\ In (f, k, HDeep) c /\ field_fresh k HDeep = true.
Proof.
  unfold writes_ok. intros all ws H cls f I. rewrite forallb_forall in H. specialize (H _ I).
  cbn [write_ok] in H. unfold field_how in H.
  destruct (lookup_census all cls) as [c|] eqn:L; [|discriminate].
  destruct (lookup_field c f) as [[k w]|] eqn:F; [|discriminate]. destruct w; try discriminate.
  exists c, k. split; [now apply lookup_census_in|]. split; [now apply lookup_field_in|]. now destruct k as [| | | |[]].
Qed.

Theorem copied_classes_fresh_sound : forall all copied, copied_classes_fresh all copied = true ->
  forall cls, In cls copied -> exists l, copy_closure cls = Some l /\
  forall n, In n l -> exists c, In (n, c) all /\ copy_fresh_mutables c = true.
Proof.
  unfold copied_classes_fresh. intros all copied H cls I. rewrite forallb_forall in H. specialize (H _ I).
  destruct (copy_closure cls) as [l|]; [|discriminate]. exists l. split; [reflexivity|].
  rewrite forallb_forall in H. intros n In_. specialize (H _ In_). unfold class_fresh in H.
  destruct (lookup_census all n) as [c|] eqn:L; [|discriminate]. exists c. split; [now apply lookup_census_in|assumption].
Qed.

(** C09's census theorem, in the direction C17 needs: the object at [la] belongs to the template, [lc] is the copy
    collapse_one made of it (field by field as the census [c] says); then after EVERY sequence of in-place stores and
    allocations performed through the copy, every observation of the template object is what it was. *)
Theorem template_intact : forall (c : census) h h' la lc nd nd',
  closed h -> closed h' -> extends h h' -> h la = Some nd -> h lc = None -> h' lc = Some nd' ->
  copy_fresh_mutables c = true ->
  fields_rel h h' (ck c) (nfields nd) (nfields nd') ->
  forall ms h'' R, steps (h', [lc]) ms (h'', R) -> forall n, unfold n h'' (VRef la) = unfold n h' (VRef la).
Proof. intros c h h' la lc nd nd' H1 H2 H3 H4 H5 H6 H7 H8. exact (proj1 (census_copy_independent c h h' la lc nd nd' H1 H2 H3 H4 H5 H6 H7 H8)). Qed.

(** The premise matters: a class whose census shares one mutable field is rejected by [class_fresh]. *)
Example shared_vertex_vectors_rejected :
  let bad := [("DispVertex_in_Side"%string, [("normal"%string, KMut, HShare); ("offset"%string, KMut, HDeep)])] in
  class_fresh bad "DispVertex_in_Side" = false /\
  writes_ok bad [("DispVertex_in_Side"%string, "normal"%string, WInPlace)] = false /\
  writes_ok bad [("DispVertex_in_Side"%string, "normal"%string, WRebound); ("DispVertex_in_Side"%string, "offset"%string, WInPlace)] = true.
Proof. vm_compute. repeat split; reflexivity. Qed.
