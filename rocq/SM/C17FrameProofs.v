(** C17 — the census booleans of SM/C17Frame.v mean what they say, and C09's independence theorem read as
    "mutating the copy leaves the template as it was". *)
From Coq Require Import List String Bool PArith ZArith.
From SV Require Import SM.Store SM.StoreProofs SM.StoreCopy SM.StoreCopyProofs SM.C17Frame.
Import ListNotations.

Lemma lookup_census_in : forall all cls c, lookup_census all cls = Some c -> In (cls, c) all.
Proof.
  induction all as [|[n c'] r IH]; intros cls c H; cbn [lookup_census] in H; [discriminate|].
  destruct (String.eqb n cls) eqn:E.
  - apply String.eqb_eq in E. injection H as <-. subst. now left.
  - right. now apply IH.
Qed.

Lemma lookup_field_in : forall c f k w, lookup_field c f = Some (k, w) -> In (f, k, w) c.
Proof.
  induction c as [|[[n k'] w'] r IH]; intros f k w H; cbn [lookup_field] in H; [discriminate|].
  destruct (String.eqb n f) eqn:E.
  - apply String.eqb_eq in E. injection H as <- <-. subst. now left.
  - right. now apply IH.
Qed.

(** Every field that localise modifies in place is, by the census, a freshly built object in the copy. *)
Theorem inplace_writes_are_deep : forall all ws, writes_ok all ws = true ->
  forall cls f, In (cls, f, WInPlace) ws ->
  exists c k, In (cls, c) all /\ In (f, k, HDeep) c /\ field_fresh k HDeep = true.
Proof.
  unfold writes_ok. intros all ws H cls f I. rewrite forallb_forall in H. specialize (H _ I).
  cbn [write_ok] in H. unfold field_how in H.
  destruct (lookup_census all cls) as [c|] eqn:L; [|discriminate].
  destruct (lookup_field c f) as [[k w]|] eqn:F; [|discriminate]. destruct w; try discriminate.
  exists c, k. split; [now apply lookup_census_in|]. split; [now apply lookup_field_in|]. now destruct k as [| | | |[]].
Qed.

Theorem copied_classes_fresh_sound : forall all copied, copied_classes_fresh all copied = true ->
  forall cls, In cls copied -> exists l, copy_closure cls = Some l /\
  forall n, In n l -> exists c, In (n, c) all /\ copy_fresh_mutables c = true.
Proof.
  unfold copied_classes_fresh. intros all copied H cls I. rewrite forallb_forall in H. specialize (H _ I).
  destruct (copy_closure cls) as [l|]; [|discriminate]. exists l. split; [reflexivity|].
  rewrite forallb_forall in H. intros n In_. specialize (H _ In_). unfold class_fresh in H.
  destruct (lookup_census all n) as [c|] eqn:L; [|discriminate]. exists c. split; [now apply lookup_census_in|assumption].
Qed.

(** C09's census theorem, in the direction C17 needs: the object at [la] belongs to the template, [lc] is the copy
    collapse_one made of it (field by field as the census [c] says); then after EVERY sequence of in-place stores and
    allocations performed through the copy, every observation of the template object is what it was. *)
Theorem template_intact : forall (c : census) h h' la lc nd nd',
  closed h -> closed h' -> extends h h' -> h la = Some nd -> h lc = None -> h' lc = Some nd' ->
  copy_fresh_mutables c = true ->
  fields_rel h h' (ck c) (nfields nd) (nfields nd') ->
  forall ms h'' R, steps (h', [lc]) ms (h'', R) -> forall n, unfold n h'' (VRef la) = unfold n h' (VRef la).
Proof. intros c h h' la lc nd nd' H1 H2 H3 H4 H5 H6 H7 H8. exact (proj1 (census_copy_independent c h h' la lc nd nd' H1 H2 H3 H4 H5 H6 H7 H8)). Qed.

(** A fresh copy added to the roots keeps the template separated from everything the code holds. *)
Lemma sep_add_copy : forall h h1 a R lc,
  closed h -> extends h h1 -> alloc h a -> roots_alloc h R -> sep h a R -> new_mut h h1 (VRef lc) ->
  sep h1 a (lc :: R).
Proof.
  intros h h1 a R lc Hc He Ha HR Hsep Hn l Hla (r & Hr & Hrl) Hm.
  destruct (old_reach _ _ _ _ Hc He Ha Hla) as (Hla0 & Hal).
  destruct Hr as [<- | Hr].
  - apply Hal. exact (Hn l Hrl Hm).
  - destruct (old_reach _ _ _ _ Hc He (HR _ Hr) Hrl) as (Hrl0 & _).
    apply (Hsep l Hla0); [exists r; split; assumption|].
    unfold alloc in Hal. destruct (h l) as [nd|] eqn:E; [|congruence].
    destruct Hm as (nd' & E' & Hm). rewrite (He _ _ E) in E'. injection E' as <-. exists nd. split; [exact E|assumption].
Qed.

(** "Collapsing the same file any number of times, in any order and at any placement": whatever the sequence of
    collapses and of work on the copies, every observation of the template object stays what it was, and the template
    stays separated from all copies (so the next collapse starts from the same template). *)
Theorem template_intact_any_number_of_collapses : forall a h R h' R',
  collapses h R h' R' ->
  closed h -> alloc h a -> roots_alloc h R -> sep h a R ->
  (forall n, unfold n h' (VRef a) = unfold n h (VRef a)) /\ sep h' a R' /\ closed h' /\ alloc h' a /\ roots_alloc h' R'.
Proof.
  intros a h R h' R' H. induction H as [h R | h R ms h1 R1 h2 R2 Hs _ IH | h R h1 lc h2 R2 Hc1 He Hlc Hn _ IH];
    intros Hc Ha HR Hsep.
  - repeat split; assumption.
  - destruct (frame_steps _ _ _ _ _ _ Hc Ha HR Hsep Hs) as (Hag & Hsep1 & Hc1 & HR1).
    assert (Ha1 : alloc h1 a) by (unfold alloc; rewrite (Hag a (reach_refl _ _)); exact Ha).
    destruct (IH Hc1 Ha1 HR1 Hsep1) as (Hu & Rest). split; [|exact Rest].
    intros n. rewrite Hu. exact (frame_observation _ _ _ _ _ _ Hc Ha HR Hsep Hs n).
  - assert (Ha1 : alloc h1 a).
    { unfold alloc in *. destruct (h a) as [nd|] eqn:E; [|congruence]. rewrite (He _ _ E). discriminate. }
    assert (HR1 : roots_alloc h1 (lc :: R)).
    { intros r [<- | Hr]; [exact Hlc|]. specialize (HR _ Hr). unfold alloc in *.
      destruct (h r) as [nd|] eqn:E; [|congruence]. rewrite (He _ _ E). discriminate. }
    destruct (IH Hc1 Ha1 HR1 (sep_add_copy _ _ _ _ _ Hc He Ha HR Hsep Hn)) as (Hu & Rest). split; [|exact Rest].
    intros n. rewrite Hu.
    apply (unfold_agree h h1 a (extends_agree _ _ _ Hc He Ha)). constructor.
Qed.

(** The hypotheses are satisfiable and the relation is not trivial: a template vector (node 1), a first copy (node 2),
    an in-place store into that copy, a second copy (node 3). *)
Definition ex_vec (z : Z) : node := Node true [VAtom z].
Definition ex_h0 : heap := fun l => if Pos.eqb l 1%positive then Some (ex_vec 5%Z) else None.
Definition ex_h1 : heap := upd ex_h0 2%positive (ex_vec 5%Z).
Definition ex_h2 : heap := upd ex_h1 2%positive (Node true [VAtom 9%Z]).
Definition ex_h3 : heap := upd ex_h2 3%positive (ex_vec 5%Z).

Lemma atoms_closed : forall h : heap, (forall l nd, h l = Some nd -> exists z, nfields nd = [VAtom z]) -> closed h.
Proof. intros h H l nd l' E I. destruct (H _ _ E) as [z Hz]. rewrite Hz in I. destruct I as [I|[]]. discriminate. Qed.

Lemma atoms_reach : forall (h : heap) r l, (forall l nd, h l = Some nd -> exists z, nfields nd = [VAtom z]) -> reach h r l -> l = r.
Proof.
  intros h r l H Hr. induction Hr as [|l nd l' _ IH E I]; [reflexivity|].
  destruct (H _ _ E) as [z Hz]. rewrite Hz in I. destruct I as [I|[]]. discriminate.
Qed.

Lemma ex_atoms : forall h, In h [ex_h0; ex_h1; ex_h2; ex_h3] -> forall l nd, h l = Some nd -> exists z, nfields nd = [VAtom z].
Proof.
  intros h Hh l nd E. cbn [In] in Hh.
  destruct Hh as [<-|[<-|[<-|[<-|[]]]]]; unfold ex_h3, ex_h2, ex_h1, ex_h0, upd in E;
    repeat match type of E with context [if ?c then _ else _] => destruct c end;
    try discriminate; injection E as <-; eexists; reflexivity.
Qed.

Example collapses_example :
  collapses ex_h0 [] ex_h3 [3%positive; 2%positive] /\ ex_h3 2%positive = Some (Node true [VAtom 9%Z]) /\
  closed ex_h0 /\ alloc ex_h0 1%positive /\ roots_alloc ex_h0 [] /\ sep ex_h0 1%positive [].
Proof.
  assert (A : forall h, In h [ex_h0; ex_h1; ex_h2; ex_h3] -> forall l nd, h l = Some nd -> exists z, nfields nd = [VAtom z])
    by exact ex_atoms.
  split; [|split; [reflexivity|split; [apply atoms_closed, A; cbn; auto|split; [unfold alloc; discriminate|split]]]].
  - apply (col_copy ex_h0 [] ex_h1 2%positive).
    + apply atoms_closed, A. cbn; auto.
    + intros l nd E. unfold ex_h1, upd. destruct (Pos.eqb l 2) eqn:E2; [|exact E].
      apply Pos.eqb_eq in E2. subst l. discriminate E.
    + unfold alloc. discriminate.
    + intros l Hl _. cbn in Hl. rewrite (atoms_reach ex_h1 _ _ (A ex_h1 ltac:(cbn; auto)) Hl). reflexivity.
    + apply (col_work ex_h1 [2%positive] [MStore 2%positive [VAtom 9%Z]] ex_h2 [2%positive]).
      * eapply steps_cons; [|apply steps_nil].
        apply (step_store ex_h1 [2%positive] 2%positive [VAtom 9%Z] (ex_vec 5%Z)).
        -- exists 2%positive. split; [now left|apply reach_refl].
        -- reflexivity.
        -- reflexivity.
        -- intros v [<-|[]]. exact I.
      * apply (col_copy ex_h2 [2%positive] ex_h3 3%positive).
        -- apply atoms_closed, A. cbn; auto.
        -- intros l nd E. unfold ex_h3, upd. destruct (Pos.eqb l 3) eqn:E3; [|exact E].
           apply Pos.eqb_eq in E3. subst l. discriminate E.
        -- unfold alloc. discriminate.
        -- intros l Hl _. cbn in Hl. rewrite (atoms_reach ex_h3 _ _ (A ex_h3 ltac:(cbn; auto)) Hl). reflexivity.
        -- apply col_done.
  - intros r [].
  - intros l _ (r & [] & _).
Qed.

(** The premise matters: a class whose census shares one mutable field is rejected by [class_fresh]. *)
Example shared_vertex_vectors_rejected :
  let bad := [("DispVertex_in_Side"%string, [("normal"%string, KMut, HShare); ("offset"%string, KMut, HDeep)])] in
  class_fresh bad "DispVertex_in_Side" = false /\
  writes_ok bad [("DispVertex_in_Side"%string, "normal"%string, WInPlace)] = false /\
  writes_ok bad [("DispVertex_in_Side"%string, "normal"%string, WRebound); ("DispVertex_in_Side"%string, "offset"%string, WInPlace)] = true.
Proof. vm_compute. repeat split; reflexivity. Qed.
