(** Model of [srctools.vmf.IDMan] (vmf.py:158) and of the way map objects use it.
    Executable definitions only; proofs are in IdManProofs.v. *)
From stdpp Require Import gmap sets.
From Coq Require Import ZArith.
Open Scope Z_scope.

(** [IDMan]: the set of IDs in use and the search hint. *)
Record idman := { used : gset Z; pos : Z }.
Definition init : idman := {| used := ∅; pos := 1 |}.

(** The [while True] scan of [get_id], on explicit fuel; [None] = fuel exhausted
    (never happens with fuel [S (size used)], see [get_id_total]). *)
Fixpoint scan (fuel : nat) (p : Z) (u : gset Z) : option Z :=
  match fuel with
  | O => None
  | S f => if decide (p ∈ u) then scan f (p + 1) u else Some p
  end.

Definition get_id (d : Z) (s : idman) : option (Z * idman) :=
  if decide (0 < d ∧ d ∉ used s) then Some (d, {| used := {[d]} ∪ used s; pos := pos s |})
  else match scan (S (size (used s))) (pos s) (used s) with
       | Some i => Some (i, {| used := {[i]} ∪ used s; pos := i + 1 |})
       | None => None
       end.

(** [discard] and [remove] have the same effect on the state; [remove] raises KeyError when absent. *)
(** [lower_guard] is read from the source: [true] when the hint is only lowered by positive IDs
    ([if 0 < element < self.search_pos]), [false] for the unguarded [if element < self.search_pos]. *)
Definition discard_g (lower_guard : bool) (e : Z) (s : idman) : idman :=
  {| used := used s ∖ {[e]};
     pos := if decide (e < pos s) then (if lower_guard && negb (bool_decide (0 < e)) then pos s else e) else pos s |}.
Definition discard := discard_g true.
Definition remove_g (g : bool) (e : Z) (s : idman) : option idman :=
  if decide (e ∈ used s) then Some (discard_g g e s) else None.
Definition remove := remove_g true.
Definition clear (_ : idman) : idman := init.

(** Operation language used by the correspondence check. *)
Inductive op := Get (d : Z) | Discard (e : Z) | Remove (e : Z) | Clear | Contains (e : Z) | Len.

(** Result of one operation, as an integer: the ID handed out, -1 for a KeyError, 0/1 for booleans,
    -2 for "no result", -3 for fuel exhaustion (unreachable). *)
Section run.
Variable g : bool.   (* the lowering guard as generated from the source *)
Definition step (s : idman) (o : op) : idman * Z :=
  match o with
  | Get d => match get_id d s with Some (i, s') => (s', i) | None => (s, -3) end
  | Discard e => (discard_g g e s, -2)
  | Remove e => match remove_g g e s with Some s' => (s', -2) | None => (s, -1) end
  | Clear => (clear s, -2)
  | Contains e => (s, if decide (e ∈ used s) then 1 else 0)
  | Len => (s, Z.of_nat (size (used s)))
  end.

Fixpoint run (s : idman) (ops : list op) : list Z :=
  match ops with
  | [] => [pos s]
  | o :: r => let '(s', z) := step s o in z :: run s' r
  end.
End run.
