(** C19 — proofs about the model in FsChain.v. *)
From Coq Require Import List NArith Bool Lia Permutation.
From SV Require Import SM.FsChain.
Import ListNotations.
Open Scope N_scope.

(** * characters *)
Lemma foldc_idem c : foldc (foldc c) = foldc c.
Proof.
  unfold foldc. destruct ((65 <=? c) && (c <=? 90)) eqn:E; [|rewrite E; reflexivity].
  apply andb_true_iff in E as [H1 H2]. apply N.leb_le in H1, H2.
  assert (H : (c + 32 <=? 90) = false) by (apply N.leb_gt; lia).
  rewrite H, andb_false_r. reflexivity.
Qed.

Lemma slashc_idem c : slashc (slashc c) = slashc c.
Proof.
  unfold slashc. destruct (c =? BS) eqn:E; [reflexivity|]. rewrite E. reflexivity.
Qed.

Lemma foldc_slashc c : foldc (slashc c) = slashc (foldc c).
Proof.
  unfold slashc, BS, SL. destruct (N.eqb_spec c 92) as [->|Hc]; [reflexivity|].
  unfold foldc. destruct ((65 <=? c) && (c <=? 90)) eqn:E.
  - apply andb_true_iff in E as [H1 H2]. apply N.leb_le in H1, H2.
    destruct (N.eqb_spec (c + 32) 92); [lia|reflexivity].
  - destruct (N.eqb_spec c 92); [contradiction|reflexivity].
Qed.

Lemma fold_idem s : fold (fold s) = fold s.
Proof. unfold fold. rewrite map_map. apply map_ext. apply foldc_idem. Qed.
Lemma slash_idem s : slash (slash s) = slash s.
Proof. unfold slash. rewrite map_map. apply map_ext. apply slashc_idem. Qed.
Lemma fold_slash s : fold (slash s) = slash (fold s).
Proof. unfold fold, slash. rewrite !map_map. apply map_ext. apply foldc_slashc. Qed.

Lemma nkey_slash s : nkey (slash s) = nkey s.
Proof. unfold nkey. rewrite slash_idem. reflexivity. Qed.
Lemma nkey_fold s : nkey (fold s) = nkey s.
Proof. unfold nkey. rewrite <- fold_slash, fold_idem. reflexivity. Qed.
Lemma nkey_idem s : nkey (nkey s) = nkey s.
Proof. unfold nkey at 2. rewrite nkey_fold, nkey_slash. reflexivity. Qed.
Lemma slash_nkey s : slash (nkey s) = nkey s.
Proof. unfold nkey. rewrite <- fold_slash, slash_idem. reflexivity. Qed.
Lemma fold_nkey s : fold (nkey s) = nkey s.
Proof. unfold nkey. apply fold_idem. Qed.
Lemma nkey_app a b : nkey (a ++ b) = nkey a ++ nkey b.
Proof. unfold nkey, fold, slash. rewrite !map_app. reflexivity. Qed.

Lemma slash_no_bs s : forallb (fun c => negb (c =? BS)) s = true -> slash s = s.
Proof.
  induction s as [|c s IH]; [reflexivity|]. cbn [forallb]. intros H.
  apply andb_true_iff in H as [H1 H2]. cbn [slash map]. fold (slash s). rewrite (IH H2).
  unfold slashc. destruct (c =? BS); [discriminate|reflexivity].
Qed.

(** * string equality and prefix *)
Lemma eqb_str_spec a b : reflect (a = b) (eqb_str a b).
Proof.
  revert b. induction a as [|x a IH]; intros [|y b]; cbn [eqb_str]; try (constructor; congruence).
  destruct (N.eqb_spec x y) as [->|Hn]; cbn [andb].
  - destruct (IH b) as [->|Hn]; constructor; congruence.
  - constructor. congruence.
Qed.
Lemma eqb_str_eq a b : eqb_str a b = true <-> a = b.
Proof. destruct (eqb_str_spec a b); split; congruence. Qed.
Lemma eqb_str_refl a : eqb_str a a = true.
Proof. apply eqb_str_eq. reflexivity. Qed.
Lemma eqb_str_sym a b : eqb_str a b = eqb_str b a.
Proof. destruct (eqb_str_spec a b), (eqb_str_spec b a); congruence. Qed.

Lemma is_prefix_spec p s : is_prefix p s = true <-> exists r, s = p ++ r.
Proof.
  revert s. induction p as [|x p IH]; intros s; cbn [is_prefix].
  - split; [intros _; exists s; reflexivity|reflexivity].
  - destruct s as [|y s].
    + split; [discriminate|]. intros [r H]. discriminate.
    + rewrite andb_true_iff, N.eqb_eq, IH. split.
      * intros [-> [r ->]]. exists r. reflexivity.
      * intros [r H]. cbn in H. injection H as -> ->. split; [reflexivity|]. exists r. reflexivity.
Qed.

Lemma existsb_eqb_In k seen : existsb (eqb_str k) seen = true <-> In k seen.
Proof.
  rewrite existsb_exists. split.
  - intros [x [Hin H]]. apply eqb_str_eq in H. subst. exact Hin.
  - intros H. exists k. split; [exact H|apply eqb_str_refl].
Qed.

(** * split / join *)
Lemma split_on_nonempty c s : split_on c s <> [].
Proof.
  destruct s as [|x r]; cbn [split_on]; [discriminate|].
  destruct (x =? c); [discriminate|]. destruct (split_on c r); discriminate.
Qed.

Lemma join_split c s : join_with c (split_on c s) = s.
Proof.
  induction s as [|x r IH]; [reflexivity|]. cbn [split_on].
  destruct (N.eqb_spec x c) as [->|Hn].
  - cbn [join_with]. destruct (split_on c r) as [|h t] eqn:E.
    + exfalso. exact (split_on_nonempty c r E).
    + cbn [app]. rewrite IH. reflexivity.
  - destruct (split_on c r) as [|h t] eqn:E.
    + exfalso. exact (split_on_nonempty c r E).
    + cbn [join_with] in *. destruct t; cbn [app]; rewrite <- IH; reflexivity.
Qed.

(** * normpath is the identity on clean names *)
Lemma np_step_good a stk c : good_seg c = true -> np_step a stk c = c :: stk.
Proof.
  unfold good_seg, np_step. intros H.
  apply andb_true_iff in H as [H H3]. apply andb_true_iff in H as [H1 H2].
  apply negb_true_iff in H1, H2, H3. rewrite H1, H2, H3. reflexivity.
Qed.

Lemma np_fold_good a segs acc :
  forallb good_seg segs = true -> fold_left (np_step a) segs acc = rev segs ++ acc.
Proof.
  revert acc. induction segs as [|c segs IH]; intros acc H; [reflexivity|].
  cbn [forallb] in H. apply andb_true_iff in H as [H1 H2].
  cbn [fold_left]. rewrite np_step_good by exact H1. rewrite IH by exact H2.
  cbn [rev]. rewrite <- app_assoc. reflexivity.
Qed.

Lemma clean_normpath s : clean s = true -> normpath s = s.
Proof.
  unfold clean. intros H. destruct s as [|x r].
  - cbn in H. discriminate.
  - assert (Hx : (x =? SL) = false).
    { destruct (x =? SL) eqn:E; [|reflexivity]. cbn [split_on] in H. rewrite E in H. cbn in H. discriminate. }
    assert (Hi : initial_slashes (x :: r) = 0%nat).
    { unfold initial_slashes. cbn [is_prefix]. rewrite N.eqb_sym, Hx. reflexivity. }
    unfold normpath. rewrite Hi. cbn [Nat.eqb negb repeat app].
    rewrite np_fold_good by exact H. rewrite app_nil_r, rev_involutive, join_split. reflexivity.
Qed.

Lemma clean_name_normpath s : clean_name s = true -> normpath s = s.
Proof. unfold clean_name. intros H. apply andb_true_iff in H as [H _]. apply clean_normpath. exact H. Qed.
Lemma clean_name_slash s : clean_name s = true -> slash s = s.
Proof. unfold clean_name. intros H. apply andb_true_iff in H as [_ H]. apply slash_no_bs. exact H. Qed.

Lemma clean_fs_In fs e : clean_fs fs = true -> In e fs -> clean_name (fst e) = true.
Proof. unfold clean_fs. rewrite forallb_forall. intros H Hin. apply (H e Hin). Qed.

(** * operation lists *)
Lemma apply_ops_app a b s : apply_ops (a ++ b) s = apply_ops b (apply_ops a s).
Proof. unfold apply_ops. apply fold_left_app. Qed.

Definition sem_sf (l : list sop) (s : str) : str :=
  (if has_fold l then fold else fun x => x) ((if has_slash l then slash else fun x => x) s).

Lemma apply_sf l : forallb is_sf l = true -> forall s, apply_ops l s = sem_sf l s.
Proof.
  induction l as [|o l IH]; intros H s; [reflexivity|].
  cbn [forallb] in H. apply andb_true_iff in H as [Ho Hl].
  change (apply_ops (o :: l) s) with (apply_ops l (apply_op o s)). rewrite (IH Hl).
  unfold sem_sf. destruct o; try discriminate.
  - (* OSlash *)
    change (has_slash (OSlash :: l)) with true. change (has_fold (OSlash :: l)) with (has_fold l). cbn [apply_op].
    destruct (has_slash l); [rewrite slash_idem|]; reflexivity.
  - (* OFold *)
    change (has_fold (OFold :: l)) with true. change (has_slash (OFold :: l)) with (has_slash l). cbn [apply_op].
    destruct (has_slash l), (has_fold l); rewrite <- ?fold_slash, ?fold_idem; reflexivity.
Qed.

Lemma apply_sf_both l s : sf_both l = true -> apply_ops l s = nkey s.
Proof.
  unfold sf_both. intros H. apply andb_true_iff in H as [H Hf]. apply andb_true_iff in H as [H Hs].
  rewrite (apply_sf l H). unfold sem_sf. rewrite Hf, Hs. reflexivity.
Qed.

Lemma apply_sf_nkey l x : forallb is_sf l = true -> apply_ops l (nkey x) = nkey x.
Proof.
  intros H. rewrite (apply_sf l H). unfold sem_sf.
  destruct (has_fold l), (has_slash l); rewrite ?slash_nkey, ?fold_nkey; reflexivity.
Qed.

Lemma apply_ops_squash l s : apply_ops (squash l) s = apply_ops l s.
Proof.
  revert s. induction l as [|o r IH]; intros s; [reflexivity|]. cbn [squash].
  destruct r as [|o' r']; [reflexivity|].
  destruct (is_sf o && sop_eqb o o') eqn:E.
  - rewrite IH. apply andb_true_iff in E as [E1 E2].
    change (apply_ops (o :: o' :: r') s) with (apply_ops r' (apply_op o' (apply_op o s))).
    change (apply_ops (o' :: r') s) with (apply_ops r' (apply_op o' s)).
    destruct o, o'; try discriminate; cbn [apply_op]; rewrite ?slash_idem, ?fold_idem; reflexivity.
  - change (apply_ops (o :: squash (o' :: r')) s) with (apply_ops (squash (o' :: r')) (apply_op o s)).
    rewrite IH. reflexivity.
Qed.

Lemma apply_ops_norm l s : apply_ops l s = apply_ops (after_norm l) (prenorm (norm_kind l) s).
Proof.
  rewrite <- (apply_ops_squash l s). unfold after_norm, norm_kind.
  destruct (squash l) as [|[] [|[] r]]; reflexivity.
Qed.

Lemma key_ops_sem l s : key_ops_ok l = true -> apply_ops l s = nkey (prenorm (norm_kind l) s).
Proof. intros H. rewrite apply_ops_norm. apply apply_sf_both. exact H. Qed.

Lemma key_ops_stable l s :
  key_ops_ok l = true -> normpath s = s -> normpath (slash s) = slash s -> apply_ops l s = nkey s.
Proof.
  intros H Hn Hn'. rewrite (key_ops_sem l s H).
  destruct (norm_kind l); cbn [prenorm]; rewrite ?Hn, ?Hn', ?nkey_slash; reflexivity.
Qed.

Lemma prenorm_clean k s : clean_name s = true -> prenorm k s = s.
Proof.
  intros Hc. destruct k; cbn [prenorm]; rewrite ?(clean_name_slash s Hc), ?(clean_name_normpath s Hc); reflexivity.
Qed.

Lemma store_ops_clean l s : store_ops_ok l = true -> clean_name s = true -> apply_ops l s = nkey s.
Proof.
  unfold store_ops_ok. intros H Hc. rewrite apply_ops_norm, (prenorm_clean _ s Hc).
  apply andb_true_iff in H as [Hr Hf]. rewrite (apply_sf _ Hr). unfold sem_sf, nkey.
  rewrite Hf. destruct (has_slash _); rewrite ?(clean_name_slash s Hc); reflexivity.
Qed.

Lemma key_ops_store l : key_ops_ok l = true -> store_ops_ok l = true.
Proof.
  unfold key_ops_ok, store_ops_ok, sf_both. intros H. apply andb_true_iff in H as [H Hf].
  apply andb_true_iff in H as [H _]. rewrite H, Hf. reflexivity.
Qed.

Lemma key_ops_clean l s : key_ops_ok l = true -> clean_name s = true -> apply_ops l s = nkey s.
Proof. intros H. apply store_ops_clean, key_ops_store, H. Qed.

(** * dictionaries *)
Section DictFacts.
  Context {V : Type}.
  Implicit Types (d : list (str * V)).

  Lemma dget_dset k k' (v : V) d :
    dget k (dset k' v d) = if eqb_str k k' then Some v else dget k d.
  Proof.
    induction d as [|[k1 v1] r IH]; cbn [dset dget].
    - destruct (eqb_str k k'); reflexivity.
    - destruct (eqb_str_spec k' k1) as [->|Hn]; cbn [dget].
      + destruct (eqb_str k k1); reflexivity.
      + rewrite IH. destruct (eqb_str_spec k k1) as [->|Hn1]; [|reflexivity].
        destruct (eqb_str_spec k1 k'); [congruence|reflexivity].
  Qed.

  Lemma dset_In k (v : V) d kv : In kv (dset k v d) -> kv = (k, v) \/ In kv d.
  Proof.
    induction d as [|[k1 v1] r IH]; cbn [dset].
    - intros [<-|[]]. left. reflexivity.
    - destruct (eqb_str k k1).
      + intros [<-|H]; [left; reflexivity|right; right; exact H].
      + intros [<-|H]; [right; left; reflexivity|]. destruct (IH H); [left|right; right]; assumption.
  Qed.

  Lemma dset_keys k (v : V) d x : In x (map fst (dset k v d)) -> x = k \/ In x (map fst d).
  Proof.
    rewrite !in_map_iff. intros [kv [<- H]]. destruct (dset_In _ _ _ _ H) as [->|H'].
    - left. reflexivity.
    - right. exists kv. split; [reflexivity|exact H'].
  Qed.

  Lemma dset_nodup k (v : V) d : NoDup (map fst d) -> NoDup (map fst (dset k v d)).
  Proof.
    induction d as [|[k1 v1] r IH]; cbn [dset map fst]; intros H.
    - constructor; [intros []|constructor].
    - inversion H as [|? ? Hnin Hnd]; subst.
      destruct (eqb_str_spec k k1) as [->|Hn]; cbn [map fst].
      + constructor; assumption.
      + constructor; [|apply IH; exact Hnd]. intros Hin.
        destruct (dset_keys _ _ _ _ Hin) as [->|Hin']; [congruence|contradiction].
  Qed.

  Lemma dget_In k (v : V) d : dget k d = Some v -> In (k, v) d.
  Proof.
    induction d as [|[k1 v1] r IH]; cbn [dget]; [discriminate|].
    destruct (eqb_str_spec k k1) as [->|Hn].
    - intros [= ->]. left. reflexivity.
    - intros H. right. apply IH. exact H.
  Qed.

  Lemma In_dget k (v : V) d : NoDup (map fst d) -> In (k, v) d -> dget k d = Some v.
  Proof.
    induction d as [|[k1 v1] r IH]; cbn [dget map fst]; intros Hnd Hin; [destruct Hin|].
    inversion Hnd as [|? ? Hnin Hnd']; subst. destruct Hin as [[= -> ->]|Hin].
    - rewrite eqb_str_refl. reflexivity.
    - destruct (eqb_str_spec k k1) as [->|Hn].
      + exfalso. apply Hnin. apply in_map_iff. exists (k1, v). split; [reflexivity|exact Hin].
      + apply IH; assumption.
  Qed.
End DictFacts.

Lemma mk_dict_snoc f fs e : mk_dict f (fs ++ [e]) = dset (f (fst e)) e (mk_dict f fs).
Proof. unfold mk_dict. rewrite fold_left_app. reflexivity. Qed.

Lemma mk_dict_nodup f fs : NoDup (map fst (mk_dict f fs)).
Proof.
  induction fs as [|e fs IH] using rev_ind; [constructor|].
  rewrite mk_dict_snoc. apply dset_nodup. exact IH.
Qed.

Lemma mk_dict_inv f fs k e : In (k, e) (mk_dict f fs) -> k = f (fst e) /\ In e fs.
Proof.
  induction fs as [|e' fs IH] using rev_ind; [intros []|].
  rewrite mk_dict_snoc. intros H. destruct (dset_In _ _ _ _ H) as [[= -> ->]|H'].
  - split; [reflexivity|]. apply in_or_app. right. left. reflexivity.
  - destruct (IH H') as [? ?]. split; [assumption|]. apply in_or_app. left. assumption.
Qed.

Lemma dget_mk_dict f fs k : dget k (mk_dict f fs) = find (fun e => eqb_str (f (fst e)) k) (rev fs).
Proof.
  induction fs as [|e fs IH] using rev_ind; [reflexivity|].
  rewrite mk_dict_snoc, dget_dset, rev_unit. cbn [find]. rewrite IH, (eqb_str_sym k). reflexivity.
Qed.

Lemma find_ext_in {A} (f g : A -> bool) l : (forall x, In x l -> f x = g x) -> find f l = find g l.
Proof.
  induction l as [|x l IH]; intros H; [reflexivity|]. cbn [find].
  rewrite <- (H x (or_introl eq_refl)). destruct (f x); [reflexivity|].
  apply IH. intros y Hy. apply H. right. exact Hy.
Qed.

(** * lookup *)
Definition entries (b : backend) (fs : list file) : list file := map snd (the_dict b fs).

Lemma dict_lookup_spec ops_s ops_q fs q :
  store_ops_ok ops_s = true -> key_ops_ok ops_q = true -> clean_fs fs = true ->
  dget (apply_ops ops_q q) (mk_dict (apply_ops ops_s) fs) = spec_lookup fs (prenorm (norm_kind ops_q) q).
Proof.
  intros Hs Hq Hc. rewrite dget_mk_dict. unfold spec_lookup. apply find_ext_in.
  intros e He. apply in_rev in He.
  rewrite (store_ops_clean _ _ Hs (clean_fs_In _ _ Hc He)), (key_ops_sem _ _ Hq). reflexivity.
Qed.

(** A query that the normalisation leaves alone (no redundant separators or dot segments, with either slash). *)
Definition stable (q : str) : Prop := normpath q = q /\ normpath (slash q) = slash q.
Lemma prenorm_stable k fs q : stable q -> spec_lookup fs (prenorm k q) = spec_lookup fs q.
Proof.
  intros [H1 H2]. destruct k; cbn [prenorm]; rewrite ?H1, ?H2; try reflexivity.
  unfold spec_lookup. rewrite nkey_slash. reflexivity.
Qed.

(** Every backend whose key functions have a recognised form implements the specification map: for *every* query,
    the file served is the specification's file for the query as the backend pre-normalises it ... *)
Theorem lookup_norm b fs q :
  store_ops_ok (b_store b) = true -> key_ops_ok (b_get b) = true -> clean_fs fs = true ->
  lookup b fs q = spec_lookup fs (prenorm (norm_kind (b_get b)) q).
Proof. intros. unfold lookup, the_dict. apply dict_lookup_spec; assumption. Qed.
Theorem exists_norm b fs q :
  store_ops_ok (b_store b) = true -> key_ops_ok (b_exists b) = true -> clean_fs fs = true ->
  exists_ b fs q = match spec_lookup fs (prenorm (norm_kind (b_exists b)) q) with Some _ => true | None => false end.
Proof. intros. unfold exists_, the_dict. rewrite dict_lookup_spec by assumption. reflexivity. Qed.
Theorem open_norm b fs q :
  store_ops_ok (b_store b) = true -> key_ops_ok (b_open b) = true -> clean_fs fs = true ->
  open_ b fs q = spec_lookup fs (prenorm (norm_kind (b_open b)) q).
Proof. intros. unfold open_, the_dict. apply dict_lookup_spec; assumption. Qed.

(** ... which is the query itself when the normalisation leaves it alone. *)
Theorem lookup_spec b fs q :
  store_ops_ok (b_store b) = true -> key_ops_ok (b_get b) = true -> clean_fs fs = true -> stable q ->
  lookup b fs q = spec_lookup fs q.
Proof. intros. rewrite lookup_norm by assumption. apply prenorm_stable. assumption. Qed.

Theorem exists_spec b fs q :
  store_ops_ok (b_store b) = true -> key_ops_ok (b_exists b) = true -> clean_fs fs = true -> stable q ->
  exists_ b fs q = match spec_lookup fs q with Some _ => true | None => false end.
Proof. intros. rewrite exists_norm, prenorm_stable by assumption. reflexivity. Qed.

Theorem open_spec b fs q :
  store_ops_ok (b_store b) = true -> key_ops_ok (b_open b) = true -> clean_fs fs = true -> stable q ->
  open_ b fs q = spec_lookup fs q.
Proof. intros. rewrite open_norm by assumption. apply prenorm_stable. assumption. Qed.

Lemma backend_keys_ok_inv b :
  backend_keys_ok b = true ->
  store_ops_ok (b_store b) = true /\ key_ops_ok (b_get b) = true /\ key_ops_ok (b_exists b) = true
  /\ key_ops_ok (b_open b) = true.
Proof.
  unfold backend_keys_ok. intros H. apply andb_true_iff in H as [H H4]. apply andb_true_iff in H as [H H3].
  apply andb_true_iff in H as [H1 H2]. repeat split; assumption.
Qed.

Theorem lookup_agree b1 b2 fs q :
  backend_keys_ok b1 = true -> backend_keys_ok b2 = true -> clean_fs fs = true -> stable q ->
  lookup b1 fs q = lookup b2 fs q
  /\ exists_ b1 fs q = exists_ b2 fs q
  /\ open_ b1 fs q = open_ b2 fs q
  /\ open_ b1 fs q = lookup b1 fs q
  /\ lookup b1 fs q = spec_lookup fs q.
Proof.
  intros H1 H2 Hc Hn.
  apply backend_keys_ok_inv in H1 as [? [? [? ?]]]. apply backend_keys_ok_inv in H2 as [? [? [? ?]]].
  rewrite !lookup_spec, !exists_spec, !open_spec by assumption. repeat split; reflexivity.
Qed.

(** When all query functions normalise the path after converting the slashes (today's source), the backends agree on
    every query string whatsoever: all of them serve the specification's file for [normpath (slash q)]. *)
Theorem lookup_agree_all b1 b2 fs q :
  backend_keys_norm b1 = true -> backend_keys_norm b2 = true -> clean_fs fs = true ->
  lookup b1 fs q = lookup b2 fs q
  /\ exists_ b1 fs q = exists_ b2 fs q
  /\ open_ b1 fs q = open_ b2 fs q
  /\ open_ b1 fs q = lookup b1 fs q
  /\ lookup b1 fs q = spec_lookup fs (normpath (slash q))
  /\ exists_ b1 fs q = match spec_lookup fs (normpath (slash q)) with Some _ => true | None => false end.
Proof.
  unfold backend_keys_norm, is_slashnorm. intros H1 H2 Hc.
  do 3 (apply andb_true_iff in H1 as [H1 ?]). do 3 (apply andb_true_iff in H2 as [H2 ?]).
  apply backend_keys_ok_inv in H1 as [? [? [? ?]]]. apply backend_keys_ok_inv in H2 as [? [? [? ?]]].
  rewrite !lookup_norm, !exists_norm, !open_norm by assumption.
  repeat match goal with H : match ?k with _ => _ end = true |- _ => destruct k; try discriminate; clear H end.
  repeat split; reflexivity.
Qed.

(** The specification ignores case and slash kind of the query. *)
Theorem spec_lookup_variant fs q q' : nkey q = nkey q' -> spec_lookup fs q = spec_lookup fs q'.
Proof. unfold spec_lookup. intros ->. reflexivity. Qed.

(** What is found is a stored file whose folded name is the folded query. *)
Theorem spec_lookup_sound fs q e : spec_lookup fs q = Some e -> In e fs /\ nkey (fst e) = nkey q.
Proof.
  unfold spec_lookup. intros H. apply find_some in H as [H1 H2].
  split; [apply in_rev; exact H1|apply eqb_str_eq; exact H2].
Qed.
Theorem spec_lookup_complete fs q : spec_lookup fs q = None -> forall e, In e fs -> nkey (fst e) <> nkey q.
Proof.
  unfold spec_lookup. intros H e He Hk. apply in_rev in He.
  pose proof (find_none _ _ H e He) as Hf. cbn in Hf. rewrite Hk, eqb_str_refl in Hf. discriminate.
Qed.

(** Without case-duplicates the order of the container does not matter. *)
Lemma find_perm_unique {A} (p : A -> bool) l l' :
  Permutation l l' -> (forall x y, In x l -> In y l -> p x = true -> p y = true -> x = y) ->
  find p l = find p l'.
Proof.
  intros HP Hu. destruct (find p l) as [x|] eqn:E.
  - apply find_some in E as [Hin Hp]. destruct (find p l') as [y|] eqn:E'.
    + apply find_some in E' as [Hin' Hp']. f_equal. apply Hu; try assumption.
      apply Permutation_sym in HP. apply (Permutation_in _ HP Hin').
    + pose proof (find_none _ _ E' x (Permutation_in _ HP Hin)) as Hf. congruence.
  - destruct (find p l') as [y|] eqn:E'; [|reflexivity].
    apply find_some in E' as [Hin' Hp']. apply Permutation_sym in HP.
    pose proof (find_none _ _ E y (Permutation_in _ HP Hin')) as Hf. congruence.
Qed.

Lemma NoDup_map_inj_in {A B} (f : A -> B) l x y :
  NoDup (map f l) -> In x l -> In y l -> f x = f y -> x = y.
Proof.
  induction l as [|a l IH]; cbn [map]; intros Hnd Hx Hy Hf; [destruct Hx|].
  inversion Hnd as [|? ? Hnin Hnd']; subst.
  destruct Hx as [->|Hx], Hy as [->|Hy]; try reflexivity.
  - exfalso. apply Hnin. rewrite Hf. apply in_map. exact Hy.
  - exfalso. apply Hnin. rewrite <- Hf. apply in_map. exact Hx.
  - apply IH; assumption.
Qed.

Theorem spec_lookup_perm fs fs' q :
  Permutation fs fs' -> NoDup (map (fun e => nkey (fst e)) fs) -> spec_lookup fs q = spec_lookup fs' q.
Proof.
  intros HP Hnd. unfold spec_lookup. apply find_perm_unique.
  - rewrite <- !Permutation_rev. exact HP.
  - intros x y Hx Hy Hpx Hpy. apply in_rev in Hx, Hy. apply eqb_str_eq in Hpx, Hpy.
    apply (NoDup_map_inj_in (fun e => nkey (fst e)) fs x y Hnd Hx Hy). congruence.
Qed.

(** The directory backend (exact names) agrees with the folded backends on exact-case names when no two stored
    names differ only in case. *)
Theorem raw_lookup_agree fs e :
  clean_fs fs = true -> NoDup (map (fun e => nkey (fst e)) fs) -> In e fs ->
  raw_lookup fs (fst e) = Some e /\ spec_lookup fs (fst e) = Some e.
Proof.
  intros Hc Hnd He.
  assert (U : forall p : file -> bool, (forall x, In x fs -> p x = true -> nkey (fst x) = nkey (fst e)) -> p e = true ->
              find p (rev fs) = Some e).
  { intros p Hp Hpe. destruct (find p (rev fs)) as [y|] eqn:E.
    - apply find_some in E as [Hy Hpy]. apply in_rev in Hy. f_equal.
      apply (NoDup_map_inj_in (fun e => nkey (fst e)) fs y e Hnd Hy He). apply Hp; assumption.
    - apply in_rev in He. pose proof (find_none _ _ E e He). congruence. }
  split.
  - unfold raw_lookup. rewrite (clean_name_normpath _ (clean_fs_In _ _ Hc He)). apply U.
    + intros x _ Hx. apply eqb_str_eq in Hx. rewrite Hx. reflexivity.
    + apply eqb_str_refl.
  - unfold spec_lookup. apply U.
    + intros x _ Hx. apply eqb_str_eq in Hx. exact Hx.
    + apply eqb_str_refl.
Qed.

(** * walk_folder *)
Lemma split_sf_spec l a t : split_sf l = (a, t) -> l = a ++ t /\ forallb is_sf a = true.
Proof.
  revert a t. induction l as [|o r IH]; intros a t; cbn [split_sf].
  - intros [= <- <-]. split; reflexivity.
  - destruct (is_sf o) eqn:E.
    + destruct (split_sf r) as [a' t'] eqn:E'. intros [= <- <-].
      destruct (IH a' t' eq_refl) as [-> H]. split; [reflexivity|]. cbn [forallb]. rewrite E, H. reflexivity.
    + intros [= <- <-]. split; reflexivity.
Qed.

Definition add_slash (s : str) : str := match s with [] => [] | _ :: _ => s ++ [SL] end.

Lemma has_rstrip_squash l : has_rstrip (squash l) = has_rstrip l.
Proof.
  induction l as [|o r IH]; [reflexivity|]. cbn [squash]. destruct r as [|o' r']; [reflexivity|].
  destruct (is_sf o && sop_eqb o o') eqn:E.
  - rewrite IH. apply andb_true_iff in E as [E _]. destruct o; try discriminate; reflexivity.
  - unfold has_rstrip in *. cbn [existsb]. cbn [existsb] in IH. rewrite IH. reflexivity.
Qed.

Lemma has_rstrip_after_norm l : has_rstrip (after_norm l) = has_rstrip l.
Proof.
  rewrite <- (has_rstrip_squash l). unfold after_norm. destruct (squash l) as [|[] [|[] r]]; reflexivity.
Qed.

Lemma has_rstrip_sf a t : forallb is_sf a = true -> has_rstrip (a ++ t) = has_rstrip t.
Proof.
  unfold has_rstrip. intros H. induction a as [|o a IH]; [reflexivity|].
  cbn [forallb] in H. apply andb_true_iff in H as [Ho Ha]. cbn [app existsb]. rewrite (IH Ha).
  destruct o; try discriminate; reflexivity.
Qed.

Lemma folder_ops_sem b folder :
  folder_ops_ok (b_wfolder b) = true ->
  apply_ops (b_wfolder b) folder = add_slash (folder_key b folder).
Proof.
  unfold folder_key, folder_ops_ok. generalize (b_wfolder b). intros l H.
  rewrite (apply_ops_norm l folder), <- (has_rstrip_after_norm l).
  destruct (split_sf (after_norm l)) as [a t] eqn:E. apply split_sf_spec in E as [E Hsf]. rewrite E.
  apply andb_true_iff in H as [Ha Ht]. rewrite apply_ops_app, (apply_sf_both a _ Ha), (has_rstrip_sf a t Hsf).
  destruct (uses_norm l).
  - repeat (destruct t as [|[] t]; try discriminate); reflexivity.
  - repeat (destruct t as [|[] t]; try discriminate); reflexivity.
Qed.

Lemma add_slash_prefix G k : is_prefix (add_slash G) k = true <-> path_prefix G k.
Proof.
  unfold path_prefix. destruct G as [|x G]; cbn [add_slash].
  - split; [left; reflexivity|reflexivity].
  - rewrite is_prefix_spec. split.
    + intros [r ->]. right. exists r. rewrite <- app_assoc. reflexivity.
    + intros [H|[r ->]]; [discriminate|]. exists r. rewrite <- app_assoc. reflexivity.
Qed.

Lemma walk_ok_src b fs folder : walk_ok b = true -> walk_src b fs folder = the_dict b fs.
Proof.
  unfold walk_ok, walk_over_dict, walk_src. intros H. apply andb_true_iff in H as [_ H].
  destruct (b_wsrc b); [reflexivity|discriminate].
Qed.
Lemma walk_ok_folder b : walk_ok b = true -> folder_ops_ok (b_wfolder b) = true.
Proof. unfold walk_ok. intros H. repeat (apply andb_true_iff in H as [H ?]). assumption. Qed.

Lemma walk_subj b fs k e :
  walk_ok b = true -> clean_fs fs = true -> In (k, e) (the_dict b fs) ->
  k = nkey (fst e) /\ subj_of b (k, e) = nkey (fst e) /\ In e fs.
Proof.
  unfold walk_ok, walk_subject_normalised. intros H Hc Hin.
  apply andb_true_iff in H as [H _]. apply andb_true_iff in H as [H Hsu]. apply andb_true_iff in H as [Hst Hfo].
  destruct (mk_dict_inv _ _ _ _ Hin) as [Hk He].
  rewrite (store_ops_clean _ _ Hst (clean_fs_In _ _ Hc He)) in Hk. subst k.
  split; [reflexivity|]. split; [|exact He].
  unfold subj_of. destruct (b_wsubj b); try discriminate. cbn [fst]. apply apply_sf_nkey. exact Hsu.
Qed.

(** walk_folder lists exactly the (surviving) files located inside the folder. *)
Theorem walk_exact b fs folder e :
  walk_ok b = true -> clean_fs fs = true ->
  (In e (walk b fs folder) <-> In e (entries b fs) /\ path_prefix (folder_key b folder) (nkey (fst e))).
Proof.
  intros Hw Hc. unfold walk, entries. rewrite (walk_ok_src b fs folder Hw), !in_map_iff.
  pose proof (walk_ok_folder b Hw) as Hfo.
  split.
  - intros [[k e'] [He Hin]]. cbn [snd] in He. subst e'. apply filter_In in Hin as [Hin Hp].
    destruct (walk_subj b fs k e Hw Hc Hin) as [_ [Hs _]].
    rewrite Hs, (folder_ops_sem b folder Hfo) in Hp. apply add_slash_prefix in Hp.
    split; [exists (k, e); split; [reflexivity|exact Hin]|exact Hp].
  - intros [[[k e'] [He Hin]] Hp]. cbn [snd] in He. subst e'. exists (k, e). split; [reflexivity|].
    apply filter_In. split; [exact Hin|].
    destruct (walk_subj b fs k e Hw Hc Hin) as [_ [Hs _]].
    rewrite Hs, (folder_ops_sem b folder Hfo). apply add_slash_prefix. exact Hp.
Qed.

(** The surviving entries are exactly the winners of the specification map. *)
Theorem entries_spec b fs e :
  store_ops_ok (b_store b) = true -> clean_fs fs = true ->
  (In e (entries b fs) <-> spec_lookup fs (fst e) = Some e).
Proof.
  intros Hs Hc. unfold entries, the_dict. split.
  - intros H. apply in_map_iff in H as [[k e'] [He Hin]]. cbn [snd] in He. subst e'.
    destruct (mk_dict_inv _ _ _ _ Hin) as [Hk He].
    pose proof (In_dget _ _ _ (mk_dict_nodup _ fs) Hin) as Hg.
    rewrite dget_mk_dict in Hg. unfold spec_lookup. rewrite <- Hg. apply find_ext_in.
    intros x Hx. apply in_rev in Hx. subst k.
    rewrite (store_ops_clean _ _ Hs (clean_fs_In _ _ Hc Hx)), (store_ops_clean _ _ Hs (clean_fs_In _ _ Hc He)). reflexivity.
  - intros H. pose proof (spec_lookup_sound _ _ _ H) as [He _].
    assert (Hg : dget (apply_ops (b_store b) (fst e)) (mk_dict (apply_ops (b_store b)) fs) = Some e).
    { rewrite dget_mk_dict. unfold spec_lookup in H. rewrite <- H. apply find_ext_in.
      intros x Hx. apply in_rev in Hx.
      rewrite (store_ops_clean _ _ Hs (clean_fs_In _ _ Hc Hx)), (store_ops_clean _ _ Hs (clean_fs_In _ _ Hc He)). reflexivity. }
    apply dget_In in Hg. apply in_map_iff. exists (apply_ops (b_store b) (fst e), e). split; [reflexivity|exact Hg].
Qed.

Lemma folder_key_empty b : folder_key b [] = [].
Proof. unfold folder_key, uses_norm. destruct (norm_kind (b_wfolder b)), (has_rstrip (b_wfolder b)); reflexivity. Qed.

Lemma filter_all {A} (p : A -> bool) l : (forall x, In x l -> p x = true) -> filter p l = l.
Proof.
  induction l as [|x l IH]; intros H; [reflexivity|]. cbn [filter].
  rewrite (H x (or_introl eq_refl)). f_equal. apply IH. intros y Hy. apply H. right. exact Hy.
Qed.

(** The empty folder means all files. *)
Theorem walk_empty_all b fs : walk_ok b = true -> walk b fs [] = entries b fs.
Proof.
  intros Hw. unfold walk, entries. rewrite (walk_ok_src b fs [] Hw). f_equal. apply filter_all. intros kv _.
  pose proof (walk_ok_folder b Hw) as Hfo.
  rewrite (folder_ops_sem b [] Hfo), folder_key_empty. reflexivity.
Qed.

(** Every listed name can be looked up and yields that file. *)
Theorem walk_lookup_closed b fs folder e :
  walk_ok b = true -> key_ops_ok (b_get b) = true -> clean_fs fs = true ->
  In e (walk b fs folder) -> lookup b fs (fst e) = Some e.
Proof.
  intros Hw Hg Hc Hin. unfold walk in Hin. rewrite (walk_ok_src b fs folder Hw) in Hin. apply in_map_iff in Hin as [[k e'] [He Hin]]. cbn [snd] in He. subst e'.
  apply filter_In in Hin as [Hin _].
  destruct (walk_subj b fs k e Hw Hc Hin) as [Hk [_ He]]. subst k.
  unfold lookup. rewrite (key_ops_clean _ _ Hg (clean_fs_In _ _ Hc He)).
  apply In_dget; [apply mk_dict_nodup|exact Hin].
Qed.

(** No name is listed twice (even up to case). *)
Theorem walk_nodup b fs folder :
  walk_ok b = true -> clean_fs fs = true -> NoDup (map (fun e => nkey (fst e)) (walk b fs folder)).
Proof.
  intros Hw Hc. unfold walk. rewrite (walk_ok_src b fs folder Hw), map_map.
  assert (H : forall d, (forall kv, In kv d -> In kv (the_dict b fs)) -> NoDup (map fst d) ->
              NoDup (map (fun kv : str * file => nkey (fst (snd kv))) d)).
  { intros d Hsub Hnd. rewrite (map_ext_in _ fst); [exact Hnd|].
    intros [k e] Hin. destruct (walk_subj b fs k e Hw Hc (Hsub _ Hin)) as [-> _]. reflexivity. }
  apply H.
  - intros kv Hkv. apply filter_In in Hkv as [Hkv _]. exact Hkv.
  - assert (F : forall (p : str * file -> bool) d, NoDup (map fst d) -> NoDup (map fst (filter p d))).
    { intros p d. induction d as [|x d IH]; cbn [filter map]; intros Hnd; [constructor|].
      inversion Hnd as [|? ? Hnin Hnd']; subst. destruct (p x); cbn [map]; [|apply IH; exact Hnd'].
      constructor; [|apply IH; exact Hnd']. intros Hin. apply Hnin.
      apply in_map_iff in Hin as [y [Hy Hin]]. apply filter_In in Hin as [Hin _].
      apply in_map_iff. exists y. split; assumption. }
    apply F. apply mk_dict_nodup.
Qed.

(** * the chain *)
Definition asks (q : str) (m : member) : option file := m_lookup m (full_name (m_prefix m) q).

Theorem chain_first_match ms q f :
  chain_get ms q = Some f <->
  exists pre m post, ms = pre ++ m :: post /\ asks q m = Some f /\ Forall (fun m' => asks q m' = None) pre.
Proof.
  unfold asks. induction ms as [|m ms IH]; cbn [chain_get].
  - split; [discriminate|]. intros [pre [m [post [H _]]]]. destruct pre; discriminate.
  - destruct (m_lookup m (full_name (m_prefix m) q)) as [g|] eqn:E.
    + split.
      * intros [= ->]. exists [], m, ms. repeat split; [exact E|constructor].
      * intros [pre [m' [post [H [Hf Hpre]]]]]. destruct pre as [|p pre]; cbn in H; injection H as -> ->.
        -- congruence.
        -- inversion Hpre; subst. congruence.
    + rewrite IH. split.
      * intros [pre [m' [post [-> [Hf Hpre]]]]]. exists (m :: pre), m', post.
        repeat split; [exact Hf|constructor; assumption].
      * intros [pre [m' [post [H [Hf Hpre]]]]]. destruct pre as [|p pre]; cbn in H; injection H as -> ->.
        -- congruence.
        -- inversion Hpre; subst. exists pre, m', post. repeat split; assumption.
Qed.

Theorem chain_get_none ms q : chain_get ms q = None <-> Forall (fun m => asks q m = None) ms.
Proof.
  unfold asks. induction ms as [|m ms IH]; cbn [chain_get].
  - split; [constructor|reflexivity].
  - destruct (m_lookup m (full_name (m_prefix m) q)) eqn:E.
    + split; [discriminate|]. intros H. inversion H; subst. congruence.
    + rewrite IH. split; [intros H; constructor; assumption|intros H; inversion H; assumption].
Qed.

(** add_sys(priority=True) with insertion index 0 puts the member in front of everything ... *)
Theorem chain_priority_first m ms q :
  chain_get (add_sys 0 true m ms) q = match asks q m with Some f => Some f | None => chain_get ms q end.
Proof. reflexivity. Qed.

Lemma chain_get_app ms ms' q :
  chain_get (ms ++ ms') q = match chain_get ms q with Some f => Some f | None => chain_get ms' q end.
Proof.
  induction ms as [|m ms IH]; cbn [chain_get app]; [reflexivity|].
  destruct (m_lookup m (full_name (m_prefix m) q)); [reflexivity|exact IH].
Qed.

(** ... and without it the member is consulted last. *)
Theorem chain_append_last i m ms q :
  chain_get (add_sys i false m ms) q = match chain_get ms q with Some f => Some f | None => asks q m end.
Proof.
  unfold add_sys, asks. rewrite chain_get_app. cbn [chain_get].
  destruct (chain_get ms q); [reflexivity|]. destruct (m_lookup m _); reflexivity.
Qed.

(** Subfolder-restricted members are addressed relative to their subfolder. *)
Lemma is_prefix_sl_rev_clean p : clean p = true -> is_prefix [SL] (rev p) = false.
Proof.
  (* a clean name has no empty last segment, so it does not end in '/' *)
  intros H. destruct (is_prefix [SL] (rev p)) eqn:E; [|reflexivity]. exfalso.
  apply is_prefix_spec in E as [r Hr]. assert (Hp : p = rev r ++ [SL]).
  { rewrite <- (rev_involutive p), Hr. cbn [app rev]. reflexivity. }
  clear Hr. unfold clean in H. subst p. revert H. generalize (rev r). clear r. intros a.
  assert (G : exists h l, split_on SL (a ++ [SL]) = (h :: l) ++ [[]]).
  { induction a as [|x a [h [l IH]]]; cbn [app split_on].
    - exists [], []. reflexivity.
    - destruct (x =? SL).
      + exists [], (h :: l). rewrite IH. reflexivity.
      + rewrite IH. cbn [app]. exists (x :: h), l. reflexivity. }
  destruct G as [h [l ->]]. rewrite forallb_app. cbn. rewrite andb_false_r. discriminate.
Qed.

Theorem chain_prefix_relative p q :
  clean p = true -> is_prefix [SL] q = false -> full_name p q = slash p ++ SL :: slash q.
Proof.
  intros Hp Hq. unfold full_name, pjoin. rewrite Hq. destruct p as [|x p]; [discriminate|].
  rewrite (is_prefix_sl_rev_clean _ Hp). unfold slash. rewrite map_app. reflexivity.
Qed.

Theorem chain_no_prefix q : full_name [] q = slash q.
Proof. unfold full_name, pjoin. destruct (is_prefix [SL] q); reflexivity. Qed.

(** A chain of one restricted member finds [q] exactly when the member's file set has [p/q]. *)
Theorem chain_member_lookup b fs p q :
  backend_keys_ok b = true -> clean_fs fs = true -> clean p = true -> is_prefix [SL] q = false ->
  normpath (slash p ++ SL :: slash q) = slash p ++ SL :: slash q ->
  chain_get [member_of b fs p] q = spec_lookup fs (p ++ SL :: q).
Proof.
  intros Hk Hc Hp Hq Hn. cbn [chain_get member_of m_lookup m_prefix].
  rewrite (chain_prefix_relative p q Hp Hq).
  apply backend_keys_ok_inv in Hk as [? [? [? ?]]].
  assert (Hst : stable (slash p ++ SL :: slash q)).
  { assert (E : slash p ++ SL :: slash q = slash (p ++ SL :: q)) by (unfold slash; rewrite map_app; reflexivity).
    split; [exact Hn|]. rewrite E, slash_idem, <- E. exact Hn. }
  rewrite lookup_spec by assumption.
  destruct (spec_lookup fs (slash p ++ SL :: slash q)) eqn:E;
    rewrite <- E; apply spec_lookup_variant;
    change (SL :: slash q) with (slash (SL :: q)); unfold slash; rewrite <- map_app; apply nkey_slash.
Qed.

(** * de-duplicated walk *)
Section Dedup.
  Variable keyf : str -> str.
  Notation key x := (keyf (fst x)).

  Lemma dedup_sub seen l x : In x (dedup_by keyf seen l) -> In x l /\ ~ In (key x) seen.
  Proof.
    revert seen. induction l as [|y l IH]; intros seen; cbn [dedup_by]; [intros []|].
    destruct (existsb (eqb_str (key y)) seen) eqn:E.
    - intros H. destruct (IH _ H). split; [right|]; assumption.
    - intros [<-|H].
      + split; [left; reflexivity|]. intros Hin. apply existsb_eqb_In in Hin. congruence.
      + destruct (IH _ H) as [H1 H2]. split; [right; exact H1|]. intros Hin. apply H2. right. exact Hin.
  Qed.

  Lemma dedup_nodup seen l : NoDup (map (fun x => key x) (dedup_by keyf seen l)).
  Proof.
    revert seen. induction l as [|y l IH]; intros seen; cbn [dedup_by]; [constructor|].
    destruct (existsb (eqb_str (key y)) seen); [apply IH|]. cbn [map]. constructor; [|apply IH].
    intros Hin. apply in_map_iff in Hin as [z [Hz Hin]]. destruct (dedup_sub _ _ _ Hin) as [_ Hn].
    apply Hn. left. symmetry. exact Hz.
  Qed.

  Lemma dedup_first seen l1 x l2 :
    ~ In (key x) seen -> (forall y, In y l1 -> key y <> key x) -> In x (dedup_by keyf seen (l1 ++ x :: l2)).
  Proof.
    revert seen. induction l1 as [|y l1 IH]; intros seen Hs Hl; cbn [app dedup_by].
    - destruct (existsb (eqb_str (key x)) seen) eqn:E; [apply existsb_eqb_In in E; contradiction|left; reflexivity].
    - assert (Hy : key y <> key x) by (apply Hl; left; reflexivity).
      assert (Hl' : forall z, In z l1 -> key z <> key x) by (intros z Hz; apply Hl; right; exact Hz).
      destruct (existsb (eqb_str (key y)) seen); [apply IH; assumption|]. right. apply IH; [|assumption].
      intros [H|H]; [congruence|contradiction].
  Qed.

  Lemma dedup_covers seen l x :
    In x l -> ~ In (key x) seen -> exists y, In y (dedup_by keyf seen l) /\ key y = key x.
  Proof.
    revert seen. induction l as [|z l IH]; intros seen Hin Hs; [destruct Hin|]. cbn [dedup_by].
    destruct (existsb (eqb_str (key z)) seen) eqn:E.
    - destruct Hin as [->|Hin]; [apply existsb_eqb_In in E; contradiction|]. apply IH; assumption.
    - destruct (eqb_str_spec (key z) (key x)) as [Hk|Hk].
      + exists z. split; [left; reflexivity|exact Hk].
      + destruct Hin as [->|Hin]; [congruence|].
        destruct (IH (key z :: seen) Hin) as [y [Hy Hky]].
        * intros [H|H]; [congruence|contradiction].
        * exists y. split; [right; exact Hy|exact Hky].
  Qed.
End Dedup.

(** The de-duplicated chain walk lists each (folded) name once, lists only what the members list, lists every
    name some member lists, and keeps the entry of the first (highest-priority) member. *)
Theorem chain_walk_dedup rm dops ms folder :
  let key := fun x : str * file => apply_ops dops (fst x) in
  let rep := chain_walk_repeat rm ms folder in
  let res := chain_walk rm dops ms folder in
  NoDup (map key res)
  /\ (forall x, In x res -> In x rep)
  /\ (forall x, In x rep -> exists y, In y res /\ key y = key x)
  /\ (forall l1 x l2, rep = l1 ++ x :: l2 -> (forall y, In y l1 -> key y <> key x) -> In x res).
Proof.
  cbv zeta. unfold chain_walk. repeat split.
  - apply (dedup_nodup (apply_ops dops)).
  - intros x H. apply (dedup_sub (apply_ops dops)) in H as [H _]. exact H.
  - intros x H. apply (dedup_covers (apply_ops dops)); [exact H|intros []].
  - intros l1 x l2 -> H. apply (dedup_first (apply_ops dops)); [intros []|exact H].
Qed.

(** When the de-duplication key is the case fold, names differing only in case are one name. *)
Theorem chain_walk_dedup_fold rm ms folder :
  NoDup (map (fun x : str * file => fold (fst x)) (chain_walk rm [OFold] ms folder)).
Proof. apply (chain_walk_dedup rm [OFold] ms folder). Qed.
