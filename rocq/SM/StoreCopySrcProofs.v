(** C09 round 2 — with [copy_sources_match] the positional census relation [fields_rel_src] IS the
    field-by-field relation [fields_rel] the round-1 census theorems assume; without it a census can pass
    every freshness / coverage check and still produce an observably different copy. *)
From Coq Require Import List PArith ZArith Bool String Lia.
From SV Require Import SM.Store SM.StoreProofs SM.StoreCopy SM.StoreCopyProofs SM.StoreCopySrc.
Import ListNotations.

Lemma how_sem_indep w h h' v1 v2 v' :
  needs_source w = false -> how_sem w h h' v1 v' -> how_sem w h h' v2 v'.
Proof. destruct w; cbn; try discriminate; auto. Qed.

Lemma existsb_eqb_In x l : existsb (String.eqb x) l = true <-> In x l.
Proof.
  rewrite existsb_exists. split.
  - intros (y & Hy & E). apply String.eqb_eq in E. subst. exact Hy.
  - intros H. exists x. split; [exact H|apply String.eqb_refl].
Qed.

Lemma nodupb_NoDup l : nodupb l = true -> NoDup l.
Proof.
  induction l as [|x r IH]; [constructor|]. cbn. rewrite andb_true_iff, negb_true_iff. intros [H1 H2].
  constructor; [|auto]. intros Hin. apply existsb_eqb_In in Hin. congruence.
Qed.

Lemma index_of_nth l : NoDup l -> forall p f, nth_error l p = Some f -> index_of f l = Some p.
Proof.
  induction 1 as [|x r Hx Hnd IH]; intros p f Hp; [destruct p; discriminate|].
  destruct p as [|p]; cbn in *.
  - inversion Hp; subst. rewrite String.eqb_refl. reflexivity.
  - destruct (String.eqb x f) eqn:E.
    + apply String.eqb_eq in E. subst. exfalso. apply Hx. eapply nth_error_In; eauto.
    + rewrite (IH _ _ Hp). reflexivity.
Qed.

(** Every row that reads the original reads exactly its own position. *)
Lemma resolve_identity c s :
  copy_sources_match c s = true ->
  forall p k w j, nth_error (resolve c s) p = Some (k, w, j) -> needs_source w = true -> j = Some p.
Proof.
  unfold copy_sources_match. rewrite andb_true_iff. intros [Hnd Hall] p k w j Hp Hw.
  apply nodupb_NoDup in Hnd. unfold resolve in Hp. rewrite nth_error_map in Hp.
  destruct (nth_error c p) as [row|] eqn:Er; [|discriminate]. cbn in Hp. inversion Hp; subst; clear Hp.
  rewrite forallb_forall in Hall. specialize (Hall row (nth_error_In _ _ Er)).
  unfold field_source_ok in Hall. rewrite Hw in Hall.
  destruct (src_of s (cname row)) as [[|g [|? ?]]|]; try discriminate.
  apply String.eqb_eq in Hall. subst g. apply index_of_nth; [exact Hnd|].
  unfold names. rewrite nth_error_map, Er. reflexivity.
Qed.

Lemma resolve_kw c s : map (fun r : srow => (fst (fst r), snd (fst r))) (resolve c s) = ck c.
Proof. unfold resolve, ck. rewrite map_map. apply map_ext. intros [[f k] w]. reflexivity. Qed.

(** Positional relation + identity sources = the field-by-field relation. *)
Lemma frs_fields_rel h h' orig :
  forall (c : census) pre rest rows vs',
  orig = pre ++ rest -> kinds_rel h c rest ->
  map (fun r : srow => (fst (fst r), snd (fst r))) rows = ck c ->
  (forall p k w j, nth_error rows p = Some (k, w, j) -> needs_source w = true -> j = Some (List.length pre + p)) ->
  fields_rel_src h h' orig rows vs' ->
  fields_rel h h' (ck c) rest vs'.
Proof.
  intros c pre rest rows vs' Ho Hk Hm Hid Hr. revert c pre rest Ho Hk Hm Hid.
  induction Hr as [|k w j rows v' vs' Hsem Hr IH]; intros c pre rest Ho Hk Hm Hid.
  - destruct c as [|row c]; [|discriminate]. inversion Hk; subst. constructor.
  - destruct c as [|[[f k0] w0] c]; [discriminate|]. cbn in Hm. inversion Hm as [[Hk0 Hw0 Hm']]; subst k0 w0; clear Hm.
    inversion Hk as [|f' k' w' c' v vs Hkv Hks]; subst. cbn [ck map fst snd].
    constructor.
    + exact Hkv.
    + unfold how_src_sem in Hsem. destruct (needs_source w) eqn:Ew.
      * destruct Hsem as (i & v0 & Hj & Hn & Hs).
        specialize (Hid 0 k w j eq_refl Ew). rewrite Hj in Hid. inversion Hid; subst i.
        rewrite Nat.add_0_r, nth_error_app2 in Hn by lia. rewrite Nat.sub_diag in Hn. cbn in Hn.
        inversion Hn; subst. exact Hs.
      * eapply how_sem_indep; eauto.
    + apply (IH c (pre ++ [v]) vs).
      * rewrite <- app_assoc. reflexivity.
      * exact Hks.
      * exact Hm'.
      * intros p k1 w1 j1 Hp Hw1. rewrite (Hid (S p) k1 w1 j1 Hp Hw1), app_length. cbn. f_equal. lia.
Qed.

Theorem sources_fields_rel h h' (c : census) (s : srcmap) orig vs' :
  copy_sources_match c s = true -> kinds_rel h c orig ->
  fields_rel_src h h' orig (resolve c s) vs' -> fields_rel h h' (ck c) orig vs'.
Proof.
  intros Hs Hk Hr. apply (frs_fields_rel h h' orig c [] orig (resolve c s) vs'); auto.
  - apply resolve_kw.
  - intros p k w j Hp Hw. cbn. eapply resolve_identity; eauto.
Qed.

(** Census with sources ⟹ independence, both directions, every mutation history. *)
Theorem census_src_copy_independent : forall (c : census) (s : srcmap) h h' la lc nd nd',
  closed h -> closed h' -> extends h h' -> h la = Some nd -> h lc = None -> h' lc = Some nd' ->
  copy_fresh_mutables c = true -> copy_sources_match c s = true ->
  kinds_rel h c (nfields nd) ->
  fields_rel_src h h' (nfields nd) (resolve c s) (nfields nd') ->
  (forall ms h'' R, steps (h', [lc]) ms (h'', R) -> forall n, unfold n h'' (VRef la) = unfold n h' (VRef la)) /\
  (forall ms h'' R, steps (h', [la]) ms (h'', R) -> forall n, unfold n h'' (VRef lc) = unfold n h' (VRef lc)).
Proof.
  intros c s h h' la lc nd nd' Hc Hc' He Hla Hlc Hlc' Hf Hs Hk Hr.
  apply (census_copy_independent c h h' la lc nd nd' Hc Hc' He Hla Hlc Hlc' Hf).
  eapply sources_fields_rel; eauto.
Qed.

(** Refutation of the census WITHOUT sources: both rows are (KImm, HShare) — fresh and covered — but the
    second field of the copy is built from the first field of the original; the copy is observably different. *)
Definition ws_census : census := [("multi_blend"%string, KImm, HShare); ("multi_alpha"%string, KImm, HShare)].
Definition ws_sources : srcmap := [("multi_blend"%string, ["multi_blend"%string]); ("multi_alpha"%string, ["multi_blend"%string])].
Definition ws_h : heap := fun l => match l with 1%positive => Some (Node true [VAtom 5%Z; VAtom 7%Z]) | _ => None end.
Definition ws_h' : heap := fun l => match l with
  | 1%positive => Some (Node true [VAtom 5%Z; VAtom 7%Z])
  | 2%positive => Some (Node true [VAtom 5%Z; VAtom 5%Z]) | _ => None end.

Theorem wrong_source_observable :
  copy_fresh_mutables ws_census = true /\ copy_covers_fields ws_census = true /\
  copy_sources_match ws_census ws_sources = false /\ wrong_source ws_census ws_sources = ["multi_alpha"%string] /\
  fields_rel_src ws_h ws_h' [VAtom 5%Z; VAtom 7%Z] (resolve ws_census ws_sources) [VAtom 5%Z; VAtom 5%Z] /\
  ~ obs_eq ws_h ws_h' (VRef 1%positive) (VRef 2%positive).
Proof.
  repeat split; try reflexivity.
  - cbn. constructor; [|constructor; [|constructor]].
    + exists 0%nat, (VAtom 5%Z). cbn. auto.
    + exists 0%nat, (VAtom 5%Z). cbn. auto.
  - intros H. specialize (H 1%nat). cbv in H. discriminate.
Qed.

(** ... and the hypotheses of [census_src_copy_independent] are satisfiable (sources = own fields). *)
Definition ok_sources : srcmap := [("multi_blend"%string, ["multi_blend"%string]); ("multi_alpha"%string, ["multi_alpha"%string])].
Example sources_match_example :
  copy_sources_match ws_census ok_sources = true /\
  fields_rel_src ws_h ws_h' [VAtom 5%Z; VAtom 7%Z] (resolve ws_census ok_sources) [VAtom 5%Z; VAtom 7%Z].
Proof.
  split; [reflexivity|]. cbn. constructor; [|constructor; [|constructor]].
  - exists 0%nat, (VAtom 5%Z). cbn. auto.
  - exists 1%nat, (VAtom 7%Z). cbn. auto.
Qed.
