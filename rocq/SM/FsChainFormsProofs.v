(** C19, round 3 — proofs about SM/FsChainForms.v. *)
From Coq Require Import List NArith Bool Lia.
From SV Require Import SM.FsChain SM.FsChainProofs SM.FsChainWitness SM.FsChainForms.
Import ListNotations.
Open Scope N_scope.

(** * [name in chain] *)

Lemma slash_only_apply ops s : slash_only ops = true -> apply_ops ops s = s \/ apply_ops ops s = slash s.
Proof.
  unfold apply_ops. revert s. induction ops as [|o r IH]; intros s H; [left; reflexivity|].
  cbn [slash_only forallb] in H. apply andb_true_iff in H as [Ho Hr]. destruct o; try discriminate.
  cbn [fold_left apply_op]. destruct (IH (slash s) Hr) as [E|E]; rewrite E; [right; reflexivity|].
  right. apply slash_idem.
Qed.

(** A member whose lookup does not tell the two slashes apart is asked, by a loop that joins the parameter with the
    member's own prefix, for a name it treats like the one [_get_file] asks it for. *)
Definition slash_blind (m : member) : Prop := forall n, m_lookup m (slash n) = m_lookup m n.

Lemma join_name_asks cond ops m q :
  slash_only ops = true -> slash_blind m ->
  m_lookup m (join_name cond ops (m_prefix m) q) = m_lookup m (full_name (m_prefix m) q).
Proof.
  intros Ho Hb. unfold full_name.
  assert (G : m_lookup m (apply_ops ops (pjoin (m_prefix m) q)) = m_lookup m (slash (pjoin (m_prefix m) q))).
  { destruct (slash_only_apply ops (pjoin (m_prefix m) q) Ho) as [E|E]; rewrite E; [symmetry; apply Hb|reflexivity]. }
  unfold join_name. destruct cond; [|exact G]. destruct (m_prefix m) as [|c p] eqn:Ep; [|exact G].
  assert (Hp : pjoin [] q = q) by (unfold pjoin; destruct (is_prefix [SL] q); reflexivity).
  rewrite Hp. symmetry. apply Hb.
Qed.

Definition xmember_ok (m : xmember) : Prop :=
  slash_blind (x_base m) /\ forall n, x_exists m n = is_some (m_lookup (x_base m) n).

Lemma chain_exists_loop_agrees cond ops ms cur q :
  slash_only ops = true -> Forall xmember_ok ms ->
  chain_exists_loop false cond ops ms cur q = is_some (chain_get (map x_base ms) q).
Proof.
  intros Ho Hms. revert cur. induction Hms as [|m r [Hb Hx] _ IH]; intros cur; [reflexivity|].
  cbn [chain_exists_loop map chain_get]. rewrite Hx, (join_name_asks cond ops (x_base m) q Ho Hb).
  destruct (m_lookup (x_base m) (full_name (m_prefix (x_base m)) q)); [reflexivity|]. apply IH.
Qed.

(** Every recognised sound shape of [_file_exists] answers exactly when [_get_file] finds a file: [name in chain]
    agrees with [chain[name]] for every chain (any ordering, restricted members that miss before members that hit). *)
Theorem chain_exists_agrees em ms q :
  exists_mode_ok em = true -> Forall xmember_ok ms ->
  chain_exists em ms q = is_some (chain_get (map x_base ms) q).
Proof.
  intros Hok Hms. destruct em as [|carry cond ops]; [reflexivity|].
  cbn [exists_mode_ok] in Hok. apply andb_true_iff in Hok as [Hc Ho]. destruct carry; [discriminate|].
  cbn [chain_exists]. apply chain_exists_loop_agrees; assumption.
Qed.

(** Backends of today's form are such members. *)
Lemma xmember_of_ok b fs p :
  backend_keys_norm b = true -> clean_fs fs = true -> xmember_ok (xmember_of b fs p).
Proof.
  intros Hk Hc. split.
  - intros n. cbn [xmember_of x_base member_of m_lookup].
    destruct (lookup_agree_all b b fs (slash n) Hk Hk Hc) as [_ [_ [_ [_ [E1 _]]]]].
    destruct (lookup_agree_all b b fs n Hk Hk Hc) as [_ [_ [_ [_ [E2 _]]]]].
    rewrite E1, E2, slash_idem. reflexivity.
  - intros n. cbn [xmember_of x_base x_exists member_of m_lookup].
    destruct (lookup_agree_all b b fs n Hk Hk Hc) as [_ [_ [_ [_ [E1 E2]]]]].
    rewrite E1, E2. destruct (spec_lookup fs (normpath (slash n))); reflexivity.
Qed.

Theorem chain_exists_agrees_backends em ms q :
  exists_mode_ok em = true ->
  Forall (fun m => exists b fs p, m = xmember_of b fs p /\ backend_keys_norm b = true /\ clean_fs fs = true) ms ->
  chain_exists em ms q = is_some (chain_get (map x_base ms) q)
  /\ is_some (chain_open (map x_base ms) q) = is_some (chain_get (map x_base ms) q).
Proof.
  intros Hok Hms. split; [|reflexivity]. apply chain_exists_agrees; [exact Hok|].
  eapply Forall_impl; [|exact Hms]. intros m [b [fs [p [-> [Hk Hc]]]]]. apply xmember_of_ok; assumption.
Qed.

(** A loop that re-assigns the name it joins: after a restricted member that misses, the next member is asked for the
    wrong name.  "s"-restricted member without "s/x", then an unrestricted member holding "x": [chain["x"]] finds the
    file, ["x" in chain] says no. *)
Definition carry_witness : list xmember :=
  [xmember_of fixed_zip [([121], [9])] [115]; xmember_of fixed_zip [([120], [1])] []].
Theorem chain_exists_carried_refuted :
  exists_mode_ok (ExLoop true true [OSlash]) = false
  /\ chain_get (map x_base carry_witness) [120] = Some ([120], [1])
  /\ chain_exists (ExLoop true true [OSlash]) carry_witness [120] = false
  /\ chain_exists (ExLoop false true [OSlash]) carry_witness [120] = true
  /\ chain_exists ExViaGet carry_witness [120] = true
  /\ Forall xmember_ok carry_witness.
Proof.
  split; [vm_compute; reflexivity|]. split; [vm_compute; reflexivity|]. split; [vm_compute; reflexivity|].
  split; [vm_compute; reflexivity|]. split; [vm_compute; reflexivity|].
  unfold carry_witness. apply Forall_cons; [|apply Forall_cons; [|apply Forall_nil]];
    apply xmember_of_ok; vm_compute; reflexivity.
Qed.

(** * the bytes of a file kept in a VPK *)

Lemma cexpr_whole_sound c : forall nt f,
  cexpr_whole nt c = true -> (nt = true -> vf_tail f = []) -> ceval c f = vf_read f.
Proof.
  induction c as [| |a IHa b IHb|a IHa b IHb]; intros nt f H Hnt; cbn [ceval cexpr_whole] in *.
  - reflexivity.
  - unfold vf_read. rewrite (Hnt H), app_nil_r. reflexivity.
  - apply andb_true_iff in H as [Ha Hb]. destruct (vf_in_dir f); [eapply IHa|eapply IHb]; eassumption.
  - apply andb_true_iff in H as [Ha Hb]. destruct (vf_tail f) eqn:E.
    + apply (IHa true f Ha). intros _. exact E.
    + apply (IHb nt f Hb). intros Hn. specialize (Hnt Hn). discriminate.
Qed.

Lemma vf_place_read limit in_dir data : vf_read (vf_place limit in_dir data) = data.
Proof. unfold vf_read, vf_place. cbn [vf_pre vf_tail]. apply firstn_skipn. Qed.

(** An expression recognised as whole yields the stored bytes for every split between preload and rest and for both
    homes of the rest: preload only ([limit >= length data]), directory tail, numbered archive, single-file VPK. *)
Theorem ceval_whole_all_placements c limit in_dir data :
  cexpr_whole false c = true -> ceval c (vf_place limit in_dir data) = data.
Proof.
  intros H. rewrite (cexpr_whole_sound c false _ H); [apply vf_place_read|discriminate].
Qed.

(** ... hence a VPK backend whose [open_bin] reads through such an expression returns, for every query, the bytes any
    other backend of today's form holding the same files returns. *)
Theorem open_bytes_same c limit in_dir b1 b2 fs q :
  cexpr_whole false c = true -> backend_keys_norm b1 = true -> backend_keys_norm b2 = true -> clean_fs fs = true ->
  open_bytes c limit in_dir b1 fs q = option_map snd (open_ b2 fs q)
  /\ open_bytes c limit in_dir b1 fs q = option_map snd (lookup b2 fs q).
Proof.
  intros Hc H1 H2 Hf. unfold open_bytes.
  destruct (lookup_agree_all b1 b2 fs q H1 H2 Hf) as [_ [_ [E [_ _]]]].
  destruct (lookup_agree_all b2 b2 fs q H2 H2 Hf) as [_ [_ [_ [E2 _]]]].
  rewrite <- E2, <- E. destruct (open_ b1 fs q) as [e|]; cbn [option_map]; [|split; reflexivity].
  rewrite (ceval_whole_all_placements c limit in_dir (snd e) Hc). split; reflexivity.
Qed.

(** The preload-when-in-the-directory shortcut drops the directory tail: 3 bytes, 2 of them preloaded. *)
Theorem ceval_preload_shortcut_refuted :
  let c := CIfDir CPreload CRead in
  cexpr_whole false c = false
  /\ ceval c (vf_place 2 true [1; 2; 3]) = [1; 2]
  /\ ceval c (vf_place 2 false [1; 2; 3]) = [1; 2; 3]
  /\ ceval c (vf_place 3 true [1; 2; 3]) = [1; 2; 3]
  /\ ceval CRead (vf_place 2 true [1; 2; 3]) = [1; 2; 3]
  /\ cexpr_whole false (CIfNoTail CPreload CRead) = true
  /\ open_bytes c 2 true fixed_zip [([120], [1; 2; 3])] [120] = Some [1; 2]
  /\ option_map snd (open_ fixed_zip [([120], [1; 2; 3])] [120]) = Some [1; 2; 3].
Proof. vm_compute. repeat split; reflexivity. Qed.
