(** The temp-name loop of [AtomicWriter.make_tempfile] ([for i in count(1): try open('x') except FileExistsError])
    terminates, and where it settles.

    * One writer alone, at most the names tmp_1..tmp_N present: the loop settles on the *least free* index j <= N+1
      after exactly j attempts, creates only tmp_j and touches nothing else ([open_loop_least_free]).
    * Two writers under every schedule and fault pattern: every open attempt, every held temp name and every EOpen
      event in the trace has an index <= N+2 ([temp_index_bounded]); indexes of one writer's attempts strictly
      increase, so each writer makes at most N+2 attempts however the two are interleaved. *)
From Coq Require Import List Bool Arith PeanoNat Lia.
From SV Require Import SM.AtomicWriter SM.AtomicWriterProofs SM.AtomicWriterThms SM.AtomicExit SM.AtomicExitProofs.
Import ListNotations.

(** * Alone: least free index *)
Definition exist_events (i n : nat) : list event := map (fun k => (EOpen k, RExist)) (seq i n).

Lemma run1_step c s fu k p d : finished p = false ->
  run1 c s (S fu) k [] p d =
  let '(p', d', e) := wstep c s p d false in
  let '(pf, df, es) := run1 c s fu (S k) [] p' d' in
  (pf, df, match e with Some e => e :: es | None => es end).
Proof. destruct p; intros H; try discriminate; reflexivity. Qed.

Lemma run1_open_loop c s : c_excl c = true -> forall n i d k0,
  (forall k, i <= k < i + n -> d (Tmp k) <> None) -> d (Tmp (i + n)) = None ->
  run1 c s (S n) k0 [] (POpen i) d =
  (after_body s (i + n) 0, upd d (Tmp (i + n)) (Some []), exist_events i n ++ [(EOpen (i + n), ROk)]).
Proof.
  intros Hx. induction n as [|n IH]; intros i d k0 Hex Hfree.
  - rewrite Nat.add_0_r in *. rewrite run1_step by reflexivity. cbn [wstep]. rewrite Hx, Hfree. cbn. reflexivity.
  - rewrite run1_step by reflexivity. cbn [wstep]. rewrite Hx.
    destruct (d (Tmp i)) eqn:E; [|exfalso; apply (Hex i); [lia|exact E]].
    cbn [andb is_some].
    specialize (IH (S i) d (S k0)).
    replace (S i + n) with (i + S n) in IH by lia.
    rewrite IH.
    + reflexivity.
    + intros k Hk. apply Hex. lia.
    + exact Hfree.
Qed.

(** The least free index at or above [i], searching [fuel] candidates. *)
Fixpoint least_free (d : dir) (i fuel : nat) : option nat :=
  match fuel with
  | O => None
  | S fu => if is_some (d (Tmp i)) then least_free d (S i) fu else Some i
  end.

Lemma least_free_spec d : forall fuel i j, least_free d i fuel = Some j ->
  i <= j < i + fuel /\ d (Tmp j) = None /\ forall k, i <= k < j -> d (Tmp k) <> None.
Proof.
  induction fuel as [|fu IH]; intros i j H; cbn in H; [discriminate|].
  destruct (d (Tmp i)) eqn:E; cbn in H.
  - apply IH in H as (A & B & C). repeat split; auto; try lia.
    intros k Hk. destruct (Nat.eq_dec k i) as [->|]; [congruence|]. apply C. lia.
  - inversion H; subst. repeat split; auto; try lia; intros; lia.
Qed.

Lemma least_free_exists d N : (forall i, N < i -> d (Tmp i) = None) ->
  forall fuel i, i + fuel = S (S N) -> 1 <= fuel -> exists j, least_free d i fuel = Some j.
Proof.
  intros HN. induction fuel as [|fu IH]; intros i Hs Hf; [lia|]. cbn.
  destruct (d (Tmp i)) eqn:E; cbn; [|eauto].
  destruct fu as [|fu'].
  - (* i = N+1: must be free *) rewrite HN in E by lia. discriminate.
  - apply IH; lia.
Qed.

Theorem open_loop_least_free c s d0 N : c_excl c = true -> (forall i, N < i -> d0 (Tmp i) = None) ->
  exists j, 1 <= j <= S N /\ d0 (Tmp j) = None /\ (forall k, 1 <= k < j -> d0 (Tmp k) <> None) /\
    run1 c s (S j) 0 [] PMkdir d0 =
    (after_body s j 0, upd d0 (Tmp j) (Some []),
     (EMkdir, ROk) :: exist_events 1 (j - 1) ++ [(EOpen j, ROk)]).
Proof.
  intros Hx HN. destruct (least_free_exists d0 N HN (S N) 1) as [j Hj]; [lia|lia|].
  destruct (least_free_spec _ _ _ _ Hj) as (A & B & C).
  exists j. repeat split; auto; try lia.
  rewrite run1_step by reflexivity. cbn [wstep].
  destruct j as [|j']; [lia|].
  pose proof (run1_open_loop c s Hx j' 1 d0 1) as H.
  replace (1 + j') with (S j') in H by lia.
  rewrite H.
  - replace (S j' - 1) with j' by lia. reflexivity.
  - intros k Hk. apply C. lia.
  - exact B.
Qed.

(** * Two writers, every schedule: the index is bounded *)
Definition pre_open (p : pc) : bool := match p with PMkdir | POpen _ => true | _ => false end.
(** The index a writer is trying to create, holds, or has left behind. *)
Definition idx (p : pc) : option nat := match p with POpen i => Some i | _ => assoc p end.

Section Bound.
Variable c : cfg.
Hypothesis Hsafe : cfg_safe c = true.
Variable d0 : dir.
Variables s1 s2 : scen.
Hypothesis Hdest : dest s1 <> dest s2.
Variable N : nat.
Hypothesis HN : forall i, N < i -> d0 (Tmp i) = None.

Lemma idx_after_tail s i j : idx (after_tail s i j) = Some i.
Proof. unfold after_tail. destruct (j <? length (tail s)); reflexivity. Qed.
Lemma idx_after_body s i k : idx (after_body s i k) = Some i.
Proof.
  unfold after_body. destruct (raises_here s k); [reflexivity|].
  destruct (k <? length (body s)); [reflexivity|apply idx_after_tail].
Qed.
Lemma pre_after_tail s i j : pre_open (after_tail s i j) = false.
Proof. unfold after_tail. destruct (j <? length (tail s)); reflexivity. Qed.
Lemma pre_after_body s i k : pre_open (after_body s i k) = false.
Proof.
  unfold after_body. destruct (raises_here s k); [reflexivity|].
  destruct (k <? length (body s)); [reflexivity|apply pre_after_tail].
Qed.
Lemma idx_act a i : idx (act_pc a i) = Some i.
Proof. destruct a; reflexivity. Qed.
Lemma pre_act a i : pre_open (act_pc a i) = false.
Proof. destruct a; reflexivity. Qed.

Lemma idx_step s p d f p' d' e : wstep c s p d f = (p', d', e) -> forall i, idx p' = Some i ->
  idx p = Some i \/ (p = PMkdir /\ i = 1) \/ (exists j, p = POpen j /\ i = S j /\ d (Tmp j) <> None).
Proof.
  intros H i Hi. destruct p as [|j|j k|j k|j exc failed|j|j|r l]; cbn [wstep] in H.
  - destruct f; inversion H; subst; cbn in Hi; [discriminate|]. inversion Hi. auto.
  - destruct f; [inversion H; subst; discriminate|].
    destruct (d (Tmp j)) eqn:Ed; cbn [is_some] in H; rewrite ?andb_true_r, ?andb_false_r in H.
    + destruct (c_excl c).
      * inversion H; subst. cbn in Hi. inversion Hi; subst. right; right. exists j. repeat split; auto. congruence.
      * inversion H; subst. rewrite idx_after_body in Hi. left. exact Hi.
    + inversion H; subst. rewrite idx_after_body in Hi. left. exact Hi.
  - destruct f; inversion H; subst; [cbn in Hi|rewrite idx_after_body in Hi]; left; exact Hi.
  - destruct f; inversion H; subst; [cbn in Hi|rewrite idx_after_tail in Hi]; left; exact Hi.
  - destruct (f || failed).
    + inversion H; subst. destruct (c_close_guard c); cbn in Hi; left; exact Hi.
    + inversion H; subst. rewrite idx_act in Hi. left; exact Hi.
  - destruct f.
    + inversion H; subst. destruct (c_replace_guard c); cbn in Hi; left; exact Hi.
    + destruct (d (Tmp j)).
      * inversion H; subst. discriminate.
      * inversion H; subst. destruct (c_replace_guard c); cbn in Hi; [left; exact Hi|discriminate].
  - destruct f.
    + inversion H; subst. left; exact Hi.
    + destruct (d (Tmp j)); inversion H; subst; discriminate.
  - inversion H; subst. left; exact Hi.
Qed.

Lemma pre_open_mono s p d f p' d' e : wstep c s p d f = (p', d', e) -> pre_open p = false -> pre_open p' = false.
Proof.
  intros H Hp. destruct p as [|j|j k|j k|j exc failed|j|j|r l]; cbn in Hp; try discriminate; cbn [wstep] in H.
  - destruct f; inversion H; subst; [reflexivity|apply pre_after_body].
  - destruct f; inversion H; subst; [reflexivity|apply pre_after_tail].
  - destruct (f || failed); inversion H; subst; [destruct (c_close_guard c); reflexivity|apply pre_act].
  - destruct f; [inversion H; subst; destruct (c_replace_guard c); reflexivity|].
    destruct (d (Tmp j)); inversion H; subst; [reflexivity|destruct (c_replace_guard c); reflexivity].
  - destruct f; [inversion H; subst; reflexivity|]. destruct (d (Tmp j)); inversion H; subst; reflexivity.
  - inversion H; subst. reflexivity.
Qed.

Lemma assoc_not_pre p i : assoc p = Some i -> pre_open p = false.
Proof. destruct p; cbn; intros; try discriminate; reflexivity. Qed.
Lemma open_event s p d f p' d' i r : wstep c s p d f = (p', d', Some (EOpen i, r)) -> p = POpen i.
Proof.
  intros H. destruct p as [|j|j k|j k|j exc failed|j|j|r' l]; cbn [wstep] in H.
  - destruct f; inversion H.
  - destruct f; [inversion H; subst; reflexivity|].
    destruct (c_excl c && is_some (d (Tmp j))); inversion H; subst; reflexivity.
  - destruct f; inversion H.
  - destruct f; inversion H.
  - destruct (f || failed); inversion H.
  - destruct f; [inversion H|]. destruct (d (Tmp j)); inversion H.
  - destruct f; [inversion H|]. destruct (d (Tmp j)); inversion H.
  - inversion H.
Qed.

Definition BndOne (pa pb : pc) : Prop :=
  forall i, idx pa = Some i -> i <= N + 2 /\ (i = N + 2 -> pre_open pb = false).

Record J (st : sys) : Prop := {
  j_one : BndOne (p1 st) (p2 st);
  j_two : BndOne (p2 st) (p1 st);
  j_tr : forall w i r, In (w, (EOpen i, r)) (tr st) -> i <= N + 2
}.

(** One writer [pa] steps, the other [pb] stands still. *)
Lemma bnd_step sa sb pa pb d f pa' d' e :
  Frame d0 sa sb pa pb d -> BndOne pa pb -> BndOne pb pa ->
  wstep c sa pa d f = (pa', d', e) ->
  BndOne pa' pb /\ BndOne pb pa' /\ (forall i r, e = Some (EOpen i, r) -> i <= N + 2).
Proof.
  intros Fr B1 B2 H. split; [|split].
  - intros i Hi. destruct (idx_step _ _ _ _ _ _ _ H i Hi) as [A|[[-> ->]|(j & -> & -> & Hex)]].
    + exact (B1 i A).
    + lia.
    + destruct (B1 j eq_refl) as [Hle Hpre].
      destruct (Nat.le_gt_cases j N) as [Hs|Hb]; [lia|].
      (* tmp_j exists and is not an initial file: the other writer holds it *)
      assert (Hheld : assoc pb = Some j).
      { destruct (assoc pb) as [m|] eqn:Em.
        - destruct (Nat.eq_dec m j) as [->|Hne]; [reflexivity|]. exfalso. apply Hex.
          rewrite (Fr (Tmp j)); [apply HN; lia|discriminate|discriminate|].
          intros i0 E0. inversion E0; subst. cbn. split; congruence.
        - exfalso. apply Hex. rewrite (Fr (Tmp j)); [apply HN; lia|discriminate|discriminate|].
          intros i0 E0. inversion E0; subst. cbn. split; congruence. }
      assert (Hidx : idx pb = Some j) by (destruct pb; cbn in *; congruence).
      destruct (B2 j Hidx) as [Hle2 Hpre2].
      destruct (Nat.eq_dec j (N + 2)) as [->|Hne].
      * (* the other writer acquired N+2 only while we were past the open loop: contradiction *)
        specialize (Hpre2 eq_refl). discriminate.
      * split; [lia|]. intros _. exact (assoc_not_pre _ _ Hheld).
  - intros i Hi. destruct (B2 i Hi) as [Hle Hpre]. split; [exact Hle|].
    intros Hi2. eapply pre_open_mono; eauto.
  - intros i0 r0 ->. apply open_event in H. subst. exact (proj1 (B1 i0 eq_refl)).
Qed.

Lemma J_step st wf : Inv d0 s1 s2 st -> J st -> J (step2 c s1 s2 st wf).
Proof.
  intros [_ _ _ _ _ Fr] [B1 B2 Bt]. destruct wf as [who f]. unfold step2. destruct who.
  - destruct (wstep c s2 (p2 st) (sd st) f) as [[p' d'] e] eqn:E.
    destruct (bnd_step s2 s1 _ _ _ _ _ _ _ (Frame_sym _ _ _ _ _ _ Fr) B2 B1 E) as (A & B & C).
    constructor; cbn; auto.
    intros w i r Hin. destruct e as [e|]; [|eauto].
    apply in_app_or in Hin as [Hin|[Hin|[]]]; [eauto|]. inversion Hin; subst. eapply C; eauto.
  - destruct (wstep c s1 (p1 st) (sd st) f) as [[p' d'] e] eqn:E.
    destruct (bnd_step s1 s2 _ _ _ _ _ _ _ Fr B1 B2 E) as (A & B & C).
    constructor; cbn; auto.
    intros w i r Hin. destruct e as [e|]; [|eauto].
    apply in_app_or in Hin as [Hin|[Hin|[]]]; [eauto|]. inversion Hin; subst. eapply C; eauto.
Qed.

Lemma J_run sched : forall st, Inv d0 s1 s2 st -> J st -> J (run2 c s1 s2 sched st).
Proof.
  unfold run2. induction sched as [|wf r IH]; intros st HI HJ; cbn [fold_left]; [exact HJ|].
  apply IH; [apply (inv_step c Hsafe d0 s1 s2 Hdest); assumption|apply J_step; assumption].
Qed.

Lemma J_start : J (start d0).
Proof. constructor; cbn; try (intros i H; discriminate). intros w i r []. Qed.

Theorem temp_index_bounded : forall sched,
  let st := run2 c s1 s2 sched (start d0) in
  (forall i, idx (p1 st) = Some i -> i <= N + 2) /\
  (forall i, idx (p2 st) = Some i -> i <= N + 2) /\
  (forall w i r, In (w, (EOpen i, r)) (tr st) -> i <= N + 2).
Proof.
  intros sched st.
  destruct (J_run sched (start d0) (inv_start d0 s1 s2) J_start) as [B1 B2 Bt].
  repeat split; auto.
  - intros i Hi. exact (proj1 (B1 i Hi)).
  - intros i Hi. exact (proj1 (B2 i Hi)).
Qed.
End Bound.

(** The same for every generated protocol in the family (tree machine). *)
Definition idxt (p : pct) : option nat := match p with TOpen i => Some i | _ => assoct p end.
Lemma R_idx c pt p : R c pt p -> idxt pt = idx p.
Proof. destruct 1; reflexivity. Qed.

Theorem proto_temp_index_bounded x d0 s1 s2 N : dest s1 <> dest s2 -> proto_safe x = true ->
  (forall i, N < i -> d0 (Tmp i) = None) -> forall sched,
  let st := run2t x s1 s2 sched (startt d0) in
  (forall i, idxt (q1 st) = Some i -> i <= N + 2) /\
  (forall i, idxt (q2 st) = Some i -> i <= N + 2) /\
  (forall w i r, In (w, (EOpen i, r)) (trt st) -> i <= N + 2).
Proof.
  intros Hd H HN sched st. destruct (psafe_family x H) as [Hf Hs].
  destruct (run2t_refines x Hf d0 s1 s2 sched) as (_ & Ht & H1 & H2). fold st in Ht, H1, H2.
  rewrite Ht, (R_idx _ _ _ H1), (R_idx _ _ _ H2).
  exact (temp_index_bounded (derive_cfg x) Hs d0 s1 s2 Hd N HN sched).
Qed.

(** The bound is attained: with tmp_1..tmp_N present (here N = 1) and a concurrent writer that has taken tmp_2,
    the first writer settles on tmp_3 = tmp_(N+2). *)
Example bound_is_tight :
  let d := dir_of [(File 0, [100]); (Tmp 1, [111])] in
  let st := run2 cfg_fixed sc_a sc_b
              [(true, false); (true, false); (true, false); (false, false); (false, false); (false, false);
               (false, false)] (start d) in
  assoc (p2 st) = Some 2 /\ assoc (p1 st) = Some 3.
Proof. vm_compute. auto. Qed.
