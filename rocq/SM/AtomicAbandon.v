(** Entering a writer that still holds a temp file (round 5).

    The histories of SM/AtomicReuse.v are words over COMPLETE uses: every [__enter__] is followed by its [__exit__], and
    [exit_always_leaves o 0 VNone] says that no handle survives an [__exit__].  A use may also be ABANDONED without
    [__exit__] (the writer entered by hand or through a generator that is never resumed, a caller that leaks the
    context): the object then still holds an open handle, and the temp file of that attempt, when it is entered again.
    What happens then is decided by the statements of [make_tempfile] before mkdir and the temp-name loop — the entry
    prologue [aw_entry_prog], which [entry_inert] (SM/AtomicRetry.v) judges only in the states WITHOUT a handle.

    Here the prologue is judged in the states WITH a handle (slot 0 = [VTemp]).  [reentry_tree] is its decision tree;
    the continuation tells apart the three ways it can end: it falls through (mkdir and the temp-name loop follow: a
    fresh temp file is created), an exception leaves it (the entry fails, the [with] statement raises), or it RETURNS /
    leaves early — then no new temp file is created and the use goes on writing into the file of the abandoned attempt
    (seeded c12_8: "we still own it, truncate(0) and start again"; truncate does not move the stream position, the
    repeated write commits NUL padding followed by the new data).  [reentry_ok]: the prologue closes the handle, removes
    its file by name, and only then falls through; when the close fails the entry fails.  [reentry_forgets]: on every
    path on which the entry fails the handle is forgotten (slot 0 = None), so that a later entry does not come back to
    the NAME, which by then may be gone or belong to another writer (the defect repaired in round 5, and the entry-side
    twin of seeded c12_7).

    [pro_run] gives the tree its meaning on a directory in which the object holds tmp_j; AtomicAbandonProofs.v shows
    that a prologue with [reentry_ok] changes nothing but tmp_j, and that the use that follows is a [good_use] relative
    to the directory the prologue left: the destination is old or the complete new content OF THIS USE. *)
From Coq Require Import List Bool Arith PeanoNat.
From SV Require Import SM.AtomicWriter SM.AtomicExit SM.AtomicReuse SM.AtomicRetry.
Import ListNotations.

Definition reentry_k : xenv -> xst -> xtree := fun _ st =>
  match st with
  | StN => XDone false          (* goes on to mkdir / the temp-name loop *)
  | StExc _ => XDone true       (* the entry fails *)
  | _ => XBad                   (* returns early: no new temp file, the old handle is kept in use *)
  end.
Definition reentry_tree (o : wobj) (p : xstmt) (a : astate) : xtree :=
  exec p None (env_of (o_attrs o) a false) reentry_k.

Definition is_leaf (t : xtree) : bool := match t with XDone _ => true | _ => false end.
Definition is_raise (t : xtree) : bool := match t with XDone true => true | _ => false end.
(** After a failing close: the entry fails, at once or after an attempt to remove the file. *)
Definition fail_part (t : xtree) : bool :=
  match t with
  | XDone true => true
  | XUnlink a b c => is_raise a && is_raise b && is_raise c
  | _ => false
  end.
(** close; then unlink: removed => goes on; refused / already gone => a leaf (goes on or fails); close failed => fails. *)
Definition gives_up (t : xtree) : bool :=
  match t with
  | XClose (XUnlink (XDone false) b c) fl => is_leaf b && is_leaf c && fail_part fl
  | _ => false
  end.

(** The attribute states in which the object holds a handle. *)
Definition holding (o : wobj) : list astate :=
  filter (fun a => is_val VTemp (env_of (o_attrs o) a false 0)) (states (o_attrs o) (o_init o) (o_const o)).
Definition reentry_ok (o : wobj) (p : xstmt) : bool :=
  negb (Nat.eqb (length (holding o)) 0) && forallb (fun a => gives_up (reentry_tree o p a)) (holding o).
(** The same for a handle that is already closed (the caller closed the file by hand): a prologue that does not close
    it again is as good. *)
Definition gives_up_closed (t : xtree) : bool :=
  gives_up t || match t with XUnlink (XDone false) b c => is_leaf b && is_leaf c | _ => false end.
Definition reentry_ok_closed (o : wobj) (p : xstmt) : bool :=
  forallb (fun a => gives_up_closed (reentry_tree o p a)) (holding o).
Definition reentry_forgets (o : wobj) (p : xstmt) : bool :=
  forallb (fun a => all_leaves (exec p None (env_of (o_attrs o) a false)
                                     (fun e st => XDone (match st with StExc _ => is_val VNone (e 0) | _ => true end))))
          (holding o).

(** ** Meaning of a prologue tree on a directory: the object holds tmp_j; [fs]: which operations are refused.
    Result: the directory afterwards and how the prologue ended ([Some false]: goes on, [Some true]: the entry failed,
    [None]: outside the model / returned early). *)
Fixpoint pro_run (t : xtree) (j : nat) (fs : list bool) (d : dir) : dir * option bool :=
  let f := hd false fs in
  match t with
  | XDone b => (d, Some b)
  | XBad => (d, None)
  | XClose ok fl => pro_run (if f then fl else ok) j (tl fs) d
  | XUnlink ok fl ne =>
      if f then pro_run fl j (tl fs) d
      else match d (Tmp j) with
           | Some _ => pro_run ok j (tl fs) (upd d (Tmp j) None)
           | None => pro_run ne j (tl fs) d
           end
  | XReplace ok fl ne => (d, None)
  end.

(** ** Example prologues *)
(** rounds 1-4: [if self.temp is not None: self.temp.close(); Path(self.temp.name).unlink()] *)
Definition prologue_r4 : xstmt := prologue_fixed.
(** round 5 (repaired): the handle is taken out of the attribute first, the file removed even when the close failed:
    [temp, self.temp = self.temp, None; try: temp.close() finally: try: unlink except FileNotFoundError: pass] *)
Definition prologue_r5 : xstmt :=
  SIf (TIsNot (EV 0) (EC VNone))
      (SSeq (SSeq (SAssign 10 (EV 0)) (SSeq (SAssign 11 (EC VNone)) (SSeq (SAssign 12 (EV 10)) (SAssign 0 (EV 11)))))
            (STry (SCall MClose (EV 12) [] false) HNil SSkip
                  (STry (SCall MUnlink (ENameOf (EV 12)) [] false) (HCons [KNoEnt] SSkip HNil) SSkip SSkip)))
      SSkip.
(** seeded c12_8: a handle that is still open is kept ([truncate(0)] has no effect on the directory: [SSkip]; the
    test [not self.temp.closed] is true for the handle of an abandoned attempt) and the function returns. *)
Definition prologue_keep_open_handle : xstmt :=
  SIf (TIsNot (EV 0) (EC VNone))
      (SSeq (SIf (TNot (TTruth (EC VFalse))) (SSeq SSkip (SReturn false)) SSkip)
            (SCall MUnlink (ENameOf (EV 0)) [] false))
      SSkip.
