(** C17 — collapse_all with the ancestry check when file names may come from $variables (round 5).

    SM/C17Rounds.v [loop2] identifies a pending instance with its file and takes a fixed inclusion graph: every nested
    func_instance names its file literally.  Here a pending instance is a STATE (a natural number: the file together with
    everything handed down in the fixup variables), [fl s] is its file, and [kids s] lists the states of the nested
    instances that collapsing [s] adds to the map, each with a flag: [true] when the `file` keyvalue in the instance file
    has no `$` (collapse_one then records [parents + (filename,)]), [false] when it has (the parents are reset to [()]).
    The loop without the check is [C17Rounds.loop] over the state graph [map fst (kids s)].

    The one thing assumed about the graph ([lit_by_file]): a literal link belongs to the FILE - whatever the fixup
    variables are, collapsing a file produces its literal nested instances, with the same file names
    (c17_substitute_name_free_identity: a value without `$` is not changed by substitution; the template is cached per file). *)
From Coq Require Import List Arith.
From SV Require Import SM.C17Rounds.
Import ListNotations.

Definition item3 := (nat * list file)%type.

Section Graph3.
  Variable fl : nat -> file.
  Variable kids : nat -> list (nat * bool).
  Variable perm : list item3 -> list item3.

  Definition children3 (s : nat) : list nat := map fst (kids s).

  Definition expand3 (x : item3) : list item3 :=
    map (fun cb : nat * bool => (fst cb, if snd cb then fl (fst x) :: snd x else [])) (kids (fst x)).
  Definition is_loop3 (x : item3) : bool := existsb (Nat.eqb (fl (fst x))) (snd x).

  Fixpoint before3 (p : list item3) : nat :=
    match p with [] => 0 | x :: r => if is_loop3 x then 0 else S (before3 r) end.

  Fixpoint loop3 (limit : nat) (pending : list item3) : outcome * nat * nat :=
    match limit with
    | 0 => (Raise, 0, 0)
    | S k =>
        match pending with
        | [] => (Done, 0, 0)
        | _ :: _ =>
            let q := perm pending in
            if existsb is_loop3 q then (Raise, 1, before3 q)
            else let '(o, r, w) := loop3 k (flat_map expand3 q) in (o, S r, length q + w)
        end
    end.

  Definition start3 (roots : list nat) : list item3 := map (fun s => (s, [])) roots.

  (** a literal link belongs to the file *)
  Definition lit_by_file : Prop :=
    forall s s', fl s = fl s' -> forall c, In (c, true) (kids s) -> exists c', In (c', true) (kids s') /\ fl c' = fl c.
End Graph3.
