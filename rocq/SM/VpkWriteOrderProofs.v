(** Accepted rejection tables: FileInfo.write with its validations is the OWrite case of [step] (a rejected write stores nothing).
    The table of seeded c13_7: the rejected write leaves the new checksum on the old data. *)
From Coq Require Import List NArith Bool Lia.
From SV Require Import Fmt.VpkDir SM.Vpk SM.VpkProofs SM.VpkPlace SM.VpkPlaceProofs SM.VpkPlaceTable SM.VpkPlaceTableProofs SM.VpkWriteOrder.
Import ListNotations.
Open Scope N_scope.

Lemma kind_eqb_true a b : kind_eqb a b = true -> a = b.
Proof. destruct a, b; cbn; congruence. Qed.
Lemma lnil_true {A} (l : list A) : lnil l = true -> l = [].
Proof. destruct l; cbn; congruence. Qed.

Lemma rej_find jt : rej_table_ok jt = true -> forall d s k,
  exists r, find (rej_key d s k) jt = Some r /\ rej_row_ok r = true /\ j_dir r = d /\ j_same r = s /\ j_kind r = k.
Proof.
  intros Hok d s k. unfold rej_table_ok in Hok. apply andb_true_iff in Hok. destruct Hok as [Hrows Hcov].
  destruct (find (rej_key d s k) jt) as [r|] eqn:Hf.
  - exists r. apply find_some in Hf. destruct Hf as [Hin Hk]. rewrite forallb_forall in Hrows.
    unfold rej_key in Hk. apply andb_true_iff in Hk. destruct Hk as [Hk Hk3]. apply andb_true_iff in Hk. destruct Hk as [Hk1 Hk2].
    apply beq_true in Hk1, Hk2. apply kind_eqb_true in Hk3. repeat split; auto.
  - exfalso. unfold rej_covers in Hcov. rewrite forallb_forall in Hcov.
    assert (Hs : In (d, s, k) rej_keys) by (destruct d, s, k; cbn; tauto).
    specialize (Hcov _ Hs). cbn beta iota in Hcov. apply existsb_exists in Hcov. destruct Hcov as [r [Hin Hr]].
    rewrite (find_none _ _ Hf _ Hin) in Hr. discriminate.
Qed.

Theorem write_guarded_is_model jt pt : rej_table_ok jt = true -> place_table_ok pt = true -> forall crc cf st i d ix,
  v_chk_idx cf = true ->
  write_guarded_t jt pt crc cf st i d ix = Some (write_guarded_model crc cf st i d ix).
Proof.
  intros Hj Hp crc cf st i d ix Hchk. unfold write_guarded_t, write_guarded_model, idx_rejected.
  rewrite (write_info_t_is_write_info pt Hp). rewrite Hchk. cbn [andb].
  destruct (writable (md st)) eqn:Hw; cbn [negb].
  - destruct (idx_ok cf ix) eqn:Hi; cbn [negb].
    + rewrite andb_false_r. reflexivity.
    + rewrite andb_true_r.
      destruct (rej_find jt Hj (v_is_dir cf) (crc d =? icrc i) KIndex) as (r & Hf & Hok & Hd & Hs & Hk).
      rewrite Hf. unfold rej_row_ok in Hok. rewrite Hk, Hd in Hok.
      destruct (v_is_dir cf).
      * apply andb_true_iff in Hok. destruct Hok as [Hok Hn]. apply andb_true_iff in Hok. destruct Hok as [Hr Hb].
        apply kind_eqb_true in Hb. apply lnil_true in Hn. rewrite Hr, Hb, Hn. reflexivity.
      * apply negb_true_iff in Hok. rewrite Hok. reflexivity.
  - set (k := if negb (idx_ok cf ix) then KBoth else KMode).
    destruct (rej_find jt Hj (v_is_dir cf) (crc d =? icrc i) k) as (r & Hf & Hok & Hd & Hs & Hk).
    rewrite Hf. unfold rej_row_ok in Hok. rewrite Hk in Hok.
    assert (Hok' : j_raised r && kind_eqb (j_by r) KMode && lnil (j_dirty r) = true) by (subst k; destruct (negb (idx_ok cf ix)); exact Hok).
    apply andb_true_iff in Hok'. destruct Hok' as [Hok' Hn]. apply andb_true_iff in Hok'. destruct Hok' as [Hr Hb].
    apply kind_eqb_true in Hb. apply lnil_true in Hn. rewrite Hr, Hb, Hn. reflexivity.
Qed.

(** a rejected write changes nothing (what the refinement proof of SM/VpkRefine.v uses through [step]) *)
Corollary rejected_write_stores_nothing jt pt : rej_table_ok jt = true -> place_table_ok pt = true -> forall crc cf st i d ix st' i' c,
  v_chk_idx cf = true -> write_guarded_t jt pt crc cf st i d ix = Some (st', i', c) -> c <> rOk -> st' = st /\ i' = i.
Proof.
  intros Hj Hp crc cf st i d ix st' i' c Hchk H Hc. rewrite (write_guarded_is_model jt pt Hj Hp) in H by exact Hchk.
  unfold write_guarded_model in H. destruct (negb (writable (md st))); [inversion H; auto|].
  destruct (idx_rejected cf ix); [inversion H; auto|].
  destruct (write_info crc cf st i d ix). inversion H. subst c. contradiction.
Qed.

Lemma table_pinned_ok : place_table_ok table_pinned = true.
Proof. vm_compute. reflexivity. Qed.

Theorem rej_tables_computed :
  rej_table_ok rej_table_pinned = true /\ rej_table_ok rej_table_late_check = false
  /\ rej_table_ok (filter (fun r => negb (kind_eqb (j_kind r) KBoth)) rej_table_pinned) = false.
Proof. vm_compute. repeat split; reflexivity. Qed.

(** seeded c13_7 as a table: in a directory VPK a write of different data with an index out of range is rejected, but the entry keeps the
    NEW checksum on the OLD data: it reads back as before and no longer verifies; writing the same data again with a valid index is
    then taken for "same data, nothing to do" and stores nothing. *)
Theorem late_check_rejected_write_breaks_verify crc cf st i d ix ix2 :
  v_is_dir cf = true -> writable (md st) = true -> idx_ok cf ix = false -> idx_ok cf ix2 = true -> (crc d =? icrc i) = false ->
  verify_info crc st i = true ->
  let i' := mkInfo (crc d) (ipre i) (iidx i) (ioff i) (ilen i) in
  write_guarded_t rej_table_late_check table_pinned crc cf st i d ix = Some (st, i', rBadIndex)
  /\ read_info st i' = read_info st i /\ verify_info crc st i' = false
  /\ write_guarded_t rej_table_late_check table_pinned crc cf st i' d ix2 = Some (st, i', rOk).
Proof.
  intros Hd Hw Hi Hi2 Hc Hv i'. split; [|split; [|split]].
  - unfold write_guarded_t. rewrite (write_info_t_is_write_info _ table_pinned_ok). rewrite Hw, Hi, Hd, Hc. cbn [negb].
    destruct (write_info crc cf st i d ix) as [sn inew] eqn:E.
    assert (Hcrc : icrc inew = crc d).
    { unfold write_info in E. rewrite Hc in E. destruct split_rule as [lim force].
      destruct (skipn (N.to_nat lim) d); [inversion E; reflexivity|].
      destruct (if force then None else ix); inversion E; reflexivity. }
    cbn. rewrite Hcrc. reflexivity.
  - reflexivity.
  - unfold verify_info in *. change (read_info st i') with (read_info st i). cbn [icrc i'].
    apply N.eqb_eq in Hv. rewrite Hv. apply N.eqb_neq. apply N.eqb_neq in Hc. congruence.
  - unfold write_guarded_t, write_info_t. cbn [icrc i']. rewrite N.eqb_refl, Hw, Hi2. reflexivity.
Qed.

(** The OWrite case of the state machine is FileInfo.write run from the two generated tables: look the entry up, run the guarded write,
    store the new entry when the call was accepted; a rejected call leaves the state as it was. *)
Theorem step_write_is_guarded_tables jt pt : rej_table_ok jt = true -> place_table_ok pt = true -> forall crc cf st k d ix,
  v_chk_idx cf = true ->
  step crc cf st (OWrite k d ix) =
    match alookup k (tbl st) with
    | None => Some (st, rMissing)
    | Some i => match write_guarded_t jt pt crc cf st i d ix with
                | Some (st', i', c) => Some (if c =? rOk then with_tbl st' (aset k i' (tbl st')) else st', c)
                | None => None
                end
    end.
Proof.
  intros Hj Hp crc cf st k d ix Hchk. cbn [step]. destruct (alookup k (tbl st)) as [i|]; [|reflexivity].
  rewrite (write_guarded_is_model jt pt Hj Hp) by exact Hchk. unfold write_guarded_model.
  destruct (negb (writable (md st))); [reflexivity|].
  destruct (idx_rejected cf ix); [reflexivity|].
  unfold do_write. destruct (write_info crc cf st i d ix) as [st' i']. reflexivity.
Qed.
