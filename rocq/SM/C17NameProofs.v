(** C17 — proofs about [fixup_name] for every decision table that passes the named boolean checks of SM/C17Name.v. *)
From Coq Require Import NArith List Bool.
From SV Require Import SM.C17Name.
Import ListNotations.
Open Scope N_scope.

Lemma str_eqb_eq : forall a b, str_eqb a b = true -> a = b.
Proof.
  induction a as [|x a IH]; destruct b as [|y b]; cbn [str_eqb]; intros H; try discriminate; [reflexivity|].
  apply andb_true_iff in H as [H1 H2]. apply N.eqb_eq in H1. subst. f_equal. apply IH, H2.
Qed.

Lemma strs_eqb_eq : forall a b, strs_eqb a b = true -> a = b.
Proof.
  induction a as [|x a IH]; destruct b as [|y b]; cbn [strs_eqb]; intros H; try discriminate; [reflexivity|].
  apply andb_true_iff in H as [H1 H2]. apply str_eqb_eq in H1. subst. f_equal. apply IH, H2.
Qed.

Lemma piece_eqb_eq : forall a b, piece_eqb a b = true -> a = b.
Proof. destruct a, b; cbn; intros H; try discriminate; try reflexivity. f_equal. apply str_eqb_eq, H. Qed.

Lemma pieces_eqb_eq : forall a b, pieces_eqb a b = true -> a = b.
Proof.
  induction a as [|x a IH]; destruct b as [|y b]; cbn [pieces_eqb]; intros H; try discriminate; [reflexivity|].
  apply andb_true_iff in H as [H1 H2]. apply piece_eqb_eq in H1. subst. f_equal. apply IH, H2.
Qed.

Lemma rule_is_find : forall c st ps, rule_is c st ps = true -> find_rule st (rules c) = Some ps.
Proof.
  unfold rule_is. intros c st ps. destruct (find_rule st (rules c)); [|discriminate].
  intros H. f_equal. apply pieces_eqb_eq, H.
Qed.

Definition expected (st : style) (inst name : str) : str :=
  match st with
  | SNone => name
  | SPrefix => inst ++ [DASH] ++ name
  | SSuffix => name ++ [DASH] ++ inst
  end.

Lemma cfg_ok_parts : forall c, cfg_ok c = true ->
  guard_prefixes c = [[AT]; [BANG]] /\ find_rule SNone (rules c) = Some [PName] /\
  find_rule SPrefix (rules c) = Some [PInst; PLit [DASH]; PName] /\
  find_rule SSuffix (rules c) = Some [PName; PLit [DASH]; PInst].
Proof.
  unfold cfg_ok. intros c H.
  apply andb_true_iff in H as [H H4]. apply andb_true_iff in H as [H H3]. apply andb_true_iff in H as [H1 H2].
  repeat split; [apply strs_eqb_eq, H1 | apply rule_is_find, H2 | apply rule_is_find, H3 | apply rule_is_find, H4].
Qed.

(** The three FixupStyle values; empty names and names starting with '@' or '!' are untouched. *)
Theorem fixup_name_cases : forall c, cfg_ok c = true -> forall st inst name,
  (name = [] -> fixup_name c st inst name = Some []) /\
  (forall ch rest, name = ch :: rest -> ch = AT \/ ch = BANG -> fixup_name c st inst name = Some name) /\
  (forall ch rest, name = ch :: rest -> ch <> AT -> ch <> BANG -> fixup_name c st inst name = Some (expected st inst name)).
Proof.
  intros c H st inst name. destruct (cfg_ok_parts c H) as (G & RN & RP & RS).
  split; [intros ->; reflexivity|]. split.
  - intros ch rest -> [-> | ->]; unfold fixup_name; rewrite G; reflexivity.
  - intros ch rest -> H1 H2. unfold fixup_name. rewrite G.
    cbn [existsb starts_with]. apply N.eqb_neq in H1, H2.
    rewrite (N.eqb_sym AT ch), (N.eqb_sym BANG ch), H1, H2. cbn [andb orb].
    destruct st; [rewrite RP | rewrite RS | rewrite RN]; cbn [option_map render flat_map expected app];
      rewrite ?app_nil_r; reflexivity.
Qed.

Theorem fixup_name_total : forall c, cfg_ok c = true -> forall st inst name, fixup_name c st inst name <> None.
Proof.
  intros c H st inst name. destruct (fixup_name_cases c H st inst name) as (A & B & C).
  destruct name as [|ch rest]; [rewrite A; [discriminate|reflexivity]|].
  destruct (N.eq_dec ch AT) as [E|E]; [rewrite (B ch rest eq_refl (or_introl E)); discriminate|].
  destruct (N.eq_dec ch BANG) as [E'|E']; [rewrite (B ch rest eq_refl (or_intror E')); discriminate|].
  rewrite (C ch rest eq_refl E E'). discriminate.
Qed.

(** With a non-trivial style, distinct instance names give distinct entity names (no accidental merging of two
    copies of the same template): the renaming is injective in the instance name for a fixed entity name. *)
Theorem fixup_name_separates_instances : forall c, cfg_ok c = true -> forall st i1 i2 ch rest,
  st <> SNone -> ch <> AT -> ch <> BANG ->
  fixup_name c st i1 (ch :: rest) = fixup_name c st i2 (ch :: rest) -> i1 = i2.
Proof.
  intros c H st i1 i2 ch rest Hs H1 H2.
  destruct (fixup_name_cases c H st i1 (ch :: rest)) as (_ & _ & C1).
  destruct (fixup_name_cases c H st i2 (ch :: rest)) as (_ & _ & C2).
  rewrite (C1 ch rest eq_refl H1 H2), (C2 ch rest eq_refl H1 H2). intros E. injection E as E.
  destruct st; [| |contradiction]; unfold expected in E.
  - (* prefix: i1 ++ "-" ++ name = i2 ++ "-" ++ name *)
    apply (f_equal (@rev N)) in E. rewrite !rev_app_distr in E. apply app_inv_head in E.
    apply (f_equal (@rev N)) in E. rewrite !rev_involutive in E. exact E.
  - apply app_inv_head in E. apply app_inv_head in E. exact E.
Qed.

(** The reference table passes the checks (the hypothesis of the theorems is satisfiable). *)
Example ref_cfg_ok : cfg_ok ref_cfg = true.
Proof. reflexivity. Qed.

(** A table without the '-' separator, or with prefix and suffix exchanged, is rejected by a named check. *)
Example swapped_rejected :
  rule_prefix_ok {| guard_prefixes := [[AT]; [BANG]];
                    rules := [(SNone, [PName]); (SPrefix, [PName; PLit [DASH]; PInst]); (SSuffix, [PInst; PLit [DASH]; PName])] |} = false.
Proof. reflexivity. Qed.
