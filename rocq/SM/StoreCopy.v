(** C09 — copy census: what kind of value a data field holds and how copy() fills the corresponding field
    of the new object; the booleans that the check evaluates on the census regenerated from vmf.py /
    keyvalues.py; and the heap-level meaning of both.  Proofs in StoreCopyProofs.v. *)
From Coq Require Import List PArith ZArith Bool String.
From SV Require Import SM.Store.
Import ListNotations.

(** Kind of a data field.
    [KImm]: immutable value (int, str, float, bool, enum, None, frozen attrs object, tuple of those);
    [KCtx]: the map back pointer (context, not part of the object's value);
    [KId]: an ID the copy gets afresh;
    [KMut]: a mutable object (Vec, UVAxis, Array, FixupValue, EntityFixup, ...), possibly None;
    [KCont e]: a mutable container (list/set/dict), possibly None; [e] = its elements are mutable objects. *)
Inductive kind := KImm | KCtx | KId | KMut | KCont (elem_mut : bool).

(** How copy() produces the field of the new object.
    [HShare]: the very same reference; [HCtx]: the (possibly replaced) map; [HNewId]: a new/desired ID;
    [HDeep]: a freshly built object all of whose mutable parts are fresh ([x.copy()], [[p.copy() for p in xs]]);
    [HShallow]: a fresh container holding the SAME elements ([list(xs)], [set(xs)], [dict.copy()]);
    [HMissing]: copy() never sets it (the constructor default stays). *)
Inductive how := HShare | HDeep | HShallow | HMissing | HCtx | HNewId.

(** Independence of one field. *)
Definition field_fresh (k : kind) (w : how) : bool :=
  match k, w with
  | (KImm | KCtx | KId), _ => true
  | KMut, (HDeep | HMissing) => true
  | KMut, _ => false
  | KCont false, (HDeep | HShallow | HMissing) => true
  | KCont true, (HDeep | HMissing) => true
  | KCont _, _ => false
  end.

(** Completeness of one field. *)
Definition field_covered (w : how) : bool := match w with HMissing => false | _ => true end.

Definition census := list (string * kind * how).
Definition ck (c : census) : list (kind * how) := map (fun x => (snd (fst x), snd x)) c.

Definition copy_fresh_mutables (c : census) : bool := forallb (fun x => field_fresh (snd (fst x)) (snd x)) c.
Definition copy_covers_fields (c : census) : bool := forallb (fun x => field_covered (snd x)) c.

(** Names of the offending fields (for the failure report). *)
Definition not_fresh (c : census) : list string :=
  map (fun x => fst (fst x)) (filter (fun x => negb (field_fresh (snd (fst x)) (snd x))) c).
Definition not_covered (c : census) : list string :=
  map (fun x => fst (fst x)) (filter (fun x => negb (field_covered (snd x))) c).

(** Heap meaning of a kind, for the field value [v] of the original in heap [h]. *)
Definition kind_sem (k : kind) (h : heap) (v : val) : Prop :=
  match k with
  | KImm | KCtx | KId => no_mut h v
  | KMut | KCont true => True
  | KCont false =>
    match v with
    | VAtom _ => True
    | VRef c => forall nd el, h c = Some nd -> In el (nfields nd) -> no_mut h el
    end
  end.

(** Heap meaning of a "how": relation between the original's field [v] (in [h]) and the copy's field [v']
    (in the extended heap [h']). *)
Definition how_sem (w : how) (h h' : heap) (v v' : val) : Prop :=
  match w with
  | HShare | HCtx => v' = v
  | HNewId => exists z, v' = VAtom z
  | HDeep | HMissing => new_mut h h' v'
  | HShallow =>
    match v with
    | VAtom z => v' = VAtom z
    | VRef c => exists c' nd m, v' = VRef c' /\ h c' = None /\ h c = Some nd /\ h' c' = Some (Node m (nfields nd))
    end
  end.

Inductive fields_rel (h h' : heap) : list (kind * how) -> list val -> list val -> Prop :=
| fr_nil : fields_rel h h' [] [] []
| fr_cons k w cen v vs v' vs' :
    kind_sem k h v -> how_sem w h h' v v' -> fields_rel h h' cen vs vs' ->
    fields_rel h h' ((k, w) :: cen) (v :: vs) (v' :: vs').

(** Observational equality of an original value and its copy. *)
Definition obs_eq (h h' : heap) (v v' : val) : Prop := forall n, unfold n h' v' = unfold n h v.
