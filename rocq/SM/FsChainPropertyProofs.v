(** C19, round 4 — [property_holds] for every configuration that passes [source_ok]: assembled from the theorems of
    rounds 1-4 (no new mathematics here, only the composition with all hypotheses visible). *)
From Coq Require Import List NArith Bool.
From SV Require Import SM.FsChain SM.FsChainProofs SM.FsChainRel SM.FsChainRaw SM.FsChainCompose SM.FsChainForms
     SM.FsChainFormsProofs SM.FsChainWhole SM.FsChainWholeProofs SM.FsChainRead SM.FsChainReadProofs SM.FsChainAdd
     SM.FsChainAddProofs SM.FsChainWalkGen SM.FsChainNoise SM.FsChainNoiseRaw SM.FsChainProperty.
Import ListNotations.
Open Scope N_scope.

Record source_facts (s : source_cfg) : Prop := {
  f_backend : forall b, In b (s_backends s) -> backend_keys_norm b = true /\ walk_ok b = true /\ walk_norm b = true;
  f_content : forall c, In c (s_contents s) -> cexpr_whole false c = true;
  f_reader : rexpr_whole None false (s_reader s) = true;
  f_get : raw_ops_ok (s_raw_get s) = true; f_exists : raw_ops_ok (s_raw_exists s) = true;
  f_open : raw_ops_ok (s_raw_open s) = true; f_walk : raw_ops_ok (s_raw_walk s) = true;
  f_rel : raw_rel_ok (s_raw_rel s) = true;
  f_guard : guard_ok (s_guard s) = true; f_actions : actions_ok (s_prio s) (s_plain s) = true;
  f_exmode : exists_mode_ok (s_exists s) = true;
  f_dedup : s_dedup s = DedupSkip; f_relmode : s_rel s = RelDropSegs;
  f_dops : dedup_ops_ok (s_dedup_ops s) = true }.

Lemma source_ok_facts s : source_ok s = true -> source_facts s.
Proof.
  unfold source_ok. intros H. repeat (apply andb_true_iff in H as [H ?]).
  constructor; try assumption.
  - intros b Hb. rewrite forallb_forall in H. specialize (H b Hb). unfold backend_today in H.
    apply andb_true_iff in H as [H Hn]. apply andb_true_iff in H as [Hk Hw]. repeat split; assumption.
  - intros c Hc. match goal with Hx : forallb (cexpr_whole false) _ = true |- _ => rewrite forallb_forall in Hx; exact (Hx c Hc) end.
  - destruct (s_dedup s); [reflexivity|discriminate].
  - destruct (s_rel s); [discriminate|reflexivity].
Qed.

Lemma keys_norm_inv b : backend_keys_norm b = true -> store_ops_ok (b_store b) = true /\ key_ops_ok (b_get b) = true.
Proof. intros H. apply backend_keys_norm_ok in H. apply backend_keys_ok_inv in H as [Hs [Hg _]]. split; assumption. Qed.

Theorem backends_agree_holds s : source_ok s = true -> backends_agree s.
Proof.
  intros Hs. destruct (source_ok_facts s Hs) as [Fb Fc Fr Fg Fe Fo Fw _ _ _ _ _ _ _].
  intros b1 b2 fs q H1 H2 Hc. destruct (Fb b1 H1) as [K1 _]. destruct (Fb b2 H2) as [K2 _].
  destruct (lookup_agree_all b1 b2 fs q K1 K2 Hc) as [A1 [A2 [A3 [A4 [A5 A6]]]]].
  split; [exact A5|]. split; [exact A1|]. split; [exact A2|]. split; [exact A3|].
  split; [rewrite A6, A5; destruct (spec_lookup fs (normpath (slash q))); reflexivity|].
  split.
  - intros c limit in_dir before after Hin. split.
    + apply (open_bytes_same c limit in_dir b1 b2 fs q (Fc c Hin) K1 K2 Hc).
    + intros data. apply open_through_reader_all_placements; [exact Fr|exact (Fc c Hin)].
  - intros e Hnd He Hq.
    destruct (raw_agrees_with_folded b1 (s_raw_get s) fs e q K1 Fg Hc Hnd He Hq) as [R1 [R2 _]].
    destruct (raw_agrees_with_folded b1 (s_raw_exists s) fs e q K1 Fe Hc Hnd He Hq) as [R3 _].
    destruct (raw_agrees_with_folded b1 (s_raw_open s) fs e q K1 Fo Hc Hnd He Hq) as [R4 _].
    repeat split; assumption.
Qed.

Theorem walks_exact_holds s : source_ok s = true -> walks_exact s.
Proof.
  intros Hs. destruct (source_ok_facts s Hs) as [Fb _ _ Fg _ _ Fw Frel _ _ _ _ _ _].
  intros b fs folder Hb Hc. destruct (Fb b Hb) as [K [W _]]. destruct (keys_norm_inv b K) as [Hst Hget].
  split; [|split; [|split; [|split]]].
  - intros e. rewrite (walk_exact b fs folder e W Hc), (entries_spec b fs e Hst Hc). reflexivity.
  - intros e. rewrite (walk_empty_all b fs W). apply (entries_spec b fs e Hst Hc).
  - intros e. apply (walk_lookup_closed b fs folder e W Hget Hc).
  - apply (walk_nodup b fs folder W Hc).
  - intros e Hnd. destruct (s_raw_rel s); [|discriminate]. rewrite raw_walk_rel_file. split.
    + apply raw_walk_exact.
    + apply (raw_walk_lookup_closed (s_raw_get s) (s_raw_walk s) fs folder e Fg Hc Hnd).
Qed.

Theorem chains_honour_priority_holds s : source_ok s = true -> chains_honour_priority s.
Proof.
  intros Hs. destruct (source_ok_facts s Hs) as [Fb Fc _ _ _ _ Fw Frel Fgu Fac Fem Fdd Frm Fdo].
  split.
  - intros same h q Hms. cbv zeta.
    rewrite (build_chain_priority_order (s_guard s) same (s_prio s) (s_plain s) h Fgu Fac).
    split; [reflexivity|]. apply chain_every_form_spec; [exact Fem|]. apply Forall_priority_order.
    eapply Forall_impl; [|exact Hms]. intros m [Hb [Hc Hst]]. destruct (Fb _ Hb) as [K _].
    split; [exact K|]. split; [exact Hc|]. destruct (k_store m) as [[[c l] d]|]; [apply Fc; exact Hst|exact I].
  - intros ms f f0 Hms. cbv zeta. rewrite Fdd, Frm. cbn [chain_walk_mode]. split.
    + apply (chain_walk_dedup RelDropSegs (s_dedup_ops s) ms f).
    + intros x Hx. apply (chain_walk_lookup_closed_spelt (s_dedup_ops s) ms f f0 x Fdo); [|exact Hx].
      eapply Forall_impl; [|exact Hms].
      intros m [[b [fs [p [p0 [Hb [-> [Hc [Hp0 [Hsp [Hf0 Hsf]]]]]]]]]]|[fs [p [p0 [-> [Hc [Hnd [Hp0 [Hsp [Hf0 [Hsf Hex]]]]]]]]]]].
      * left. destruct (Fb _ Hb) as [K [W N]]. exists b, fs, p, p0. split; [reflexivity|]. split; [exact W|]. split; [exact N|].
        split; [exact K|]. split; [exact Hc|]. split; [exact Hp0|]. split; [exact Hsp|]. split; [exact Hf0|exact Hsf].
      * right. exists (s_raw_rel s), (s_raw_walk s), fs, p, p0. split; [reflexivity|]. split; [exact Frel|]. split; [exact Fw|].
        split; [exact Hc|]. split; [exact Hnd|]. split; [exact Hp0|]. split; [exact Hsp|]. split; [exact Hf0|]. split; [exact Hsf|exact Hex].
Qed.

Theorem property_holds_for_every_ok_source s : source_ok s = true -> property_holds s.
Proof.
  intros Hs. split; [apply backends_agree_holds; exact Hs|]. split; [apply walks_exact_holds; exact Hs|].
  apply chains_honour_priority_holds. exact Hs.
Qed.

(** The hypotheses are satisfiable: the forms of the repaired tree (FsChainWitness). *)
Definition witness_cfg : source_cfg := {|
  s_backends := [SM.FsChainWitness.fixed_virtual; SM.FsChainWitness.fixed_zip];
  s_contents := [CRead]; s_reader := reader_today;
  s_raw_get := [OSlash]; s_raw_exists := [OSlash]; s_raw_open := [OSlash]; s_raw_walk := [OSlash]; s_raw_rel := RawRelFile;
  s_guard := AddAlways; s_prio := InsertAt 0; s_plain := Append; s_exists := ExViaGet;
  s_dedup := DedupSkip; s_rel := RelDropSegs; s_dedup_ops := [OFold] |}.
Example source_ok_satisfiable : source_ok witness_cfg = true.
Proof. vm_compute. reflexivity. Qed.
